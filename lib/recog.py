"""Differential correspondence for the hand-written recognizers (C11, C12, C13, parts of C06/C03).

The theorems in Properties/Cxx.v prove  model(s) = Ok true <-> spec(s)  for every byte string.
This module ties the model to /repo: the rebuilt Go function and the extracted model run on the
same inputs; because model <-> spec is proved, every input on which the exported function and
the model disagree is an input on which /repo violates the specification."""
import os
import subprocess

from vlib import (MODEL_BIN, count_lines, go_build, log, model_build, run, scratch)


def build_probe(res):
    """helperprobe with the hook tag; falls back to exported entry points only."""
    exe, err = go_build("./cmd/helperprobe", "helperprobe", tags="verif")
    if exe:
        return exe, True
    log("hook build failed, falling back to exported functions only:\n" + err[-1500:])
    res.coverage["hook_build_failed"] = err[-1500:]
    exe, err2 = go_build("./cmd/helperprobe", "helperprobe_plain")
    if exe is None:
        res.violation({"kind": "correspondence-break", "what": "cannot build /repo's validationhelper package",
                       "log_tail": err2[-3000:]}, found_input=False)
    return exe, False


def gen_inputs(family, seed, tier, name=None):
    exe, err = go_build("./cmd/strgen", "strgen")
    if exe is None:
        raise RuntimeError("strgen build failed: " + err)
    path = os.path.join(scratch(), (name or family) + ".in")
    with open(path, "w") as f:
        subprocess.run([exe, "-seed", str(seed), "-tier", tier, family], stdout=f, check=True)
    return path


def run_fn(exe, fn, inpath, outpath):
    with open(inpath) as fi, open(outpath, "w") as fo:
        p = subprocess.run([exe, fn], stdin=fi, stdout=fo, stderr=subprocess.PIPE, text=True)
    return p.returncode, p.stderr


def diff_outputs(inpath, apath, bpath, limit=50):
    """Lines where the two outputs differ: list of (input_line, a, b)."""
    if subprocess.run(["cmp", "-s", apath, bpath]).returncode == 0:
        return []
    out = []
    with open(inpath) as fi, open(apath) as fa, open(bpath) as fb:
        for li, la, lb in zip(fi, fa, fb):
            if la != lb:
                out.append((li.strip(), la.strip(), lb.strip()))
                if len(out) >= limit:
                    break
    if not out:
        out.append(("<length mismatch>", str(count_lines(apath)), str(count_lines(bpath))))
    return out


def unhex(h):
    return b"" if h == "-" else bytes.fromhex(h)


def tohex(b):
    return b.hex() if b else "-"


def stats(inpath, outpath):
    """(evaluations, distinct inputs, per-verdict counts)"""
    n = count_lines(inpath)
    p = subprocess.run("sort -u %s | wc -l" % inpath, shell=True, stdout=subprocess.PIPE, text=True)
    distinct = int(p.stdout.strip())
    p = subprocess.run("sort %s | uniq -c" % outpath, shell=True, stdout=subprocess.PIPE, text=True)
    verdicts = {}
    for l in p.stdout.splitlines():
        c, v = l.split()
        verdicts[v] = int(c)
    return n, distinct, verdicts


def differential(res, fn, inpath, probe, what):
    """Run the Go function and the model function on the corpus; returns list of mismatches."""
    ok, err = model_build()
    if not ok:
        res.violation({"kind": "proof-break", "what": "extraction / model build failed", "log_tail": err[-3000:]},
                      found_input=False)
        return None
    g = os.path.join(scratch(), fn + ".go.out")
    m = os.path.join(scratch(), fn + ".model.out")
    rc, err = run_fn(probe, fn, inpath, g)
    if rc != 0:
        return "unavailable"
    rc, err = run_fn(MODEL_BIN, fn, inpath, m)
    if rc != 0:
        raise RuntimeError("model run failed for %s: %s" % (fn, err))
    mism = diff_outputs(inpath, g, m)
    n, distinct, verdicts = stats(inpath, g)
    res.coverage.setdefault("functions", {})[fn] = {
        "what": what, "evaluations": n, "distinct_inputs": distinct, "go_verdicts": verdicts,
        "mismatches": len(mism)}
    return mism


def shrink(probe, fn, hexin, go_v, model_v):
    """Greedy shrink of a mismatching string input, keeping the (go, model) verdict pair."""
    cur = unhex(hexin)

    def verdicts(b):
        inp = (tohex(b) + "\n")
        a = subprocess.run([probe, fn], input=inp, stdout=subprocess.PIPE, text=True).stdout.strip()
        m = subprocess.run([MODEL_BIN, fn], input=inp, stdout=subprocess.PIPE, text=True).stdout.strip()
        return a, m
    budget = 300
    changed = True
    while changed and budget > 0:
        changed = False
        for i in range(len(cur)):
            cand = cur[:i] + cur[i + 1:]
            budget -= 1
            if budget <= 0:
                break
            a, m = verdicts(cand)
            if a != m:
                cur = cand
                changed = True
                break
    a, m = verdicts(cur)
    return tohex(cur), a, m


def write_range(name, n):
    path = os.path.join(scratch(), name)
    with open(path, "w") as f:
        f.write("".join("%d\n" % i for i in range(n)))
    return path


def standard_check(res, prop, propfile, family, top, internals, leaves, rule, extra_families=()):
    """Theorems + differential for one recognizer. internals: [(fn, family)], leaves: [(fn, domain_size)]."""
    from vlib import check_properties_file
    res.coverage["checker_cmd"] = "make -C coq -j16 && coqc -Q theories GV " + propfile
    check_properties_file(res, propfile)
    probe, hooked = build_probe(res)
    if probe is None:
        return
    corp = {family: gen_inputs(family, res.seed, res.tier)}
    mism = differential(res, top, corp[family], probe, "exported entry point")
    if mism is None:
        return
    n, distinct, verdicts = stats(corp[family], os.path.join(scratch(), top + ".go.out"))
    with open(corp[family]) as f:
        head = [next(f).strip() for _ in range(60)]
    res.coverage.update({
        "evaluations": n, "distinct_nontrivial": distinct, "rule": rule,
        "input_distribution": {"accepted": verdicts.get("T", 0), "rejected": verdicts.get("F", 0), "panicked": verdicts.get("P", 0)},
        "samples": [{"hex": h, "bytes": repr(unhex(h))} for h in head[40:46]],
    })
    for hexin, g, m in mism[:5]:
        if hexin != "<length mismatch>":
            sh, g2, m2 = shrink(probe, top, hexin, g, m)
            rep = repr(unhex(sh))
        else:
            sh, g2, m2, rep = hexin, g, m, hexin
        res.violation({
            "kind": "spec-violation", "function": top, "input_hex": sh, "input_repr": rep,
            "implementation": g2, "model_and_spec": m2,
            "explanation": "%s_exact proves model = spec for every byte string; /repo's %s differs from the model "
                           "on this input (T accept, F reject, P panic)" % (prop, top),
            "replay": "bin/check %s --replay <this file>" % prop})
    drift = {}
    if hooked:
        for fn, fam in internals:
            if fam not in corp:
                corp[fam] = gen_inputs(fam, res.seed, res.tier)
            mi = differential(res, fn, corp[fam], probe, "internal helper (hook)")
            if mi and mi != "unavailable":
                drift[fn] = mi[:3]
        for fn, size in leaves:
            leaf = write_range("range%d.in" % size, size)
            mi = differential(res, fn, leaf, probe, "leaf, exhaustive over its %d-element domain" % size)
            if mi and mi != "unavailable":
                drift[fn] = mi[:3]
    if drift:
        res.coverage["internal_drift"] = drift
        if not mism:
            res.coverage["internal_drift_note"] = ("internal helpers differ from their model namesakes but the exported "
                                                   "function equals the model (hence the spec) on the whole corpus: a rewrite, not a violation")


def standard_replay(payload):
    from vlib import go_build
    probe, err = go_build("./cmd/helperprobe", "helperprobe_plain")
    model_build()
    inp = payload["input_hex"] + "\n"
    a = subprocess.run([probe, payload["function"]], input=inp, stdout=subprocess.PIPE, text=True).stdout.strip()
    m = subprocess.run([MODEL_BIN, payload["function"]], input=inp, stdout=subprocess.PIPE, text=True).stdout.strip()
    print("input=%r implementation=%s model/spec=%s" % (unhex(payload["input_hex"]), a, m))
    return 0 if a == m else 1
