"""Differential correspondence for the hand-written recognizers (C11, C12, C13, parts of C06/C03).

The theorems in Properties/Cxx.v prove  model(s) = Ok true <-> spec(s)  for every byte string.
This module ties the model to /repo: the rebuilt Go function and the extracted model run on the
same inputs; because model <-> spec is proved, every input on which the exported function and
the model disagree is an input on which /repo violates the specification."""
import os
import subprocess

from vlib import (MODEL_BIN, count_lines, go_build, log, model_build, run, scratch)


def build_probe(res):
    """helperprobe with the hook tag; falls back to exported entry points only."""
    exe, err = go_build("./cmd/helperprobe", "helperprobe", tags="verif")
    if exe:
        return exe, True
    log("hook build failed, falling back to exported functions only:\n" + err[-1500:])
    res.coverage["hook_build_failed"] = err[-1500:]
    exe, err2 = go_build("./cmd/helperprobe", "helperprobe_plain")
    if exe is None:
        res.violation({"kind": "correspondence-break", "what": "cannot build /repo's validationhelper package",
                       "log_tail": err2[-3000:]}, found_input=False)
    return exe, False


def gen_inputs(family, seed, tier, name=None):
    exe, err = go_build("./cmd/strgen", "strgen")
    if exe is None:
        raise RuntimeError("strgen build failed: " + err)
    path = os.path.join(scratch(), (name or family) + ".in")
    with open(path, "w") as f:
        subprocess.run([exe, "-seed", str(seed), "-tier", tier, family], stdout=f, check=True)
    return path


def run_fn(exe, fn, inpath, outpath):
    with open(inpath) as fi, open(outpath, "w") as fo:
        p = subprocess.run([exe, fn], stdin=fi, stdout=fo, stderr=subprocess.PIPE, text=True)
    return p.returncode, p.stderr


def diff_outputs(inpath, apath, bpath, limit=50):
    """Lines where the two outputs differ: list of (input_line, a, b)."""
    if subprocess.run(["cmp", "-s", apath, bpath]).returncode == 0:
        return []
    out = []
    with open(inpath) as fi, open(apath) as fa, open(bpath) as fb:
        for li, la, lb in zip(fi, fa, fb):
            if la != lb:
                out.append((li.strip(), la.strip(), lb.strip()))
                if len(out) >= limit:
                    break
    if not out:
        out.append(("<length mismatch>", str(count_lines(apath)), str(count_lines(bpath))))
    return out


def unhex(h):
    return b"" if h == "-" else bytes.fromhex(h)


def tohex(b):
    return b.hex() if b else "-"


def stats(inpath, outpath):
    """(evaluations, distinct inputs, per-verdict counts)"""
    n = count_lines(inpath)
    p = subprocess.run("sort -u %s | wc -l" % inpath, shell=True, stdout=subprocess.PIPE, text=True)
    distinct = int(p.stdout.strip())
    p = subprocess.run("sort %s | uniq -c" % outpath, shell=True, stdout=subprocess.PIPE, text=True)
    verdicts = {}
    for l in p.stdout.splitlines():
        c, v = l.split()
        verdicts[v] = int(c)
    return n, distinct, verdicts


def differential(res, fn, inpath, probe, what):
    """Run the Go function and the model function on the corpus; returns list of mismatches."""
    ok, err = model_build()
    if not ok:
        res.violation({"kind": "proof-break", "what": "extraction / model build failed", "log_tail": err[-3000:]},
                      found_input=False)
        return None
    g = os.path.join(scratch(), fn + ".go.out")
    m = os.path.join(scratch(), fn + ".model.out")
    rc, err = run_fn(probe, fn, inpath, g)
    if rc != 0:
        return "unavailable"
    rc, err = run_fn(MODEL_BIN, fn, inpath, m)
    if rc != 0:
        raise RuntimeError("model run failed for %s: %s" % (fn, err))
    mism = diff_outputs(inpath, g, m)
    n, distinct, verdicts = stats(inpath, g)
    res.coverage.setdefault("functions", {})[fn] = {
        "what": what, "evaluations": n, "distinct_inputs": distinct, "go_verdicts": verdicts,
        "mismatches": len(mism)}
    return mism


def shrink(probe, fn, hexin, go_v, model_v):
    """Greedy shrink of a mismatching string input, keeping the (go, model) verdict pair."""
    cur = unhex(hexin)

    def verdicts(b):
        inp = (tohex(b) + "\n")
        a = subprocess.run([probe, fn], input=inp, stdout=subprocess.PIPE, text=True).stdout.strip()
        m = subprocess.run([MODEL_BIN, fn], input=inp, stdout=subprocess.PIPE, text=True).stdout.strip()
        return a, m
    budget = 300
    changed = True
    while changed and budget > 0:
        changed = False
        for i in range(len(cur)):
            cand = cur[:i] + cur[i + 1:]
            budget -= 1
            if budget <= 0:
                break
            a, m = verdicts(cand)
            if a != m:
                cur = cand
                changed = True
                break
    a, m = verdicts(cur)
    return tohex(cur), a, m
