"""Runner shared by the generator-family property checks."""
import json
import os

import genfam
from vlib import check_properties_file, known_findings, log

TRUSTED_GEN = [
    "Coq 8.16.1 kernel (coqc; vm_compute / vm_cast_no_check in the per-run certificates and finite sweeps); no native_compute",
    "Flocq's IEEE-754 formalisation for float comparisons; theorems about float order depend on the stdlib Reals axioms "
    "(listed verbatim under print_assumptions_verbatim)",
    "harness/internal/golite (translator generated Go -> GoLite), harness/internal/decl (scenario -> Go source and -> Coq sdecl; "
    "the two renderings must denote the same declaration), go/constant for literal values (numtab), lib/corpora.py (scenario synthesis)",
    "reflection driver (genharness driver) that builds receiver values and prints observations; net.ParseIP/To4 as oracle ip_class",
    "go/types resolution of field types is taken from the scenario's own type table; imports.Process / format.Source are not modelled",
]


def ip_strings(corpus):
    out = set()
    for sc in corpus["scenarios"]:
        for st in sc["structs"]:
            for cs in st["cases"]:
                for s in cs["sets"]:
                    if s["vk"] == "string":
                        out.add(bytes.fromhex(s.get("str", "")))
    return sorted(out)


def needs_ip(corpus):
    return "govalid:ipv" in json.dumps(corpus)


def struct_source(gr, key):
    sid, sname = key.split("/")
    for sc in gr.corpus["scenarios"]:
        if sc["id"] == sid:
            try:
                d = os.path.join(gr.moddir, sc["pkg"])
                return {f: open(os.path.join(d, f)).read() for f in sorted(os.listdir(d)) if f.endswith(".go") and not f.endswith("_validator.go")}
            except OSError:
                return {}
    return {}


def find_struct(gr, key):
    sid, sname = key.split("/")
    for sc in gr.corpus["scenarios"]:
        if sc["id"] == sid:
            for st in sc["structs"]:
                if st["name"] == sname:
                    return sc, st
    return None, None


def run(res, prop, propfile, corpus, *, entry="VT", use_ctx=False, spec=True, allocs=False,
        require_generated=True, classify=None, extra=None, tag=None, pre_build=None, spec_cmp="obs_same_set", exec_cmp=True):
    """Runs the pipeline and the standard classification. Returns (GenRun, coq results) for extra checks."""
    res.assumptions = TRUSTED_GEN
    res.coverage["trusted_base"] = TRUSTED_GEN
    res.coverage["checker_cmd"] = ("make -C coq -j16 && coqc %s && coqc <scratch>/Run.v <scratch>/Check.v "
                                   "(per-run certificates cert_i : opt_file_eqb p_i (gen_file tab_i d_i) = true)" % propfile)
    if propfile:
        check_properties_file(res, propfile)
    gr = genfam.GenRun(res, corpus, tag or prop.lower())
    if not gr.generate():
        return gr, None
    nstructs = sum(len(sc["structs"]) for sc in corpus["scenarios"])
    ncases = sum(len(st["cases"]) for sc in corpus["scenarios"] for st in sc["structs"])
    res.coverage["programs"] = nstructs
    res.coverage["evaluations"] = ncases
    if gr.gen_status != 0:
        res.coverage["generator_exit"] = gr.gen_status
        res.violation({"kind": "generation-failed", "exit": gr.gen_status, "log_tail": gr.gen_log,
                       "what": "govalid exited non-zero on the corpus of documented declarations",
                       "scenarios": [sc["id"] for sc in corpus["scenarios"]][:50]}, found_input=True)
        return gr, None
    if prop == "C08":
        for rel, a, b in getattr(gr, "regen_diffs", [])[:3]:
            src_dir = os.path.join(gr.moddir, os.path.dirname(rel))
            res.violation({"kind": "spec-violation", "file": rel,
                           "what": "the emitted file is not the generated source: written over a tree that already holds outputs (every second "
                                   "output absent, the others present in a longer stale version), the file differs from the one generated from scratch",
                           "history": ["govalid ./... on the sources below", "remove every second *_validator.go; append a stale tail to the others",
                                       "govalid <packages>", "compare with the files of the first run"],
                           "source": {f: open(os.path.join(src_dir, f)).read()[:3000] for f in sorted(os.listdir(src_dir))
                                      if f.endswith(".go") and not f.endswith("_validator.go")},
                           "from_scratch": (a or b"<missing>").decode(errors="replace")[:3000],
                           "regenerated": (b or b"<missing>").decode(errors="replace")[:3000]})
    meta = gr.translate()
    if pre_build:
        pre_build(gr)
    ok, errs = gr.go_vet_build()
    bad_pkgs = set(errs)
    if not ok and not errs:
        bad_pkgs = {m["pkg"] for m in meta}
    gr.bad_pkgs = bad_pkgs
    obs = gr.drive(allocs=allocs, skip_pkgs=bad_pkgs)
    if obs is None:
        raise RuntimeError("driver failed: " + getattr(gr, "drv_error", ""))
    iptab = genfam.classify_ips(ip_strings(corpus)) if needs_ip(corpus) else {}
    results = gr.coq_check(ip_table=iptab, entry=entry, use_ctx=use_ctx, spec=spec, spec_cmp=spec_cmp)
    if results is None:
        return gr, None
    kf = known_findings(prop)
    certs_ok = 0
    distinct_obs = set()
    samples = []
    for m in meta:
        i = m["index"]
        r = results[i]
        sc, st = find_struct(gr, m["key"])
        src = struct_source(gr, m["key"])
        if r["cert"]:
            certs_ok += 1
        handled = classify(gr, m, r, sc, st) if classify else False
        if handled:
            continue
        if m["pkg"] in bad_pkgs:
            res.violation({"kind": "compile-error", "struct": m["key"], "source": src,
                           "compiler": "\n".join(errs.get(m["pkg"], []))[:2000],
                           "what": "the generated code for this documented declaration does not compile"})
            continue
        if not m["generated"] and r["cert"]:
            continue        # the generator model agrees that this struct has no applicable rule: no file is the right outcome
        if require_generated and not m["generated"]:
            res.violation({"kind": "no-file-generated", "struct": m["key"], "source": src,
                           "what": "govalid wrote no validator for a struct that carries rules"})
            continue
        if r.get("safe"):
            what = []
            if r["safe"] & 1:
                what.append("the emitted code assigns to a package-level sentinel (ASetGlobalValue): hypothesis of C16_no_shared_writes fails")
            if r["safe"] & 2:
                what.append("the nil-receiver guard is missing: hypothesis of C17_no_panic fails")
            if r["safe"] & 4:
                what.append("the function does not end with `if len(errs) > 0 { return errs }; return nil`")
            if r["safe"] & 8:
                what.append("Validate<T>, Validate or ValidateContext do not delegate to Validate<T>Context as documented")
            if r["safe"] & 16:
                what.append("a check copies an error variable that the var block does not declare: conclusion of C08_no_missing_declaration fails on the emitted file")
            if r["safe"] & 32 and not (r["kf"] & 4):
                what.append("two declarations of the var block share a name although the generator model predicts distinct names")
            if not what:
                what = None
        if r.get("safe") and what:
            res.violation({"kind": "correspondence-break", "struct": m["key"], "source": src, "what": "; ".join(what),
                           "theorem": "side condition of the program-independent theorems, evaluated on the translated file p_%d" % i},
                          found_input=bool(r["ms"] or r["mm"]))
        if m["problems"]:
            res.violation({"kind": "correspondence-break", "struct": m["key"], "source": src,
                           "what": "generated file is outside the GoLite fragment (untranslatable nodes)",
                           "nodes": m["problems"][:10], "theorem": "cert_%d" % i}, found_input=bool(r["ms"]))
        for j in r["ms"][:3]:
            o = gr.obs.get("%s/%d" % (m["key"], j), {})
            res.violation({"kind": "spec-violation", "struct": m["key"], "source": src, "case_index": j,
                           "case": st["cases"][j], "observed": o.get(entry),
                           "what": "the compiled validator's report differs from expected(d, v) (the specification) on this value",
                           "replay": "bin/check %s --replay <this file>" % prop})
        if not r["cert"] and not r["ms"]:
            res.violation({"kind": "correspondence-break", "struct": m["key"], "source": src,
                           "theorem": "cert_%d : opt_file_eqb p_%d (gen_file tab_%d d_%d) = true" % (i, i, i, i),
                           "file_diff_component_index": list(r["diff"]),
                           "what": "the file govalid emitted is not the file the generator model predicts; "
                                   "no value of the corpus separates the compiled code from the specification"},
                          found_input=False)
        if exec_cmp and r["mm"] and not r["ms"]:     # exec_cmp=False: conditions outside GoLite (CEL text), the caller brings its own oracle
            j = r["mm"][0]
            o = gr.obs.get("%s/%d" % (m["key"], j), {})
            res.violation({"kind": "correspondence-break", "struct": m["key"], "source": src, "case_index": j,
                           "case": st["cases"][j], "observed": o.get(entry),
                           "theorem": "exec_file p_%d agrees with the compiled code" % i,
                           "what": "GoLite semantics of the translated file disagrees with the compiled Go on this value, "
                                   "but the compiled code agrees with the specification"}, found_input=False)
        for j in range(len(st["cases"])):
            o = gr.obs.get("%s/%d" % (m["key"], j))
            if o:
                distinct_obs.add((m["key"], o.get(entry)))
                if len(samples) < 4 and j == len(st["cases"]) // 2:
                    samples.append({"struct": m["key"], "case": st["cases"][j], "observed": o.get(entry)})
    # one obligation per certificate that the kernel accepted as stated (cert_i : ... = ok_i); a certificate whose
    # ok_i is false is reported above as a correspondence break and is not counted as an obligation of this run
    res.obligations += certs_ok
    res.discharged += certs_ok
    res.coverage["certificates"] = {"structs": nstructs, "certified_equal_to_model": certs_ok,
                                    "declarations_in_guard_with_documented_parameters": sum(1 for m in meta if results[m["index"]]["kf"] == 0 and results[m["index"]]["hyp"] & 4)}
    res.coverage["distinct_nontrivial"] = len(distinct_obs)
    res.coverage["rule"] = ("one program per synthesized struct, one evaluation per (struct, receiver value); "
                            "distinct_nontrivial = distinct (struct, observed result) pairs")
    res.coverage["samples"] = samples or [{"note": "no cases"}]
    if extra:
        extra(gr, results)
    return gr, results


def replay(payload):
    print(json.dumps({k: payload.get(k) for k in ("kind", "struct", "case", "observed", "what")}, indent=1))
    print("re-run: bin/check <prop> regenerates the scenario from the same seed and re-evaluates this case")
    return 1
