"""Pipeline shared by the generator-family properties (C01-C09, C15-C17, C19):

  scenarios (JSON) -> Go packages -> rebuilt govalid -> generated validators
     -> (a) goliteparse: GoLite terms p_i;  kernel-checked certificates  p_i = gen_file d_i
     -> (b) compiled validators run by a reflection driver on the value cases; observations compared, in Coq,
            with exec_file p_i (model of the emitted code) and with expected d_i (the specification)."""
import json
import os
import re
import subprocess

from vlib import COQ, GOENV, REPO, VERIF, build_govalid, coq_make, go_build, log, run, scratch

GEN_IMPORT = ("From GV Require Import Base.Bytes Base.StrOps Base.GoFloat GoLite.Syntax GoLite.Sem "
              "GoLite.Safety Gen.Decl Gen.Rules Gen.Template Gen.Spec Gen.Guard Gen.Typed Gen.Harness Gen.Names.\n")


def hexbytes_coq(h):
    if h == "-":
        return "[]"
    b = bytes.fromhex(h)
    if all(0x20 <= c <= 0x7e and c != 0x22 for c in b):
        return '(bs "%s")' % b.decode("ascii")
    return "[" + ";".join("x%02x" % c for c in b) + "]"


def bytes_coq(b):
    return hexbytes_coq(b.hex() if b else "-")


def obs_coq(o):
    if o == "nil":
        return "ObNil"
    if o.startswith("E:"):
        return "ObErr " + bytes_coq(o[2:].encode())
    if o.startswith("ctx:"):
        return "ObCtx %s%%nat" % o[4:]
    if o.startswith("R:"):
        items = []
        for part in o[2:].split(";"):
            p, t, ok = part.split(",")
            items.append("(%s, %s, %s)" % (hexbytes_coq(p), hexbytes_coq(t), "true" if ok == "ok" else "false"))
        return "ObReport [" + "; ".join(items) + "]"
    if o.startswith("panic:"):
        return "ObPanic"
    return "ObOther"


class GenRun:
    """One corpus pushed through the pipeline."""

    def __init__(self, res, corpus, tag):
        self.res = res
        self.corpus = corpus
        self.tag = tag
        self.dir = os.path.join(scratch(), "gen-" + tag)
        os.makedirs(self.dir, exist_ok=True)
        self.moddir = os.path.join(self.dir, "scn")
        self.scen_path = os.path.join(self.dir, "scen.json")
        json.dump(corpus, open(self.scen_path, "w"))
        self.meta = None
        self.gen_status = None
        self.obs = {}
        self.coq_out = ""

    # ---- generation
    def generate(self, patterns=("./...",), env_extra=None):
        gh, err = go_build("./cmd/genharness", "genharness")
        if gh is None:
            raise RuntimeError("genharness build failed: " + err)
        self.gh = gh
        run([gh, "materialize", "-in", self.scen_path, "-dir", self.moddir, "-repo", REPO], check=True)
        gv, err = build_govalid()
        if gv is None:
            self.res.violation({"kind": "correspondence-break", "what": "cmd/govalid does not build from /repo",
                                "log_tail": err[-3000:]}, found_input=False)
            return False
        self.govalid = gv
        env = dict(GOENV)
        if env_extra:
            env.update(env_extra)
        if tuple(patterns) == ("./...",):
            self._earlier_revision(gv, env)
        p = run([gv] + list(patterns), cwd=self.moddir, env=env, timeout=1800)
        self.gen_status = p.returncode
        self.gen_log = (p.stdout or "")[-4000:] + (p.stderr or "")[-4000:]
        # once more over the tree that now holds generated files (go generate is re-run while a package evolves): every second
        # output is removed and the others are extended by a stale tail, so that files are produced next to existing validators
        # of their neighbours, or written over a longer stale version of themselves (all of them were already written over the
        # output of an earlier revision, see _earlier_revision).  What is translated, compiled and driven below is the output of these regenerations.  Packages whose
        # first output does not compile (the open findings D8/D9) cannot be analysed again and are left as they are.
        if self.gen_status == 0 and tuple(patterns) == ("./...",):
            ok, errs = self.go_vet_build()
            pkgs = sorted({sc["pkg"] for sc in self.corpus["scenarios"] if os.path.isdir(os.path.join(self.moddir, sc["pkg"]))} - set(errs))
            self.regen_diffs = []
            if pkgs and (ok or errs):
                def snap():
                    return {os.path.join(pk, f): open(os.path.join(self.moddir, pk, f), "rb").read()
                            for pk in pkgs for f in os.listdir(os.path.join(self.moddir, pk)) if f.endswith("_validator.go")}
                first = snap()
                for phase in (1,):
                    outs = sorted(os.path.join(self.moddir, pk, f) for pk in pkgs for f in os.listdir(os.path.join(self.moddir, pk)) if f.endswith("_validator.go"))
                    for k, f in enumerate(outs):
                        if k % 2 == phase:
                            os.remove(f)
                        else:
                            # the others are overwritten in place: a longer stale version (as left by an earlier, longer source)
                            with open(f, "a") as fh:
                                fh.write("\n// stale tail of an earlier, longer output\nvar _ = \"stale\"\n" * 3)
                    p = run([gv] + ["./" + pk for pk in pkgs], cwd=self.moddir, env=env, timeout=1800)
                    if p.returncode != 0:
                        self.gen_status = p.returncode
                        self.gen_log = "re-run over the partly generated tree: " + (p.stdout or "")[-4000:] + (p.stderr or "")[-4000:]
                        break
                if self.gen_status == 0:
                    now = snap()
                    self.regen_diffs = [(k, first.get(k), now.get(k)) for k in sorted(set(first) | set(now)) if first.get(k) != now.get(k)]
        return True

    PERTURB = re.compile(rb"^(\s*//\s*\+?govalid:(?:gt|gte|lt|lte|minlength|maxlength|length|minitems|maxitems)=)([1-9][0-9]{0,3}|0)(\s*)$", re.M)

    def _earlier_revision(self, gv, env):
        """The tree first holds the output of an EARLIER revision of the sources (every small decimal parameter one higher);
        then the revision under test is put back with an old modification time (as a checkout, a backup restore or `cp -p`
        leaves it).  The generator must produce the files of the sources it is given, whatever is on disk and however old
        the sources look.  Outputs of the earlier revision that do not compile are removed (such a package cannot be analysed)."""
        saved = {}
        for sc in self.corpus["scenarios"]:
            d = os.path.join(self.moddir, sc["pkg"])
            if not os.path.isdir(d):
                continue
            for f in os.listdir(d):
                if f.endswith(".go") and not f.endswith("_validator.go"):
                    path = os.path.join(d, f)
                    b = open(path, "rb").read()
                    nb = self.PERTURB.sub(lambda m: m.group(1) + str(int(m.group(2)) + 1).encode() + m.group(3), b)
                    if nb != b:
                        saved[path] = b
                        open(path, "wb").write(nb)
        self.earlier_revision_files = len(saved)
        if not saved:
            return
        run([gv, "./..."], cwd=self.moddir, env=env, timeout=1800)
        ok, errs = self.go_vet_build()
        for pk in (errs if errs else ([] if ok else [sc["pkg"] for sc in self.corpus["scenarios"]])):
            d = os.path.join(self.moddir, pk)
            if os.path.isdir(d):
                for f in os.listdir(d):
                    if f.endswith("_validator.go"):
                        os.remove(os.path.join(d, f))
        old = 978307200     # 2001-01-01
        for path, b in saved.items():
            open(path, "wb").write(b)
            os.utime(path, (old, old))

    def translate(self):
        self.run_v = os.path.join(self.dir, "Run.v")
        self.meta_path = os.path.join(self.dir, "meta.json")
        run([self.gh, "translate", "-in", self.scen_path, "-dir", self.moddir, "-coq", self.run_v,
             "-meta", self.meta_path], check=True)
        self.meta = json.load(open(self.meta_path))
        return self.meta

    # ---- compile + run the generated code
    def go_vet_build(self):
        """go build ./... over all scenario packages; returns (ok, per-package error text)."""
        p = run(["go", "build", "./..."], cwd=self.moddir, env=GOENV, timeout=1800)
        errs = {}
        if p.returncode != 0:
            cur = None
            for line in (p.stderr or "").splitlines():
                m = re.match(r"^# scn/(\S+)", line)
                if m:
                    cur = m.group(1)
                    errs[cur] = []
                elif cur:
                    errs[cur].append(line)
        return p.returncode == 0, errs

    def drive(self, allocs=False, skip_pkgs=()):
        """Build and run the reflection driver; returns dict key -> fields."""
        metas = [m for m in self.meta if m["generated"] and m["pkg"] not in skip_pkgs and not ("a" <= m["type"][:1] <= "z" or m["type"][:1] == "_")]
        mp = os.path.join(self.dir, "meta_drv.json")
        json.dump(metas, open(mp, "w"))
        run([self.gh, "driver", "-in", self.scen_path, "-dir", self.moddir, "-meta", mp], check=True)
        exe = os.path.join(self.dir, "drv.exe")
        p = run(["go", "build", "-o", exe, "./drv"], cwd=self.moddir, env=GOENV, timeout=1800)
        if p.returncode != 0:
            self.drv_error = (p.stderr or "")[-3000:]
            return None
        args = [exe, self.scen_path] + (["allocs"] if allocs else [])
        p = run(args, cwd=self.moddir, timeout=1800)
        if p.returncode != 0:
            self.drv_error = (p.stderr or "")[-3000:]
            return None
        out = {}
        for line in p.stdout.splitlines():
            parts = line.split("\t")
            d = {}
            for kv in parts[1:]:
                k, _, v = kv.partition("=")
                d[k] = v
            out[parts[0]] = d
        self.obs = out
        return out

    def race(self, goroutines, iters):
        """Build the driver with the race detector and run the concurrent mode. Returns (exit, stdout, stderr)."""
        exe = os.path.join(self.dir, "drv_race.exe")
        p = run(["go", "build", "-race", "-o", exe, "./drv"], cwd=self.moddir, env=GOENV, timeout=3000)
        if p.returncode != 0:
            raise RuntimeError("race build failed: " + (p.stderr or "")[-2000:])
        env = dict(os.environ)
        env["GORACE"] = "halt_on_error=0 exitcode=66"
        p = run([exe, self.scen_path, "race", str(goroutines), str(iters)], cwd=self.moddir, env=env, timeout=3000)
        return p.returncode, p.stdout or "", p.stderr or ""

    # ---- Coq side
    def coq_check(self, ip_table=None, entry="VT", use_ctx=False, spec=True, spec_cmp="obs_same_set"):
        """Writes Check.v next to Run.v and compiles both. Returns parsed results per struct index."""
        ok, out = coq_make()
        if not ok:
            self.res.violation({"kind": "proof-break", "what": "the Coq development no longer builds",
                                "log_tail": out[-3000:]}, found_input=False)
            return None
        lines = ["From GVRun Require Import Run.", GEN_IMPORT]
        iptab = ip_table or {}
        items = ["(%s, %s)" % (bytes_coq(k), {"4": "IsV4", "6": "IsV6", "0": "NotIP"}[v]) for k, v in sorted(iptab.items())]
        lines.append("Definition ip_tab : list (bytes * ipclass) := [%s]." % "; ".join(items))
        lines.append("Definition ipc (s : bytes) : ipclass := match assoc ip_tab s with Some c => c | None => NotIP end.")
        lines.append("Definition mism (f : nat -> bool) (n : nat) : list nat := filter (fun j => negb (f j)) (seq 0 n).")
        sc_by_key = {}
        for sc in self.corpus["scenarios"]:
            for st in sc["structs"]:
                sc_by_key[sc["id"] + "/" + st["name"]] = st
        for m in self.meta:
            i = m["index"]
            st = sc_by_key[m["key"]]
            lines.append("Definition g_%d : option file := gen_file tab_%d d_%d." % (i, i, i))
            lines.append("Definition ok_%d : bool := Eval vm_compute in opt_file_eqb p_%d g_%d." % (i, i, i))
            lines.append("Theorem cert_%d : opt_file_eqb p_%d g_%d = ok_%d. Proof. vm_cast_no_check (eq_refl ok_%d). Qed." % (i, i, i, i, i))
            lines.append("Definition real_%d := validator_sound ipc tab_%d d_%d p_%d." % (i, i, i, i))
            lines.append("Definition diff_%d := Eval vm_compute in file_diff p_%d g_%d." % (i, i, i))
            ncases = len(st["cases"])
            have_obs = m["generated"] and all(("%s/%d" % (m["key"], j)) in self.obs for j in range(ncases)) and ncases > 0
            if have_obs:
                obs_terms = []
                ctx_terms = []
                for j, cs in enumerate(st["cases"]):
                    o = self.obs["%s/%d" % (m["key"], j)]
                    obs_terms.append(obs_coq(o[entry]))
                    if use_ctx and cs.get("ctxflip", -1) >= 0:
                        ctx_terms.append("(Some %d%%nat, %s)" % (cs["ctxflip"], "DeadlineExceeded" if cs.get("ctxerr") == "deadline" else "Canceled"))
                    else:
                        ctx_terms.append("(None, Canceled)")
                lines.append("Definition obs_%d : list obs := [%s]." % (i, "; ".join(obs_terms)))
                lines.append("Definition ctx_%d : list (option nat * ctxerr) := [%s]." % (i, "; ".join(ctx_terms)))
                lines.append(
                    "Definition mm_%d := Eval vm_compute in match p_%d with Some f => mism (fun j => "
                    "match nth_error v_%d j, nth_error obs_%d j, nth_error ctx_%d j with "
                    "| Some r, Some o, Some (fl, e) => obs_eqb (obs_of r (exec_file ipc (flip_ctx fl e) f r)) o "
                    "| _, _, _ => false end) %d%%nat | None => [] end." % (i, i, i, i, i, ncases))
                if spec:
                    lines.append(
                        ("Definition ms_%d := Eval vm_compute in mism (fun j => "
                         "match nth_error v_%d j, nth_error obs_%d j with "
                         "| Some (Some r), Some o => " + spec_cmp + " (obs_of_spec d_%d (expected ipc tab_%d d_%d r)) o "
                         "| Some None, Some o => obs_eqb o (ObErr (bs \"ErrNil\" ++ sd_name d_%d)) "
                         "| _, _ => false end) %d%%nat.") % (i, i, i, i, i, i, i, ncases))
                else:
                    lines.append("Definition ms_%d : list nat := []." % i)
                lines.append("Definition calls_%d := Eval vm_compute in match p_%d with Some f => map (fun j => "
                             "match nth_error v_%d j, nth_error ctx_%d j with Some r, Some (fl, e) => "
                             "s_calls (o_st (exec_file ipc (flip_ctx fl e) f r)) | _, _ => 0%%nat end) (seq 0 %d%%nat) | None => [] end."
                             % (i, i, i, i, ncases))
                lines.append("Definition gcalls_%d := Eval vm_compute in match g_%d with Some f => map (fun j => "
                             "match nth_error v_%d j with Some r => s_calls (o_st (exec_file ipc background f r)) | _ => 0%%nat end) (seq 0 %d%%nat) | None => [] end."
                             % (i, i, i, ncases))
                lines.append("Definition allocs_%d := Eval vm_compute in match p_%d with Some f => map (fun j => "
                             "match nth_error v_%d j with Some r => s_allocs (o_st (exec_file ipc background f r)) + "
                             "length (s_gw (o_st (exec_file ipc background f r))) | _ => 0%%nat end) (seq 0 %d%%nat) | None => [] end."
                             % (i, i, i, ncases))
            else:
                lines.append("Definition mm_%d : list nat := []." % i)
                lines.append("Definition ms_%d : list nat := []." % i)
                lines.append("Definition calls_%d : list nat := []." % i)
                lines.append("Definition allocs_%d : list nat := []." % i)
                lines.append("Definition gcalls_%d : list nat := []." % i)
            lines.append("Definition kf_%d := Eval vm_compute in kf_mask tab_%d d_%d." % (i, i, i))
            # safety side conditions of the program-independent theorems (C16_no_shared_writes, C17_no_panic), on the REAL output
            lines.append("Definition safe_%d := Eval vm_compute in match p_%d with Some f => (if file_writes_global f then 1 else 0) + "
                         "(match f_nilguard f with Some _ => 0 | None => 2 end) + (if f_tail_ok f then 0 else 4) + (if f_wrappers_ok f then 0 else 8) + "
                         "(if uses_declared_b f then 0 else 16) + (if nodup_b (declared_names f) then 0 else 32) | None => 0 end." % (i, i))
            # hypotheses of C08_no_duplicate_declaration_flat on the declaration: 1 = flat, 2 = no Min/Max clash
            lines.append("Definition hyp_%d := Eval vm_compute in (if flat d_%d then 1 else 0) + (if no_clash (field_names d_%d) then 2 else 0) + (if params_ok tab_%d d_%d then 4 else 0)." % (i, i, i, i, i))
            lines.append("Definition res_%d := (%d%%nat, ok_%d, diff_%d, mm_%d, ms_%d, calls_%d, allocs_%d, kf_%d, gcalls_%d, safe_%d, hyp_%d)." % (i, i, i, i, i, i, i, i, i, i, i, i))
        n = len(self.meta)
        lines.append("Definition all_results := [%s]." % "; ".join("res_%d" % m["index"] for m in self.meta))
        lines.append("Set Printing Width 1000000. Set Printing Depth 1000000.")
        lines.append("Eval vm_compute in all_results.")
        check_v = os.path.join(self.dir, "Check.v")
        open(check_v, "w").write("\n".join(lines) + "\n")
        base = ["coqc", "-Q", os.path.join(COQ, "theories"), "GV", "-Q", self.dir, "GVRun", "-w", "-notation-overridden"]
        p = run(base + [self.run_v], cwd=self.dir, timeout=3000)
        if p.returncode != 0:
            raise RuntimeError("Run.v does not compile: " + (p.stderr or "")[-2000:])
        p = run(base + [check_v], cwd=self.dir, timeout=3000)
        self.coq_out = (p.stdout or "") + (p.stderr or "")
        if p.returncode != 0:
            raise RuntimeError("Check.v does not compile: " + self.coq_out[-3000:])
        return parse_results(p.stdout, n)


def parse_nat_list(s):
    s = s.strip()
    if s in ("[]", "nil"):
        return []
    return [int(x) for x in re.findall(r"\d+", s)]


def parse_results(out, n):
    """Parses the printed all_results list: one tuple per struct."""
    txt = out[out.index("= ["):] if "= [" in out else out
    txt = txt.replace("\n", " ")
    # tuples look like (0, true, (0, 0), [], [], [..], [..])
    res = {}
    pat = re.compile(r"\((\d+), (true|false), \((\d+), (\d+)\), (\[[^\]]*\]), (\[[^\]]*\]), (\[[^\]]*\]), (\[[^\]]*\]), (\d+), (\[[^\]]*\]), (\d+), (\d+)\)")
    for m in pat.finditer(txt):
        res[int(m.group(1))] = {
            "cert": m.group(2) == "true", "diff": (int(m.group(3)), int(m.group(4))),
            "mm": parse_nat_list(m.group(5)), "ms": parse_nat_list(m.group(6)),
            "calls": parse_nat_list(m.group(7)), "allocs": parse_nat_list(m.group(8)), "kf": int(m.group(9)), "gcalls": parse_nat_list(m.group(10)), "safe": int(m.group(11)), "hyp": int(m.group(12))}
    if len(res) != n:
        raise RuntimeError("could not parse Coq results (%d of %d): %s" % (len(res), n, out[-1500:]))
    return res


def classify_ips(strings):
    """net.ParseIP / To4 classification of the corpus strings, by the Go standard library itself."""
    exe, err = go_build("./cmd/ipclass", "ipclass")
    if exe is None:
        raise RuntimeError("ipclass build failed: " + err)
    inp = "".join((s.hex() if s else "-") + "\n" for s in strings)
    p = subprocess.run([exe], input=inp, stdout=subprocess.PIPE, text=True, check=True)
    return dict(zip(strings, p.stdout.split()))
