"""Scenario synthesis for the generator-family properties: type table, value lattices, struct builders.
Every random choice comes from the random.Random instance passed in (seeded from VERIF_SEED)."""
import struct as _struct

INT_KINDS = {
    # go name: (model ikind, bits, signed)
    "int8": ("I8", 8, True), "int16": ("I16", 16, True), "int32": ("I32", 32, True), "int64": ("I64", 64, True),
    "int": ("IInt", 64, True),
    "uint8": ("U8", 8, False), "uint16": ("U16", 16, False), "uint32": ("U32", 32, False), "uint64": ("U64", 64, False),
    "uint": ("UInt", 64, False), "uintptr": ("UIntptr", 64, False),
    "byte": ("U8", 8, False), "rune": ("I32", 32, True),
}


def T(go, model, vk, **kw):
    d = {"go": go, "model": model, "vk": vk}
    d.update(kw)
    return d


def basic(name):
    if name in INT_KINDS:
        k, bits, signed = INT_KINDS[name]
        return T(name, "TBasic (BInt %s)" % k, "int", bits=bits, signed=signed)
    return {
        "float32": T("float32", "TBasic BF32", "float32"),
        "float64": T("float64", "TBasic BF64", "float64"),
        "complex64": T("complex64", "TBasic BC64", "complex"),
        "complex128": T("complex128", "TBasic BC128", "complex"),
        "bool": T("bool", "TBasic BBool", "bool"),
        "string": T("string", "TBasic BString", "string"),
    }[name]


def named(name, under):
    """A defined type `type <name> <under.go>`; returns (aux line, typeref)."""
    t = dict(under)
    t["go"] = name
    t["model"] = "TNamed (%s)" % under["model"]
    return "type %s %s" % (name, under["go"]), t


def alias(name, under):
    t = dict(under)
    t["go"] = name
    t["model"] = "TNamed (%s)" % under["model"]
    return "type %s = %s" % (name, under["go"]), t


POINTER = T("*int", "TPointer", "nilable")
IFACE = T("interface{}", "TInterface", "nilable")
ANY = T("any", "TInterface", "nilable")
ERROR = T("error", "TInterface", "nilable")
FUNC = T("func(string) string", "TSignature", "nilable")
SLICE = T("[]string", "TSlice", "coll")
SLICE_INT = T("[]int", "TSlice", "coll")
MAP = T("map[string]int", "TMap", "coll")
MAP_INT = T("map[int]string", "TMap", "coll")
CHAN = T("chan int", "TChan", "coll")


def array(n, elem="int"):
    return T("[%d]%s" % (n, elem), "TArray %d" % n, "arr", arrlen=n)


OTHER_STRUCT_AUX = "type Other struct{ Z int }"
OTHER_STRUCT = T("Other", "TNamed TStructT", "opaque")

NUMERIC_TYPES = ["int8", "int16", "int32", "int64", "int", "uint8", "uint16", "uint32", "uint64", "uint",
                 "float32", "float64"]


# ----------------------------------------------------------------------------- values

def f32bits(x):
    return _struct.unpack("<I", _struct.pack("<f", x))[0]


def f64bits(x):
    return _struct.unpack("<Q", _struct.pack("<d", x))[0]


def f32of(bits):
    return _struct.unpack("<f", _struct.pack("<I", bits))[0]


def f64of(bits):
    return _struct.unpack("<d", _struct.pack("<Q", bits))[0]


def int_range(t):
    bits, signed = t["bits"], t["signed"]
    return (-(1 << (bits - 1)), (1 << (bits - 1)) - 1) if signed else (0, (1 << bits) - 1)


def set_int(path, z):
    return {"path": path, "vk": "int", "int": str(z)}


def set_f32(path, bits):
    return {"path": path, "vk": "float32", "bits": str(bits)}


def set_f64(path, bits):
    return {"path": path, "vk": "float64", "bits": str(bits)}


def set_str(path, b):
    if isinstance(b, str):
        b = b.encode("utf-8")
    return {"path": path, "vk": "string", "str": b.hex()}


def set_bool(path, b):
    return {"path": path, "vk": "bool", "bool": bool(b)}


def set_nilable(path, isnil):
    return {"path": path, "vk": "nilable", "isnil": bool(isnil)}


def set_coll(path, isnil, n):
    return {"path": path, "vk": "coll", "isnil": bool(isnil), "len": 0 if isnil else n}


def set_complex(path, zero):
    return {"path": path, "vk": "complex", "czero": bool(zero)}


def case(sets, nil=False, flip=-1, err="canceled"):
    return {"nil": nil, "sets": sets, "ctxflip": flip, "ctxerr": err}


F32_SPECIAL = [0x00000000, 0x80000000, 0x7f800000, 0xff800000, 0x7fc00000, 0xffc00001, 0x7f7fffff, 0xff7fffff,
               0x00000001, 0x80000001, 0x00800000, 0x3f800000, 0xbf800000]
F64_SPECIAL = [0x0, 0x8000000000000000, 0x7ff0000000000000, 0xfff0000000000000, 0x7ff8000000000000,
               0xfff8000000000001, 0x7fefffffffffffff, 0xffefffffffffffff, 0x1, 0x8000000000000001,
               0x0010000000000000, 0x3ff0000000000000, 0xbff0000000000000]


def next_f32(bits, up):
    x = f32of(bits)
    if x != x or x in (float("inf"), float("-inf")):
        return bits
    if x == 0.0:
        return 0x00000001 if up else 0x80000001
    if (x > 0) == up:
        return bits + 1
    return bits - 1


def next_f64(bits, up):
    x = f64of(bits)
    if x != x or x in (float("inf"), float("-inf")):
        return bits
    if x == 0.0:
        return 0x1 if up else 0x8000000000000001
    if (x > 0) == up:
        return bits + 1
    return bits - 1


def int_lattice(t, bounds):
    lo, hi = int_range(t)
    vals = {lo, lo + 1, hi, hi - 1, 0, 1}
    if lo < 0:
        vals.add(-1)
    for b in bounds:
        for d in (-1, 0, 1):
            vals.add(b + d)
    return sorted(v for v in vals if lo <= v <= hi)


def float_lattice(vk, bounds):
    """bounds are python floats (already rounded to the type); returns bit patterns"""
    out = []
    if vk == "float32":
        out += F32_SPECIAL
        for b in bounds:
            bb = f32bits(b)
            out += [bb, next_f32(bb, True), next_f32(bb, False)]
        return sorted(set(out))
    out += F64_SPECIAL
    for b in bounds:
        bb = f64bits(b)
        out += [bb, next_f64(bb, True), next_f64(bb, False)]
    return sorted(set(out))


# ----------------------------------------------------------------------------- structs

def fld(names, doc, typ=None, nested=None):
    if isinstance(names, str):
        names = [names]
    d = {"names": names, "doc": doc}
    if typ is not None:
        d["type"] = {k: typ[k] for k in ("go", "model", "vk") if k in typ}
        if "arrlen" in typ:
            d["type"]["arrlen"] = typ["arrlen"]
    else:
        d["nested"] = nested
    return d


def struct(name, fields, cases, gendoc=None, specdoc=None, file=""):
    return {"name": name, "gendoc": gendoc or [], "specdoc": specdoc or [], "fields": fields, "cases": cases, "file": file}


def scenario(sid, structs, aux=None, imports=None, grouped=False, groupaux=None, groupdoc=None):
    aux = list(aux or [])
    try:
        import corpora
        aux += corpora.AUX_SINK       # type declarations of the random structs built since the previous scenario
        del corpora.AUX_SINK[:]
    except ImportError:
        pass
    return {"id": sid, "pkg": sid, "aux": aux or [], "imports": imports or [], "structs": structs,
            "grouped": grouped, "groupaux": groupaux or [], "groupdoc": groupdoc or []}
