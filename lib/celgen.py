"""Typed grammar of CEL expressions for C10, with the value grids of the field under test (V) and
of the companion fields reachable through this.X."""
import struct as _struct

from synth import basic, fld, scenario, struct, set_int, set_str, set_bool, T

COMPANIONS = [
    ("A", "int"), ("B", "int8"), ("U", "uint8"), ("L", "int64"), ("F", "float64"), ("S", "string"), ("Ok", "bool"),
    ("Tags", "[]string"), ("Nums", "[]int"), ("M", "map[string]int"), ("D", "time.Duration"),
]

V_TYPES = ["int", "int8", "int16", "int32", "int64", "uint8", "uint16", "uint32", "uint64", "uint", "float64", "string", "bool",
           "[]string", "[]int", "map[string]int", "time.Duration"]

INT_TYPES = {"int": (64, True), "int8": (8, True), "int16": (16, True), "int32": (32, True), "int64": (64, True),
             "uint8": (8, False), "uint16": (16, False), "uint32": (32, False), "uint64": (64, False), "uint": (64, False)}


def typeref(go):
    if go in INT_TYPES or go in ("float64", "string", "bool"):
        return basic(go)
    if go == "time.Duration":
        return T("time.Duration", "TNamed (TBasic (BInt I64))", "int")
    if go.startswith("[]"):
        return T(go, "TSlice", "coll")
    return T(go, "TMap", "coll")


def f64bits(x):
    return _struct.unpack("<Q", _struct.pack("<d", x))[0]


ESCAPE_VALUES = ["C:\\temp\r", "C:\\temp", "a\"\r", "a\"", "Host: example.org\r\n", "Host: example.org\n", "a\rb", "a\\b\r", "\r\\", "\\",
                 "q\"\r", "q\"", "tab\there\\", "back`tick\\", "\x07\x08\x0c\x0b", "\x01", "\r", "`", "\\\r\n", "\\\n"]


def value_sets(path, go, rng, escapes=False):
    """grid of Set dicts for a field of Go type `go`"""
    if go in INT_TYPES:
        bits, signed = INT_TYPES[go]
        lo, hi = (-(1 << (bits - 1)), (1 << (bits - 1)) - 1) if signed else (0, (1 << bits) - 1)
        vals = {0, 1, 2, 3, 5, 10, 100, 127, 128, 200, 255, 256, lo, hi, hi - 1, lo + 1, -1, -3, 50, 64, 99, 101}
        return [{"path": path, "vk": "int", "int": str(v)} for v in sorted(v for v in vals if lo <= v <= hi)]
    if go == "time.Duration":
        return [{"path": path, "vk": "int", "int": str(v)} for v in (0, 1, 10**9, 90 * 10**9, 3600 * 10**9, -10**9)]
    if go == "float64":
        return [{"path": path, "vk": "float64", "bits": str(f64bits(v))} for v in (0.0, -0.0, 0.5, 1.0, 1.5, 2.5, -2.5, 10.0, 100.0, 1e300, float("inf"), float("nan"))]
    if go == "string":
        return [{"path": path, "vk": "string", "str": s.encode().hex()} for s in ("", "a", "ab", "abc", "prefix_x", "x_suffix", "héllo", "日本語", "a1b2", "ABC", "12", "admin", "x y", "90s", "1m30s",
                                                                                  "[", "a+(", "new", "new york", "\"", "!", "tokyo", "Admin1", "xABCx", "a\nb", "x.go", "É", "a  b", "a b", "a\tb", " a", "a ", "A", "x  y", "a\\b", "a\"b", "a'b") + (tuple(ESCAPE_VALUES) if escapes else ())] + \
               [{"path": path, "vk": "string", "str": "ff"}]
    if go == "bool":
        return [{"path": path, "vk": "bool", "bool": b} for b in (True, False)]
    if go == "[]string":
        out = [{"path": path, "vk": "strs", "isnil": True}]
        for l in ([], ["a"], ["a", "b"], ["", "x"], ["admin", "é", "abc"], ["a", "a"]):
            out.append({"path": path, "vk": "strs", "strelems": [s.encode().hex() for s in l]})
        return out
    if go == "[]int":
        out = [{"path": path, "vk": "ints", "isnil": True}]
        for l in ([], [1], [1, 2, 3], [0, -1], [5, 5], [100, 200, 300]):
            out.append({"path": path, "vk": "ints", "intelems": l})
        return out
    if go == "map[string]int":
        out = [{"path": path, "vk": "map", "isnil": True}]
        for m in ({}, {"k": 1}, {"a": 0, "b": 2}, {"": 5}):
            out.append({"path": path, "vk": "map", "strelems": [k.encode().hex() for k in m], "intelems": list(m.values())})
        return out
    return []


COMPANION_DEFAULT = {
    "A": {"vk": "int", "int": "3"}, "B": {"vk": "int", "int": "100"}, "U": {"vk": "int", "int": "200"}, "L": {"vk": "int", "int": "4000000000"},
    "F": {"vk": "float64", "bits": str(f64bits(2.5))}, "S": {"vk": "string", "str": "héllo".encode().hex()}, "Ok": {"vk": "bool", "bool": True},
    "Tags": {"vk": "strs", "strelems": [b"a".hex(), b"b".hex()]}, "Nums": {"vk": "ints", "intelems": [1, 2, 3]},
    "M": {"vk": "map", "strelems": [b"k".hex()], "intelems": [1]}, "D": {"vk": "int", "int": str(90 * 10**9)},
}
COMPANION_ALT = {
    "A": [{"vk": "int", "int": "0"}, {"vk": "int", "int": "-7"}], "B": [{"vk": "int", "int": "0"}, {"vk": "int", "int": "-128"}],
    "U": [{"vk": "int", "int": "0"}], "L": [{"vk": "int", "int": "0"}], "F": [{"vk": "float64", "bits": str(f64bits(0.0))}],
    "S": [{"vk": "string", "str": ""}, {"vk": "string", "str": b"[".hex()}, {"vk": "string", "str": b"a+(".hex()}, {"vk": "string", "str": b"^a".hex()}], "Ok": [{"vk": "bool", "bool": False}], "Tags": [{"vk": "strs", "strelems": []}],
    "Nums": [{"vk": "ints", "intelems": []}, {"vk": "ints", "intelems": [0, 0]}], "M": [{"vk": "map", "strelems": [], "intelems": []}], "D": [{"vk": "int", "int": "0"}],
}


class Gen:
    def __init__(self, rng, vtype):
        self.rng = rng
        self.vtype = vtype

    # ---- atoms by CEL type
    def int_atom(self):
        c = []
        if self.vtype in INT_TYPES:
            c += ["value"] * 4
        c += ["this.A", "this.A", "this.B", "this.U", "this.L", "1", "2", "3", "10", "100", "0", "200", "5"]
        if self.vtype in INT_TYPES and not INT_TYPES[self.vtype][1]:
            c += ["1u", "2u", "10u", "200u", "250u", "value", "value"]
        if self.vtype == "string":
            c += ["size(value)", "size(value)"]
        if self.vtype in ("[]string", "[]int", "map[string]int"):
            c += ["size(value)", "size(value)", "value.size()"]
        c += ["size(this.S)", "size(this.Tags)", "size(this.Nums)", "size(this.M)"]
        return self.rng.choice(c)

    def dbl_atom(self):
        c = ["this.F", "1.5", "0.5", "2.0", "100.0"]
        if self.vtype == "float64":
            c += ["value"] * 4
        return self.rng.choice(c)

    def str_atom(self):
        c = ["this.S", "'a'", "'abc'", "'prefix_'", "''", '"x y"', "'é'", "'a  b'", "' a'", "'a '", "'A'", '"a\'b"', "'x  y'"]
        if self.vtype == "string":
            c += ["value"] * 5
        return self.rng.choice(c)

    def num(self, d):
        r = self.rng
        if d <= 0 or r.random() < 0.45:
            return self.int_atom()
        k = r.random()
        a, b = self.num(d - 1), self.num(d - 1)
        if k < 0.6:
            return "%s %s %s" % (a, r.choice(["+", "-", "*", "/", "%"]), b)
        if k < 0.8:
            return "(%s %s %s)" % (a, r.choice(["+", "-", "*", "/", "%"]), b)
        if k < 0.88:
            return "-%s" % self.int_atom()
        if k < 0.94:
            return "int(%s)" % r.choice(["'12'", "this.S", "'x'"])
        return "(%s ? %s : %s)" % (self.boolean(d - 1), a, b)

    def dbl(self, d):
        r = self.rng
        if d <= 0 or r.random() < 0.5:
            return self.dbl_atom()
        a, b = self.dbl(d - 1), self.dbl(d - 1)
        k = r.random()
        if k < 0.7:
            return "%s %s %s" % (a, r.choice(["+", "-", "*", "/"]), b)
        if k < 0.85:
            return "(%s %s %s)" % (a, r.choice(["+", "-"]), b)
        return "double(%s)" % self.int_atom()

    def strx(self, d):
        r = self.rng
        if d <= 0 or r.random() < 0.6:
            return self.str_atom()
        k = r.random()
        if k < 0.6:
            return "%s + %s" % (self.strx(d - 1), self.strx(d - 1))
        return "string(%s)" % self.int_atom()

    def boolean(self, d):
        r = self.rng
        k = r.random()
        if d <= 0 or k < 0.35:
            return self.bool_atom(d)
        a, b = self.boolean(d - 1), self.boolean(d - 1)
        if k < 0.55:
            return "%s && %s" % (a, b)
        if k < 0.7:
            return "%s || %s" % (a, b)
        if k < 0.8:
            return "!(%s)" % a
        if k < 0.9:
            return "(%s) %s (%s)" % (a, r.choice(["&&", "||"]), b)
        if k < 0.95:
            return "(%s ? %s : %s)" % (a, b, self.boolean(d - 1))
        return "!%s" % self.bool_atom(0)

    def bool_atom(self, d):
        r = self.rng
        op = r.choice(["==", "!=", "<", "<=", ">", ">="])
        choices = ["icmp", "icmp", "scmp", "sfun", "in", "size"]
        if self.vtype == "float64":
            choices += ["dcmp"] * 3
        if self.vtype == "bool":
            choices += ["bval"] * 3
        if self.vtype in ("[]string", "[]int", "map[string]int"):
            choices += ["compr"] * 4 + ["in"] * 2
        if self.vtype == "time.Duration":
            choices += ["dur"] * 4
        choices += ["compr", "dcmp", "bval"]
        k = r.choice(choices)
        if k == "icmp":
            return "%s %s %s" % (self.num(d), op, self.num(max(0, d - 1)))
        if k == "dcmp":
            return "%s %s %s" % (self.dbl(d), op, self.dbl(max(0, d - 1)))
        if k == "scmp":
            return "%s %s %s" % (self.strx(d), op, self.strx(0))
        if k == "sfun":
            f = r.choice(["startsWith", "endsWith", "contains", "matches"])
            arg = {"matches": r.choice(["'^[a-z]+$'", "'[0-9]'", "'^a'", "'b$'"])}.get(f, r.choice(["'a'", "'prefix_'", "'_suffix'", "''", "'é'"]))
            if r.random() < 0.5:
                return "%s.%s(%s)" % (self.str_atom(), f, arg)
            return "%s(%s, %s)" % (f, self.str_atom(), arg)
        if k == "in":
            opts = ["%s in ['admin', 'a', 'abc']" % self.str_atom(), "%s in [1, 2, 3, 100]" % self.int_atom(), "'a' in this.Tags",
                    "%s in this.Tags" % self.str_atom(), "2 in this.Nums", "%s in this.Nums" % self.int_atom(), "'k' in this.M"]
            if self.vtype == "[]string":
                opts += ["'a' in value", "this.S in value"] * 2
            if self.vtype == "[]int":
                opts += ["1 in value", "this.A in value"] * 2
            if self.vtype == "map[string]int":
                opts += ["'k' in value", "this.S in value"] * 2
            if self.vtype == "float64":
                opts += ["value in [0.5, 1.5, 2.5]"]
            return r.choice(opts)
        if k == "size":
            tgt = r.choice(["this.S", "this.Tags", "this.Nums", "this.M"] + (["value"] * 3 if self.vtype in ("string", "[]string", "[]int", "map[string]int") else []))
            return "size(%s) %s %s" % (tgt, op, r.choice(["0", "1", "2", "3", "5"]))
        if k == "bval":
            if self.vtype == "bool":
                return r.choice(["value", "value == true", "value != this.Ok", "value && this.Ok", "!value"])
            return r.choice(["this.Ok", "this.Ok == true", "!this.Ok"])
        if k == "dur":
            return "value %s duration(%s)" % (op, r.choice(["'1s'", "'90s'", "'1h'", "'0s'"]))
        # comprehensions
        lst, el = r.choice([("this.Nums", "int"), ("this.Tags", "str")] +
                           ([("value", "int")] * 3 if self.vtype == "[]int" else []) +
                           ([("value", "str")] * 3 if self.vtype == "[]string" else []) +
                           ([("value", "key")] * 3 if self.vtype == "map[string]int" else []) + [("this.M", "key")])
        body = {"int": r.choice(["x > 0", "x %s 2" % op, "x * 2 > 3", "x == this.A", "x != 5"]),
                "str": r.choice(["x != ''", "x.startsWith('a')", "size(x) > 0", "x == this.S", "x < 'b'"]),
                "key": r.choice(["x != ''", "size(x) > 0", "x == 'k'"])}[el]
        m = r.choice(["all", "exists", "exists_one", "filter", "map"])
        if m in ("all", "exists", "exists_one"):
            return "%s.%s(x, %s)" % (lst, m, body)
        if m == "filter":
            return "size(%s.filter(x, %s)) %s %s" % (lst, body, op, r.choice(["0", "1", "2"]))
        tr = {"int": "x * 2", "str": "size(x)", "key": "size(x)"}[el]
        return "size(%s.map(x, %s)) %s %s" % (lst, tr, op, r.choice(["0", "1", "3"]))


FIXED = [
    # (vtype, expression): the suspected defect shapes of DESIGN.md section 6 and safe controls
    ("int", "value > 5"), ("int", "!(value > 5)"), ("int", "-value < 3"), ("int", "value % 2 == 0"), ("int", "value * (this.A + 1) > 10"),
    ("int", "value - (this.A - 1) > 0"), ("int", "(value + 1) * 2 > 10"), ("int", "value / this.A > 1"), ("int", "value / (this.A - 3) > 1"),
    ("int", "value >= 0 && value <= 100"), ("int", "value < 0 || value > 100"), ("int", "value in [1, 2, 3]"), ("int8", "value in [1, 2, 3]"),
    ("int64", "value in [1, 2, 3]"), ("uint8", "value in [1, 2, 3]"), ("int8", "value * 2 > 100"), ("uint8", "value + 100 > 50"),
    ("uint8", "value - 1 < 10"), ("int32", "value * value >= 0"), ("int64", "value + 1 > value"), ("string", "size(value) == 1"),
    ("string", "size(value) > 2 && value.startsWith('a')"), ("string", "value.matches('^[a-z]+$')"), ("string", "value in ['admin', 'user']"),
    ("string", "value + 'x' == 'ax'"), ("string", "value == this.S"), ("string", "!value.startsWith('a')"), ("string", "value != ''"),
    ("string", "int(value) > 10"), ("string", "string(this.A) == value"), ("float64", "value > 0.5"), ("float64", "value * 2.0 > 3.0"),
    ("float64", "value / 0.0 > 1.0"), ("float64", "value == value"), ("float64", "double(this.A) < value"), ("bool", "value"), ("bool", "!value"),
    ("bool", "value == true"), ("bool", "value || this.Ok"), ("[]string", "size(value) > 0"), ("[]string", "value.all(x, x != '')"),
    ("[]string", "value.exists(x, x == 'a')"), ("[]string", "value.exists_one(x, x == 'a')"), ("[]string", "'a' in value"),
    ("[]string", "size(value.filter(x, x != '')) > 1"), ("[]string", "size(value.map(x, size(x))) == 2"), ("[]int", "value.all(x, x > 0)"),
    ("[]int", "value.exists(x, x * 2 > 4)"), ("[]int", "1 in value"), ("[]int", "this.A in value"), ("map[string]int", "size(value) > 0"),
    ("map[string]int", "'k' in value"), ("map[string]int", "value.all(k, k != '')"), ("map[string]int", "value.exists(k, k == 'k')"),
    ("map[string]int", "value.all(k, k != 0)"), ("map[string]int", "size(value.filter(k, k != 1)) == size(value)"),
    ("time.Duration", "value > duration('1s')"), ("time.Duration", "value <= duration('1h')"), ("int", "has(this.A)"), ("int", "this.Ok ? value > 1 : value < 1"),
    ("int", "(this.Ok ? 1 : 0) == 1"), ("int", "value == 1 || value == 2 && this.A == 3"), ("int", "(value > 1) == (this.A > 1)"),
    ("int", "value > 1 == true"), ("int", "value + this.B > 0"), ("int", "value < 300"), ("int8", "value < 300"), ("int", "1 < value && value < 10"),
    ("int", "value * (this.A / 2) <= 6"), ("int", "value * (7 % this.A) > 1"), ("int", "value / (this.A * 2) >= 1"), ("int", "value % (this.A + 1) == 0"),
    ("int", "value - (this.A + 1) > 0"), ("int", "value * (10 / this.A) == 9"), ("int64", "value / (3 / 2) > 1"),
    ("uint64", "value >= 10u"), ("uint8", "value < 200u && value != 7u"), ("uint", "value in [2u, 3u, 250u]"), ("uint16", "value + 1u > 5u"),
    ("uint32", "value == 0u || value > 100u"),
    # shapes of the defects D24-D33 (fixed in /repo) and D34 (open)
    ("float64", "value > 1.0 / 2.0"), ("float64", "3.0 / 2.0 * value > 1.4"), ("float64", "value - 100.0 < 2.0 / 100.0"), ("bool", "has(this.Ok)"),
    ("string", "bool(value)"), ("string", "value.trim() == 'a'"), ("string", "value != '..'"), ("string", "value.matches('[')"), ("string", "value.size() > 0"),
    ("[]string", "value.all(item, item != '' && item in this.Tags)"), ("[]int", "value.exists(item, item in this.Nums)"), ("string", 'value == "admin"'),
    ("string", "value.contains('\\')"), ("string", "string(this.D) == value"), ("int", "uint(value) > 1u"), ("[]string", "value[0] == 'a'"),
    # the text of the expression must reach cel-go unchanged: blanks and tabs inside literals and between tokens, case
    ("string", "value != 'a  b'"), ("string", "!value.contains('  ')"), ("string", "value == 'a\tb'"), ("string", "value.startsWith(' a')"),
    ("string", "value.endsWith('a ')"), ("string", "value   ==   'a'"), ("int", "value>1&&value<10"), ("int", "value\t>\t1"), ("string", "value == 'A'"),
    ("string", "value == 'a' + ' ' + ' ' + 'b'"), ("string", "value.matches('a  b')"), ("string", "value in ['a  b', ' a', 'a ']"), ("string", "value == \"a'b\""),
    ("[]string", "value.exists(x, x == 'a  b')"), ("string", "  value != 'x  y'  "),
    # nested comprehensions; the generic membership loop's variable (`item`) next to user variables of the same name at an outer level
    ("[]string", "value.all(item, item != '' && this.Tags.exists(g, item in this.Tags && g != ''))"),
    ("[]string", "value.all(item, item != 'zz' && this.Tags.exists(g, g == item || item in value))"),
    ("[]string", "value.exists(item, this.Tags.all(_item, _item != item) && item in this.Tags)"),
    ("[]int", "value.all(item, item > 0 && this.Nums.exists(n, n == item && item in this.Nums))"),
    ("[]string", "value.all(a, this.Tags.exists(b, a == b))"), ("[]string", "value.exists(a, this.Tags.all(b, a != b))"),
    ("[]int", "value.all(x, this.Nums.exists(y, y > x)) || size(value) == 0"), ("[]string", "size(value.filter(a, this.Tags.exists(b, b == a))) >= 1"),
    ("[]string", "value.all(x, value.exists(y, x == y))"), ("[]string", "value.exists_one(x, this.Tags.exists(x2, x2 == x))"),
    # found by the thorough tier: a ternary inside arithmetic; a conversion that yields 0 as divisor
    ("string", "(this.A % size(this.Tags)) / (0 in [1, 2, 3, 100] ? size(value) : 200) + -1 >= -size(this.M)"),
    ("int", "this.A / (this.Ok ? 2 : 1) > 0"), ("int", "(this.Ok ? 2 : 1) * value > 3"), ("int", "value - (this.Ok ? 2 : 1) > 3"),
    ("bool", "10 + 1 / int('x') >= size(this.Nums) && (!value) || (size(this.M) < 2 && 100 > size(this.Nums))"),
    # regular expressions with flags and pure-literal patterns (a literal is not a substring test once flags are involved)
    ("string", "value.matches('(?i)^admin')"), ("string", "value.matches('(?i)abc')"), ("string", "value.matches('(?i)b$')"), ("string", "matches(value, '(?i)^a$')"),
    ("string", "value.matches('^admin')"), ("string", "value.matches('abc')"), ("string", "value.matches('^abc$')"), ("string", "value.matches('a.c')"),
    ("string", "value.matches('(?s)a.b')"), ("string", "value.matches('\\\\.go$')"), ("string", "value.matches('^\\\\d+$')"), ("string", "value.matches('(?i)é')"),
    # long literal lists (a rendering may switch strategy with the length): members that are prefixes of each other, blanks,
    # characters that are escaped in Go source, unsorted order, duplicates
    ("string", "value in ['berlin', 'london', 'madrid', 'new', 'new york', 'oslo', 'paris', 'rome', 'tokyo']"),
    ("string", "value in ['!', '\"', '#', '$', '&', '(', ')', '*', '+', 'a']"),
    ("string", "value in ['tokyo', 'rome', 'paris', 'oslo', 'new york', 'new', 'madrid', 'london', 'berlin', 'a', 'a', 'A', '', ' a', 'a ']"),
    ("string", "!(value in ['a\tb', 'a b', 'a  b', 'ab', 'a', 'b', 'abc', 'ABC', 'é', 'x y', 'x  y'])"),
    ("int", "value in [1, 2, 3, 5, 8, 13, 21, 34, 55, 89, 100, 127, 128, 200]"), ("int", "value in [200, 128, 127, 100, 3, 2, 1, 0, -1, -3, 10, 50, 64]"),
    ("uint8", "value in [1u, 2u, 3u, 5u, 10u, 100u, 127u, 128u, 200u, 255u]"), ("float64", "value in [0.5, 1.0, 1.5, 2.5, -2.5, 10.0, 100.0, 0.0, 1e300]"),
    ("[]string", "value.all(x, x in ['a', 'b', 'admin', 'é', 'abc', '', 'x', 'new', 'new york'])"),
    # patterns only known at run time (D35, fixed): guarded regexp.Compile
    ("string", "value.matches(this.S)"), ("string", "matches(this.S, value)"), ("string", "value.matches(this.S + '$')"), ("[]string", "value.all(x, x.matches(this.S))"),
    ("string", "this.S.matches(value)"), ("string", "value.matches('^a' + 'b')"),
    ("int", "value != 0 && 10 / value > 1"), ("int", "value == 0 || 10 % value == 1"), ("string", "value.contains('\"')"), ("string", "value == 'a\\\\b'"),
    # string constants whose Go rendering needs care: escapes of every CEL form, control characters next to backslashes and quotes
    # (a raw Go literal drops carriage returns and cannot hold a backquote), CEL raw strings
    ("string", "!value.endsWith('\\\\temp\\r')"), ("string", "value == 'a\"\\r'"), ("string", "value.matches('^[\\\\w-]+: .*\\r\\n$')"), ("string", "value == 'a\\rb'"),
    ("string", "value.contains('\\x0d')"), ("string", "value == '\\u000d\\\\'"), ("string", "value != \"q\\\"\\015\""), ("string", "value in ['a\\\\b\\r', 'c']"),
    ("string", "value == 'tab\\there\\\\'"), ("string", "value == r'a\\b'"), ("string", "value == 'back`tick\\\\'"), ("string", "value.startsWith('\\a\\b\\f\\v')"),
    ("string", "value == '\\001'"), ("string", "value == 'a\\nb'"), ("string", "value.contains('`')"), ("string", "value == '\\\\\\r\\n'"),
]


def respace(rng, e):
    """the same token sequence with other blanks between tokens (never inside a string literal)"""
    out, q = [], None
    sep = rng.choice(["  ", "\t", "   ", " \t "])
    for ch in e:
        if q:
            out.append(ch)
            if ch == q:
                q = None
        elif ch in "'\"":
            q = ch
            out.append(ch)
        elif ch == " ":
            out.append(sep)
        else:
            out.append(ch)
    return "".join(out)


def build(rng, tier):
    """list of (scenario id, vtype, expression)"""
    out = []
    for i, (vt, e) in enumerate(FIXED):
        out.append(("cf%d" % i, vt, e))
    n = 260 if tier == "quick" else 2500
    depth = 2 if tier == "quick" else 3
    seen = {e for _, _, e in out}
    k = 0
    tries = 0
    while k < n and tries < n * 20:
        tries += 1
        vt = rng.choice(V_TYPES)
        e = Gen(rng, vt).boolean(rng.randint(0, depth))
        if rng.random() < 0.12:
            e = respace(rng, e)
        if (vt, e) in seen or len(e) > 160:
            continue
        seen.add((vt, e))
        out.append(("cr%d" % k, vt, e))
        k += 1
    return out


def scenario_for(sid, vtype, expr, rng, max_cases):
    fields = [fld("V", ["//govalid:cel=" + expr], typeref(vtype))]
    for nm, go in COMPANIONS:
        fields.append(fld(nm, [], typeref(go)))
    cases = []
    vgrid = value_sets("V", vtype, rng, escapes=any(c in expr for c in "\\`\""))
    base = [dict(v, path=nm) for nm, v in COMPANION_DEFAULT.items()]
    for v in vgrid:
        cases.append({"sets": [v] + base})
    used = [nm for nm, _ in COMPANIONS if ("this." + nm) in expr]
    for nm in used:
        for alt in COMPANION_ALT[nm]:
            for v in vgrid[:: max(1, len(vgrid) // 6)]:
                sets = [v] + [dict(alt, path=nm) if b["path"] == nm else b for b in base]
                cases.append({"sets": sets})
    if len(cases) > max_cases:
        cases = cases[: len(vgrid)] + rng.sample(cases[len(vgrid):], max(0, max_cases - len(vgrid)))
    st = struct("T", fields, cases)
    return scenario(sid, [st], imports=["time"])
