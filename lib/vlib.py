"""Common machinery for /verif checks: builds, scratch dirs, evidence, replays, findings."""
import atexit
import fcntl
import hashlib
import json
import os
import re
import shutil
import subprocess
import sys
import tempfile
import time

VERIF = os.path.dirname(os.path.dirname(os.path.abspath(__file__)))
REPO = os.environ.get("VERIF_REPO", "/repo")
COQ = os.path.join(VERIF, "coq")
OCAML = os.path.join(VERIF, "ocaml")
HARNESS = os.path.join(VERIF, "harness")
EVIDENCE = os.environ.get("VERIF_EVIDENCE_DIR") or os.path.join(VERIF, "evidence")   # tools/try_seeded.sh redirects it so that runs against a patched tree do not overwrite the evidence of the unchanged tree
REPLAYS = os.path.join(VERIF, "replays")
MODEL_BIN = os.path.join(OCAML, "model")

GOENV = dict(os.environ)
GOENV["GOFLAGS"] = "-mod=mod"
GOENV["GOPROXY"] = "off"
GOENV.pop("GOTOOLCHAIN", None) if GOENV.get("GOTOOLCHAIN") == "local" else None

_scratch = None


def scratch():
    """A fresh scratch directory outside /repo and /verif, removed at exit."""
    global _scratch
    if _scratch is None:
        base = os.environ.get("TMPDIR", "/tmp")
        _scratch = tempfile.mkdtemp(prefix="verif-", dir=base)
        if not os.environ.get("VERIF_KEEP_SCRATCH"):
            atexit.register(lambda: shutil.rmtree(_scratch, ignore_errors=True))
        else:
            log("scratch kept: " + _scratch)
    return _scratch


def log(*a):
    print(*a, file=sys.stderr, flush=True)


def run(cmd, cwd=None, env=None, timeout=3600, stdin=None, stdout=subprocess.PIPE, check=False, text=True):
    t0 = time.time()
    p = subprocess.run(cmd, cwd=cwd, env=env, timeout=timeout, stdin=stdin, stdout=stdout,
                       stderr=subprocess.PIPE, text=text)
    if check and p.returncode != 0:
        raise RuntimeError("command failed (%d): %s\n%s\n%s" % (p.returncode, cmd, p.stdout if text else "", p.stderr))
    p.wall = time.time() - t0
    return p


class Lock:
    def __init__(self, name):
        self.path = os.path.join(VERIF, ".lock-" + name)

    def __enter__(self):
        self.f = open(self.path, "w")
        fcntl.flock(self.f, fcntl.LOCK_EX)

    def __exit__(self, *a):
        fcntl.flock(self.f, fcntl.LOCK_UN)
        self.f.close()


# ----------------------------------------------------------------------------- Coq

def coq_make():
    """Full .vo build of the development (no-op when current). Returns (ok, log)."""
    with Lock("coq"):
        if not os.path.exists(os.path.join(COQ, "Makefile")):
            run(["coq_makefile", "-f", "_CoqProject", "-o", "Makefile"], cwd=COQ, check=True)
        p = run(["make", "-j16"], cwd=COQ, timeout=3000)
        return p.returncode == 0, (p.stdout or "") + (p.stderr or "")


def coq_check_file(relpath, extra_q=()):
    """Re-check one .v file with coqc (deps must be built). Returns (ok, output)."""
    cmd = ["coqc", "-Q", "theories", "GV", "-Q", "gen", "GVGen", "-w", "-notation-overridden"]
    cmd += [relpath]
    with Lock("coq"):
        p = run(cmd, cwd=COQ, timeout=3000)
    return p.returncode == 0, (p.stdout or "") + (p.stderr or "")


def property_theorems(relpath):
    """Names of the Theorem statements of a Properties file."""
    src = open(os.path.join(COQ, relpath)).read()
    return re.findall(r"^Theorem\s+([A-Za-z0-9_']+)", src, re.M)


def parse_assumptions(output):
    """Split coqc output into the Print Assumptions blocks, in order."""
    blocks = []
    cur = None
    for line in output.splitlines():
        if line.startswith("Closed under the global context"):
            blocks.append([])
            cur = None
        elif line.startswith("Axioms:"):
            cur = []
            blocks.append(cur)
        elif cur is not None:
            if line.strip() == "" or line.startswith("File ") or line.startswith("Warning"):
                cur = None
            else:
                cur.append(line.rstrip())
    out = []
    for b in blocks:
        names = []
        for l in b:
            m = re.match(r"^([A-Za-z_][A-Za-z0-9_.']*)\s*:", l)
            if m:
                names.append(m.group(1))
        out.append(names)
    return out


def model_build():
    """(Re)build the extracted OCaml model when a source is newer than the binary."""
    with Lock("ocaml"):
        newest = 0
        for root, _, files in os.walk(os.path.join(COQ, "theories")):
            for f in files:
                if f.endswith(".v"):
                    newest = max(newest, os.path.getmtime(os.path.join(root, f)))
        for f in os.listdir(OCAML):
            if f in ("main.ml", "build.sh"):
                newest = max(newest, os.path.getmtime(os.path.join(OCAML, f)))
        if os.path.exists(MODEL_BIN) and os.path.getmtime(MODEL_BIN) >= newest:
            return True, ""
        p = run([os.path.join(OCAML, "build.sh")], cwd=OCAML, timeout=1800)
        return p.returncode == 0, (p.stdout or "") + (p.stderr or "")


# ----------------------------------------------------------------------------- Go

def harness_dir():
    """Copy of the harness module in scratch, with go.sum taken from /repo's tree."""
    d = os.path.join(scratch(), "harness")
    if not os.path.exists(d):
        shutil.copytree(HARNESS, d)
        shutil.copy(os.path.join(REPO, "go.sum"), os.path.join(d, "go.sum"))
        gm = open(os.path.join(d, "go.mod")).read().replace("=> /repo", "=> " + REPO)
        open(os.path.join(d, "go.mod"), "w").write(gm)
    return d


def go_build(pkg, out_name, tags=None, cwd=None):
    """Build a harness command against /repo's working tree. Returns (path|None, log)."""
    d = cwd or harness_dir()
    out = os.path.join(scratch(), out_name)
    cmd = ["go", "build"]
    if tags:
        cmd += ["-tags", tags]
    cmd += ["-o", out, pkg]
    p = run(cmd, cwd=d, env=GOENV, timeout=1800)
    if p.returncode != 0:
        return None, (p.stdout or "") + (p.stderr or "")
    return out, ""


def build_govalid():
    """Build the govalid CLI from /repo's working tree."""
    out = os.path.join(scratch(), "govalid")
    p = run(["go", "build", "-o", out, "./cmd/govalid"], cwd=REPO, env=GOENV, timeout=1800)
    if p.returncode != 0:
        return None, (p.stdout or "") + (p.stderr or "")
    return out, ""


# ----------------------------------------------------------------------------- findings / evidence

def known_findings(prop):
    path = os.path.join(VERIF, "known_findings.json")
    if not os.path.exists(path):
        return []
    data = json.load(open(path))
    return [f for f in data.get("findings", []) if f.get("property") == prop and f.get("status") == "open"]


def write_replay(prop, payload):
    os.makedirs(REPLAYS, exist_ok=True)
    blob = json.dumps(payload, sort_keys=True, indent=1)
    h = hashlib.sha256(blob.encode()).hexdigest()[:12]
    path = os.path.join(REPLAYS, "%s-%s.json" % (prop, h))
    open(path, "w").write(blob + "\n")
    return path


class Result:
    """Accumulates what one check run covered and found."""

    def __init__(self, prop, tier, seed):
        self.prop = prop
        self.tier = tier
        self.seed = seed
        self.t0 = time.time()
        self.violations = []       # (replay_path, no_failing_input_found: bool)
        self.known_seen = []       # strings
        self.coverage = {}
        self.assumptions = []
        self.obligations = 0
        self.discharged = 0
        self.level = "proof"

    def violation(self, payload, found_input=True):
        path = write_replay(self.prop, payload)
        if (path, not found_input) not in self.violations:
            self.violations.append((path, not found_input))
        return path

    def known(self, text):
        if text not in self.known_seen:
            self.known_seen.append(text)

    def finish(self):
        os.makedirs(EVIDENCE, exist_ok=True)
        cov = dict(self.coverage)
        cov.setdefault("obligations", self.obligations)
        cov.setdefault("discharged", self.discharged)
        cov["known_findings_seen"] = list(self.known_seen)
        ev = {
            "property_id": self.prop,
            "tier": self.tier,
            "seed": self.seed,
            "level": self.level,
            "coverage": cov,
            "assumptions": self.assumptions,
            "wall_s": round(time.time() - self.t0, 2),
            "violations": len(self.violations),
        }
        open(os.path.join(EVIDENCE, self.prop + ".json"), "w").write(json.dumps(ev, indent=1) + "\n")
        for k in self.known_seen:
            print("KNOWN-FINDING: property=%s %s" % (self.prop, k))
        for path, nofound in self.violations:
            print("VIOLATION property=%s replay=%s%s" % (self.prop, path, " no-failing-input-found" if nofound else ""))
        sys.stdout.flush()
        return 1 if self.violations else 0


def check_properties_file(res, relpath):
    """Build the development and re-check the property file; record obligations/axioms.
    Returns True when every theorem of the file is accepted by the kernel."""
    thms = property_theorems(relpath)
    res.obligations += len(thms)
    ok, out = coq_make()
    if not ok:
        res.coverage["coq_build_log_tail"] = out[-3000:]
        res.violation({"kind": "proof-break", "what": "the Coq development no longer builds",
                       "log_tail": out[-3000:]}, found_input=False)
        return False
    ok, out = coq_check_file(relpath)
    if not ok:
        res.violation({"kind": "proof-break", "file": relpath, "log_tail": out[-3000:]}, found_input=False)
        return False
    ax = parse_assumptions(out)
    if getattr(res, "tier", "quick") == "thorough":
        # independent re-check of the compiled property module and everything it depends on
        mod = "GV." + relpath[len("theories/"):-2].replace("/", ".")
        with Lock("coq"):
            p = run(["coqchk", "-silent", "-o", "-Q", "theories", "GV", mod], cwd=COQ, timeout=7200)
        chk = (p.stdout or "") + (p.stderr or "")
        res.coverage["coqchk"] = {"module": mod, "exit": p.returncode, "summary": [l.strip() for l in chk.splitlines() if l.strip()][-14:]}
        if p.returncode != 0:
            res.violation({"kind": "proof-break", "file": relpath, "what": "coqchk rejects the compiled property module", "log_tail": chk[-3000:]}, found_input=False)
            return False
    res.discharged += len(thms)
    res.coverage["theorems"] = [{"name": t, "axioms": (ax[i] if i < len(ax) else None)} for i, t in enumerate(thms)]
    res.coverage["print_assumptions_verbatim"] = [l for l in out.splitlines() if l.strip()][:200]
    return True


def sha_file(path):
    return hashlib.sha256(open(path, "rb").read()).hexdigest()


def count_lines(path):
    n = 0
    with open(path, "rb") as f:
        for _ in f:
            n += 1
    return n
