"""Scenario corpora for the generator-family properties. Deterministic in (seed, tier)."""
import random

from synth import *  # noqa: F401,F403

OPS = {"gt": lambda v, n: v > n, "gte": lambda v, n: v >= n, "lt": lambda v, n: v < n, "lte": lambda v, n: v <= n}


def _float_bound_texts(vk):
    # bounds representable in the type: integers, dyadic fractions, negative, zero, large/small powers of two
    texts = ["0", "1", "-1", "0.5", "-2.5", "1.5e1", "100", "-0.0", "0.125", "1e3", "3", "-7.75", "16777216", "0.0009765625"]
    if vk == "float64":
        texts += ["9007199254740992", "-1e300", "4.9e-324", "1.7976931348623157e308"]
    else:
        texts += ["3.4028234663852886e38", "1.401298464324817e-45", "-16777217"]
    return texts


SIBLINGS = {
    "string": ["required", "minlength=2", "maxlength=4", "length=3", "enum=ab,abc,1.2.3.4", "email", "url", "uuid", "alpha", "numeric", "ipv4", "ipv6"],
    "int": ["required", "gt=1", "gte=2", "lt=9", "lte=8", "enum=1,2,3,9"],
    "coll": ["required", "minitems=1", "maxitems=3"],
}


def co_marker_scenarios(sid, own, kind, typ, sets_for, aux=None, sibs=None, alias_of_defined=True):
    """Each marker of `own` on a field that also carries one other marker applicable to the type: before it, after it, on the
    struct declaration, and inside an inline struct.  A rule's verdict never depends on its neighbours.
    sets_for(path) -> list of value-sets for the field at `path`."""
    sibs = sibs or SIBLINGS[kind]
    fields, tl_structs = [], []
    k = 0
    nested_groups = []
    for o in own:
        for sb in sibs:
            if sb.split("=")[0] == o.split("=")[0]:
                continue
            fields.append(fld("A%d" % k, ["//govalid:" + o, "//govalid:" + sb], typ))
            fields.append(fld("B%d" % k, ["//govalid:" + sb, "//govalid:" + o], typ))
            # (a marker on the inline struct itself is the open finding D7 of C07/C09 and is exercised there)
            nested_groups.append(fld("N%d" % k, [], nested=[fld("In%d" % k, ["//govalid:" + sb, "//govalid:" + o], typ), fld("Free%d" % k, [], typ)]))
            k += 1
    paths = [f["names"][0] for f in fields] + ["%s.In%s" % (g["names"][0], g["names"][0][1:]) for g in nested_groups] + ["%s.Free%s" % (g["names"][0], g["names"][0][1:]) for g in nested_groups]
    per = [sets_for(p) for p in paths]
    n = max(len(v) for v in per)
    cases = [case([v[(j + i) % len(v)] for i, v in enumerate(per)]) for j in range(n)] + [case([v[j % len(v)] for v in per]) for j in range(n)]
    structs = [struct("Co", fields + nested_groups, cases)]
    for j, sb in enumerate(sibs):
        fs = [fld("F%d" % i, ["//govalid:" + o], typ) for i, o in enumerate(own) if sb.split("=")[0] != o.split("=")[0]]
        if not fs:
            continue
        per = [sets_for(f["names"][0]) for f in fs]
        n = max(len(v) for v in per)
        structs.append(struct("Tl%d" % j, fs, [case([v[(j2 + i) % len(v)] for i, v in enumerate(per)]) for j2 in range(n)], gendoc=["//govalid:" + sb]))
    # one declaration with several names (`A, B, C T`): the markers of the declaration govern every name
    mfs = [fld(["P%d" % j, "Q%d" % j, "R%d" % j], ["//govalid:" + o] + (["//govalid:" + sibs[j % len(sibs)]] if sibs[j % len(sibs)].split("=")[0] != o.split("=")[0] else []), typ)
           for j, o in enumerate(own)]
    mpaths = [nm for f in mfs for nm in f["names"]]
    per = [sets_for(p_) for p_ in mpaths]
    n = max(len(v) for v in per)
    structs.append(struct("Mn", mfs, [case([v[(j2 + 2 * i) % len(v)] for i, v in enumerate(per)]) for j2 in range(n)]))
    # the field type spelled through an alias declaration, and through an alias of a defined type (identical / same underlying type)
    auxl = list(aux or [])
    once = typ["model"] if typ["model"].startswith("TNamed") else "TNamed (%s)" % typ["model"]     # go/types' Underlying() resolves the whole chain
    a1, al1 = alias("Al_" + sid, typ)
    d2, df2 = named("Df_" + sid, typ)
    a2, al2 = alias("AlDf_" + sid, df2)
    al1["model"] = df2["model"] = al2["model"] = once
    auxl += [a1] + ([d2, a2] if alias_of_defined else [])
    afs = [fld("%s%d" % (pre, j), ["//govalid:" + o], t_) for j, o in enumerate(own) for pre, t_ in ((("Ka", al1), ("Kd", al2)) if alias_of_defined else (("Ka", al1),))]
    per = [sets_for(f["names"][0]) for f in afs]
    n = max(len(v) for v in per)
    structs.append(struct("Al", afs, [case([v[(j2 + i) % len(v)] for i, v in enumerate(per)]) for j2 in range(n)]))
    aux = auxl
    # the SAME marker on the struct declaration with another parameter: both rules govern the field, each with its own N
    import re as _re
    for j, o in enumerate(own):
        m = _re.fullmatch(r"(\w+)=(\d+)", o)
        if not m:
            continue
        for dn, d in enumerate((2, -1)):
            n2 = int(m.group(2)) + d
            if n2 < 0:
                continue
            fs = [fld("Own", ["//govalid:" + o], typ), fld("Plain", [], typ), fld("Late", ["//govalid:" + o], typ)]
            per = [sets_for(f["names"][0]) for f in fs]
            n = max(len(v) for v in per)
            structs.append(struct("Sm%d_%d" % (j, dn), fs, [case([v[(j2 + i) % len(v)] for i, v in enumerate(per)]) for j2 in range(n)],
                                  gendoc=["//govalid:%s=%d" % (m.group(1), n2)]))
    return scenario(sid, structs, aux=aux or [])


def c01(seed, tier):
    rng = random.Random(seed)
    thorough = tier == "thorough"
    scen = []
    sid = 0
    for tname in NUMERIC_TYPES + ["byte", "rune"]:
        t = basic(tname)
        aux, nt = named("My" + tname.capitalize(), t)
        for placement in ("top", "nested", "named"):
            fields_t = nt if placement == "named" else t
            for op in ("gt", "gte", "lt", "lte"):
                if t["vk"] == "int":
                    lo, hi = int_range(t)
                    bounds = sorted({0, 1, 3, lo, hi, hi - 1, lo + 1, (hi // 2), -1 if lo < 0 else 2, -7 if lo < 0 else 7})
                    bounds = [b for b in bounds if lo <= b <= hi]
                    if not thorough:
                        bounds = rng.sample(bounds, min(4, len(bounds)))
                    btexts = [str(b) for b in bounds]
                    if tname in ("int", "int64", "uint8") and op == "gt":
                        btexts += ["0x10", "1e2"] + (["1_000"] if tname != "uint8" else [])
                    if tname in ("int", "int16", "uint8", "uint64") and op in ("gte", "lt"):
                        btexts += ["010", "0_17", "0b101", "0o17"]        # Go integer literal forms: legacy octal 010 = 8
                else:
                    btexts = _float_bound_texts(t["vk"])
                    if not thorough:
                        btexts = rng.sample(btexts, 5)
                    if op in ("gt", "lte"):
                        btexts += ["1_000.5", "1_0.2_5e0_1"]                 # digit separators are legal in float literals too
                fields = []
                for k, bt in enumerate(btexts):
                    f = fld("F%d" % k, ["//govalid:%s=%s" % (op, bt)], fields_t)
                    fields.append(f)
                # values: the lattice around every bound, applied to every field at once
                if t["vk"] == "int":
                    bnums = []
                    for bt in btexts:
                        try:
                            bnums.append(int(float(bt.replace("_", ""))) if ("e" in bt or "." in bt) else int(bt.replace("_", ""), 0))
                        except ValueError:
                            pass
                    lattice = int_lattice(t, bnums)
                    if tname in ("int8", "uint8", "byte") and (thorough or op == "gt"):
                        lo, hi = int_range(t)
                        lattice = list(range(lo, hi + 1))
                    mk = set_int
                else:
                    bvals = [float(bt) for bt in btexts]
                    if t["vk"] == "float32":
                        bvals = [f32of(f32bits(b)) if abs(b) < 3.5e38 else b for b in bvals]
                    lattice = float_lattice(t["vk"], bvals)
                    mk = set_f32 if t["vk"] == "float32" else set_f64
                prefix = "N." if placement == "nested" else ""
                cases = [case([mk(prefix + "F%d" % k, v) for k in range(len(btexts))]) for v in lattice]
                if placement == "nested":
                    fields = [fld("Pad", [], basic("string")), fld("N", [], nested=fields)]
                st = struct("T", fields, cases)
                scen.append(scenario("c01s%d" % sid, [st], aux=[aux] if placement == "named" else []))
                sid += 1
    # the same bound kind on the struct declaration and on a field, with different N (each is a rule of its own), several bound
    # kinds on one field, and a named float type
    i64, u8, f32 = basic("int64"), basic("uint8"), basic("float32")
    auxc, cels = named("Celsius", f32)
    dur = T("time.Duration", "TNamed (TBasic (BInt I64))", "int")
    ext = struct("Ext", [fld("Wait", ["//govalid:gt=0", "//govalid:lte=1000000000"], dur), fld("Ptr", ["//govalid:gte=16"], basic("uintptr")),
                         fld("Month", ["//govalid:gte=1", "//govalid:lte=12"], T("time.Month", "TNamed (TBasic (BInt IInt))", "int"))],
                 [case([set_int("Wait", a), set_int("Ptr", b), set_int("Month", c)]) for a, b, c in
                  [(0, 0, 0), (1, 15, 1), (10 ** 9, 16, 12), (10 ** 9 + 1, 17, 13), (-1, 2 ** 40, -1), (5, 100, 6)]])
    lim = struct("Limits", [fld("Plain", [], basic("int")), fld("High", ["//govalid:gt=10"], i64), fld("Small", ["//govalid:lte=20"], u8),
                            fld("Temp", ["//govalid:gt=36.5"], cels), fld("Band", ["//govalid:gt=7", "//govalid:lt=9", "//govalid:gte=8", "//govalid:lte=8"], i64)],
                 [case([set_int("Plain", a), set_int("High", b), set_int("Small", c), set_f32("Temp", f32bits(d)), set_int("Band", e)])
                  for a, b, c, d, e in [(6, 6, 21, 5.5, 8), (6, 7, 50, 20.0, 7), (50, 10, 100, 36.5, 9), (50, 11, 20, 37.0, 8), (5, 5, 5, 5.0, 6), (101, 101, 101, 101.0, 10),
                                        (100, 100, 6, 36.6, 8), (6, 200, 19, 1e9, 8)]],
                 gendoc=["//govalid:gt=5", "//govalid:lte=100"])
    scen.append(scenario("c01both", [lim], aux=[auxc]))
    scen.append(scenario("c01ext", [ext], imports=["time"]))
    # bounds written as float literals with an integral value (valid untyped constants for integer fields): the comparison is
    # exact integer comparison, also above 2^53
    auxk, cents = named("Cents", i64)
    big = [("Amount", basic("uint64"), "lte", "1e18", 10 ** 18), ("Seq", i64, "gt", "9.007199254740992e15", 2 ** 53), ("Limit", cents, "lt", "1e18", 10 ** 18),
           ("Floor", i64, "gte", "-1e18", -10 ** 18), ("Small", basic("int32"), "lt", "1e3", 1000), ("Hex", basic("uint64"), "gte", "0x1p60", 2 ** 60),
           ("Dot", i64, "lte", "5.0", 5),
           # literals at and above 2^63 in every spelling Go accepts (they fit no signed 64-bit parse)
           ("Top", basic("uint64"), "lt", "0xFFFFFFFFFFFFFFFF", 2 ** 64 - 1), ("Half", basic("uint64"), "gte", "0x8000_0000_0000_0000", 2 ** 63),
           ("Bin", basic("uint64"), "gt", "0b1" + "0" * 63, 2 ** 63), ("Und", basic("uint64"), "lte", "9_223_372_036_854_775_808", 2 ** 63),
           ("Oct", basic("uint64"), "lt", "0o1777777777777777777777", 2 ** 64 - 1), ("Leg", basic("uint64"), "gte", "01000000000000000000000", 2 ** 63),
           ("UP", basic("uintptr"), "lt", "0XFFFF_FFFF_FFFF_FFFE", 2 ** 64 - 2), ("Neg", i64, "gte", "-0x8000000000000000", -2 ** 63),
           ("NegU", i64, "gt", "-9_223_372_036_854_775_807", -2 ** 63 + 1)]
    bfields = [fld(nm, ["//govalid:%s=%s" % (op, txt)], t) for nm, t, op, txt, _ in big]
    bcases = []
    for delta in (-65, -64, -2, -1, 0, 1, 2, 64, 65):
        sets = []
        for nm, t, op, txt, n in big:
            lo, hi = int_range(t)
            sets.append(set_int(nm, min(hi, max(lo, n + delta))))
        bcases.append(case(sets))
    scen.append(scenario("c01exp", [struct("Ledger", bfields, bcases)], aux=[auxk]))
    scen.append(co_marker_scenarios("c01coi", ["gt=3", "gte=3", "lt=3", "lte=3"], "int", i64, lambda p: [set_int(p, z) for z in (-1, 0, 1, 2, 3, 4, 8, 9, 10)]))
    scen.append(co_marker_scenarios("c01cou", ["gt=0", "lte=0", "gte=1", "lt=1"], "int", u8, lambda p: [set_int(p, z) for z in (0, 1, 2, 3, 8, 9, 255)]))
    return {"scenarios": scen}


def c02(seed, tier):
    rng = random.Random(seed)
    scen = []
    aux = []
    types = []  # (field name, typeref, list of sets-makers)

    def add(name, t, vals):
        types.append((name, t, vals))

    for tn in ["int8", "int16", "int32", "int64", "int", "uint8", "uint16", "uint32", "uint64", "uint", "uintptr", "byte", "rune"]:
        t = basic(tn)
        lo, hi = int_range(t)
        add("F_" + tn, t, [lambda p, z=z: set_int(p, z) for z in sorted({0, 1, lo, hi, -1 if lo < 0 else 2})])
    add("F_f32", basic("float32"), [lambda p, b=b: set_f32(p, b) for b in F32_SPECIAL])
    add("F_f64", basic("float64"), [lambda p, b=b: set_f64(p, b) for b in F64_SPECIAL])
    add("F_c64", basic("complex64"), [lambda p, z=z: set_complex(p, z) for z in (True, False)])
    add("F_c128", basic("complex128"), [lambda p, z=z: set_complex(p, z) for z in (True, False)])
    add("F_bool", basic("bool"), [lambda p, z=z: set_bool(p, z) for z in (True, False)])
    add("F_str", basic("string"), [lambda p, z=z: set_str(p, z) for z in (b"", b"x", b"\x00", b" ", "é".encode())])
    for nm, t in (("F_ptr", POINTER), ("F_iface", IFACE), ("F_any", ANY), ("F_err", ERROR), ("F_func", FUNC)):
        add(nm, t, [lambda p, z=z: set_nilable(p, z) for z in (True, False)])
    for nm, t in (("F_slice", SLICE), ("F_map", MAP), ("F_chan", CHAN), ("F_mapi", MAP_INT)):
        add(nm, t, [lambda p: set_coll(p, True, 0), lambda p: set_coll(p, False, 0), lambda p: set_coll(p, False, 2)])
    for n in (0, 1, 3):
        add("F_arr%d" % n, array(n), [lambda p: {"path": p, "vk": "arr"}])
    # arrays of every element kind, all-zero: a fixed-size array of non-zero length is accepted whatever it holds (digests,
    # UUIDs and other byte arrays included), a zero-length one is the zero value
    for k, (n, el) in enumerate(((16, "byte"), (32, "uint8"), (4, "uint8"), (8, "byte"), (0, "byte"), (2, "string"), (3, "bool"), (2, "float64"), (1, "*int"), (2, "[2]int"),
                                 (2, "[0]byte"), (1, "rune"), (2, "complex128"), (1, "error"), (2, "struct{ A int }"), (1, "[]byte"), (2, "map[string]int"))):
        add("F_arrx%d" % k, array(n, el), [lambda p: {"path": p, "vk": "arr"}])
    # named types over each kind
    for nm, under in (("NInt", basic("int16")), ("NStr", basic("string")), ("NBool", basic("bool")), ("NF", basic("float64")),
                      ("NSlice", SLICE), ("NMap", MAP), ("NChan", CHAN), ("NArr", array(2)), ("NArr0", array(0)),
                      ("UUID", array(16, "byte")), ("Digest", array(32, "byte")), ("Sum4", array(4, "uint8")), ("Empty", array(0, "uint8")),
                      ("NPtr", POINTER), ("NFunc", FUNC), ("NIface", IFACE), ("NC", basic("complex128"))):
        a, t = named(nm, under)
        aux.append(a)
        base = [x for x in types if x[1]["go"] == under["go"]]
        add("F_" + nm, t, base[0][2] if base else [lambda p: {"path": p, "vk": "arr"}])
    # named types WITH methods (IsZero, String, Len, Error, Validate ...): a named type behaves like its underlying type,
    # whatever its method set says about "zero" or "empty"
    for nm, under, methods in (
            ("MSlice", SLICE, "func (x MSlice) IsZero() bool { return len(x) == 0 }\nfunc (x MSlice) Len() int { return 7 }"),
            ("MMap", MAP, "func (x MMap) IsZero() bool { return len(x) == 0 }\nfunc (x MMap) IsEmpty() bool { return true }"),
            ("MArr", array(2), "func (x MArr) IsZero() bool { return true }"),
            ("MStr", basic("string"), "func (x MStr) IsZero() bool { return x != \"\" }\nfunc (x MStr) String() string { return \"s\" }"),
            ("MInt", basic("int16"), "func (x *MInt) IsZero() bool { return x == nil || *x != 0 }\nfunc (x MInt) Validate() error { return nil }"),
            ("MBool", basic("bool"), "func (x MBool) IsZero() bool { return bool(x) }\nfunc (x MBool) Error() string { return \"e\" }"),
            ("MF", basic("float64"), "func (x MF) IsZero() bool { return x == 1 }\nfunc (x MF) Equal(y MF) bool { return true }"),
            ("MChan", CHAN, "func (x MChan) IsZero() bool { return false }\nfunc (x MChan) IsNil() bool { return false }")):
        a, t = named(nm, under)
        aux.append(a + "\n" + methods)
        base = [x for x in types if x[1]["go"] == under["go"]]
        add("F_" + nm, t, base[0][2] if base else [lambda p: {"path": p, "vk": "arr"}])
    a, t = alias("ASlice", SLICE)
    aux.append(a)
    add("F_ASlice", t, [lambda p: set_coll(p, True, 0), lambda p: set_coll(p, False, 0), lambda p: set_coll(p, False, 1)])
    a, t = alias("ASum", array(4, "uint8"))
    aux.append(a)
    add("F_ASum", t, [lambda p: {"path": p, "vk": "arr"}])
    a, t = alias("AStr", basic("string"))
    aux.append(a)
    add("F_AStr", t, [lambda p: set_str(p, b""), lambda p: set_str(p, b"q")])
    # one struct with all of them, at top level and nested
    for placement in ("top", "nested"):
        prefix = "N." if placement == "nested" else ""
        fields = [fld(nm, ["//govalid:required"], t) for nm, t, _ in types]
        maxv = max(len(v) for _, _, v in types)
        cases = []
        for k in range(maxv):
            cases.append(case([vals[k % len(vals)](prefix + nm) for nm, _, vals in types]))
        # independent single-field violations: everything non-zero except one field
        nonzero = [vals[-1] if len(vals) > 1 else vals[0] for _, _, vals in types]
        for i, (nm, t, vals) in enumerate(types):
            sets = [nz(prefix + n2) for (n2, _, _), nz in zip(types, nonzero)]
            sets[i] = vals[0](prefix + nm)
            cases.append(case(sets))
        if placement == "nested":
            fields = [fld("N", [], nested=fields)]
        scen.append(scenario("c02" + placement, [struct("T", fields, cases)], aux=list(aux)))
    # two required fields whose dot-free paths coincide (Account.UserID / Account.User.ID): both must still be checked
    st = basic("string")
    coll = struct("Account", [fld("UserID", ["//govalid:required"], st),
                              fld("User", [], nested=[fld("ID", ["//govalid:required"], st), fld("Tags", ["//govalid:required"], SLICE)]),
                              fld("UserTags", ["//govalid:required"], SLICE)],
                  [case([]), case([set_str("UserID", b"u")]), case([set_str("User.ID", b"i")]), case([set_str("UserID", b"u"), set_str("User.ID", b"i")]),
                   case([set_str("UserID", b"u"), set_str("User.ID", b"i"), set_coll("User.Tags", False, 0)]),
                   case([set_str("UserID", b"u"), set_str("User.ID", b"i"), set_coll("UserTags", False, 1)]),
                   case([set_str("UserID", b"u"), set_str("User.ID", b"i"), set_coll("User.Tags", False, 1), set_coll("UserTags", False, 0)])])
    scen.append(scenario("c02coll", [coll]))
    scen += override_shapes("c02")
    scen.append(co_marker_scenarios("c02cos", ["required"], "string", st, lambda p: [set_str(p, v) for v in (b"", b"a", b"ab", b"abc", b"abcde", b"1.2.3.4", b"12", b" ")]))
    scen.append(co_marker_scenarios("c02coi", ["required"], "int", basic("int32"), lambda p: [set_int(p, z) for z in (0, 1, 2, 3, 8, 9, 10, -1)]))
    scen.append(co_marker_scenarios("c02coc", ["required"], "coll", SLICE, lambda p: [set_coll(p, True, 0), set_coll(p, False, 0), set_coll(p, False, 1), set_coll(p, False, 4)]))
    return {"scenarios": scen}


RUNE_UNITS = [b"a", "é".encode(), "€".encode(), "😀".encode(), b"\x80", b"\xff", b"\xe2\x82"]


def c03(seed, tier):
    rng = random.Random(seed)
    thorough = tier == "thorough"
    maxlen = 4 if not thorough else 5
    strings = [b""]
    frontier = [b""]
    for _ in range(maxlen):
        frontier = [s + u for s in frontier for u in RUNE_UNITS]
        strings += frontier
    if not thorough:
        strings = strings[:58] + rng.sample(strings[58:400], 120) + rng.sample(strings[400:], 150)
    else:
        # every string up to 3 units, a sample of the longer ones (the in-Coq evaluation of a case costs ~10 ms per field)
        strings = strings[:400] + rng.sample(strings[400:], 1100)
    for unit in RUNE_UNITS:
        for n in (9, 10, 11, 63, 64, 65):
            strings.append(unit * n)
    ns = [0, 1, 2, 3, 4, 5, 6, 8, 10, 12, 20, 64] if thorough else [0, 1, 2, 3, 5, 10, 64]
    fields = []
    for marker in ("minlength", "maxlength", "length"):
        for n in ns:
            fields.append(fld("%s%d" % (marker.capitalize()[:3], n), ["//govalid:%s=%d" % (marker, n)], basic("string")))
    # N in other Go literal forms (the generator pastes the text; 010 is the octal constant 8)
    for marker in ("minlength", "maxlength", "length"):
        for k, txt in enumerate(["010", "0x10", "0_10", "0b11", "1_0"]):
            fields.append(fld("%sL%d" % (marker.capitalize()[:3], k), ["//govalid:%s=%s" % (marker, txt)], basic("string")))
    for unit in RUNE_UNITS[:4]:
        for n in (7, 8, 9, 15, 16, 17):
            strings.append(unit * n)
    # an alias of string is a string: same counting (defined string types do not compile with these markers: undocumented)
    a_text, text = alias("Text", basic("string"))
    for marker in ("minlength", "maxlength", "length"):
        for n in (0, 1, 2, 3):
            fields.append(fld("%sA%d" % (marker.capitalize()[:3], n), ["//govalid:%s=%d" % (marker, n)], text))
    names = [f["names"][0] for f in fields]
    cases = [case([set_str(nm, s) for nm in names]) for s in strings]
    covals = [b"", b"a", b"ab", b"abc", b"abcd", b"abcde", "日本語".encode(), b"1.2.3.4", b"12", b"\xff\xfe\xfd", b"a@b.c", b"   "]
    co = co_marker_scenarios("c03co", ["minlength=3", "maxlength=3", "length=3"], "string", basic("string"),
                             lambda p: [set_str(p, v) for v in covals], alias_of_defined=False)
    rvals = [b"", b"a", b"ab", b"abc", b"abcd", b"abcde", "é".encode(), "日本語".encode(), "😀😀😀😀😀".encode(), b"\xf0\x9f\x98\xf0\x9f", b"\xff\xfe"]
    lm = ["//govalid:minlength=2", "//govalid:maxlength=4", "//govalid:length=3"]
    route = struct("Route", [fld("Via", lm, nested=[fld("City", [], basic("string"))]), fld(["From", "To", "Back"], lm, nested=[fld("City", [], basic("string"))]),
                             fld("RefV", lm, basic("string")), fld(["RefF", "RefT", "RefB"], lm, basic("string"))],
                   [case([s_ for nm, ref, off in (("Via", "RefV", 0), ("From", "RefF", 1), ("To", "RefT", 3), ("Back", "RefB", 7))
                          for s_ in (set_str(nm + ".City", rvals[(k + off) % len(rvals)]), set_str(ref, rvals[(k + off) % len(rvals)]))]) for k in range(len(rvals))])
    return {"scenarios": [scenario("c03", [struct("T", fields, cases)], aux=[a_text]), co], "route": {"scenarios": [scenario("c03route", [route])]}}


def c04(seed, tier):
    scen = []
    aux = []
    kinds = [("Sl", SLICE), ("Mp", MAP), ("Ch", CHAN), ("Ar0", array(0)), ("Ar1", array(1)), ("Ar3", array(3)), ("Ar5", array(5))]
    for nm, under in (("NSl", SLICE), ("NMp", MAP), ("NCh", CHAN), ("NAr", array(2))):
        a, t = named(nm, under)
        aux.append(a)
        kinds.append((nm, t))
    # aliases of collection types (an alias IS the collection type) and an alias of a named collection
    for nm, under in (("ASl", SLICE), ("AMp", MAP), ("ACh", CHAN), ("AAr", array(4))):
        a, t = alias(nm, under)
        aux.append(a)
        kinds.append((nm, t))
    a, t = alias("ANSl", dict(SLICE, go="NSl"))
    t["model"] = "TNamed (TSlice)"         # go/types' Underlying() resolves the whole chain
    aux.append(a)
    kinds.append(("ANSl", t))
    # named collection types with size-like methods of their own: the rule is about len(), whatever the type says about itself
    for nm, under, meths in (("LSl", SLICE, "func (x LSl) Len() int { return len(x) + 7 }\nfunc (x LSl) Cap() int { return 0 }"),
                             ("LMp", MAP, "func (x *LMp) Len() int { return -1 }\nfunc (x LMp) Size() int { return 99 }"),
                             ("LCh", CHAN, "func (x LCh) Len() int { return cap(x) + 1 }\nfunc (x LCh) Count() int { return 3 }"),
                             ("LAr", array(2), "func (x LAr) Len() int { return 0 }\nfunc (x LAr) Length() int { return 9 }")):
        a, t = named(nm, under)
        aux.append(a + "\n" + meths)
        kinds.append((nm, t))
    ns = [0, 1, 2, 3, 5]
    fields = []
    for marker in ("minitems", "maxitems"):
        for kn, t in kinds:
            for n in ns:
                fields.append(fld("%s%s%d" % (marker[:3].capitalize(), kn, n), ["//govalid:%s=%d" % (marker, n)], t))
    cases = []
    lens = [None, 0, 1, 2, 3, 4, 5, 6, 7]
    for ln in lens:
        sets = []
        for f in fields:
            t = f["type"]
            if t["vk"] == "coll":
                sets.append(set_coll(f["names"][0], ln is None, ln or 0))
        cases.append(case(sets))
    top = struct("T", fields, cases)
    nested_cases = [case([dict(s, path="N." + s["path"]) for s in c["sets"]]) for c in cases]
    nested = struct("U", [fld("N", [], nested=fields)], nested_cases)
    # N in other Go literal forms (legacy octal 010 = 8, 0_10 = 8, 0x10 = 16, 0b101 = 5, 0o17 = 15, 1_0 = 10, 1_000) and larger collections
    lfields = []
    for marker in ("minitems", "maxitems"):
        for kn, t in (("Sl", SLICE), ("Mp", MAP), ("Ar9", array(9)), ("Ch", CHAN)):
            for k, txt in enumerate(["010", "0_10", "0x10", "0b101", "0o17", "1_0", "1_000"]):
                lfields.append(fld("%s%sL%d" % (marker[:3].capitalize(), kn, k), ["//govalid:%s=%s" % (marker, txt)], t))
    lcases = []
    for ln in (0, 4, 5, 6, 7, 8, 9, 10, 11, 14, 15, 16, 17, 999, 1000, 1001):
        lcases.append(case([set_coll(f["names"][0], False, ln) for f in lfields if f["type"]["vk"] == "coll"]))
    lit = struct("L", lfields, lcases)
    cos = []
    # arrays: `required` renders no check for them (a rule without a check next to rules with one)
    for tag, t in (("ar3", array(3)), ("ar1", array(1))):
        cos.append(co_marker_scenarios("c04co" + tag, ["minitems=2", "maxitems=2", "maxitems=3", "minitems=4"], "coll", t, lambda p: [{"path": p, "vk": "arr"}]))
    for tag, t in (("sl", SLICE), ("mp", MAP), ("ch", CHAN), ("nsl", dict(SLICE, go="NSl", model="TNamed (TSlice)"))):
        cos.append(co_marker_scenarios("c04co" + tag, ["minitems=2", "maxitems=2", "minitems=1"], "coll", t,
                                       lambda p: [set_coll(p, True, 0), set_coll(p, False, 0), set_coll(p, False, 1), set_coll(p, False, 2), set_coll(p, False, 3), set_coll(p, False, 4)],
                                       aux=[x for x in aux if x.startswith("type NSl ")] if tag == "nsl" else None))
    return {"scenarios": [scenario("c04", [top, nested, lit], aux=aux)] + cos}


def c05(seed, tier):
    rng = random.Random(seed)
    scen = []
    string_lists = [
        "a,b,c", " admin , user,guest ", "x", "a,a,b", "A,a", "on,off, ", "with space,two  spaces", 'q"uote,back\\slash',
        "é,ü,日本", "a, b ,c,d,e,f,g,h", ",", "true,false",
        # every blank of unicode.IsSpace next to a separating comma is trimmed, not only space and tab
        "red,\u00a0green,blue", "low,\u3000mid\u3000,high", "north\x0b,south", "p\u0085,\u2003q\u2009,\u2028r,s\u205f,\u1680t\u202f",
        "u\x0c,\x0cv", "in\u00a0ner,w\u3000x",
        # all 25 runes of unicode.IsSpace around items; runes that look blank but are not (zero-width space, word joiner, soft
        # hyphen, Mongolian vowel separator, the C0 separators 0x1c-0x1f, braille blank) stay part of the item
        ",".join(b + "i%d" % k + b for k, b in enumerate(["\t", "\x0b", "\x0c", " ", "\u0085", "\u00a0", "\u1680", "\u2000", "\u2001", "\u2002", "\u2003", "\u2004",
                                                        "\u2005", "\u2006", "\u2007", "\u2008", "\u2009", "\u200a", "\u2028", "\u2029", "\u202f", "\u205f", "\u3000"])),
        ",".join(b + "n%d" % k + b for k, b in enumerate(["\u200b", "\u2060", "\u00ad", "\u180e", "\x1c", "\x1f", "\u2800", "\u200c", "\u00a0\u200b", "\u200b\u00a0", "\x01", "\x7f"])),
    ]
    fields = []
    values = {}
    for i, lst in enumerate(string_lists):
        nm = "S%d" % i
        fields.append(fld(nm, ["//govalid:enum=" + lst], basic("string")))
        items = [x.strip() for x in lst.split(",")]
        cand = set(items) | set(lst.split(","))
        for it in items:
            cand.update({it.upper(), it.lower(), it[:-1], it + "x", " " + it, it + " ", "\u00a0" + it, it + "\u3000"})
        cand.update({"", " ", "zzz"})
        values[nm] = [set_str(nm, c) for c in sorted(cand)]
    a, role = named("Role", basic("string"))
    fields.append(fld("R", ["//govalid:enum=admin,user"], role))
    values["R"] = [set_str("R", c) for c in ("admin", "user", "Admin", "", "users")]
    int_lists = {"int": "1,2,3", "int8": "-128,0,127", "uint8": "0,255", "int64": "-9223372036854775808, 9223372036854775807",
                 "uint64": "18446744073709551615,0", "uint16": " 7 ,7,65535", "int32": "0x10,1_0,0o17"}
    more_int_lists = [
        # distinct items that round to the same float64 (above 2^53) or sit at the edge of the type: each must stay listed
        ("I_big1", "int64", "9007199254740992,9007199254740993"), ("I_big2", "uint64", "18446744073709551615, 18446744073709551614,7"),
        ("I_big3", "int", "9223372036854775806,9223372036854775807"), ("I_big4", "int64", "-9007199254740993,-9007199254740992, 5"),
        ("I_big5", "uint", "4611686018427387904,4611686018427387905"), ("I_big6", "uint64", "9007199254740993,9007199254740992"),
        ("I_many", "int16", ",".join(str(k * 37 - 500) for k in range(30))), ("I_dup", "int", "5,5,6,5"), ("I_neg", "int32", "-1,-2, -3,+4"),
    ]
    for nm, tn, lst in [("I_" + tn, tn, lst) for tn, lst in int_lists.items()] + more_int_lists:
        t = basic(tn)
        fields.append(fld(nm, ["//govalid:enum=" + lst], t))
        lo, hi = int_range(t)
        items = [int(x.strip().replace("_", ""), 0) for x in lst.split(",")]
        cand = set()
        for it in items:
            cand.update({it, it + 1, it - 1})
        cand.update({0, lo, hi})
        values[nm] = [set_int(nm, c) for c in sorted(c for c in cand if lo <= c <= hi)]
    a2, level = named("Level", basic("int"))
    fields.append(fld("L", ["//govalid:enum=1,2,3"], level))
    values["L"] = [set_int("L", c) for c in (0, 1, 2, 3, 4, -1)]
    a3, score = named("Score", basic("float32"))
    for nm, tn, t, lst in (("F_float64", "float64", basic("float64"), "0.5,1,2.25"), ("F_float32", "float32", basic("float32"), "-1.5, 0, 1e3"),
                           # gap-free runs of integers on float fields: membership is not a range test
                           ("F_dense", "float64", basic("float64"), "1,2,3,4,5"), ("F_dense2", "float32", score, "3, 1, 4, 2"),
                           ("F_dense3", "float64", basic("float64"), "-2,-1,0,1,2,3,4,5,6,7")):
        fields.append(fld(nm, ["//govalid:enum=" + lst], t))
        items = [float(x) for x in lst.split(",")]
        bits = float_lattice(tn, items + [x + 0.5 for x in items] + [x + 0.25 for x in items[:3]])
        values[nm] = [(set_f32 if tn == "float32" else set_f64)(nm, b) for b in bits]
    for nm, tn, lst in (("I_dense", "int", "1,2,3,4,5"), ("I_dense2", "uint8", "3, 1, 4, 2"), ("I_dense3", "int64", "-2,-1,0,1,2,3"), ("I_gap", "int", "1,2,3,5,6")):
        fields.append(fld(nm, ["//govalid:enum=" + lst], basic(tn)))
        items = [int(x) for x in lst.split(",")]
        values[nm] = [set_int(nm, c) for c in range(min(items) - 2, max(items) + 3) if c >= 0 or tn != "uint8"]
    maxv = max(len(v) for v in values.values())
    cases = []
    for k in range(maxv):
        cases.append(case([vs[k % len(vs)] for vs in values.values()]))
    cos = [co_marker_scenarios("c05cos", ["enum=ab,abcd,1.2.3.4,12"], "string", basic("string"),
                               lambda p: [set_str(p, v) for v in (b"", b"a", b"ab", b"abc", b"abcd", b"1.2.3.4", b"12", b"abcde")]),
           co_marker_scenarios("c05coi", ["enum=0,3,9"], "int", basic("int16"), lambda p: [set_int(p, z) for z in (-1, 0, 1, 2, 3, 4, 8, 9, 10)])]
    return {"scenarios": [scenario("c05", [struct("T", fields, cases)], aux=[a, a2, a3])] + cos}


FORMAT_MEMBERS = {
    "email": [b"a@b.c", b"first.last+tag@sub-1.example.org", b"x_y@d.co"],
    "url": [b"https://example.com/a?b=c", b"mailto:a@b.c", b"http://[::1]:80/", b"file:/x"],
    "uuid": [b"550e8400-e29b-41d4-a716-446655440000", b"00000000-0000-0000-0000-000000000000", b"FFFFFFFF-FFFF-FFFF-FFFF-FFFFFFFFFFFF"],
    "alpha": [b"", b"abcXYZ", b"z"],
    "numeric": [b"0", b"0123456789", b"42"],
    "ipv4": [b"1.2.3.4", b"255.255.255.255", b"::ffff:1.2.3.4", b"0.0.0.0"],
    "ipv6": [b"::1", b"2001:db8::1", b"fe80::1", b"::"],
}
FORMAT_NONMEMBERS = {
    "email": [b"", b"a@b", b"a..b@c.de", b"a@-b.c", "é@b.c".encode(), b"a@b.c\xff"],
    "url": [b"", b"HTTP://a", b"http://", b"http:// a", b"gopher://a", b"mailto:", b"http://a\x7f"],
    "uuid": [b"", b"550e8400-e29b-61d4-a716-446655440000", b"550e8400e29b41d4a716446655440000", b"550e8400-e29b-41d4-c716-446655440000"],
    "alpha": [b"a1", b" ", "é".encode(), b"a-b", b"\xff"],
    "numeric": [b"", b"1.5", b"-1", b"+1", "１２".encode(), b"1 ", b"0x1"],
    "ipv4": [b"", b"::1", b"1.2.3", b"256.1.1.1", b"1.2.3.4 ", b"01.2.3.4", b"2001:db8::1"],
    "ipv6": [b"", b"1.2.3.4", b"::ffff:1.2.3.4", b":::", b"gggg::1", b"[::1]"],
}


def mutate_bytes(rng, s):
    if not s:
        return bytes([rng.randrange(256)])
    b = bytearray(s)
    b[rng.randrange(len(b))] = rng.randrange(256)
    return bytes(b)


def c06_strings(seed, tier):
    rng = random.Random(seed)
    out = {}
    for m in FORMAT_MEMBERS:
        vals = list(FORMAT_MEMBERS[m]) + list(FORMAT_NONMEMBERS[m])
        for other in FORMAT_MEMBERS:
            vals += FORMAT_MEMBERS[other][:2]
        for s in FORMAT_MEMBERS[m]:
            for _ in range(6 if tier == "quick" else 40):
                vals.append(mutate_bytes(rng, s))
        for _ in range(10 if tier == "quick" else 100):
            vals.append(bytes(rng.randrange(256) for _ in range(rng.randrange(0, 12))))
        out[m] = vals
    return out


def c06(seed, tier):
    strs = c06_strings(seed, tier)
    markers = list(FORMAT_MEMBERS)
    top = [fld("F_" + m, ["//govalid:" + m], basic("string")) for m in markers]
    comb = [fld("C_" + m, ["//govalid:required", "//govalid:" + m, "//govalid:maxlength=30", "//govalid:minlength=1"], basic("string")) for m in markers]
    nm = [fld("N_" + m, ["//govalid:" + m, "//govalid:length=7"], basic("string")) for m in markers]
    inner = [fld("I_" + m, ["//govalid:" + m], basic("string")) for m in markers]
    deep = [fld("D_" + m, ["//govalid:" + m, "//govalid:required"], basic("string")) for m in markers]
    a_alias, astr = alias("Addr", basic("string"))        # an alias IS the type string
    al = [fld("A_" + m, ["//govalid:" + m, "//govalid:required"], astr) for m in markers]
    fields = top + comb + nm + al + [fld("In", [], nested=inner + [fld("Deep", [], nested=deep)])]
    maxv = max(len(v) for v in strs.values())
    cases = []
    for k in range(maxv):
        sets = []
        for m in markers:
            s = strs[m][k % len(strs[m])]
            for p in ("F_", "C_", "N_", "A_"):
                sets.append(set_str(p + m, s))
            sets.append(set_str("In.I_" + m, s))
            sets.append(set_str("In.Deep.D_" + m, s))
        cases.append(case(sets))
    # two fields whose dot-free paths spell the same letters (Up.Link.X / UpLink.X / UpLinkX): each keeps its own check
    st = basic("string")
    hosts = struct("Hosts", [fld("Up", [], nested=[fld("Link", [], nested=[fld("X" + m, ["//govalid:" + m], st) for m in markers])]),
                             fld("UpLink", [], nested=[fld("X" + m, ["//govalid:" + m], st) for m in markers])],
                   [case([set_str(pre + "X" + m, strs[m][(k + off) % len(strs[m])]) for m in markers for pre, off in (("Up.Link.", 0), ("UpLink.", 3))]) for k in range(12)])
    # an inline struct declared with several names, the format marker written on the declaration (the generator applies it to the
    # members of every name; their Path is the open finding D7 and the specification has no entry for them, so the oracle is the
    # directly marked top-level field Ref* holding the same value: per marker, as many entries from the members as from Ref*)
    route = struct("Route", [fld(["Src" + m, "Dst" + m, "Via" + m], ["//govalid:" + m], nested=[fld("Addr", [], st)]) for m in markers] +
                   [fld(nm + m, ["//govalid:" + m], st) for m in markers for nm in ("RefA", "RefB", "RefC")],
                   [case([s_ for m in markers for nm, ref, off in (("Src", "RefA", 0), ("Dst", "RefB", 2), ("Via", "RefC", 5))
                          for s_ in (set_str(nm + m + ".Addr", strs[m][(k + off) % len(strs[m])]), set_str(ref + m, strs[m][(k + off) % len(strs[m])]))]) for k in range(16)])
    covals = [b"", b"a", b"ab", b"abc", b"1.2.3.4", b"12", b"::1", b"a@b.c", b"http://a.b", b"550e8400-e29b-41d4-a716-446655440000", b"abcde"]
    co = co_marker_scenarios("c06co", markers, "string", st, lambda p: [set_str(p, v) for v in covals],
                             sibs=["required", "minlength=2", "enum=ab,abc,1.2.3.4", "numeric"], alias_of_defined=False)
    return {"scenarios": [scenario("c06", [struct("T", fields, cases)], aux=[a_alias]), co], "hosts": {"scenarios": [scenario("c06hosts", [hosts])]}, "route": {"scenarios": [scenario("c06route", [route])]}}


# ----------------------------------------------------------------------------- random structs (C07, C08, C09, C15-C17, C19)

def _str_of_runes(n, unit=b"a"):
    return unit * n


class FieldGen:
    """A field with documented markers and a lattice of values exercising each rule both ways."""

    def __init__(self, rng):
        self.rng = rng
        self.aux = []          # type declarations the generated fields refer to (collected into the scenario by rand_struct's callers)
        self.ntypes = 0

    # ---- dimension mixing: the same rule written / typed in another documented way (each at low probability, so that
    # most structs stay plain while every run still contains several of each variation)
    def intlit(self, n):
        """a non-negative integer in one of Go's literal forms (values by go/constant on the model side)"""
        r = self.rng.random()
        if n < 0 or r > 0.2:
            return str(n)
        return self.rng.choice(["0%o" % n if n else "00", "0x%X" % n, "0b%s" % bin(n)[2:], "0o%o" % n, "%d_0" % (n // 10) if n >= 10 and n % 10 == 0 else str(n)])

    def spell(self, doc):
        """some marker lines in the legacy spelling"""
        return [("// +govalid:" + d[len("//govalid:"):]) if d.startswith("//govalid:") and self.rng.random() < 0.08 else d for d in doc]

    def retype(self, t, kind):
        """the field's type replaced by a named type / an alias over it (a named type behaves like its underlying type)"""
        r = self.rng.random()
        if r > 0.18:
            return t
        NT_COUNTER[0] += 1
        nm = "NT%d" % NT_COUNTER[0]
        if kind == "string" or r < 0.06:
            a, nt = alias(nm, t)
        else:
            a, nt = named(nm, t)
            if self.rng.random() < 0.5:
                a += "\nfunc (x %s) IsZero() bool { return false }\nfunc (x %s) String() string { return \"\" }" % (nm, nm)
        self.aux.append(a)
        return nt

    def numeric(self, name):
        rng = self.rng
        tn = rng.choice(NUMERIC_TYPES)
        t = basic(tn)
        doc = []
        bounds = []
        ops = rng.sample(["gt", "gte", "lt", "lte"], rng.randint(1, 2))
        for op in ops:
            if t["vk"] == "int":
                lo, hi = int_range(t)
                b = rng.choice([0, 1, 3, 10, 100, max(lo, -5), min(hi, 120)])
                doc.append("//govalid:%s=%s" % (op, self.intlit(b)))
                bounds.append(b)
            else:
                b = rng.choice([0.0, 0.5, -2.5, 10.0, 100.0])
                doc.append("//govalid:%s=%s" % (op, repr(b)))
                bounds.append(b)
        if rng.random() < 0.4:
            doc.append("//govalid:required")
            bounds.append(0)
        if rng.random() < 0.2 and t["vk"] == "int":
            doc.append("//govalid:enum=1,2,3")
            bounds += [1, 2, 3]
        if t["vk"] == "int":
            vals = [lambda p, z=z: set_int(p, z) for z in int_lattice(t, [int(b) for b in bounds])]
        elif t["vk"] == "float32":
            vals = [lambda p, z=z: set_f32(p, z) for z in float_lattice("float32", [float(b) for b in bounds])]
        else:
            vals = [lambda p, z=z: set_f64(p, z) for z in float_lattice("float64", [float(b) for b in bounds])]
        return fld(name, self.spell(doc), self.retype(t, "numeric")), vals

    def string(self, name):
        rng = self.rng
        doc = []
        cand = [b"", b"a", b"ab", "é€".encode(), b"\xff\xfe", b"abcdefghijkl"]
        for m in rng.sample(["minlength", "maxlength", "length"], rng.randint(0, 2)):
            n = rng.choice([0, 1, 2, 3, 5, 8])
            doc.append("//govalid:%s=%s" % (m, self.intlit(n)))
            cand += [b"a" * max(0, n - 1), b"a" * n, b"a" * (n + 1), "é".encode() * n]
        if rng.random() < 0.5:
            fm = rng.choice(list(FORMAT_MEMBERS))
            doc.append("//govalid:" + fm)
            cand += FORMAT_MEMBERS[fm][:3] + FORMAT_NONMEMBERS[fm][:3]
        if rng.random() < 0.3:
            doc.append("//govalid:enum=red, green,blue")
            cand += [b"red", b"green", b"Blue", b" green"]
        if rng.random() < 0.4:
            doc.append("//govalid:required")
        if not doc:
            doc.append("//govalid:required")
        return fld(name, self.spell(doc), self.retype(basic("string"), "string")), [lambda p, z=z: set_str(p, z) for z in cand]

    def coll(self, name):
        rng = self.rng
        t = rng.choice([SLICE, SLICE_INT, MAP, MAP_INT, CHAN])
        doc = []
        ns = []
        for m in rng.sample(["minitems", "maxitems"], rng.randint(1, 2)):
            n = rng.choice([0, 1, 2, 4])
            doc.append("//govalid:%s=%s" % (m, self.intlit(n)))
            ns.append(n)
        if rng.random() < 0.4:
            doc.append("//govalid:required")
        vals = [lambda p: set_coll(p, True, 0)] + [lambda p, k=k: set_coll(p, False, k) for k in sorted({0, 1, 2, 3, 5} | set(ns))]
        return fld(name, self.spell(doc), self.retype(t, "coll")), vals

    def nilable(self, name):
        t = self.rng.choice([POINTER, IFACE, ANY, ERROR, FUNC])
        return fld(name, ["//govalid:required"], t), [lambda p: set_nilable(p, True), lambda p: set_nilable(p, False)]

    def boolean(self, name):
        return fld(name, ["//govalid:required"], basic("bool")), [lambda p: set_bool(p, True), lambda p: set_bool(p, False)]

    def plain(self, name):
        t = self.rng.choice([basic("int"), basic("string"), SLICE, basic("bool")])
        return fld(name, [], t), []

    def any(self, name):
        k = self.rng.choices(["numeric", "string", "coll", "nilable", "boolean", "plain"], [4, 4, 2, 1, 1, 1])[0]
        return getattr(self, k)(name)


NT_COUNTER = [0]   # names of generated types: unique within a run, deterministic for a seed
AUX_SINK = []      # type declarations produced by the last rand_struct calls; drained into the scenario by scenario()


def rand_struct(rng, name, nfields, depth, prefix="", counter=None):
    """Returns (fields, [(path, value makers)])"""
    fg = FieldGen(rng)
    counter = counter if counter is not None else [0]
    fields = []
    lattices = []
    for _ in range(nfields):
        counter[0] += 1
        fname = "F%d" % counter[0]
        if rng.random() < 0.1:
            fname = rng.choice(["X_%d", "Ñ%d", "f%d", "Min%dMax", "Err%d", "T%d_", "ctx%d"]) % counter[0]
        fg_aux_before = len(fg.aux)
        if depth > 0 and rng.random() < 0.25:
            sub, sublat = rand_struct(rng, name, rng.randint(1, 3), depth - 1, prefix + fname + ".", counter)
            fields.append(fld(fname, [], nested=sub))
            lattices += sublat
        else:
            f, vals = fg.any(fname)
            if rng.random() < 0.15:
                # `A, B T`: every name is governed by the markers of the declaration
                counter[0] += 1
                second = "F%d" % counter[0]
                f["names"] = [fname, second]
                if vals:
                    lattices.append((prefix + second, vals))
            fields.append(f)
            if vals:
                lattices.append((prefix + fname, vals))
    AUX_SINK.extend(fg.aux)
    return fields, lattices


def cases_from_lattices(rng, lattices, max_cases, exhaustive_bits=0):
    """Each field independently through its lattice; then random combinations."""
    cases = [case([])]
    if not lattices:
        return cases
    base = [vals[-1] for _, vals in lattices]
    # one-field-at-a-time sweep
    for i, (path, vals) in enumerate(lattices):
        for v in vals:
            sets = [b(p) for (p, _), b in zip(lattices, base)]
            sets[i] = v(path)
            cases.append(case(sets))
    # all 2^k subsets of {first, last} choices for the first k fields
    k = min(exhaustive_bits, len(lattices))
    for mask in range(1 << k):
        sets = []
        for i, (path, vals) in enumerate(lattices):
            if i < k:
                sets.append((vals[0] if (mask >> i) & 1 else vals[-1])(path))
            else:
                sets.append(rng.choice(vals)(path))
        cases.append(case(sets))
    while len(cases) < max_cases:
        cases.append(case([rng.choice(vals)(path) for path, vals in lattices]))
    return cases[:max_cases]


def c07(seed, tier):
    rng = random.Random(seed)
    n = 40 if tier == "quick" else 200
    per = 60 if tier == "quick" else 200
    scen = []
    for i in range(n):
        fields, lat = rand_struct(rng, "T", rng.randint(1, 12), 2 if i % 3 == 0 else 0)
        cases = cases_from_lattices(rng, lat, per, exhaustive_bits=min(5, len(lat)))
        cases.append(case([], nil=True))
        gendoc = []
        if i % 3 == 1 and rng.random() < 0.6:
            # struct-level markers on flat structs (they combine with - never replace - the markers of the fields)
            gendoc = rng.choice([["//govalid:required"], ["//govalid:maxlength=50"], ["//govalid:gte=0", "//govalid:required"], ["//govalid:maxlength=2", "//govalid:minitems=1"]])
        scen.append(scenario("c07s%d" % i, [struct("T", fields, cases, gendoc=gendoc)]))
    scen += name_variety("c07n")
    scen += override_shapes("c07")
    scen += deep_siblings("c07")
    scen += checkless_rules("c07")
    scen += unmarked_nested_first("c07")
    scen += known_shapes("c07k")
    return {"scenarios": scen}


def name_variety(prefix):
    """identifiers that stress the naming scheme of error variables and paths: underscores, digits, non-ASCII letters,
    names containing rule names or the generated file's own identifiers, unexported type names"""
    s, i64 = basic("string"), basic("int")
    out = []
    fnames = ["A_b", "X_", "Ñame", "Ünïcode9", "HTTPServer2", "Required", "Validation", "Err", "Errs", "Ctx", "T", "Min", "MaxLen", "GT", "Is", "Value", "Path"]
    fields = []
    for k, nm in enumerate(fnames):
        if k % 2 == 0:
            fields.append(fld(nm, ["//govalid:required", "//govalid:maxlength=3"], s))
        else:
            fields.append(fld(nm, ["//govalid:gt=1", "//govalid:lte=5"], i64))
    bad = case([set_str(nm, b"toolong") if k % 2 == 0 else set_int(nm, 9) for k, nm in enumerate(fnames)])
    good = case([set_str(nm, b"ok") if k % 2 == 0 else set_int(nm, 3) for k, nm in enumerate(fnames)])
    half = case([set_str(nm, b"ok") if k % 4 == 0 else set_str(nm, b"") if k % 2 == 0 else set_int(nm, 1 if k % 3 else 4) for k, nm in enumerate(fnames)])
    for tn in ("Names", "My_Type", "Über", "T9_", "ErrNil", "Validator"):
        out.append(scenario("%s%s" % (prefix, tn.encode().hex()[:10]), [struct(tn, fields, [case([]), bad, good, half, case([], nil=True)])]))
    # an unexported struct type: cannot be driven from another package (no cases), must still generate and compile
    out.append(scenario(prefix + "unexp", [struct("lower", fields[:6], []), struct("under_score", fields[:4], [])]))
    # unexported fields next to exported twins that differ only in the case of the first letter; a name that is a prefix of another
    tw = [fld("login", ["//govalid:required"], s), fld("Login", ["//govalid:required"], s), fld("age", ["//govalid:gt=0"], i64), fld("Age", ["//govalid:gt=17"], i64),
          fld("a", [], nested=[fld("name", ["//govalid:minlength=2"], s)]), fld("A", [], nested=[fld("Name", ["//govalid:minlength=3"], s)]),
          fld("ab", ["//govalid:required"], s), fld("aB", ["//govalid:required"], s)]
    out.append(scenario(prefix + "twin", [struct("Account", tw, [
        case([]), case([set_str("login", b"Bob"), set_int("age", 30), set_int("Age", 30)]), case([set_str("Login", b"bob"), set_int("age", 30), set_int("Age", 30), set_str("ab", b"x")]),
        case([set_str("login", b"Bob"), set_str("Login", b"bob"), set_int("age", 12), set_int("Age", 12), set_str("a.name", b"xy"), set_str("A.Name", b"xy"), set_str("aB", b"x")]),
        case([set_str("login", b"Bob"), set_str("Login", b"bob"), set_int("age", 30), set_int("Age", 30), set_str("a.name", b"x"), set_str("A.Name", b"xyz"), set_str("ab", b"x"), set_str("aB", b"x")])])]))
    # nested with exotic names
    nf = [fld("Out_er", [], nested=[fld("In_ner", ["//govalid:required"], s), fld("Ñ", [], nested=[fld("Deep_1", ["//govalid:minlength=2"], s)])]),
          fld("Z9", ["//govalid:email"], s)]
    out.append(scenario(prefix + "nest", [struct("N_1", nf, [case([]), case([set_str("Out_er.In_ner", b"x"), set_str("Out_er.Ñ.Deep_1", b"ab"), set_str("Z9", b"a@b.cd")]),
                                                        case([set_str("Out_er.Ñ.Deep_1", b"a"), set_str("Z9", b"a@b")])])]))
    return out


def override_shapes(prefix):
    """a struct-level marker, a field in the MIDDLE that repeats it with another parameter, and later fields that rely on the
    struct-level one (a per-field override must not leak to the fields declared after it)"""
    s, i64 = basic("string"), basic("int")
    prof = struct("Profile", [fld("Code", ["//govalid:maxlength=3"], s), fld("Name", [], s), fld("Bio", ["//govalid:required"], s),
                              fld("Level", ["//govalid:gte=0"], i64), fld("Age", [], i64), fld("Rank", [], i64)],
                  [case([set_str("Code", b"abc"), set_str("Name", b"abcdefg"), set_str("Bio", b"hello"), set_int("Level", 20), set_int("Age", 30), set_int("Rank", 18)]),
                   case([set_str("Code", b"abc"), set_str("Name", b"abcdefghijk"), set_str("Bio", b"hello"), set_int("Level", 5), set_int("Age", 5), set_int("Rank", 17)]),
                   case([set_str("Code", b"abcd"), set_str("Name", b"abcd"), set_str("Bio", b""), set_int("Level", -1), set_int("Age", 18), set_int("Rank", 0)]),
                   case([])],
                  gendoc=["//govalid:maxlength=10", "//govalid:gte=18"])
    first = struct("First", [fld("A", ["//govalid:enum=x"], s), fld("B", [], s), fld("C", [], s)],
                   [case([set_str("A", b"x"), set_str("B", b"y"), set_str("C", b"z")]), case([set_str("A", b"y"), set_str("B", b"x"), set_str("C", b"q")]), case([])],
                   gendoc=["//govalid:enum=x,y,z"])
    # the FIRST field repeats parameterless struct-level markers; every later field (each kind of zero value) still gets them
    acct = struct("Account", [fld("ID", ["//govalid:required", "//govalid:maxlength=5"], s), fld("Owner", [], s), fld("Quota", [], i64), fld("Tags", [], SLICE),
                              fld("Parent", [], POINTER), fld("Mid", ["//govalid:required"], i64), fld("Last", [], s)],
                  [case([]), case([set_str("ID", b"abcdef"), set_str("Owner", b"o"), set_int("Quota", 1), set_coll("Tags", False, 0), set_nilable("Parent", False), set_int("Mid", 2), set_str("Last", b"l")]),
                   case([set_str("ID", b"id"), set_str("Owner", b"owner-too-long"), set_coll("Tags", False, 2), set_int("Mid", 0), set_str("Last", b"")]),
                   case([set_str("Owner", b"o"), set_int("Quota", 0), set_nilable("Parent", True), set_str("Last", b"x")])],
                  gendoc=["//govalid:required", "//govalid:maxlength=10"])
    return [scenario(prefix + "ovr", [prof, first, acct])]


def deep_siblings(prefix):
    """inline structs nested eight levels deep with marked sibling structs before and after the descending one at every level
    (whatever the analyzer accumulates along the way down must not be shared between siblings), and a pair of siblings
    whose marked fields have the same name but different rules"""
    s, i64 = basic("string"), basic("int")
    leaves = []       # (path, kind)

    def lvl(k, prefix_):
        if k > 8:
            leaves.append((prefix_ + "Leaf", "req"))
            return [fld("Leaf", ["//govalid:required"], s)]
        leaves.append((prefix_ + "A%d.Xa%d" % (k, k), "req"))
        leaves.append((prefix_ + "B%d.Xb%d" % (k, k), "max3"))
        leaves.append((prefix_ + "V%d" % k, "gt0"))
        down = lvl(k + 1, prefix_ + "L%d." % k)
        return [fld("A%d" % k, [], nested=[fld("Xa%d" % k, ["//govalid:required"], s), fld("Pad", [], i64)]),
                fld("L%d" % k, [], nested=down),
                fld("B%d" % k, [], nested=[fld("Xb%d" % k, ["//govalid:maxlength=3"], s)]),
                fld("V%d" % k, ["//govalid:gt=0"], i64)]
    fields = lvl(1, "")

    def sets(sel):
        out = []
        for i, (pth, kind) in enumerate(leaves):
            good = sel(i)
            if kind == "req":
                out.append(set_str(pth, b"ok" if good else b""))
            elif kind == "max3":
                out.append(set_str(pth, b"abc" if good else b"abcd"))
            else:
                out.append(set_int(pth, 1 if good else 0))
        return out
    cases = [case([]), case(sets(lambda i: True)), case(sets(lambda i: False)), case(sets(lambda i: i % 2 == 0)), case(sets(lambda i: i % 2 == 1)),
             case(sets(lambda i: i % 3 == 0)), case(sets(lambda i: i % 5 != 0))]
    for k in range(len(leaves)):
        cases.append(case(sets(lambda i, k=k: i != k)))
    cfg = struct("Config", [fld("Server", [], nested=[fld("TLS", [], nested=[fld("Certs", [], nested=[
        fld("Primary", [], nested=[fld("File", ["//govalid:required"], s)]),
        fld("Backup", [], nested=[fld("File", ["//govalid:maxlength=8"], s)]),
        fld("Extra", [], nested=[fld("Key", ["//govalid:minlength=2"], s)])])])])],
        [case([set_str("Server.TLS.Certs.Primary.File", a), set_str("Server.TLS.Certs.Backup.File", b), set_str("Server.TLS.Certs.Extra.Key", c)])
         for a in (b"", b"p.pem") for b in (b"", b"b.pem", b"much-too-long.pem") for c in (b"", b"kk")])
    return [scenario(prefix + "deep8", [struct("T", fields, cases), cfg])]


def checkless_rules(prefix):
    """a rule that renders no check (required on an array or on a struct value) next to rules that do, on one field, from the
    struct declaration, and inside an inline struct: the other rules and their entries stay"""
    s, i64 = basic("string"), basic("int")
    a3 = array(3)
    box = struct("Box", [fld("Grid", ["//govalid:required", "//govalid:maxitems=2"], a3), fld("Row", ["//govalid:minitems=4", "//govalid:required"], a3),
                         fld("Name", ["//govalid:required"], s), fld("O", ["//govalid:required"], OTHER_STRUCT),
                         fld("In", [], nested=[fld("Cells", ["//govalid:required", "//govalid:maxitems=1", "//govalid:minitems=5"], a3), fld("K", ["//govalid:gt=0"], i64)])],
                 [case([]), case([set_str("Name", b"n"), set_int("In.K", 1)]), case([set_str("Name", b""), set_int("In.K", 0)])])
    tl = struct("Shelf", [fld("Slots", ["//govalid:maxitems=2"], a3), fld("Tags", ["//govalid:minitems=1"], SLICE), fld("Label", [], s), fld("O", [], OTHER_STRUCT)],
                [case([]), case([set_coll("Tags", False, 1), set_str("Label", b"l")]), case([set_coll("Tags", False, 0)])], gendoc=["//govalid:required"])
    return [scenario(prefix + "nochk", [box, tl], aux=[OTHER_STRUCT_AUX])]


def unmarked_nested_first(prefix):
    """an inline struct WITHOUT markers declared before the first marked field, at the top level and inside a nested struct"""
    s = basic("string")
    acct = struct("Account", [fld("Settings", [], nested=[fld("Theme", [], s)]), fld("Owner", ["//govalid:required"], s)],
                  [case([]), case([set_str("Owner", b"o")])])
    prof = struct("Profile", [fld("ID", ["//govalid:required"], s),
                              fld("Contact", [], nested=[fld("Social", [], nested=[fld("Handle", [], s)]), fld("Email", ["//govalid:email"], s)]),
                              fld("Tail", [], nested=[fld("Empty", [], nested=[fld("X", [], s)]), fld("Deep", [], nested=[fld("Y", ["//govalid:minlength=2"], s)])])],
                  [case([]), case([set_str("ID", b"p"), set_str("Contact.Email", b"not-an-email"), set_str("Tail.Deep.Y", b"ab")]),
                   case([set_str("ID", b"p"), set_str("Contact.Email", b"a@b.cd"), set_str("Tail.Deep.Y", b"a")])])
    return [scenario(prefix + "unf", [acct, prof])]


def known_shapes(prefix):
    """Declarations in the classes of the open known findings (kept in the corpus so that the
    classification itself is exercised on every run)."""
    s = basic("string")
    out = []
    # D7: marker on an inline-struct field is propagated with the outer path
    out.append(scenario(prefix + "d7", [struct("T", [
        fld("Outer", ["//govalid:required"], nested=[fld("Inner", [], s)])],
        [case([]), case([set_str("Outer.Inner", b"x")])])]))
    # D7 again, with the inner fields carrying markers of their own (those must still be checked)
    i64 = basic("int")
    out.append(scenario(prefix + "d7b", [struct("T", [
        fld("Before", ["//govalid:required"], s),
        fld("Customer", ["//govalid:required"], nested=[fld("Name", ["//govalid:maxlength=5"], s), fld("Age", ["//govalid:gte=18"], i64)]),
        fld("After", ["//govalid:required"], s)],
        [case([]), case([set_str("Before", b"b"), set_str("Customer.Name", b"toolongname"), set_int("Customer.Age", 5), set_str("After", b"a")]),
         case([set_str("Before", b"b"), set_str("Customer.Name", b"ok"), set_int("Customer.Age", 30), set_str("After", b"a")])])]))
    # D8: struct-level marker together with a nested struct: duplicate declarations
    out.append(scenario(prefix + "d8", [struct("T", [
        fld("A", [], s), fld("N", [], nested=[fld("X", [], s)])],
        [case([])], gendoc=["//govalid:required"])]))
    # D9: the same field name inside two nested structs: duplicate legacy alias
    out.append(scenario(prefix + "d9", [struct("T", [
        fld("P", [], nested=[fld("Name", ["//govalid:required"], s)]),
        fld("Q", [], nested=[fld("Name", ["//govalid:required"], s)])],
        [case([])])]))
    # D10: A.BC and AB.C share one error variable
    out.append(scenario(prefix + "d10", [struct("J", [
        fld("A", [], nested=[fld("BC", ["//govalid:required"], s)]),
        fld("AB", [], nested=[fld("C", ["//govalid:required"], s)])],
        [case([]), case([set_str("A.BC", b"x")]), case([set_str("AB.C", b"x")]), case([set_str("A.BC", b"x"), set_str("AB.C", b"y")])])]))
    # D20: XMin + length and X + minlength produce the same variable name
    out.append(scenario(prefix + "d20", [struct("T", [
        fld("XMin", ["//govalid:length=2"], s), fld("X", ["//govalid:minlength=1"], s)],
        [case([])])]))
    return out


def c09(seed, tier):
    rng = random.Random(seed)
    s = basic("string")
    i64 = basic("int")
    scen = []
    # struct-level versus per-field placement of the same markers (flat structs)
    marker_sets = [["//govalid:required"], ["//govalid:minlength=2"], ["//govalid:gt=0", "//govalid:required"],
                   ["//govalid:email"], ["//govalid:ipv4"], ["//govalid:maxitems=2"], ["//govalid:enum=a,b"],
                   ["//govalid:required", "//govalid:maxlength=3", "//govalid:alpha"], ["//govalid:uuid", "//govalid:numeric"],
                   ["//govalid:lte=10", "//govalid:minitems=1", "//govalid:length=1"]]
    aux_named, nslice = named("Tags", SLICE)
    types = [("S", s), ("I", i64), ("F", basic("float64")), ("B", basic("bool")), ("Sl", SLICE), ("M", MAP), ("P", POINTER),
             ("Fn", FUNC), ("Ar", array(2)), ("U8", basic("uint8")), ("Tg", nslice), ("C", basic("complex128")), ("O", OTHER_STRUCT)]
    vals = {"S": [b"", b"a", b"abcd", b"a@b.cd", b"1.2.3.4", b"12"], "I": [0, 5, 11, -1], "F": [0.0, 0.5, 11.0], "U8": [0, 3, 200],
            "Sl": [None, 0, 1, 3], "M": [None, 0, 3], "Tg": [None, 0, 3]}

    def mk_cases(prefix=""):
        cs = [case([])]
        for k in range(6):
            sets = []
            for nm, t in types:
                p = prefix + nm
                if nm in ("S",):
                    sets.append(set_str(p, vals["S"][k % len(vals["S"])]))
                elif nm in ("I", "U8"):
                    sets.append(set_int(p, vals[nm][k % len(vals[nm])]))
                elif nm == "F":
                    sets.append(set_f64(p, f64bits(vals["F"][k % 3])))
                elif nm == "B":
                    sets.append(set_bool(p, k % 2 == 0))
                elif nm in ("Sl", "M", "Tg"):
                    v = vals[nm][k % len(vals[nm])]
                    sets.append(set_coll(p, v is None, v or 0))
                elif nm in ("P", "Fn"):
                    sets.append(set_nilable(p, k % 2 == 1))
                elif nm == "C":
                    sets.append(set_complex(p, k % 2 == 0))
            cs.append(case(sets))
        return cs

    for k, ms in enumerate(marker_sets):
        if any("gt=" in m or "lte=" in m for m in ms):
            tl = [x for x in types if x[0] != "C"]          # gt/lte on complex fields: undocumented combination, does not compile
        else:
            tl = types
        if any("enum" in m for m in ms):
            # enum with non-numeric items on numeric fields, or on non-basic types (isCustom): not a documented use, does not compile
            tl = [x for x in tl if x[0] in ("S", "B", "C")]
        cs = mk_cases()
        cs = [case([x for x in c["sets"] if x["path"] in {n for n, _ in tl}]) for c in cs]
        a = struct("A", [fld(nm, [], t) for nm, t in tl], cs, gendoc=ms)
        b = struct("B", [fld(nm, ms, t) for nm, t in tl], cs)
        scen.append(scenario("c09sl%d" % k, [a, b], aux=[aux_named, OTHER_STRUCT_AUX]))
    # multi-name fields, also nested, also struct-level
    scen.append(scenario("c09mn", [
        struct("T", [fld(["A", "B", "C"], ["//govalid:required", "//govalid:minlength=2"], s),
                     fld(["X", "Y"], ["//govalid:gt=1"], i64),
                     fld("N", [], nested=[fld(["P", "Q"], ["//govalid:maxlength=1"], s)])],
               [case([]), case([set_str("A", b"ok"), set_str("B", b""), set_str("C", b"okk"), set_int("X", 5), set_int("Y", 0),
                                set_str("N.P", b"a"), set_str("N.Q", b"toolong")]),
                case([set_str("A", b"ok"), set_str("B", b"ok"), set_str("C", b"o"), set_int("X", 1), set_int("Y", 2), set_str("N.Q", b"")])]),
        struct("U", [fld(["A", "B"], [], s), fld(["K", "L"], [], i64)],
               [case([]), case([set_str("A", b"x"), set_int("L", 3)]), case([set_str("A", b"x"), set_str("B", b"y"), set_int("K", 1), set_int("L", 3)])],
               gendoc=["//govalid:required"])]))
    # type ( ... ) groups mixing struct and non-struct specs, marker-less structs, spec-level markers
    g1 = struct("G1", [fld("A", ["//govalid:required"], s)], [case([]), case([set_str("A", b"x")])])
    g2 = struct("G2", [fld("Z", [], i64)], [])
    g3 = struct("G3", [fld("X", [], s), fld("Y", ["//govalid:minlength=2"], s)], [case([]), case([set_str("X", b"x"), set_str("Y", b"yy")])],
                specdoc=["//govalid:required"])
    g4 = struct("G4", [fld("K", ["//govalid:gt=0"], i64)], [case([]), case([set_int("K", 1)])])
    scen.append(scenario("c09grp", [g1, g2, g3, g4], grouped=True, groupaux=["Mid int", "Fn func()", "Last []string"]))
    # a marker on the group itself governs every struct of the group, whether or not a spec has its own doc comment
    # (plain prose, its own marker, the same marker again with another parameter)
    h1 = struct("H1", [fld("A", [], s), fld("B", ["//govalid:email"], s)], [case([]), case([set_str("A", b"x"), set_str("B", b"a@b.cd")]), case([set_str("B", b"a@b.cd")])],
                specdoc=["// H1 is a registered user."])
    h2 = struct("H2", [fld("A", [], s)], [case([]), case([set_str("A", b"x")])])
    h3 = struct("H3", [fld("A", [], s)], [case([]), case([set_str("A", b"x")]), case([set_str("A", b"toolong")])],
                specdoc=["// H3 has its own marker.", "//govalid:maxlength=3"])
    h4 = struct("H4", [fld("A", [], s), fld("N", [], i64)], [case([]), case([set_str("A", b"x"), set_int("N", 1)])], specdoc=["//govalid:required"])
    scen.append(scenario("c09grpdoc", [h1, h2, h3, h4], grouped=True, groupaux=["Mid2 int"], groupdoc=["// group comment", "//govalid:required"]))
    k1 = struct("K1", [fld("A", [], s)], [case([]), case([set_str("A", b"abcd")]), case([set_str("A", b"ab")])], specdoc=["//govalid:minlength=3"])
    k2 = struct("K2", [fld("A", [], s)], [case([]), case([set_str("A", b"abcd")]), case([set_str("A", b"ab")])], specdoc=["// prose only"])
    scen.append(scenario("c09grpdoc2", [k1, k2], grouped=True, groupdoc=["//govalid:minlength=1", "//govalid:maxlength=3"]))
    # the same marker on the struct declaration AND on a field, with different parameters: both rules govern the field
    scen.append(scenario("c09same", [
        struct("Account", [fld("Code", [], s), fld("Name", ["//govalid:maxlength=10"], s), fld("Age", [], i64), fld("Level", ["//govalid:gte=0"], i64),
                           fld("Nick", ["//govalid:maxlength=2", "//govalid:minlength=1"], s)],
               [case([]), case([set_str("Code", b"abc"), set_str("Name", b"1234567"), set_int("Age", 30), set_int("Level", 30), set_str("Nick", b"ab")]),
                case([set_str("Code", b"abc"), set_str("Name", b"abc"), set_int("Age", 30), set_int("Level", 7), set_str("Nick", b"a")]),
                case([set_str("Code", b"abcdefg"), set_str("Name", b"12345678901"), set_int("Age", 3), set_int("Level", -1), set_str("Nick", b"abc")]),
                case([set_str("Code", b"abc"), set_str("Name", b"abc"), set_int("Age", 18), set_int("Level", 18), set_str("Nick", b"ab")])],
               gendoc=["//govalid:maxlength=5", "//govalid:gte=18"]),
        struct("Both", [fld("A", ["//govalid:required", "//govalid:enum=x,y"], s), fld("B", ["//govalid:enum=q"], s), fld("C", [], s)],
               [case([]), case([set_str("A", b"x"), set_str("B", b"q"), set_str("C", b"x")]), case([set_str("A", b"x"), set_str("B", b"x"), set_str("C", b"q")]),
                case([set_str("A", b"y"), set_str("B", b"q"), set_str("C", b"y")])],
               gendoc=["//govalid:enum=x,y,q", "//govalid:required"])]))
    scen += override_shapes("c09")
    scen += deep_siblings("c09")
    scen += checkless_rules("c09")
    # a marked struct followed, in the same group, by a struct without rules whose name differs only in case (both map to one
    # output name; nothing is generated for the second, the file of the first stays)
    scen.append(scenario("c09case", [struct("Account", [fld("Owner", ["//govalid:required"], s), fld("Balance", ["//govalid:gte=0"], i64)],
                                            [case([]), case([set_str("Owner", b"bob"), set_int("Balance", -1)]), case([set_str("Owner", b"bob"), set_int("Balance", 3)])]),
                                     struct("User", [fld("Name", ["//govalid:required"], s)], [case([]), case([set_str("Name", b"u")])])],
                         grouped=True, groupaux=["account struct {\n\t\towner   string\n\t\tbalance int\n\t}", "uSER struct {\n\t\t//govalid:bogus\n\t\tName string\n\t}"]))
    scen += unmarked_nested_first("c09")
    # embedded fields
    scen.append(scenario("c09emb", [
        struct("T", [fld([], [], T("Base", "TNamed TStructT", "opaque")), fld("A", [], s), fld([], ["//govalid:required"], T("*Base2", "TPointer", "nilable"))],
               [case([]), case([set_str("A", b"x")])], gendoc=["//govalid:required"])],
        aux=["type Base struct{ ID int }", "type Base2 struct{ K int }"]))
    # fields before/after nested structs, deep nesting, many fields
    many = [fld("F%d" % k, ["//govalid:required"] + (["//govalid:minlength=2"] if k % 7 == 0 else []), s) for k in range(100)]
    scen.append(scenario("c09many", [struct("T", many, [case([]), case([set_str("F%d" % k, b"ab" if k % 2 else b"a") for k in range(100)])])]))
    deep = [fld("A", ["//govalid:required"], s),
            fld("N", [], nested=[fld("B", ["//govalid:required"], s),
                                 fld("M", [], nested=[fld("C", ["//govalid:gt=2", "//govalid:lte=9"], i64), fld("D", ["//govalid:email"], s)]),
                                 fld("E", ["//govalid:maxitems=1"], SLICE)]),
            fld("Z", ["//govalid:required"], s)]
    scen.append(scenario("c09deep", [struct("T", deep, [
        case([]), case([set_str("A", b"a"), set_str("N.B", b"b"), set_int("N.M.C", 5), set_str("N.M.D", b"a@b.cd"), set_coll("N.E", False, 1), set_str("Z", b"z")]),
        case([set_str("A", b"a"), set_int("N.M.C", 10), set_str("N.M.D", b"nope"), set_coll("N.E", False, 2)])])]))
    for i in range(10 if tier == "quick" else 60):
        fields, lat = rand_struct(rng, "T", rng.randint(2, 8), 2)
        scen.append(scenario("c09r%d" % i, [struct("T", fields, cases_from_lattices(rng, lat, 25, 3))]))
    scen += known_shapes("c09k")
    return {"scenarios": scen}


def c08(seed, tier):
    rng = random.Random(seed)
    scen = []
    n = 30 if tier == "quick" else 150
    for i in range(n):
        structs = []
        nst = rng.randint(1, 3)
        for k in range(nst):
            fields, lat = rand_struct(rng, "T%d" % k, rng.randint(1, 40 if i % 5 == 0 else 10), rng.choice([0, 0, 1, 3]))
            # repeated leaf names are avoided by construction (unique counters); struct-level markers only on flat structs
            gendoc = []
            if rng.random() < 0.3 and not any("nested" in f for f in fields):
                gendoc = rng.choice([["//govalid:required"], ["//govalid:maxlength=50"], ["//govalid:gte=0", "//govalid:required"]])
                # struct-level numeric markers: only when every field is an integer/float/string... (complex excluded by construction)
            structs.append(struct("T%d" % k, fields, cases_from_lattices(rng, lat, 6, 2), gendoc=gendoc, file=rng.choice(["x", "y"])))
        scen.append(scenario("c08s%d" % i, structs))
    # parameters needing escaping
    s = basic("string")
    scen.append(scenario("c08esc", [struct("T", [
        fld("A", ['//govalid:enum=a"b,c\\d, e f'], s), fld("B", ["//govalid:enum=`,'"], s)],
        [case([]), case([set_str("A", b'a"b'), set_str("B", b"`")]), case([set_str("A", b"c\\d"), set_str("B", b"'")])])]))
    scen += name_variety("c08n")
    scen += unmarked_nested_first("c08")
    # source file names related to the type names (output files are derived from both), several structs per file
    s_ = basic("string")
    one = lambda nm, fl: struct(nm, [fld("A", ["//govalid:required"], s_)], [case([]), case([set_str("A", b"x")])], file=fl)
    scen.append(scenario("c08files", [one("Order", "order"), one("OrderItem", "order"), one("Item", "order"), one("Orders", "order"),
                                      one("Ab", "a_b"), one("AB", "a"), one("B", "a"), one("Validator", "validator"), one("V", "x.y"), one("Upper", "UPPER"),
                                      one("Model", "model"), one("ModelModel", "model"), one("Tt", "t"), one("T", "t")]))
    scen += known_shapes("c08k")
    return {"scenarios": scen}


def with_ctx_flips(cases, maxk):
    """For every value: the undisturbed run, then a context turning done at its k-th Err() call, k = 0..maxk,
    for Canceled and DeadlineExceeded."""
    out = []
    for c in cases:
        out.append(case(c["sets"], nil=c.get("nil", False)))
        for k in range(maxk + 1):
            out.append(case(c["sets"], nil=c.get("nil", False), flip=k, err="canceled" if k % 2 == 0 else "deadline"))
            if k in (0, 1, maxk):
                out.append(case(c["sets"], nil=c.get("nil", False), flip=k, err="deadline" if k % 2 == 0 else "canceled"))
    return out


def c15(seed, tier):
    rng = random.Random(seed)
    s = basic("string")
    i64 = basic("int")
    scen = []
    shapes = []
    # flat
    shapes.append(("flat", [fld("A", ["//govalid:required"], s), fld("B", ["//govalid:gt=1", "//govalid:lte=5"], i64),
                            fld("C", ["//govalid:email"], s)], []))
    # fields without checks in between, first and last
    shapes.append(("gaps", [fld("P0", [], s), fld("A", ["//govalid:required"], s), fld("P1", [], i64), fld("P2", [], SLICE),
                            fld("B", ["//govalid:minitems=1"], SLICE), fld("P3", [], s)], []))
    # nested two levels
    shapes.append(("nested", [fld("A", ["//govalid:required"], s),
                              fld("N", [], nested=[fld("X", ["//govalid:minlength=2"], s), fld("Q", [], i64),
                                                   fld("M", [], nested=[fld("Y", ["//govalid:gte=0"], i64), fld("Z", ["//govalid:uuid"], s)])]),
                              fld("T", ["//govalid:ipv4"], s)], []))
    # struct-level markers
    shapes.append(("slevel", [fld("A", [], s), fld("B", ["//govalid:maxlength=3"], s), fld("K", [], i64), fld("L", [], SLICE)], ["//govalid:required"]))
    # multi-name declarations: one cancellation point per validated field
    shapes.append(("multi", [fld("ID", ["//govalid:required"], s), fld(["First", "Second", "Third"], ["//govalid:required"], s),
                             fld(["X", "Y"], ["//govalid:gt=0"], i64)], []))
    # a single field; a required on a type with an empty condition (no check but a validator)
    shapes.append(("one", [fld("A", ["//govalid:required"], s)], []))
    shapes.append(("emptycond", [fld("O", ["//govalid:required"], OTHER_STRUCT), fld("A", ["//govalid:required"], s)], []))
    # markers inside the element struct of a slice / array / map / pointer type (ignored by the generator: finding D37); whatever
    # the generator does with them, the context contract must hold; the collection is the last validated field
    ELEMS = T("[]struct {\n\t\t//govalid:required\n\t\tSKU string\n\t}", "TSlice", "coll")
    ELEMP = T("*struct {\n\t\t//govalid:required\n\t\tK string\n\t}", "TPointer", "nilable")
    shapes.append(("elems", [fld("A", ["//govalid:required"], s), fld("P", [], ELEMP), fld("Lines", ["//govalid:minitems=1"], ELEMS)], []))
    shapes.append(("elems2", [fld("A", ["//govalid:required"], s), fld("Lines", [], ELEMS)], []))
    for nm, fields, gendoc in shapes:
        lat = []

        def walk(fs, prefix):
            for f in fs:
                if "nested" in f:
                    walk(f["nested"], prefix + f["names"][0] + ".")
                else:
                    lat.append((prefix + f["names"][0], f))
        walk(fields, "")
        valid, invalid = [], []
        for p, f in lat:
            vk = f["type"]["vk"]
            if vk == "string":
                good = {"A": b"ok", "B": b"ab", "C": b"a@b.cd", "X": b"abc", "Z": b"550e8400-e29b-41d4-a716-446655440000", "T": b"1.2.3.4"}.get(f["names"][0], b"x")
                valid.append(set_str(p, good))
                invalid.append(set_str(p, b""))
            elif vk == "int":
                valid.append(set_int(p, 3))
                invalid.append(set_int(p, -9))
            elif vk == "coll":
                valid.append(set_coll(p, False, 4 if nm.startswith("elems") else 1))
                invalid.append(set_coll(p, True, 0))
        nf = len(lat) + (4 if nm.startswith("elems") else 0)
        base = [case(valid), case(invalid), case([x if i % 2 else y for i, (x, y) in enumerate(zip(valid, invalid))])]
        cases = with_ctx_flips(base, nf + 3)
        cases.append(case([], nil=True, flip=0))
        cases.append(case([], nil=True))
        aux = [OTHER_STRUCT_AUX] if nm == "emptycond" else []
        scen.append(scenario("c15" + nm, [struct("T", fields, cases, gendoc=gendoc)], aux=aux))
    # a validated struct embedded (by value, by pointer) in another validated struct: the outer type has its own four entry
    # points although the embedded one promotes equally named methods (also when its validator file already exists)
    audit = struct("Audit", [fld("CreatedBy", ["//govalid:required"], s)], with_ctx_flips([case([]), case([set_str("CreatedBy", b"ops")])], 3))
    obase = [case([set_int("Quantity", 0), set_str("Note", b"")]), case([set_int("Quantity", 2), set_str("Note", b"n")]), case([set_int("Quantity", 0), set_str("Note", b"n")])]
    order = struct("Order", [fld([], [], T("Audit", "TNamed TStructT", "opaque")), fld("Quantity", ["//govalid:gt=0"], i64), fld("Note", ["//govalid:required"], s)],
                   with_ctx_flips(obase, 5) + [case([], nil=True, flip=0), case([], nil=True)], file="y")
    ship = struct("Ship", [fld("Quantity", ["//govalid:gt=0"], i64), fld([], [], T("*Audit", "TPointer", "nilable")), fld("Note", ["//govalid:required"], s)],
                  with_ctx_flips(obase, 5), file="z")
    scen.append(scenario("c15embed", [audit, order, ship]))
    for i in range(6 if tier == "quick" else 40):
        fields, lat = rand_struct(rng, "T", rng.randint(1, 8), 2 if i % 2 else 0)
        base = cases_from_lattices(rng, lat, 4, 0)
        scen.append(scenario("c15r%d" % i, [struct("T", fields, with_ctx_flips(base, len(lat) + 3))]))
    return {"scenarios": scen}


def c17(seed, tier):
    """adversarial lattice for every field type used by the C01-C09 scenarios"""
    rng = random.Random(seed)
    s = basic("string")
    fields = []
    lat = []
    big = [b"", b"\x00", b"\xff" * 7, b"a" * 300, "é".encode() * 200, b"a@" + b"b" * 70 + b".c", b"http://" + b"\xff" * 50,
           b"-" * 36, b"0" * 36, b"::::::::", b"1." * 100, b"@" * 64, b"." * 255, b"a" * 64 + b"@" + b"b." * 120 + b"c"]
    for m in FORMAT_MEMBERS:
        fields.append(fld("S_" + m, ["//govalid:" + m, "//govalid:required", "//govalid:maxlength=10"], s))
        lat.append(("S_" + m, [lambda p, z=z: set_str(p, z) for z in big + FORMAT_MEMBERS[m] + FORMAT_NONMEMBERS[m]]))
    fields.append(fld("S_enum", ['//govalid:enum=a,b"c, \\'], s))
    lat.append(("S_enum", [lambda p, z=z: set_str(p, z) for z in big[:6] + [b'b"c', b"\\"]]))
    for tn in NUMERIC_TYPES:
        t = basic(tn)
        fields.append(fld("N_" + tn, ["//govalid:gt=0", "//govalid:lte=100", "//govalid:required", "//govalid:enum=1,2"], t))
        if t["vk"] == "int":
            lat.append(("N_" + tn, [lambda p, z=z: set_int(p, z) for z in int_lattice(t, [0, 100])]))
        elif t["vk"] == "float32":
            lat.append(("N_" + tn, [lambda p, z=z: set_f32(p, z) for z in F32_SPECIAL]))
        else:
            lat.append(("N_" + tn, [lambda p, z=z: set_f64(p, z) for z in F64_SPECIAL]))
    for nm, t in (("C_sl", SLICE), ("C_mp", MAP), ("C_ch", CHAN)):
        fields.append(fld(nm, ["//govalid:minitems=1", "//govalid:maxitems=2", "//govalid:required"], t))
        lat.append((nm, [lambda p: set_coll(p, True, 0), lambda p: set_coll(p, False, 0), lambda p: set_coll(p, False, 3), lambda p: set_coll(p, False, 1000)]))
    for nm, t in (("P_ptr", POINTER), ("P_if", IFACE), ("P_fn", FUNC), ("P_err", ERROR)):
        fields.append(fld(nm, ["//govalid:required"], t))
        lat.append((nm, [lambda p: set_nilable(p, True), lambda p: set_nilable(p, False)]))
    fields.append(fld("A_arr", ["//govalid:required", "//govalid:minitems=5"], array(3)))
    fields.append(fld("Cx", ["//govalid:required"], basic("complex128")))
    lat.append(("Cx", [lambda p: set_complex(p, True), lambda p: set_complex(p, False)]))
    top = struct("T", fields, cases_from_lattices(rng, lat, 120 if tier == "quick" else 600, 6) + [case([], nil=True)])
    nested_fields = [fld("In", [], nested=[fld("Deep", [], nested=fields)])]
    nlat = [("In.Deep." + p, v) for p, v in lat]
    nested = struct("U", nested_fields, cases_from_lattices(rng, nlat, 60 if tier == "quick" else 300, 4) + [case([], nil=True)])
    return {"scenarios": [scenario("c17", [top, nested])]}


def c17_huge():
    """1 MiB strings: run by the compiled code only (too large to ship to the model as terms)"""
    s = basic("string")
    fields = []
    sets_list = []
    huge = [b"a" * (1 << 20), b"\xff" * (1 << 20), "é".encode() * (1 << 19), b"a@" + b"b" * (1 << 20), b"http://" + b"a" * (1 << 20),
            b"1" * (1 << 20), b"." * (1 << 20)]
    for m in FORMAT_MEMBERS:
        fields.append(fld("S_" + m, ["//govalid:" + m, "//govalid:minlength=2", "//govalid:maxlength=10", "//govalid:length=5"], s))
    cases = []
    for h in huge:
        cases.append(case([set_str("S_" + m, h) for m in FORMAT_MEMBERS]))
    return {"scenarios": [scenario("c17huge", [struct("T", fields, cases)])]}
