"""Known-finding classification for the generator family (classes = bits of Gen/Guard.v kf_mask)."""
BITS = {"kf_nested_field_marker": 1, "kf_structlevel_with_nested": 2, "kf_duplicate_names": 4, "kf_shared_errvar": 8}


def make_classifier(res, prop, findings):
    """findings: open entries of known_findings.json for this property, each with class + observable."""
    def classify(gr, m, r, sc, st):
        if not r["kf"]:
            return False
        if not r["cert"] or r["mm"] or m["problems"]:
            return False            # the generator no longer behaves as the (defect-including) model: report normally
        pkg_broken = m["pkg"] in getattr(gr, "bad_pkgs", set())
        kind = "compile-error" if pkg_broken else ("spec-violation" if r["ms"] else None)
        if kind is None:
            return False
        for f in findings:
            bit = BITS.get(f.get("class"), 0)
            if bit and (r["kf"] & bit) and f.get("observable") == kind:
                res.known("%s %s: %s (struct %s)" % (f["id"], f["class"], f["what"], m["key"]))
                return True
        return False
    return classify


def lowercase_collision(res, prop, findings):
    """D36: the output file is <source>_<lower-cased type>_validator.go, so two structs of one source file whose names
    differ only in case are written to the same file and the first one silently gets no validator.  Control: the same two
    structs in different source files must both be generated."""
    import os
    import genfam
    from synth import basic, fld, scenario, struct
    s, i = basic("string"), basic("int")
    both = scenario("kfcase", [struct("User", [fld("Name", ["//govalid:required"], s)], [], file="x"),
                               struct("user", [fld("age", ["//govalid:gt=3"], i)], [], file="x")])
    apart = scenario("kfcasectl", [struct("User", [fld("Name", ["//govalid:required"], s)], [], file="x"),
                                   struct("user", [fld("age", ["//govalid:gt=3"], i)], [], file="y")])
    gr = genfam.GenRun(res, {"scenarios": [both, apart]}, "kfcase")
    if not gr.generate() or gr.gen_status != 0:
        res.violation({"kind": "generation-failed", "what": "govalid failed on two structs whose names differ only in case", "log_tail": getattr(gr, "gen_log", "")[-1500:]})
        return

    def defines(pkg, fn):
        d = os.path.join(gr.moddir, pkg)
        return any(("func %s(" % fn) in open(os.path.join(d, f)).read() for f in os.listdir(d) if f.endswith("_validator.go"))
    ctl_ok = defines("kfcasectl", "ValidateUser") and defines("kfcasectl", "Validateuser")
    if not ctl_ok:
        res.violation({"kind": "spec-violation", "what": "structs User (x.go) and user (y.go) of one package: a validator is missing",
                       "files": sorted(os.listdir(os.path.join(gr.moddir, "kfcasectl")))})
    got_upper, got_lower = defines("kfcase", "ValidateUser"), defines("kfcase", "Validateuser")
    res.coverage["lowercase_collision"] = {"same_file": {"ValidateUser": got_upper, "Validateuser": got_lower}, "different_files_ok": ctl_ok}
    if got_upper and got_lower:
        return
    hit = [f for f in findings if f.get("class") == "kf_lowercase_file_collision"]
    what = ("type User and type user in one source file: both map to x_user_validator.go; generated: ValidateUser=%s Validateuser=%s"
            % (got_upper, got_lower))
    if hit and (got_upper != got_lower):
        res.known("%s %s: %s" % (hit[0]["id"], hit[0]["class"], hit[0]["what"]))
    else:
        res.violation({"kind": "spec-violation", "what": what, "files": sorted(os.listdir(os.path.join(gr.moddir, "kfcase")))})


def element_struct_markers(res, prop, findings):
    """D37: markers written on the fields of an anonymous struct that is the ELEMENT type of a slice / array / map, or the
    pointee of a pointer, are collected by nobody: the written rule is silently ignored."""
    import genfam
    from synth import T, basic, case, fld, scenario, set_coll, set_str, struct
    s = basic("string")
    elems = T("[]struct {\n\t\t//govalid:required\n\t\tSKU string\n\t}", "TSlice", "coll")
    st = struct("Order", [fld("Customer", ["//govalid:required"], s), fld("Lines", [], elems)],
                [case([set_str("Customer", b"c"), set_coll("Lines", False, 2)]), case([set_str("Customer", b"c"), set_coll("Lines", False, 0)])])
    gr = genfam.GenRun(res, {"scenarios": [scenario("kfelem", [st])]}, "kfelem")
    if not gr.generate() or gr.gen_status != 0:
        res.violation({"kind": "generation-failed", "what": "govalid failed on a struct with a slice of anonymous structs", "log_tail": getattr(gr, "gen_log", "")[-1500:]})
        return
    gr.translate()
    ok, errs = gr.go_vet_build()
    if not ok:
        res.violation({"kind": "compile-error", "what": "the code generated for a struct with a slice of anonymous structs does not compile", "compiler": str(errs)[:1500]})
        return
    obs = gr.drive()
    if obs is None:
        return
    with_zero_elements = obs.get("kfelem/Order/0", {}).get("VT")
    empty = obs.get("kfelem/Order/1", {}).get("VT")
    res.coverage["element_struct_markers"] = {"two_zero_elements": with_zero_elements, "no_elements": empty}
    if empty != "nil":
        res.violation({"kind": "spec-violation", "what": "a valid Order (no lines) is rejected", "observed": empty})
    if with_zero_elements == "nil":
        hit = [f for f in findings if f.get("class") == "kf_marker_in_element_struct"]
        if hit:
            res.known("%s %s: %s" % (hit[0]["id"], hit[0]["class"], hit[0]["what"]))
        else:
            res.violation({"kind": "spec-violation", "what": "Lines []struct{ //govalid:required SKU string } with two zero elements is accepted: the written rule is never checked",
                           "source": open(gr.meta[0]["file"]).read()[:3000] if gr.meta and gr.meta[0].get("file") else None})
