"""Known-finding classification for the generator family (classes = bits of Gen/Guard.v kf_mask)."""
BITS = {"kf_nested_field_marker": 1, "kf_structlevel_with_nested": 2, "kf_duplicate_names": 4, "kf_shared_errvar": 8}


def make_classifier(res, prop, findings):
    """findings: open entries of known_findings.json for this property, each with class + observable."""
    def classify(gr, m, r, sc, st):
        if not r["kf"]:
            return False
        if not r["cert"] or r["mm"] or m["problems"]:
            return False            # the generator no longer behaves as the (defect-including) model: report normally
        pkg_broken = m["pkg"] in getattr(gr, "bad_pkgs", set())
        kind = "compile-error" if pkg_broken else ("spec-violation" if r["ms"] else None)
        if kind is None:
            return False
        for f in findings:
            bit = BITS.get(f.get("class"), 0)
            if bit and (r["kf"] & bit) and f.get("observable") == kind:
                res.known("%s %s: %s (struct %s)" % (f["id"], f["class"], f["what"], m["key"]))
                return True
        return False
    return classify
