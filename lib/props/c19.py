"""C19 — zero heap allocations on the valid path. Theorems: Properties/C19.v (no allocation site is reached
when no rule fails); the part the model cannot exhibit (escape analysis, stdlib internals) is measured."""
import corpora
import genprop


def alloc_check(res, gr, results):
    n = valid = 0
    for m in gr.meta:
        if not m["generated"] or m["pkg"] in gr.bad_pkgs:
            continue
        sc, st = genprop.find_struct(gr, m["key"])
        r = results[m["index"]]
        for j, cs in enumerate(st["cases"]):
            o = gr.obs.get("%s/%d" % (m["key"], j))
            if o is None or "allocs" not in o:
                continue
            n += 1
            if o["V"] != "nil":
                continue
            valid += 1
            a = [int(x) for x in o["allocs"].split(",")]
            model = r["allocs"][j] if j < len(r["allocs"]) else None
            if any(a) or (model not in (0, None)):
                res.violation({"kind": "spec-violation", "struct": m["key"], "case_index": j, "case": cs,
                               "source": genprop.struct_source(gr, m["key"]),
                               "allocs_method_function_context": a, "model_allocation_sites_reached": model,
                               "what": "validating a value that satisfies all of its rules allocates "
                                       "(testing.AllocsPerRun for Validate(), Validate<T>(t), Validate<T>Context(Background, t))"})
                return
    res.coverage["alloc_measurements"] = n
    res.coverage["valid_values_measured"] = valid


def helpers_alloc_free(res):
    """the runtime recognizers on every ACCEPTED string of the C11-C13 / alpha / numeric corpora: zero mallocs"""
    import subprocess
    import recog
    from vlib import go_build
    exe, err = go_build("./cmd/helperalloc", "helperalloc")
    if exe is None:
        res.violation({"kind": "correspondence-break", "what": "cannot build the allocation probe against /repo", "log_tail": err[-2000:]}, found_input=False)
        return
    out = {}
    for fn, fam in (("IsValidEmail", "email"), ("IsValidURL", "url"), ("IsValidUUID", "uuid"), ("IsValidAlpha", "alnum"), ("IsNumeric", "alnum")):
        path = recog.gen_inputs(fam, res.seed, "quick", name="c19_" + fam)
        with open(path) as fi:
            p = subprocess.run([exe, fn], stdin=fi, stdout=subprocess.PIPE, stderr=subprocess.PIPE, text=True)
        if p.returncode != 0:
            raise RuntimeError("helperalloc failed: " + p.stderr[-1000:])
        lines = p.stdout.splitlines()
        _, n, acc, total = lines[0].split()
        out[fn] = {"inputs": int(n), "accepted_and_measured": int(acc), "mallocs": int(total)}
        for l in lines[1:4]:
            _, h, k = l.split()
            res.violation({"kind": "spec-violation", "function": fn, "input_hex": h, "input_repr": repr(recog.unhex(h))[:200], "allocs_per_call": int(k),
                           "what": "the recognizer allocates on a string it accepts, so validating a valid value of a field with this marker allocates"})
    res.coverage["helper_allocations"] = out


def check(res):
    helpers_alloc_free(res)
    merged = {"scenarios": []}
    for f in (corpora.c01, corpora.c02, corpora.c03, corpora.c04, corpora.c05, corpora.c06):
        c = f(res.seed, "quick")
        for sc in c["scenarios"]:
            for st in sc["structs"]:
                # keep a spread of cases; validity is decided by the observed result
                if len(st["cases"]) > 40 and res.tier == "quick":
                    step = len(st["cases"]) // 40 + 1
                    st["cases"] = st["cases"][::step]
        merged["scenarios"] += c["scenarios"] if res.tier == "thorough" else c["scenarios"][:: (3 if f is corpora.c01 else 1)]
    c7 = corpora.c07(res.seed, "quick")
    merged["scenarios"] += [s for s in c7["scenarios"] if not s["id"].startswith("c07k")][:12]
    merged["scenarios"] += valid_sizes()
    genprop.run(res, "C19", PROPFILE, merged, allocs=True, spec=False, extra=lambda gr, r: alloc_check(res, gr, r))


def valid_sizes():
    """satisfying values of different sizes: short/long strings, small/large collections"""
    from synth import basic, case, fld, scenario, set_coll, set_str, struct, SLICE, MAP, CHAN
    s = basic("string")
    fields = [fld("Em", ["//govalid:email", "//govalid:required"], s), fld("Ur", ["//govalid:url"], s), fld("Uu", ["//govalid:uuid"], s),
              fld("Al", ["//govalid:alpha", "//govalid:minlength=1"], s), fld("Nu", ["//govalid:numeric", "//govalid:maxlength=5000"], s),
              fld("I4", ["//govalid:ipv4"], s), fld("I6", ["//govalid:ipv6"], s),
              fld("Sl", ["//govalid:minitems=1", "//govalid:maxitems=100000"], SLICE), fld("Mp", ["//govalid:minitems=1"], MAP),
              fld("Ch", ["//govalid:maxitems=5000", "//govalid:required"], CHAN),
              fld("E9", ["//govalid:enum=a,b,c,d,e,f,g,h,i"], s), fld("E12", ["//govalid:enum=red,green,blue,cyan,magenta,yellow,black,white,grey,pink,teal,navy"], s),
              fld("E2", ["//govalid:enum=on,off"], s), fld("Ui", ["//govalid:uuid", "//govalid:length=36"], s)]
    cases = []
    for k in (1, 30, 60):
        cases.append(case([
            set_str("Em", b"a" * k + b"@" + b"b" * k + b".cd"), set_str("Ur", b"https://" + b"h" * k * 50), set_str("Uu", b"550e8400-e29b-41d4-a716-446655440000"),
            set_str("Al", b"x" * k * 50), set_str("Nu", b"7" * k * 50), set_str("I4", b"10.%d.3.4" % k), set_str("I6", b"2001:db8::%x" % k),
            set_coll("Sl", False, k * 100), set_coll("Mp", False, k), set_coll("Ch", False, k * 10),
            set_str("E9", b"i" if k == 1 else b"a"), set_str("E12", b"navy" if k == 30 else b"red"), set_str("E2", b"off"),
            set_str("Ui", [b"550E8400-E29B-41D4-A716-446655440000", b"550e8400-E29b-41D4-a716-44665544AbCd", b"FFFFFFFF-FFFF-FFFF-FFFF-FFFFFFFFFFFF"][{1: 1, 30: 0, 60: 2}[k]])]))
    return [scenario("c19sizes", [struct("T", fields, cases)])]


PROPFILE = "theories/Properties/C19.v"
replay = genprop.replay
