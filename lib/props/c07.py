"""C07 — the validation report is exact. Theorems: Properties/C07.v."""
import corpora
import genprop
import kf
from vlib import known_findings


def unhex(h):
    return b"" if h == "-" else bytes.fromhex(h)


def check_errors_is(res, gr, results):
    """errors.Is(err, S) for every exported sentinel S, directly and through %w, against the report itself."""
    checked = 0
    for m in gr.meta:
        if not m["generated"] or m["pkg"] in gr.bad_pkgs:
            continue
        pts = m.get("sentinel_pt") or []
        sc, st = genprop.find_struct(gr, m["key"])
        for j in range(len(st["cases"])):
            o = gr.obs.get("%s/%d" % (m["key"], j))
            if not o:
                continue
            entries = set()
            if o["VT"].startswith("R:"):
                for part in o["VT"][2:].split(";"):
                    p, t, _ = part.split(",")
                    entries.add((unhex(p), unhex(t)))
            want = "".join("1" if (p.encode(), t.encode()) in entries else "0" for p, t in pts) or "-"
            if o["VT"] == "nil":
                want = "-"
            if o.get("self") not in ("-", "1"):
                res.violation({"kind": "spec-violation", "struct": m["key"], "case_index": j, "case": st["cases"][j],
                               "what": "errors.Is(err, e) is false (or panics) for an entry e taken from the report err itself, i.e. a target that carries a Value: got " + str(o.get("self")),
                               "observed": o["VT"]})
                return
            for which in ("is", "wis", "isv"):
                checked += 1
                if o[which] != want and not (o["VT"].startswith("E:") and set(o[which]) <= {"0", "-"}):
                    res.violation({"kind": "spec-violation", "struct": m["key"], "case_index": j, "case": st["cases"][j],
                                   "what": "errors.Is over the exported sentinels (%s) disagrees with the report: got %s, the report implies %s"
                                           % ({"wis": "wrapped with %w", "isv": "against copies of the sentinels that carry a Value", "is": "direct"}[which], o[which], want),
                                   "sentinels": m["sentinels"], "observed": o["VT"]})
                    return
    res.coverage["errors_is_vectors_checked"] = checked


def check(res):
    corpus = corpora.c07(res.seed, res.tier)
    cl = kf.make_classifier(res, "C07", known_findings("C07"))
    genprop.run(res, "C07", PROPFILE, corpus, classify=cl, extra=lambda gr, r: check_errors_is(res, gr, r))


PROPFILE = "theories/Properties/C07.v"
replay = genprop.replay
