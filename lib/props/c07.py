"""C07 — the validation report is exact. Theorems: Properties/C07.v."""
import corpora
import genprop
import kf
from vlib import known_findings


def unhex(h):
    return b"" if h == "-" else bytes.fromhex(h)


def check_errors_is(res, gr, results):
    """errors.Is(err, S) for every exported sentinel S, directly and through %w, against the report itself."""
    checked = 0
    for m in gr.meta:
        if not m["generated"] or m["pkg"] in gr.bad_pkgs:
            continue
        pts = m.get("sentinel_pt") or []
        sc, st = genprop.find_struct(gr, m["key"])
        for j in range(len(st["cases"])):
            o = gr.obs.get("%s/%d" % (m["key"], j))
            if not o:
                continue
            entries = set()
            if o["VT"].startswith("R:"):
                for part in o["VT"][2:].split(";"):
                    p, t, _ = part.split(",")
                    entries.add((unhex(p), unhex(t)))
            want = "".join("1" if (p.encode(), t.encode()) in entries else "0" for p, t in pts) or "-"
            if o["VT"] == "nil":
                want = "-"
            if o.get("self") not in ("-", "1"):
                res.violation({"kind": "spec-violation", "struct": m["key"], "case_index": j, "case": st["cases"][j],
                               "what": "errors.Is(err, e) is false (or panics) for an entry e taken from the report err itself, i.e. a target that carries a Value: got " + str(o.get("self")),
                               "observed": o["VT"]})
                return
            for which in ("is", "wis", "isv"):
                checked += 1
                if o[which] != want and not (o["VT"].startswith("E:") and set(o[which]) <= {"0", "-"}):
                    res.violation({"kind": "spec-violation", "struct": m["key"], "case_index": j, "case": st["cases"][j],
                                   "what": "errors.Is over the exported sentinels (%s) disagrees with the report: got %s, the report implies %s"
                                           % ({"wis": "wrapped with %w", "isv": "against copies of the sentinels that carry a Value", "is": "direct"}[which], o[which], want),
                                   "sentinels": m["sentinels"], "observed": o["VT"]})
                    return
    res.coverage["errors_is_vectors_checked"] = checked


def cel_next_to_checkless(res):
    """A struct-valued field under `required` (which renders no check for it) that also carries a CEL rule: the report still has the
    CEL entry.  The generator model does not cover CEL conditions, so the oracle is this function (required on "" / the two
    integer comparisons of the expressions)."""
    from synth import T, basic, case, fld, scenario, set_int, set_str, struct
    s, i = basic("string"), basic("int")
    win = T("Window", "TNamed TStructT", "opaque")
    vals = [(a, b) for a in (0, 1, 5) for b in (0, 1, 5)]
    booking = struct("Booking", [fld("Name", [], s), fld("Slot", ["//govalid:cel=value.Min <= value.Max"], win)],
                     [case([set_str("Name", n), set_int("Slot.Min", a), set_int("Slot.Max", b)]) for n in (b"", b"n") for a, b in vals], gendoc=["//govalid:required"])
    resv = struct("Reservation", [fld("Span", ["//govalid:cel=value.Min <= value.Max", "//govalid:required"], win), fld("Seats", ["//govalid:gt=0"], i),
                                  fld("Alt", ["//govalid:required", "//govalid:cel=value.Min != value.Max"], win)],
                  [case([set_int("Span.Min", a), set_int("Span.Max", b), set_int("Seats", k), set_int("Alt.Min", b), set_int("Alt.Max", a)]) for k in (0, 2) for a, b in vals])
    corpus = {"scenarios": [scenario("c07cel", [booking, resv], aux=["type Window struct{ Min, Max int }"])]}

    def oracle(gr, results):
        n = 0
        for m in gr.meta:
            sc, st = genprop.find_struct(gr, m["key"])
            for j, cs in enumerate(st["cases"]):
                o = gr.obs.get("%s/%d" % (m["key"], j))
                if o is None:
                    continue
                n += 1
                v = {x["path"]: (bytes.fromhex(x["str"]) if x["vk"] == "string" else int(x["int"])) for x in cs["sets"]}
                if st["name"] == "Booking":
                    want = ([("Booking.Name", "required")] if v["Name"] == b"" else []) + ([("Booking.Slot", "cel")] if not v["Slot.Min"] <= v["Slot.Max"] else [])
                else:
                    want = ([("Reservation.Span", "cel")] if not v["Span.Min"] <= v["Span.Max"] else []) + ([("Reservation.Seats", "gt")] if not v["Seats"] > 0 else []) + \
                           ([("Reservation.Alt", "cel")] if not v["Alt.Min"] != v["Alt.Max"] else [])
                got = None
                if o["VT"] == "nil":
                    got = []
                elif o["VT"].startswith("R:"):
                    got = [tuple(unhex(x).decode() for x in part.split(",")[:2]) for part in o["VT"][2:].split(";")]
                if got != want:
                    res.violation({"kind": "spec-violation", "struct": m["key"], "case_index": j, "case": cs, "observed": o["VT"], "expected_entries": want,
                                   "source": genprop.struct_source(gr, m["key"]),
                                   "what": "a field whose `required` renders no check (struct value) lost or changed the entries of its other rule"})
                    return
        res.coverage["cel_next_to_checkless_cases"] = n
    genprop.run(res, "C07", None, corpus, tag="c07cel", spec=False, extra=oracle, exec_cmp=False)


def check(res):
    cel_next_to_checkless(res)
    res.coverage["cel_next_to_checkless"] = {k: res.coverage.get(k) for k in ("programs", "evaluations", "certificates", "cel_next_to_checkless_cases")}
    corpus = corpora.c07(res.seed, res.tier)
    cl = kf.make_classifier(res, "C07", known_findings("C07"))
    genprop.run(res, "C07", PROPFILE, corpus, classify=cl, extra=lambda gr, r: check_errors_is(res, gr, r))


PROPFILE = "theories/Properties/C07.v"
replay = genprop.replay
