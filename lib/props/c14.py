"""C14 — generation is deterministic and isolated. Theorems: Properties/C14.v (memory state machine).
Tie (E): the rebuilt govalid on synthesized packages, alone vs together, GOMAXPROCS 1/2/16, repeated,
permuted, three invocation forms, re-runs over the generated tree, directory snapshots, -race build."""
import os
import random
import shutil

import corpora
from synth import basic, fld, scenario, struct, SLICE
from vlib import GOENV, REPO, build_govalid, check_properties_file, run, scratch

TRUSTED = [
    "Coq 8.16.1 kernel",
    "Gen/Memory.v: GeneratorMemory as an explicit state machine (reset per struct, test-and-set per error variable, "
    "one package at a time under GeneratorMu); the Go scheduler, GOMAXPROCS and the race detector's observations are outside the model",
    "golang.org/x/tools singlechecker driver, go/packages, imports.Process, format.Source: not modelled",
]


def render(pkg, structs, order=None):
    from genfam import GenRun  # noqa: F401
    sc = scenario(pkg, structs)
    import json
    import subprocess
    return sc


def write_pkgs(root, scenarios, gh):
    import json
    os.makedirs(root, exist_ok=True)
    p = os.path.join(root, "scen.json")
    json.dump({"scenarios": scenarios}, open(p, "w"))
    run([gh, "materialize", "-in", p, "-dir", os.path.join(root, "scn"), "-repo", REPO], check=True)
    return os.path.join(root, "scn")


def outputs(d):
    out = {}
    for root, _, files in os.walk(d):
        for f in files:
            if f.endswith("_validator.go"):
                out[os.path.relpath(os.path.join(root, f), d)] = open(os.path.join(root, f), "rb").read()
    return out


def snapshot(d):
    """every file of the tree except go.mod / go.sum: under GOFLAGS=-mod=mod (needed offline) it is the go command
    itself, run by go/packages, that rewrites them - not the generator"""
    out = {}
    for root, _, files in os.walk(d):
        for f in files:
            if f in ("go.mod", "go.sum"):
                continue
            out[os.path.relpath(os.path.join(root, f), d)] = open(os.path.join(root, f), "rb").read()
    return out


def clear_outputs(d):
    for rel in outputs(d):
        os.remove(os.path.join(d, rel))


def gen(gv, d, patterns, procs=None, cwd=None):
    env = dict(GOENV)
    if procs:
        env["GOMAXPROCS"] = str(procs)
    p = run([gv] + patterns, cwd=cwd or d, env=env, timeout=1800)
    return p.returncode, (p.stdout or "") + (p.stderr or "")


def make_packages(rng, n):
    """packages that reuse struct and field names, with different markers and types"""
    s, i64, f64 = basic("string"), basic("int"), basic("float64")
    pk = []
    for k in range(n):
        user = struct("User", [
            fld("Age", ["//govalid:gt=%d" % (k % 3), "//govalid:lte=150"] if k % 2 == 0 else ["//govalid:gte=1"], i64),
            # the deprecated spelling in every package (whatever the analyzers keep about it is touched by all of them at once)
            fld("Name", ["// +govalid:required"] + (["// +govalid:minlength=2"] if k % 3 == 0 else []), s),
            fld("Addr", [], nested=[fld("City", ["//govalid:required"], s), fld("Zip", ["//govalid:numeric"] if k % 2 else ["//govalid:length=5"], s)]),
            fld("Tags", ["//govalid:maxitems=%d" % (k + 1)], SLICE),
            # equally named CEL / enum rules whose text differs per package: nothing derived from one may reach another
            fld("Score", ["//govalid:cel=value >= %d && value <= %d" % (18 + k, 120 - k)] if k % 3 != 2 else ["//govalid:cel=value != %d" % k], i64),
            fld("Nick", ["//govalid:cel=size(value) < %d" % (k + 5), "//govalid:enum=a%d,b,c%d" % (k, k)], s)], [])
        order = struct("Order", [fld("Total", ["//govalid:gt=0"], f64), fld("Name", ["//govalid:required", "//govalid:alpha"], s),
                                 fld("Note", ["//govalid:cel=value.startsWith('n%d') || value == ''" % k], s)], [],
                       gendoc=["//govalid:required"] if k % 4 == 1 else [])
        own = struct("Own%d" % k, [fld("Name", ["// +govalid:email"], s), fld("Age", ["// +govalid:lt=%d" % (k + 10)], i64)] +
                     [fld("L%d" % j, ["// +govalid:required", "// +govalid:maxlength=%d" % (j + 3)], s) for j in range(8)], [], file="y")
        from synth import named
        aux, level = named("Level", [i64, s, f64, SLICE][k % 4])
        cfg = struct("Config", [fld("Level", ["//govalid:required"], level), fld("Name", ["//govalid:required"], s)], [])   # same file as the type Level: the single-file form sees only that file
        structs = [user, order, own, cfg]
        pk.append(scenario("pk%d" % k, structs, aux=[aux]))
    # two byte-identical packages
    pk.append(scenario("twin_a", [struct("User", [fld("Age", ["//govalid:gt=3"], i64), fld("Name", ["//govalid:required"], s)], [])]))
    pk.append(scenario("twin_b", [struct("User", [fld("Age", ["//govalid:gt=3"], i64), fld("Name", ["//govalid:required"], s)], [])]))
    return pk


def check(res):
    res.assumptions = TRUSTED
    res.coverage["trusted_base"] = TRUSTED
    res.coverage["checker_cmd"] = "make -C coq -j16 && coqc -Q theories GV theories/Properties/C14.v"
    check_properties_file(res, "theories/Properties/C14.v")
    from vlib import go_build
    gh, err = go_build("./cmd/genharness", "genharness")
    gv, err = build_govalid()
    if gv is None:
        res.violation({"kind": "correspondence-break", "what": "cmd/govalid does not build", "log_tail": err[-2000:]}, found_input=False)
        return
    rng = random.Random(res.seed)
    quick = res.tier == "quick"
    pkgs = make_packages(rng, 5 if quick else 14)
    base = os.path.join(scratch(), "c14")
    evals = 0
    # --- baseline: every package generated alone, in its own module
    alone = {}
    for sc in pkgs:
        d = write_pkgs(os.path.join(base, "alone_" + sc["id"]), [sc], gh)
        rc, log = gen(gv, d, ["./..."])
        evals += 1
        if rc != 0:
            res.violation({"kind": "generation-failed", "package": sc["id"], "log": log[-2000:]})
            return
        for rel, c in outputs(d).items():
            alone[rel] = c
        shutil.rmtree(os.path.join(base, "alone_" + sc["id"]), ignore_errors=True)
    res.coverage["files_in_baseline"] = len(alone)

    def compare(label, got, detail):
        nonlocal evals
        evals += 1
        if got != alone:
            diff = sorted(k for k in set(got) | set(alone) if got.get(k) != alone.get(k))
            k = diff[0]
            res.violation({"kind": "spec-violation", "what": "generated file differs from the one produced when its package is generated alone: " + label,
                           "files": diff[:6], "detail": detail,
                           "alone": (alone.get(k) or b"<missing>").decode(errors="replace")[:2500],
                           "together": (got.get(k) or b"<missing>").decode(errors="replace")[:2500]})
            return False
        return True

    # --- all packages in one invocation, several GOMAXPROCS, repeated
    d = write_pkgs(os.path.join(base, "all"), pkgs, gh)
    pristine = snapshot(d)
    reps = 3 if quick else 12
    for procs in (1, 2, 16):
        for r in range(reps):
            clear_outputs(d)
            rc, log = gen(gv, d, ["./..."], procs)
            if rc != 0:
                res.violation({"kind": "generation-failed", "what": "multi-package invocation failed", "log": log[-2000:]})
                return
            if not compare("GOMAXPROCS=%d, run %d, all packages in one invocation" % (procs, r), outputs(d), {"packages": [s["id"] for s in pkgs]}):
                return
    # --- subsets and orders of packages on the command line
    ids = [s["id"] for s in pkgs]
    for r in range(4 if quick else 20):
        sub = rng.sample(ids, rng.randint(2, len(ids)))
        clear_outputs(d)
        rc, log = gen(gv, d, ["./" + x for x in sub])
        got = outputs(d)
        want = {k: v for k, v in alone.items() if k.split("/")[0] in sub}
        evals += 1
        if got != want:
            diff = sorted(k for k in set(got) | set(want) if got.get(k) != want.get(k))
            res.violation({"kind": "spec-violation", "what": "output depends on which other packages are processed in the same invocation",
                           "invocation": sub, "files": diff[:6]})
            return
    # --- invocation forms: directory, single file
    clear_outputs(d)
    for sc in pkgs:
        gen(gv, d, ["./" + sc["id"]])
    if not compare("directory form, one invocation per package", outputs(d), {}):
        return
    clear_outputs(d)
    for sc in pkgs[:3]:
        for f in sorted(os.listdir(os.path.join(d, sc["id"]))):
            if f.endswith(".go"):
                gen(gv, d, [os.path.join(sc["id"], f)])
    got = outputs(d)
    want = {k: v for k, v in alone.items() if k.split("/")[0] in [s["id"] for s in pkgs[:3]]}
    evals += 1
    if got != want:
        diff = sorted(k for k in set(got) | set(want) if got.get(k) != want.get(k))
        res.violation({"kind": "spec-violation", "what": "single-file invocation form produces different output", "files": diff[:6]})
        return
    # --- second and third run over the tree that already contains the output; nothing else is touched
    clear_outputs(d)
    gen(gv, d, ["./..."])
    first = snapshot(d)
    for r in (2, 3):
        gen(gv, d, ["./..."])
        again = snapshot(d)
        evals += 1
        if again != first:
            diff = sorted(k for k in set(again) | set(first) if again.get(k) != first.get(k))
            res.violation({"kind": "spec-violation", "what": "run %d over the already generated tree changed or created files" % r, "files": diff[:6]})
            return
    untouched = {k: v for k, v in first.items() if not k.endswith("_validator.go")}
    if untouched != pristine:
        diff = sorted(k for k in set(untouched) | set(pristine) if untouched.get(k) != pristine.get(k))
        res.violation({"kind": "spec-violation", "what": "the generator created or modified files other than its <source>_<type>_validator.go outputs", "files": diff[:6]})
        return
    # --- edited sources over a tree that still holds the previous output: the file of a struct is a function of its
    # declaration alone, whatever an earlier run left in it (longer or shorter previous content)
    s_, i_ = basic("string"), basic("int")
    v_long = scenario("edit", [struct("User", [fld("Name", ["//govalid:required", "//govalid:maxlength=32", "//govalid:minlength=2"], s_),
                                                fld("Email", ["//govalid:required", "//govalid:email"], s_), fld("Age", ["//govalid:gte=18", "//govalid:lt=150"], i_)], [])])
    v_short = scenario("edit", [struct("User", [fld("Name", ["//govalid:required"], s_), fld("Email", [], s_), fld("Age", [], i_)], [])])
    fresh = {}
    for tag, sc in (("long", v_long), ("short", v_short)):
        dd = write_pkgs(os.path.join(base, "fresh_" + tag), [sc], gh)
        gen(gv, dd, ["./..."])
        fresh[tag] = outputs(dd)
        fresh[tag + "_src"] = {k: v for k, v in snapshot(dd).items() if k not in fresh[tag]}
        shutil.rmtree(os.path.join(base, "fresh_" + tag), ignore_errors=True)
    for first_tag, second_tag in (("long", "short"), ("short", "long")):
        dd = write_pkgs(os.path.join(base, "edit_" + first_tag), [v_long if first_tag == "long" else v_short], gh)
        gen(gv, dd, ["./..."])
        for rel, content in fresh[second_tag + "_src"].items():
            open(os.path.join(dd, rel), "wb").write(content)
        rc, log = gen(gv, dd, ["./..."])
        got = outputs(dd)
        evals += 1
        if got != fresh[second_tag]:
            diff = sorted(k for k in set(got) | set(fresh[second_tag]) if got.get(k) != fresh[second_tag].get(k))
            res.violation({"kind": "spec-violation", "files": diff[:4], "generator_exit": rc,
                           "what": "after the rules of a struct were edited (%s -> %s) the regenerated file differs from the file generated for the same "
                                   "declaration in a fresh tree: the output depends on what an earlier run left behind" % (first_tag, second_tag),
                           "got_len": {k: len(v) for k, v in got.items()}, "want_len": {k: len(v) for k, v in fresh[second_tag].items()},
                           "first_version": genprop_source(v_long if first_tag == "long" else v_short), "second_version": genprop_source(v_long if second_tag == "long" else v_short)})
            return
        shutil.rmtree(os.path.join(base, "edit_" + first_tag), ignore_errors=True)
    evals += hostile_surroundings(res, gv, base)
    evals += unmarked_neighbours(res, gv, base)
    evals += test_variant(res, gv, base)
    # --- declaration and file order inside a package must not matter for a struct's own file
    for r in range(3 if quick else 12):
        sc = dict(pkgs[r % len(pkgs)])
        sc["structs"] = rng.sample(sc["structs"], len(sc["structs"]))
        dd = write_pkgs(os.path.join(base, "perm%d" % r), [sc], gh)
        gen(gv, dd, ["./..."])
        got = outputs(dd)
        want = {k: v for k, v in alone.items() if k.split("/")[0] == sc["id"]}
        evals += 1
        if got != want:
            res.violation({"kind": "spec-violation", "what": "permuting the declarations of a package changed a generated file", "package": sc["id"]})
            return
        shutil.rmtree(os.path.join(base, "perm%d" % r), ignore_errors=True)
    # --- race detector on the multi-package run
    gvr = os.path.join(scratch(), "govalid_race")
    p = run(["go", "build", "-race", "-o", gvr, "./cmd/govalid"], cwd=REPO, env=GOENV, timeout=3000)
    if p.returncode != 0:
        raise RuntimeError("race build of govalid failed: " + (p.stderr or "")[-2000:])
    races = 0
    for r in range(2 if quick else 10):
        clear_outputs(d)
        env = dict(GOENV)
        env["GORACE"] = "halt_on_error=0 exitcode=66"
        env["GOMAXPROCS"] = "16"
        p = run([gvr, "./..."], cwd=d, env=env, timeout=3000)
        evals += 1
        if p.returncode == 66 or "DATA RACE" in (p.stderr or ""):
            races += 1
            res.violation({"kind": "spec-violation", "what": "data race while processing several packages in one invocation (go build -race)",
                           "report": (p.stderr or "")[:4000]})
            break
        if not compare("race-detector build, run %d" % r, outputs(d), {}):
            return
    res.coverage.update({
        "evaluations": evals, "distinct_nontrivial": len(alone),
        "rule": "%d synthesized packages reusing struct names (User, Order) and field names with different rules, two byte-identical "
                "packages; each invocation's outputs are byte-compared with the outputs of generating each package alone; "
                "distinct_nontrivial = generated files in the baseline" % len(pkgs),
        "race_runs": 2 if quick else 10, "races": races,
        "samples": [{"packages": [s["id"] for s in pkgs], "gomaxprocs": [1, 2, 16], "repetitions": reps}],
    })


def test_variant(res, gv, base):
    """a package with in-package _test.go files (the analysis driver then also sees the test variant of the package, whose types
    have the methods declared in the test files): the generated file is the same with and without the test files, in every
    invocation form"""
    d = os.path.join(base, "tvar")
    src = ("package booking\n\ntype Window struct{ From, To int }\n\ntype Tags []string\n\ntype Code string\n\ntype Level int\n\n"
           "type Booking struct {\n\t//govalid:required\n\tGuest string\n\t//govalid:required\n\tSlot Window\n\t//govalid:minitems=1\n\t//govalid:required\n\tLabels Tags\n"
           "\t//govalid:enum=a,b\n\tKind Code\n\t//govalid:required\n\tPtr *Window\n\t//govalid:gt=0\n\t//govalid:required\n\tLvl Level\n}\n")
    tests = {"booking/window_test.go": "package booking\n\nimport \"testing\"\n\nfunc (w Window) IsZero() bool { return w == Window{} }\n\nfunc (w *Window) Validate() error { return nil }\n\n"
                                      "func (t Tags) Len() int { return len(t) + 1 }\n\nfunc (t Tags) IsZero() bool { return false }\n\nfunc (c Code) String() string { return \"c\" }\n\n"
                                      "func (c Code) IsZero() bool { return c == \"a\" }\n\nfunc (l Level) IsZero() bool { return l == 7 }\n\nfunc (l Level) Cmp(o Level) int { return 0 }\n\n"
                                      "func TestNothing(t *testing.T) {}\n",
             "booking/ext_test.go": "package booking_test\n\nimport \"testing\"\n\nfunc TestExt(t *testing.T) {}\n"}
    mod = "module tv\n\ngo 1.24.3\n\nrequire github.com/sivchari/govalid v0.0.0\n\nreplace github.com/sivchari/govalid => %s\n" % REPO

    def build(with_tests, patterns, cwd=None):
        shutil.rmtree(d, ignore_errors=True)
        os.makedirs(os.path.join(d, "booking"))
        open(os.path.join(d, "go.mod"), "w").write(mod)
        shutil.copy(os.path.join(REPO, "go.sum"), os.path.join(d, "go.sum"))
        open(os.path.join(d, "booking", "booking.go"), "w").write(src)
        if with_tests:
            for rel, c in tests.items():
                open(os.path.join(d, rel), "w").write(c)
        rcs = []
        for _ in range(2):
            rc, log = gen(gv, d, patterns, cwd=os.path.join(d, cwd) if cwd else None)
            rcs.append(rc)
        return rcs, log, outputs(d)
    rcs, log, want = build(False, ["./..."])
    if any(rcs) or len(want) != 1:
        res.violation({"kind": "generation-failed", "what": "govalid failed on the package of the test-variant step", "log": log[-1500:]})
        return 0
    n = 0
    for label, patterns, cwd in (("./...", ["./..."], None), ("directory", ["./booking"], None), ("inside the directory", ["."], "booking"), ("single file", ["booking/booking.go"], None)):
        for procs in (None,):
            rcs, log, got = build(True, patterns, cwd)
            n += 1
            if got != want or any(rcs):
                diff = sorted(k for k in set(got) | set(want) if got.get(k) != want.get(k))
                res.violation({"kind": "spec-violation", "invocation": label, "files": diff, "generator_exit": rcs, "log": log[-800:],
                               "sources": dict(tests, **{"booking/booking.go": src}),
                               "got": {k: (got.get(k) or b"<missing>").decode("utf8", "replace")[:2500] for k in diff[:1]},
                               "want": {k: (want.get(k) or b"<missing>").decode("utf8", "replace")[:2500] for k in diff[:1]},
                               "what": "in-package _test.go files (methods declared there, an external test package) changed the generated file of a struct, or the second run over the generated tree failed"})
                shutil.rmtree(d, ignore_errors=True)
                return n
    shutil.rmtree(d, ignore_errors=True)
    return n


def unmarked_neighbours(res, gv, base):
    """the file of a marked struct next to declarations WITHOUT markers (nothing is generated for those): structs whose names
    differ from it only in case, function-local types of the same name, aliases, containers - declared before and after it"""
    d = os.path.join(base, "neigh")
    marked = "type Response struct {\n\t//govalid:required\n\tCode string\n\t//govalid:gt=0\n\tN int\n}\n"
    variants = {
        "after": marked + "\n// not validated\ntype response struct{ raw []byte }\n\nvar _ = response{}\n",
        "before": "// not validated\ntype response struct{ raw []byte }\n\nvar _ = response{}\n\n" + marked,
        "local": marked + "\nfunc f() int {\n\ttype response struct{ x int }\n\ttype Response struct{ y int }\n\treturn response{}.x + Response{}.y\n}\n",
        "upper": marked + "\ntype RESPONSE struct{}\n\ntype Responses struct{ Items []Response }\n\ntype responseAlias = Response\n\ntype Responder interface{ Respond() Response }\n",
        "both": "type response struct{}\n\n" + marked + "\ntype rESPONSE struct{}\n\nvar _, _ = response{}, rESPONSE{}\n",
    }
    mod = "module nb\n\ngo 1.24.3\n\nrequire github.com/sivchari/govalid v0.0.0\n\nreplace github.com/sivchari/govalid => %s\n" % REPO

    def build(body):
        shutil.rmtree(d, ignore_errors=True)
        os.makedirs(os.path.join(d, "api"))
        open(os.path.join(d, "go.mod"), "w").write(mod)
        shutil.copy(os.path.join(REPO, "go.sum"), os.path.join(d, "go.sum"))
        open(os.path.join(d, "api", "api.go"), "w").write("package api\n\n" + body)
        rc, log = gen(gv, d, ["./..."])
        rc2, log2 = gen(gv, d, ["./..."])       # and once more over the generated tree
        return rc or rc2, log + log2, outputs(d)
    rc, log, want = build(marked)
    if rc != 0 or len(want) != 1:
        res.violation({"kind": "generation-failed", "what": "govalid failed on the single marked struct of the unmarked-neighbours step", "log": log[-1500:]})
        return 0
    n = 0
    for tag, body in variants.items():
        rc, log, got = build(body)
        n += 1
        if got != want:
            diff = sorted(k for k in set(got) | set(want) if got.get(k) != want.get(k))
            res.violation({"kind": "spec-violation", "variant": tag, "files": diff, "generator_exit": rc, "source": "package api\n\n" + body,
                           "got": {k: (got.get(k) or b"<missing>").decode("utf8", "replace")[:1500] for k in diff[:2]},
                           "what": "declarations without markers in the same file (nothing is generated for them) changed, removed or added a generated file: "
                                   "the file of a struct is not a function of that struct's declaration alone"})
            break
    shutil.rmtree(d, ignore_errors=True)
    return n


def hostile_surroundings(res, gv, base):
    """the file generated for a struct must not depend on OTHER Go files: siblings in the package directory or files in the
    parent of the working directory that import look-alike packages (demo/lookalike/slices, .../math) and use the same symbols"""
    d = os.path.join(base, "hostile")
    files = {
        "go.mod": "module hs\n\ngo 1.24.3\n\nrequire github.com/sivchari/govalid v0.0.0\n\nreplace github.com/sivchari/govalid => %s\n" % REPO,
        "lookalike/slices/slices.go": "package slices\n\nfunc Contains(s []string, v string) bool { return false }\n",
        "lookalike/math/math.go": "package math\n\nconst MaxInt16 = 1000\n",
        "lookalike/strings/strings.go": "package strings\n\nfunc Contains(s, sub string) bool { return false }\nfunc HasPrefix(s, p string) bool { return false }\n",
        "pkcel/x.go": "package pkcel\n\ntype T struct {\n\t//govalid:cel=value in['a','b']\n\tV string\n\t//govalid:cel=value.contains('x') && value.startsWith('x')\n\tW string\n\t//govalid:cel=value in this.L\n\tX string\n\tL []string\n}\n",
        "pkq/x.go": "package pkq\n\ntype Q struct {\n\t//govalid:lte=math.MaxInt16\n\tN int\n\t//govalid:maxlength=3\n\tS string\n}\n",
    }
    hostile = {
        "pkcel/sib.go": "package pkcel\n\nimport (\n\t\"hs/lookalike/slices\"\n\t\"hs/lookalike/strings\"\n)\n\nvar _ = slices.Contains(nil, \"\") || strings.Contains(\"\", \"\") || strings.HasPrefix(\"\", \"\")\n",
        "pkq/sib.go": "package pkq\n\nimport \"hs/lookalike/math\"\n\nvar _ = math.MaxInt16\n",
    }
    parent = {"root.go": "package hs\n\nimport (\n\t\"hs/lookalike/slices\"\n\t\"hs/lookalike/strings\"\n)\n\nvar _ = slices.Contains(nil, \"\") || strings.Contains(\"\", \"\")\n"}

    def put(fs):
        for rel, c in fs.items():
            os.makedirs(os.path.dirname(os.path.join(d, rel)) or d, exist_ok=True)
            open(os.path.join(d, rel), "w").write(c)
    put(files)
    shutil.copy(os.path.join(REPO, "go.sum"), os.path.join(d, "go.sum"))
    rc, log = gen(gv, d, ["./..."])
    want = outputs(d)
    if rc != 0 or len(want) < 2:
        res.violation({"kind": "generation-failed", "what": "govalid failed on the packages of the hostile-surroundings step", "log": log[-1500:]})
        return 0
    n = 0
    # (b) siblings in the package directories
    clear_outputs(d)
    put(hostile)
    gen(gv, d, ["./..."])
    got = outputs(d)
    n += 1
    if got != want:
        diff = sorted(k for k in set(got) | set(want) if got.get(k) != want.get(k))
        res.violation({"kind": "spec-violation", "files": diff, "got": {k: got.get(k, b"").decode("utf8", "replace")[:1500] for k in diff[:2]},
                       "want": {k: want.get(k, b"").decode("utf8", "replace")[:1500] for k in diff[:2]},
                       "what": "adding to the package directory a file that nobody asked govalid to look at (it imports look-alike packages) changed the generated file of an unedited struct"})
        return n
    # (c) the same package generated from inside its directory, with a look-alike importer in the parent of the working directory
    clear_outputs(d)
    for rel in hostile:
        os.remove(os.path.join(d, rel))
    put(parent)
    gen(gv, os.path.join(d, "pkcel"), ["."], cwd=os.path.join(d, "pkcel"))
    got = {k: v for k, v in outputs(d).items() if k.startswith("pkcel/")}
    wantc = {k: v for k, v in want.items() if k.startswith("pkcel/")}
    n += 1
    if got != wantc:
        diff = sorted(k for k in set(got) | set(wantc) if got.get(k) != wantc.get(k))
        res.violation({"kind": "spec-violation", "files": diff, "got": {k: got.get(k, b"").decode("utf8", "replace")[:1500] for k in diff[:2]},
                       "want": {k: wantc.get(k, b"").decode("utf8", "replace")[:1500] for k in diff[:2]},
                       "what": "`govalid .` inside the package directory and `govalid ./...` from the module root produce different files for the same struct "
                               "(a Go file in the parent of the working directory imports a look-alike package)"})
    shutil.rmtree(d, ignore_errors=True)
    return n


def genprop_source(sc):
    return {"struct": sc["structs"][0]["name"], "fields": [(f["names"], f["doc"]) for f in sc["structs"][0]["fields"]]}


def replay(payload):
    import json
    print(json.dumps({k: payload.get(k) for k in ("kind", "what", "files", "detail")}, indent=1))
    return 1
