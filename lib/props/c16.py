"""C16 — validation is read-only, repeatable and race-free. Theorems: Properties/C16.v."""
import os

import corpora
import genprop
import recog
from vlib import GOENV, go_build, harness_dir, run, scratch


def readonly_and_race(res, gr, results):
    n = 0
    for m in gr.meta:
        if not m["generated"] or m["pkg"] in gr.bad_pkgs:
            continue
        sc, st = genprop.find_struct(gr, m["key"])
        for j, cs in enumerate(st["cases"]):
            o = gr.obs.get("%s/%d" % (m["key"], j))
            if o is None:
                continue
            n += 1
            if o["mut"] != "0" or o["smut"] != "0":
                res.violation({"kind": "spec-violation", "struct": m["key"], "case_index": j, "case": cs, "observed": o,
                               "source": genprop.struct_source(gr, m["key"]),
                               "what": "validation modified the %s (deep fingerprint before/after the four entry points differs)"
                                       % ("receiver" if o["mut"] != "0" else "exported sentinel error variables")})
                return
            if not (o["V"] == o["VT"] == o["VC"] == o["VTC"]):
                res.violation({"kind": "spec-violation", "struct": m["key"], "case_index": j, "case": cs, "observed": o,
                               "what": "repeated calls on an unchanged value returned different results"})
                return
    res.coverage["snapshots_compared"] = n
    g, it = (8, 60) if res.tier == "quick" else (64, 2000)
    rc, out, err = gr.race(g, it)
    res.coverage["race_run"] = {"goroutines": g, "iterations": it, "exit": rc,
                                "cases": len(out.splitlines()), "detector": "go build -race"}
    if "DATA RACE" in err or rc == 66:
        res.violation({"kind": "spec-violation", "what": "the race detector reports a data race during concurrent Validate/ValidateContext calls",
                       "report": err[:4000]})
    for line in out.splitlines():
        if "concurrent=" in line:
            res.violation({"kind": "spec-violation", "what": "a concurrent call returned a result different from the sequential one", "line": line})
            break
    if rc not in (0, 66):
        raise RuntimeError("race driver failed: " + err[-2000:])


def helpers_race(res):
    """concurrent use of the runtime helpers under the race detector"""
    d = harness_dir()
    exe = os.path.join(scratch(), "helperrace")
    p = run(["go", "build", "-race", "-o", exe, "./cmd/helperrace"], cwd=d, env=GOENV, timeout=3000)
    if p.returncode != 0:
        raise RuntimeError("helperrace build failed: " + (p.stderr or "")[-2000:])
    env = dict(os.environ)
    env["GORACE"] = "halt_on_error=0 exitcode=66"
    n = "200" if res.tier == "quick" else "5000"
    p = run([exe, n], env=env, timeout=3000)
    res.coverage["helpers_race_run"] = {"iterations": int(n), "exit": p.returncode}
    if p.returncode == 66 or "DATA RACE" in (p.stderr or ""):
        res.violation({"kind": "spec-violation", "what": "data race in concurrent use of the runtime helpers", "report": (p.stderr or "")[:4000]})
    elif p.returncode != 0:
        res.violation({"kind": "spec-violation", "what": "a helper returned different verdicts for the same input under concurrent use",
                       "report": (p.stdout or "")[:2000]})


def cel_readonly(res):
    """CEL rules (comprehensions, filter/map over slices and maps) must not modify the receiver either:
    compiled code only (the GoLite model does not interpret CEL conditions)."""
    import genfam
    from synth import T, basic, case, fld, scenario, struct
    sl_i, sl_f, sl_s = T("[]int", "TSlice", "coll"), T("[]float64", "TSlice", "coll"), T("[]string", "TSlice", "coll")
    exprs = [("Q", sl_i, "size(value.filter(item, item > 0)) <= 2"), ("R", sl_i, "value.all(x, x >= -10) && size(value.map(x, x * 2)) >= 0"),
             ("S", sl_i, "value.exists(x, x > 6) || value.exists_one(x, x == 5)"), ("F", sl_f, "size(value.filter(v, v > 0.5)) < 3"),
             ("N", sl_s, "size(value.filter(n, n != '')) >= 1 && value.all(n, size(n) < 9)"), ("U", T("[]uint8", "TSlice", "coll"), "size(value.filter(b, b > 1)) <= 1"),
             # patterns only known at run time: any cache of compiled patterns is shared state
             ("Pin", basic("string"), "value.matches(this.Pat) || value == ''"), ("Pat", basic("string"), "value != '(' && 'abc'.matches(value)"),
             # conversions and string functions: any runtime helper behind them that memoises or caches is shared state
             ("Dbl", basic("string"), "double(value) >= 0.0 && double(value) <= 100.0 || value != ''"), ("Int", basic("string"), "int(value) >= 0 || value != ''"),
             ("Dur", basic("string"), "duration(value) >= duration('0s') || value != ''"), ("Str", basic("int"), "string(value) != '' && string(value) != 'x'"),
             ("Sfn", basic("string"), "value.contains('a') || value.startsWith('b') || value.endsWith('c') || size(value) >= 0")]
    fields = [fld(nm, ["//govalid:cel=" + e], t) for nm, t, e in exprs]

    def sets(ints, strs):
        return [{"path": "Q", "vk": "coll", "intelems": ints}, {"path": "R", "vk": "coll", "intelems": ints[::-1]},
                {"path": "S", "vk": "coll", "intelems": ints}, {"path": "F", "vk": "coll", "intelems": ints},
                {"path": "N", "vk": "coll", "strelems": [x.encode().hex() for x in strs]}, {"path": "U", "vk": "coll", "intelems": [abs(i) for i in ints]},
                {"path": "Pin", "vk": "string", "str": ("ab" + "".join(strs)).encode().hex()}, {"path": "Pat", "vk": "string", "str": ("^a[b-z]*" + "".join(strs)).encode().hex()},
                {"path": "Dbl", "vk": "string", "str": str(ints[0] * 10).encode().hex()}, {"path": "Int", "vk": "string", "str": str(ints[-1]).encode().hex()},
                {"path": "Dur", "vk": "string", "str": (str(abs(ints[0])) + "s").encode().hex()}, {"path": "Str", "vk": "int", "int": str(ints[0])},
                {"path": "Sfn", "vk": "string", "str": "".join(strs).encode().hex()}]
    cases = [case(sets([-1, 5, 7], ["", "ab", "c"])), case(sets([3, -2, 4, 9], ["a", "", ""])), case(sets([0, 0, 1], ["x"])), case(sets([9, 8, 7, 6, 5], ["", "", "z"])), case(sets([-5], [""]))]
    gr = genfam.GenRun(res, {"scenarios": [scenario("c16cel", [struct("T", fields, cases)])]}, "c16cel")
    if not gr.generate() or gr.gen_status != 0:
        return
    gr.translate()
    ok, errs = gr.go_vet_build()
    if not ok:
        res.coverage["cel_readonly"] = "scenario does not compile: " + str(errs)[:300]
        return
    obs = gr.drive()
    if obs is None:
        return
    n = 0
    for key, o in obs.items():
        n += 1
        if o["mut"] != "0" or o["smut"] != "0" or not (o["V"] == o["VT"] == o["VC"] == o["VTC"]):
            j = int(key.rsplit("/", 1)[1])
            res.violation({"kind": "spec-violation", "struct": "c16cel/T", "case_index": j, "case": cases[j], "observed": o,
                           "source": genprop.struct_source(gr, "c16cel/T"),
                           "what": "a CEL rule modified the receiver, or repeated calls on the unchanged value returned different results"})
            break
    rc, out, err = gr.race(8, 40)
    if "DATA RACE" in err or rc == 66:
        res.violation({"kind": "spec-violation", "what": "data race during concurrent validation of a struct with CEL rules", "report": err[:3000]})
    res.coverage["cel_readonly_cases"] = n


def check(res):
    cel_readonly(res)
    corpus = corpora.c07(res.seed, "quick")
    corpus["scenarios"] = [s for s in corpus["scenarios"] if not s["id"].startswith("c07k")][: (20 if res.tier == "quick" else 40)]
    genprop.run(res, "C16", PROPFILE, corpus, extra=lambda gr, r: readonly_and_race(res, gr, r))
    helpers_race(res)


PROPFILE = "theories/Properties/C16.v"
replay = genprop.replay
