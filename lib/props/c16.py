"""C16 — validation is read-only, repeatable and race-free. Theorems: Properties/C16.v."""
import os

import corpora
import genprop
import recog
from vlib import GOENV, go_build, harness_dir, run, scratch


def readonly_and_race(res, gr, results):
    n = 0
    for m in gr.meta:
        if not m["generated"] or m["pkg"] in gr.bad_pkgs:
            continue
        sc, st = genprop.find_struct(gr, m["key"])
        for j, cs in enumerate(st["cases"]):
            o = gr.obs.get("%s/%d" % (m["key"], j))
            if o is None:
                continue
            n += 1
            if o["mut"] != "0" or o["smut"] != "0":
                res.violation({"kind": "spec-violation", "struct": m["key"], "case_index": j, "case": cs, "observed": o,
                               "source": genprop.struct_source(gr, m["key"]),
                               "what": "validation modified the %s (deep fingerprint before/after the four entry points differs)"
                                       % ("receiver" if o["mut"] != "0" else "exported sentinel error variables")})
                return
            if not (o["V"] == o["VT"] == o["VC"] == o["VTC"]):
                res.violation({"kind": "spec-violation", "struct": m["key"], "case_index": j, "case": cs, "observed": o,
                               "what": "repeated calls on an unchanged value returned different results"})
                return
    res.coverage["snapshots_compared"] = n
    g, it = (8, 60) if res.tier == "quick" else (64, 2000)
    rc, out, err = gr.race(g, it)
    res.coverage["race_run"] = {"goroutines": g, "iterations": it, "exit": rc,
                                "cases": len(out.splitlines()), "detector": "go build -race"}
    if "DATA RACE" in err or rc == 66:
        res.violation({"kind": "spec-violation", "what": "the race detector reports a data race during concurrent Validate/ValidateContext calls",
                       "report": err[:4000]})
    for line in out.splitlines():
        if "concurrent=" in line:
            res.violation({"kind": "spec-violation", "what": "a concurrent call returned a result different from the sequential one", "line": line})
            break
    if rc not in (0, 66):
        raise RuntimeError("race driver failed: " + err[-2000:])


def helpers_race(res):
    """concurrent use of the runtime helpers under the race detector"""
    d = harness_dir()
    exe = os.path.join(scratch(), "helperrace")
    p = run(["go", "build", "-race", "-o", exe, "./cmd/helperrace"], cwd=d, env=GOENV, timeout=3000)
    if p.returncode != 0:
        raise RuntimeError("helperrace build failed: " + (p.stderr or "")[-2000:])
    env = dict(os.environ)
    env["GORACE"] = "halt_on_error=0 exitcode=66"
    n = "200" if res.tier == "quick" else "5000"
    p = run([exe, n], env=env, timeout=3000)
    res.coverage["helpers_race_run"] = {"iterations": int(n), "exit": p.returncode}
    if p.returncode == 66 or "DATA RACE" in (p.stderr or ""):
        res.violation({"kind": "spec-violation", "what": "data race in concurrent use of the runtime helpers", "report": (p.stderr or "")[:4000]})
    elif p.returncode != 0:
        res.violation({"kind": "spec-violation", "what": "a helper returned different verdicts for the same input under concurrent use",
                       "report": (p.stdout or "")[:2000]})


def check(res):
    corpus = corpora.c07(res.seed, "quick")
    corpus["scenarios"] = [s for s in corpus["scenarios"] if not s["id"].startswith("c07k")][: (20 if res.tier == "quick" else 40)]
    genprop.run(res, "C16", PROPFILE, corpus, extra=lambda gr, r: readonly_and_race(res, gr, r))
    helpers_race(res)


PROPFILE = None
replay = genprop.replay
