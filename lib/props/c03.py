"""C03 — see DESIGN.md §5 C03. Theorems: Properties/C03.v; tie: per-run certificates + differential."""
import corpora
import genprop


def nested_same_name():
    """length markers reaching an inner field through the marker of its inline struct, next to an equally named outer field
    (the Path of such entries is the open finding D7 of C07/C09; here only the verdict per marker is compared)"""
    from synth import basic, case, fld, scenario, set_str, struct
    s = basic("string")
    vals = [b"", b"ab", b"abc", b"abcde", b"abcdef", "日本語日本語".encode(), "日本語".encode(), b"\xff\xfe\xfd\xfc\xfb\xfa", b"abcdefghij"]
    acct = struct("Account", [fld("Name", ["//govalid:minlength=3"], s), fld("Owner", ["//govalid:maxlength=5"], nested=[fld("Name", [], s)]),
                              fld("Tail", ["//govalid:length=3", "//govalid:minlength=1"], nested=[fld("Name", [], s), fld("Code", [], s)])],
                  [case([set_str("Name", a), set_str("Owner.Name", b), set_str("Tail.Name", c), set_str("Tail.Code", a)])
                   for a in vals[:6] for b in (vals[1], vals[5], vals[7], vals[8]) for c in (vals[2], vals[6], vals[4])])
    return {"scenarios": [scenario("c03nest", [acct])]}


def go_rune_count(b):
    """utf8.RuneCountInString: every byte that is not part of a valid sequence counts as one"""
    n = i = 0
    while i < len(b):
        c = b[i]
        size = 1
        if c >= 0xC2:
            if c <= 0xDF:
                need, lo, hi = 1, 0x80, 0xBF
            elif c <= 0xEF:
                need, lo, hi = 2, (0xA0 if c == 0xE0 else 0x80), (0x9F if c == 0xED else 0xBF)
            elif c <= 0xF4:
                need, lo, hi = 3, (0x90 if c == 0xF0 else 0x80), (0x8F if c == 0xF4 else 0xBF)
            else:
                need = 0
            if need and i + need < len(b) + 0 and len(b) - i > need and lo <= b[i + 1] <= hi and all(0x80 <= x <= 0xBF for x in b[i + 2:i + 1 + need]):
                size = 1 + need
        n += 1
        i += size
    return n


def check_nested(res, gr, results):
    """verdict per marker for the inner fields reached through the marker of their inline struct"""
    want_rules = {"Name": [("minlength", 3)], "Owner.Name": [("maxlength", 5)], "Tail.Name": [("length", 3), ("minlength", 1)], "Tail.Code": [("length", 3), ("minlength", 1)]}
    n = 0
    for m in gr.meta:
        sc, st = genprop.find_struct(gr, m["key"])
        for j, cs in enumerate(st["cases"]):
            o = gr.obs.get("%s/%d" % (m["key"], j))
            if o is None:
                continue
            vals = {s_["path"]: bytes.fromhex(s_["str"]) for s_ in cs["sets"]}
            want = []
            for path, rules in want_rules.items():
                c = go_rune_count(vals.get(path, b""))
                for r, k in rules:
                    if (r == "minlength" and c < k) or (r == "maxlength" and c > k) or (r == "length" and c != k):
                        want.append(r)
            got = [] if o["VT"] == "nil" else [bytes.fromhex(p.split(",")[1]).decode() for p in o["VT"][2:].split(";")] if o["VT"].startswith("R:") else None
            n += 1
            if got is None or sorted(got) != sorted(want):
                res.violation({"kind": "spec-violation", "struct": m["key"], "case_index": j, "case": cs, "observed": o["VT"], "expected_marker_types": sorted(want),
                               "source": genprop.struct_source(gr, m["key"]),
                               "what": "a length marker that reaches an inner field through the marker of its inline struct does not compare that field's own code-point count"})
                return
    res.coverage["nested_same_name_cases"] = n


def check(res):
    genprop.run(res, "C03", None, nested_same_name(), tag="c03n", spec=False, extra=lambda gr, r: check_nested(res, gr, r))
    res.coverage["nested_same_name"] = {k: res.coverage.get(k) for k in ("programs", "evaluations", "certificates")}
    corpus = corpora.c03(res.seed, res.tier)
    # length markers written on a (multi-name) inline struct: the specification has no entry for propagated markers (finding D7),
    # so the oracle is the directly marked field that holds the same value
    from props.c06 import check_route
    genprop.run(res, "C03", None, corpus.pop("route"), tag="c03r", spec=False, extra=lambda gr, r: check_route(res, gr, r))
    res.coverage["multi_name_inline_structs"] = {k: res.coverage.get(k) for k in ("programs", "evaluations", "certificates", "route_cases")}
    genprop.run(res, "C03", PROPFILE, corpus)


PROPFILE = "theories/Properties/C03.v"
replay = genprop.replay
