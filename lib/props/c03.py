"""C03 — see DESIGN.md §5 C03. Theorems: Properties/C03.v; tie: per-run certificates + differential."""
import corpora
import genprop


def check(res):
    corpus = corpora.c03(res.seed, res.tier)
    genprop.run(res, "C03", PROPFILE, corpus)


PROPFILE = "theories/Properties/C03.v"
replay = genprop.replay
