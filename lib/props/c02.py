"""C02 — see DESIGN.md §5 C02. Theorems: Properties/C02.v; tie: per-run certificates + differential."""
import corpora
import genprop


def check(res):
    corpus = corpora.c02(res.seed, res.tier)
    genprop.run(res, "C02", PROPFILE, corpus, spec_cmp="obs_same_types")


PROPFILE = "theories/Properties/C02.v"
replay = genprop.replay
