"""C06 — see DESIGN.md §5 C06. Theorems: Properties/C06.v; tie: per-run certificates + differential."""
import corpora
import genprop


def alnum_differential(res):
    """IsValidAlpha / IsNumeric: rebuilt Go functions against the extracted model (C06_alpha, C06_numeric prove model = spec)"""
    import recog
    probe, hooked = recog.build_probe(res)
    if probe is None:
        return
    inp = recog.gen_inputs("alnum", res.seed, res.tier)
    for fn in ("IsValidAlpha", "IsNumeric"):
        mism = recog.differential(res, fn, inp, probe, "exported recognizer")
        for hexin, g, m in (mism or [])[:3]:
            if hexin == "<length mismatch>":
                continue
            sh, g2, m2 = recog.shrink(probe, fn, hexin, g, m)
            res.violation({"kind": "spec-violation", "function": fn, "input_hex": sh, "input_repr": repr(recog.unhex(sh)),
                           "implementation": g2, "model_and_spec": m2,
                           "what": "C06_%s proves model = documented language for every byte string; /repo's %s differs from the model on this input"
                                   % ("alpha" if fn == "IsValidAlpha" else "numeric", fn)})


def check(res):
    corpus = corpora.c06(res.seed, res.tier)
    hosts = corpus.pop("hosts")
    # fields whose dot-free paths coincide share one error variable (open finding D10 of C07/C09: the Path of the entry); the
    # verdict per marker is what C06 states, so the multiset of reported marker types is compared
    genprop.run(res, "C06", None, hosts, tag="c06h", spec_cmp="obs_same_types")
    res.coverage["coincident_paths"] = {k: res.coverage.get(k) for k in ("programs", "evaluations", "certificates")}
    genprop.run(res, "C06", PROPFILE, corpus)
    alnum_differential(res)


PROPFILE = "theories/Properties/C0456.v"
replay = genprop.replay
