"""C06 — see DESIGN.md §5 C06. Theorems: Properties/C06.v; tie: per-run certificates + differential."""
import corpora
import genprop


def alnum_differential(res):
    """IsValidAlpha / IsNumeric: rebuilt Go functions against the extracted model (C06_alpha, C06_numeric prove model = spec)"""
    import recog
    probe, hooked = recog.build_probe(res)
    if probe is None:
        return
    inp = recog.gen_inputs("alnum", res.seed, res.tier)
    for fn in ("IsValidAlpha", "IsNumeric"):
        mism = recog.differential(res, fn, inp, probe, "exported recognizer")
        for hexin, g, m in (mism or [])[:3]:
            if hexin == "<length mismatch>":
                continue
            sh, g2, m2 = recog.shrink(probe, fn, hexin, g, m)
            res.violation({"kind": "spec-violation", "function": fn, "input_hex": sh, "input_repr": repr(recog.unhex(sh)),
                           "implementation": g2, "model_and_spec": m2,
                           "what": "C06_%s proves model = documented language for every byte string; /repo's %s differs from the model on this input"
                                   % ("alpha" if fn == "IsValidAlpha" else "numeric", fn)})


def check_route(res, gr, results):
    """per marker: the members reached through the marker of their (multi-name) inline struct are reported as often as the
    directly marked top-level fields that hold the same values"""
    n = 0
    for m in gr.meta:
        sc, st = genprop.find_struct(gr, m["key"])
        for j, cs in enumerate(st["cases"]):
            o = gr.obs.get("%s/%d" % (m["key"], j))
            if o is None:
                continue
            n += 1
            direct, through = {}, {}
            ok = o["VT"] == "nil" or o["VT"].startswith("R:")
            if ok and o["VT"] != "nil":
                for ent in o["VT"][2:].split(";"):
                    path, typ = [bytes.fromhex(x).decode() for x in ent.split(",")[:2]]
                    tgt = direct if path.split(".")[-1].startswith("Ref") else through
                    tgt[typ] = tgt.get(typ, 0) + 1
            if not ok or direct != through:
                res.violation({"kind": "spec-violation", "struct": m["key"], "case_index": j, "case": cs, "observed": o["VT"],
                               "entries_from_directly_marked_fields": direct, "entries_from_members_of_the_inline_structs": through,
                               "source": genprop.struct_source(gr, m["key"]),
                               "what": "a format marker written on a multi-name inline struct does not judge the members of every name like the same marker "
                                       "on a plain field holding the same value"})
                return
    res.coverage["route_cases"] = n


def check(res):
    corpus = corpora.c06(res.seed, res.tier)
    hosts = corpus.pop("hosts")
    # fields whose dot-free paths coincide share one error variable (open finding D10 of C07/C09: the Path of the entry); the
    # verdict per marker is what C06 states, so the multiset of reported marker types is compared
    genprop.run(res, "C06", None, hosts, tag="c06h", spec_cmp="obs_same_types")
    res.coverage["coincident_paths"] = {k: res.coverage.get(k) for k in ("programs", "evaluations", "certificates")}
    route = corpus.pop("route")
    genprop.run(res, "C06", None, route, tag="c06r", spec=False, extra=lambda gr, r: check_route(res, gr, r))
    res.coverage["multi_name_inline_structs"] = {k: res.coverage.get(k) for k in ("programs", "evaluations", "certificates", "route_cases")}
    genprop.run(res, "C06", PROPFILE, corpus)
    alnum_differential(res)


PROPFILE = "theories/Properties/C0456.v"
replay = genprop.replay
