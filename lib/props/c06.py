"""C06 — see DESIGN.md §5 C06. Theorems: Properties/C06.v; tie: per-run certificates + differential."""
import corpora
import genprop


def check(res):
    corpus = corpora.c06(res.seed, res.tier)
    genprop.run(res, "C06", PROPFILE, corpus)


PROPFILE = "theories/Properties/C0456.v"
replay = genprop.replay
