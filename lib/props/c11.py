"""C11 — email recognizer. Theorems: Properties/C11.v."""
import recog

TRUSTED = [
    "Coq 8.16.1 kernel (coqc; vm_compute only in sweeps over the 256 byte values and closed examples); no native_compute",
    "Coq extraction to OCaml with ExtrOcamlBasic only (no Extract Constant / Extract Inductive of our own); ocaml/main.ml line-protocol driver",
    "hand-written Gallina mirror of the Go recognizer, tied to /repo by the differential run recorded in this file",
    "harness/cmd/helperprobe (calls the rebuilt Go functions), harness/cmd/strgen (input corpus)",
]


def check(res):
    res.assumptions = TRUSTED
    res.coverage["trusted_base"] = TRUSTED
    recog.standard_check(
        res, "C11", "theories/Properties/C11.v", "email", "IsValidEmail",
        [(f, "email") for f in ("findAtSymbol", "isValidLocalPart", "isValidLocalPartFormat", "isValidLocalPartChars",
                                "isValidDomainPart", "validateDomainLabels", "isValidDomainLabel", "isValidDomainLabelChars")],
        [("isValidLocalChar", 0x110000), ("isValidLocalSpecialChar", 0x110000), ("isValidDomainChar", 0x110000)],
        "strgen email: every string of length <= 6 (thorough 7) over the 10-symbol class alphabet {a,1,.,-,_,@,+,(,e-acute,0xFF}; "
        "every byte value at each structural role; all 2-byte strings, also @-framed; length families around 64/63/253/254; "
        "random structured addresses with one mutation. distinct_nontrivial = number of distinct input strings")


replay = recog.standard_replay
