"""C12 — URL recognizer. Theorems: Properties/C12.v."""
import recog

TRUSTED = [
    "Coq 8.16.1 kernel (coqc; vm_compute only in sweeps over the 256 byte values and closed examples); no native_compute",
    "Coq extraction to OCaml with ExtrOcamlBasic only (no Extract Constant / Extract Inductive of our own); ocaml/main.ml line-protocol driver",
    "hand-written Gallina mirror of the Go recognizer, tied to /repo by the differential run recorded in this file",
    "harness/cmd/helperprobe (calls the rebuilt Go functions), harness/cmd/strgen (input corpus)",
]


def check(res):
    res.assumptions = TRUSTED
    res.coverage["trusted_base"] = TRUSTED
    recog.standard_check(
        res, "C12", "theories/Properties/C12.v", "url", "IsValidURL",
        [("findSchemeEnd", "url"), ("hasInvalidChars", "url"),
         ("validateSchemeWithoutHost", "urlpos"), ("validateSchemeWithHost", "urlpos")],
        [("isValidSchemeChar", 256), ("isValidHostStart", 256)],
        "strgen url: every supported scheme and 11 unsupported-but-legal schemes x 10 separator forms x every first host "
        "byte 0..255 and tails with forbidden bytes; every one-edit / case-changed near-miss scheme; every byte inserted or "
        "substituted at every position of 5 valid URLs; all token strings of length <= 5 (thorough 6) over a scheme-aware "
        "alphabet; random. distinct_nontrivial = number of distinct input strings")


replay = recog.standard_replay
