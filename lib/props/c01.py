"""C01 — see DESIGN.md §5 C01. Theorems: Properties/C01.v; tie: per-run certificates + differential."""
import corpora
import genprop


def check(res):
    corpus = corpora.c01(res.seed, res.tier)
    genprop.run(res, "C01", PROPFILE, corpus)


PROPFILE = "theories/Properties/C01.v"
replay = genprop.replay
