"""C08 — generated code compiles, is gofmt-clean and implements the interfaces. Theorems: Properties/C08.v."""
import os
import subprocess

import corpora
import genprop
import kf
from vlib import GOENV, known_findings, run


def write_asserts(gr):
    """compile-time assertion that *T satisfies both interfaces, for every struct that got a file"""
    by_pkg = {}
    for m in gr.meta:
        if m["generated"]:
            by_pkg.setdefault(m["pkg"], []).append(m["type"])
    for pkg, types in by_pkg.items():
        lines = ["package " + pkg, "", 'import "github.com/sivchari/govalid"', "", "var ("]
        for t in types:
            lines.append("\t_ govalid.Validator = (*%s)(nil)" % t)
            lines.append("\t_ govalid.ContextValidator = (*%s)(nil)" % t)
        lines.append(")")
        open(os.path.join(gr.moddir, pkg, "zz_assert.go"), "w").write("\n".join(lines) + "\n")


def fmt_and_vet(res, gr, results):
    files = [m["file"] for m in gr.meta if m["generated"]]
    p = subprocess.run(["gofmt", "-l"] + files, stdout=subprocess.PIPE, stderr=subprocess.PIPE, text=True)
    unformatted = [l for l in p.stdout.split() if l]
    res.coverage["gofmt_checked_files"] = len(files)
    for f in unformatted[:3]:
        res.violation({"kind": "spec-violation", "what": "generated file is not gofmt-clean", "file": f,
                       "content": open(f).read()[:3000]})
    good = sorted({m["pkg"] for m in gr.meta if m["generated"] and m["pkg"] not in gr.bad_pkgs})
    p = run(["go", "vet"] + ["./" + g for g in good], cwd=gr.moddir, env=GOENV, timeout=1800)
    res.coverage["go_vet_packages"] = len(good)
    if p.returncode != 0:
        res.violation({"kind": "spec-violation", "what": "go vet reports problems in generated code", "log": (p.stderr or "")[-3000:]})


# CEL rules whose generated code must compile: the documented examples, one expression per translator feature, and
# for every import heuristic of celValidator.Imports() (substring tests on the expression text) an expression that
# NEEDS the package and one that merely mentions the trigger text inside a string literal or renders without it.
CEL_COMPILE = [
    ("int", "value >= 18"), ("int", "value >= 18 && value <= 120"), ("float64", "value > 0.0"), ("bool", "value == true"),
    ("int", "value >= this.A"), ("int", "value * this.A <= this.A + 100"), ("string", "size(value) > 0"), ("float64", "value < this.F"),
    # strings
    ("string", "value.contains('a')"), ("string", "value.startsWith('pre')"), ("string", "value.endsWith('.go')"),
    ("string", "value != 'x.contains(y)'"), ("string", "value != 'startsWith(' && value != 'endsWith('"),
    # regexp
    ("string", "value.matches('^[a-z]+$')"), ("string", "value != 'matches('"),
    # strconv / fmt
    ("string", "int(value) > 3"), ("string", "value != 'int('"),
    ("string", "double(value) > 1.5"), ("int", "double(value) > 1.5"), ("string", "value != 'double('"),
    ("int", "string(value) == '12'"), ("string", "string(value) == '12'"), ("float64", "string(value) != ''"), ("string", "value != 'string('"),
    # time
    ("string", "duration(value) > duration('1s')"), ("time.Duration", "value > duration('1s')"), ("string", "value != 'duration(' && value != 'timestamp('"),
    # slices
    ("string", "value in this.Tags"), ("int", "value in this.Nums"), ("int", "value in [1, 2, 3]"), ("string", "value in ['a', 'b']"),
    ("string", "value != 'not in use'"), ("string", "!(value in this.Tags)"),
    # comprehension macros
    ("[]string", "value.all(x, x != '')"), ("[]int", "value.exists(x, x > 3)"), ("[]int", "value.exists_one(x, x == 5)"),
    ("[]int", "size(value.filter(x, x > 0)) <= 2"), ("[]string", "size(value.map(x, x + '!')) >= 0"), ("[]string", "size(value) > 0"),
    ("[]string", "value.all(x, x in this.Tags)"), ("[]string", "value.exists(x, x.startsWith('a') && x.matches('b$'))"),
    # arithmetic / logic
    ("int", "!(value > 5) || value % 2 == 0"), ("int", "-value < 3"), ("int", "value * (this.A + 1) > 10"), ("float64", "value > 1.0 / 2.0"),
    ("string", "value == \"admin\" || value == 'a\\\\b'"),
]


def cel_compiles(res):
    """every accepted CEL rule of the list above must produce a file that builds and vets (alone in its package, and
    all of them together in one struct next to non-CEL markers)"""
    import celgen
    import genfam
    from synth import basic, fld, scenario, struct
    scen = []
    for i, (vt, e) in enumerate(CEL_COMPILE):
        fields = [fld("V", ["//govalid:cel=" + e], celgen.typeref(vt))]
        for nm, go in celgen.COMPANIONS:
            fields.append(fld(nm, [], celgen.typeref(go)))
        scen.append(scenario("c08cel%d" % i, [struct("T", fields, [])], imports=["time"]))
    # all in one struct, with markers that need other imports (utf8 for maxlength, the helper package for email)
    fields = [fld("V%d" % i, ["//govalid:cel=" + e.replace("value", "this.V%d" % i) if False else "//govalid:cel=" + e], celgen.typeref(vt))
              for i, (vt, e) in enumerate(CEL_COMPILE)]
    fields.append(fld("Em", ["//govalid:email", "//govalid:maxlength=40"], basic("string")))
    for nm, go in celgen.COMPANIONS:
        fields.append(fld(nm, [], celgen.typeref(go)))
    scen.append(scenario("c08celall", [struct("T", fields, [])], imports=["time"]))
    gr = genfam.GenRun(res, {"scenarios": scen}, "c08cel")
    if not gr.generate():
        return
    loud = []
    if gr.gen_status != 0:
        res.violation({"kind": "generation-failed", "exit": gr.gen_status, "log_tail": gr.gen_log,
                       "what": "govalid exited non-zero on the list of CEL rules that must generate"})
        return
    meta = gr.translate()
    write_asserts(gr)
    ok, errs = gr.go_vet_build()
    for m in meta:
        if not m["generated"]:
            res.violation({"kind": "no-file-generated", "struct": m["key"], "source": genprop.struct_source(gr, m["key"]),
                           "what": "govalid wrote no validator for a struct with a CEL rule"})
        elif m["pkg"] in errs or (not ok and not errs):
            res.violation({"kind": "compile-error", "struct": m["key"], "source": genprop.struct_source(gr, m["key"]),
                           "compiler": "\n".join(errs.get(m["pkg"], []))[:2000],
                           "what": "the code generated for this CEL rule does not compile"})
    files = [m["file"] for m in meta if m["generated"]]
    p = subprocess.run(["gofmt", "-l"] + files, stdout=subprocess.PIPE, stderr=subprocess.PIPE, text=True)
    for f in [l for l in p.stdout.split() if l][:3]:
        res.violation({"kind": "spec-violation", "what": "generated file is not gofmt-clean", "file": f, "content": open(f).read()[:3000]})
    res.coverage["cel_rules_compiled"] = {"expressions": len(CEL_COMPILE), "packages": len(scen), "files": len(files)}


def check(res):
    cel_compiles(res)
    kf.lowercase_collision(res, "C08", known_findings("C08"))
    corpus = corpora.c08(res.seed, res.tier)
    cl = kf.make_classifier(res, "C08", known_findings("C08"))
    genprop.run(res, "C08", PROPFILE, corpus, classify=cl, pre_build=write_asserts, spec=False,
                extra=lambda gr, r: (fmt_and_vet(res, gr, r), names_theorems(res, gr, r)))


def names_theorems(res, gr, results):
    """Instances of the C08 theorems on the REAL emitted files: C08_no_missing_declaration for every struct,
    C08_no_duplicate_declaration_flat for every struct that meets its syntactic hypotheses."""
    n_files = n_hyp = n_par = 0
    for m in gr.meta:
        r = results[m["index"]]
        if not m["generated"]:
            continue
        n_files += 1
        if r["hyp"] & 4:
            n_par += 1
        if r["hyp"] & 3 == 3:
            n_hyp += 1
            if r["safe"] & 32:
                res.violation({"kind": "spec-violation", "struct": m["key"],
                               "what": "flat struct without Min/Max field-name clash, yet the emitted var block declares a name twice "
                                       "(conclusion of C08_no_duplicate_declaration_flat fails on the emitted file)",
                               "file": open(m["file"]).read()[:4000] if os.path.exists(m["file"]) else None})
    res.coverage["names_theorem_instances"] = {
        "emitted_files_checked_for_undeclared_and_duplicate_names": n_files,
        "structs_meeting_hypotheses_of_C08_no_duplicate_declaration_flat": n_hyp,
        "structs_with_documented_parameters_(params_ok,_hypothesis_of_C08_documented_parameters_are_well_typed)": n_par}


PROPFILE = "theories/Properties/C08.v"
replay = genprop.replay
