"""C08 — generated code compiles, is gofmt-clean and implements the interfaces. Theorems: Properties/C08.v."""
import os
import subprocess

import corpora
import genprop
import kf
from vlib import GOENV, known_findings, run


def write_asserts(gr):
    """compile-time assertion that *T satisfies both interfaces, for every struct that got a file"""
    by_pkg = {}
    for m in gr.meta:
        if m["generated"]:
            by_pkg.setdefault(m["pkg"], []).append(m["type"])
    for pkg, types in by_pkg.items():
        lines = ["package " + pkg, "", 'import "github.com/sivchari/govalid"', "", "var ("]
        for t in types:
            lines.append("\t_ govalid.Validator = (*%s)(nil)" % t)
            lines.append("\t_ govalid.ContextValidator = (*%s)(nil)" % t)
        lines.append(")")
        open(os.path.join(gr.moddir, pkg, "zz_assert.go"), "w").write("\n".join(lines) + "\n")


def fmt_and_vet(res, gr, results):
    files = [m["file"] for m in gr.meta if m["generated"]]
    p = subprocess.run(["gofmt", "-l"] + files, stdout=subprocess.PIPE, stderr=subprocess.PIPE, text=True)
    unformatted = [l for l in p.stdout.split() if l]
    res.coverage["gofmt_checked_files"] = len(files)
    for f in unformatted[:3]:
        res.violation({"kind": "spec-violation", "what": "generated file is not gofmt-clean", "file": f,
                       "content": open(f).read()[:3000]})
    good = sorted({m["pkg"] for m in gr.meta if m["generated"] and m["pkg"] not in gr.bad_pkgs})
    p = run(["go", "vet"] + ["./" + g for g in good], cwd=gr.moddir, env=GOENV, timeout=1800)
    res.coverage["go_vet_packages"] = len(good)
    if p.returncode != 0:
        res.violation({"kind": "spec-violation", "what": "go vet reports problems in generated code", "log": (p.stderr or "")[-3000:]})


def check(res):
    corpus = corpora.c08(res.seed, res.tier)
    cl = kf.make_classifier(res, "C08", known_findings("C08"))
    genprop.run(res, "C08", PROPFILE, corpus, classify=cl, pre_build=write_asserts, spec=False,
                extra=lambda gr, r: (fmt_and_vet(res, gr, r), names_theorems(res, gr, r)))


def names_theorems(res, gr, results):
    """Instances of the C08 theorems on the REAL emitted files: C08_no_missing_declaration for every struct,
    C08_no_duplicate_declaration_flat for every struct that meets its syntactic hypotheses."""
    n_files = n_hyp = 0
    for m in gr.meta:
        r = results[m["index"]]
        if not m["generated"]:
            continue
        n_files += 1
        if r["hyp"] == 3:
            n_hyp += 1
            if r["safe"] & 32:
                res.violation({"kind": "spec-violation", "struct": m["key"],
                               "what": "flat struct without Min/Max field-name clash, yet the emitted var block declares a name twice "
                                       "(conclusion of C08_no_duplicate_declaration_flat fails on the emitted file)",
                               "file": open(m["file"]).read()[:4000] if os.path.exists(m["file"]) else None})
    res.coverage["names_theorem_instances"] = {
        "emitted_files_checked_for_undeclared_and_duplicate_names": n_files,
        "structs_meeting_hypotheses_of_C08_no_duplicate_declaration_flat": n_hyp}


PROPFILE = "theories/Properties/C08.v"
replay = genprop.replay
