"""C09 — every field governed by a marker is checked. Theorems: Properties/C09.v."""
import corpora
import genprop
import kf
from vlib import known_findings


def entries(o):
    if not o.startswith("R:"):
        return o
    out = []
    for part in o[2:].split(";"):
        p, t, ok = part.split(",")
        path = bytes.fromhex(p).decode("latin1") if p != "-" else ""
        out.append((path.split(".", 1)[1] if "." in path else path, t, ok))
    return sorted(out)


def check_placement(res, gr, results):
    """struct-level placement (struct A) against per-field placement (struct B) of the same markers on the same values"""
    n = 0
    for sc in gr.corpus["scenarios"]:
        if not sc["id"].startswith("c09sl"):
            continue
        a, b = sc["structs"][0], sc["structs"][1]
        for j in range(len(a["cases"])):
            oa = gr.obs.get("%s/A/%d" % (sc["id"], j))
            ob = gr.obs.get("%s/B/%d" % (sc["id"], j))
            if oa is None or ob is None:
                res.violation({"kind": "spec-violation", "scenario": sc["id"], "what": "no observation for the struct-level or the per-field variant (one of them was not generated or does not compile)",
                               "source": genprop.struct_source(gr, sc["id"] + "/A")})
                break
            n += 1
            if entries(oa["VT"]) != entries(ob["VT"]):
                res.violation({"kind": "spec-violation", "scenario": sc["id"], "case_index": j, "case": a["cases"][j],
                               "struct_level": oa["VT"], "per_field": ob["VT"], "source": genprop.struct_source(gr, sc["id"] + "/A"),
                               "what": "a marker on the struct declaration does not have the effect of the same marker on each applicable field"})
                break
    res.coverage["placement_pairs_compared"] = n


def check(res):
    kf.lowercase_collision(res, "C09", known_findings("C09"))
    kf.element_struct_markers(res, "C09", known_findings("C09"))
    corpus = corpora.c09(res.seed, res.tier)
    cl = kf.make_classifier(res, "C09", known_findings("C09"))

    def classify(gr, m, r, sc, st):
        # a struct without any rule legitimately gets no file
        if not m["generated"] and not st["cases"]:
            return True
        return cl(gr, m, r, sc, st)
    genprop.run(res, "C09", PROPFILE, corpus, classify=classify, extra=lambda gr, r: check_placement(res, gr, r))


PROPFILE = "theories/Properties/C09.v"
replay = genprop.replay
