"""C18 — legacy/new spellings equivalent; migrate rewrites only markers. Theorems: Properties/C18.v.
Tie: synthesized source files through the rebuilt `govalid migrate` (dry-run, migrate, migrate again) against
the extracted migrate_content; generated validators for the legacy and the new spelling byte-compared."""
import os
import random
import shutil
import subprocess

from vlib import (GOENV, MODEL_BIN, REPO, build_govalid, check_properties_file, model_build, run, scratch)

TRUSTED = [
    "Coq 8.16.1 kernel; extraction (ExtrOcamlBasic only) + ocaml/main.ml driver",
    "hand-written Gallina model of cmd/govalid/migrate.go including a tokenizer state machine standing for go/scanner "
    "(Misc/Migrate.v), tied to /repo by the byte-for-byte differential recorded here",
    "golang.org/x/tools/go/packages file discovery, os.WriteFile: not modelled",
]

MARKERS = ["required", "gt=3", "lte=1.5e1", "minlength=2", "enum=a=b,c+d", "cel=value + 1 == 2 || value != this.X", "email",
           "maxitems=1", "enum= x , y", "cel=size(value) >= 1 && value.startsWith('a+b=')"]
TRICKY = [
    "var r1 = '`'", "var r2 = '\"'", "var s1 = \"`\"", "var s2 = \"/*\"", "var q1 = 10 / 2 // trailing ` backquote", "/* block with // and ` inside */ var q2 = 1",
    "var e1 = '\\''", "var f1 = \"\\\"\"", "var g1 = \"\\\\\"", "var h1 = \"// +govalid:required\"", "var h2 = `// +govalid:required`",
    "var d1 = 8 / /* c */ 2", "var d2 = 8 /* a */ / 2 // x", "/* one-line */", "var u = \"'\" + \"`\"", "var rs = '/'",
    "var cm = \"*/\"", "// plain comment with `backquote and \"quote", "//govalid:already-new", "//  +govalid:two-spaces", "//+govalid:nospace",
    "// + govalid:space-after-plus",
    # position directives: token.File.Line/Position are adjusted by them, offsets and the raw line table are not
    "//line schema.tmpl:1", "//line gen.go:480", "/*line blk.go:7:3*/ var ln1 = 1", "//line :3", "//go:generate echo // +govalid:required", "//nolint:all // +govalid:x",
]


def synth_file(rng, pkg, idx):
    eol = rng.choice(["\n", "\n", "\r\n"])
    indents = ["\t", "    ", "\t  ", " \t", "\t\t"]
    L = ["package " + pkg, ""]
    names = iter("v%d_%d" % (idx, k) for k in range(10000))

    def uniq(line):
        # make every tricky declaration's name unique within the package
        for stem in ("r1", "r2", "s1", "s2", "q1", "q2", "e1", "f1", "g1", "h1", "h2", "d1", "d2", "u", "rs", "cm", "ln1"):
            line = line.replace("var %s =" % stem, "var %s =" % next(names))
        return line
    for t in rng.sample(TRICKY, rng.randint(6, len(TRICKY))):
        L.append(uniq(t))
        if rng.random() < 0.8:
            L.append(rng.choice(["", "\t", "  "]) + "// +govalid:" + rng.choice(MARKERS))
    # raw string spanning lines, with look-alikes at several indentations
    L.append("var %s = `first" % next(names))
    for ind in ["", "\t", "   "]:
        L.append(ind + "// +govalid:required")
    L.append("\t// +govalid:gt=1` + \"x\"")
    L.append("// +govalid:required")            # a real whole-line comment right after the raw string closed
    L.append("/*")
    L.append("// +govalid:required")
    L.append("\t// +govalid:minlength=3 */ // +govalid:not-first-on-line")
    L.append("// +govalid:email")
    L.append("var %s = []string{" % next(names))
    L.append("\t\"// +govalid:required\",")
    L.append("\t`// +govalid:required`,")
    L.append("}")
    for s in range(rng.randint(1, 3)):
        if rng.random() < 0.4:
            L.append("//line tmpl%d.src:%d" % (s, rng.choice([1, 2, 7, 300, 100000])))
        L.append(rng.choice(["// +govalid:required", "//govalid:required", "// a doc comment"]))
        L.append("type T%d_%d struct {" % (idx, s))
        for f in range(rng.randint(1, 6)):
            ind = rng.choice(indents)
            for _ in range(rng.randint(0, 3)):
                sp = rng.choice(["// +govalid:", "// +govalid:", "//govalid:"])
                L.append(ind + sp + rng.choice(MARKERS))
            tail = rng.choice(["", " // +govalid:required", " // trailing", " /* // +govalid:x */"])
            L.append(ind + "F%d %s%s" % (f, rng.choice(["string", "int", "[]string"]), tail))
        L.append("}")
    text = eol.join(L)
    if rng.random() < 0.6:
        text += eol
    if eol == "\r\n" and rng.random() < 0.5:
        text = text.replace("\r\n", "\n", 3)     # mixed line endings
    return text.encode()


def model_migrate(contents):
    inp = "".join((c.hex() or "-") + "\n" for c in contents)
    p = subprocess.run([MODEL_BIN, "Migrate"], input=inp, stdout=subprocess.PIPE, text=True, check=True)
    out = []
    for line in p.stdout.splitlines():
        n, h = line.split(" ")
        out.append((int(n), b"" if h == "-" else bytes.fromhex(h)))
    return out


def snapshot(d):
    snap = {}
    for root, _, files in os.walk(d):
        for f in files:
            p = os.path.join(root, f)
            snap[os.path.relpath(p, d)] = open(p, "rb").read()
    return snap


def check(res):
    res.assumptions = TRUSTED
    res.coverage["trusted_base"] = TRUSTED
    res.coverage["checker_cmd"] = "make -C coq -j16 && coqc -Q theories GV theories/Properties/C18.v"
    check_properties_file(res, "theories/Properties/C18.v")
    ok, err = model_build()
    if not ok:
        res.violation({"kind": "proof-break", "what": "extraction / model build failed", "log_tail": err[-2000:]}, found_input=False)
        return
    gv, err = build_govalid()
    if gv is None:
        res.violation({"kind": "correspondence-break", "what": "cmd/govalid does not build", "log_tail": err[-2000:]}, found_input=False)
        return
    rng = random.Random(res.seed)
    nfiles = 40 if res.tier == "quick" else 400
    d = os.path.join(scratch(), "mig")
    os.makedirs(os.path.join(d, "p"), exist_ok=True)
    open(os.path.join(d, "go.mod"), "w").write("module mig\n\ngo 1.24.3\n")
    files = {}
    for i in range(nfiles):
        files["p/f%d.go" % i] = synth_file(rng, "p", i)
    # a file without legacy markers, and an empty-ish one
    files["p/clean.go"] = b"package p\n\n//govalid:required\ntype Clean struct{ A string }\n"
    for rel, c in files.items():
        open(os.path.join(d, rel), "wb").write(c)
    before = snapshot(d)
    expect = dict(zip(files, model_migrate(list(files.values()))))
    # 1. dry run writes nothing
    p = run([gv, "migrate", "--dry-run", "./..."], cwd=d, env=GOENV, timeout=600)
    if p.returncode != 0:
        raise RuntimeError("migrate --dry-run failed: " + (p.stderr or "")[-1500:])
    after_dry = snapshot(d)
    if after_dry != before:
        changed = [k for k in after_dry if after_dry.get(k) != before.get(k)] + [k for k in before if k not in after_dry]
        res.violation({"kind": "spec-violation", "what": "--dry-run modified or created files", "files": changed[:5]})
    # 2. migrate
    p = run([gv, "migrate", "./..."], cwd=d, env=GOENV, timeout=600)
    if p.returncode != 0:
        raise RuntimeError("migrate failed: " + (p.stderr or "")[-1500:])
    after = snapshot(d)
    extra_files = sorted(set(after) - set(before))
    if extra_files:
        res.violation({"kind": "spec-violation", "what": "migrate created files", "files": extra_files[:5]})
    mism = 0
    total_markers = 0
    for rel, (cnt, want) in expect.items():
        total_markers += cnt
        got = after.get(rel)
        if got != want:
            mism += 1
            if mism <= 3:
                # first differing line
                gl, wl, ol = got.split(b"\n"), want.split(b"\n"), files[rel].split(b"\n")
                k = next((i for i in range(max(len(gl), len(wl))) if i >= len(gl) or i >= len(wl) or gl[i] != wl[i]), -1)
                res.violation({"kind": "spec-violation", "file": rel, "line_index": k,
                               "original_line": repr(ol[k]) if 0 <= k < len(ol) else None,
                               "implementation_line": repr(gl[k]) if 0 <= k < len(gl) else None,
                               "model_line": repr(wl[k]) if 0 <= k < len(wl) else None,
                               "context": [repr(x) for x in ol[max(0, k - 4):k + 1]],
                               "input_hex": files[rel].hex(),
                               "what": "`govalid migrate` output differs from migrate_content (proved: only legacy marker comment lines change, "
                                       "look-alikes inside raw strings / block comments are preserved, idempotent)",
                               "replay": "bin/check C18 --replay <this file>"})
    # 3. migrate again: nothing changes
    p = run([gv, "migrate", "./..."], cwd=d, env=GOENV, timeout=600)
    again = snapshot(d)
    if again != after:
        res.violation({"kind": "spec-violation", "what": "a second migrate changed files again (not idempotent)",
                       "files": [k for k in again if again[k] != after.get(k)][:5]})
    # 4. generator output for the legacy and the new spelling is byte-identical
    gen_equal = spelling_equivalence(res, gv, rng)
    legacy_certificates(res)
    res.coverage.update({
        "evaluations": len(files) * 3 + gen_equal, "distinct_nontrivial": sum(1 for c, _ in expect.values() if c > 0),
        "rule": "synthesized Go files (legacy/new/mixed spellings, 5 indentations, LF/CRLF/mixed, with and without final newline, "
                "look-alikes in raw strings, block comments, string literals and trailing comments, tokenizer traps such as '`' "
                "and \"/*\"); each goes through --dry-run, migrate, migrate again; distinct_nontrivial = files with >= 1 legacy marker",
        "legacy_markers_in_corpus": total_markers, "files": len(files), "mismatching_files": mism,
        "samples": [{"file": "p/f0.go", "first_lines": [repr(x) for x in files["p/f0.go"].split(b"\n")[:12]]}],
    })


def legacy_certificates(res):
    """declarations written in the legacy spelling (with parameters that contain ' +', '=' and '+') through the certificate
    pipeline: the emitted file must equal gen_file of the model, whose marker parser is the one C18_spelling is about"""
    import genprop
    from synth import SLICE, basic, case, fld, scenario, set_coll, set_int, set_str, struct
    s, i64 = basic("string"), basic("int")
    docs_a = ["// +govalid:enum=a +b,c=d, e +f", "// +govalid:minlength=1"]
    fields = [fld("A", docs_a, s), fld("B", ["// +govalid:gt=1", "//govalid:lte=10", "// +govalid:required"], i64),
              fld("C", ["// +govalid:maxitems=2", "// +govalid:required"], SLICE),
              fld("D", ["// +govalid:enum=x +y", "//govalid:enum= +z, +w"], s),        # a later marker replaces the earlier one
              fld("N", [], nested=[fld("E", ["// +govalid:length=3", "// +govalid:alpha"], s)])]
    cases = [case([]), case([set_str("A", b"a +b"), set_int("B", 5), set_coll("C", False, 1), set_str("D", b"+z"), set_str("N.E", b"abc")]),
             case([set_str("A", b"ab"), set_int("B", 11), set_coll("C", False, 3), set_str("D", b"x +y"), set_str("N.E", b"ab1")]),
             case([set_str("A", b"c=d"), set_int("B", 1), set_coll("C", True, 0), set_str("D", b"+w"), set_str("N.E", b"")])]
    legacy = struct("L", fields, cases)
    import copy
    new = copy.deepcopy(legacy)
    new["name"] = "M"

    def respell(fs):
        for f in fs:
            f["doc"] = [d.replace("// +govalid:", "//govalid:") for d in f["doc"]]
            if "nested" in f:
                respell(f["nested"])
    respell(new["fields"])
    genprop.run(res, "C18", None, {"scenarios": [scenario("c18legacy", [legacy, new])]}, tag="c18gen")


def spelling_equivalence(res, gv, rng):
    d = os.path.join(scratch(), "spell")
    n = 0
    for variant in ("legacy", "newsp"):
        os.makedirs(os.path.join(d, variant), exist_ok=True)
    open(os.path.join(d, "go.mod"), "w").write("module spell\n\ngo 1.24.3\n\nrequire github.com/sivchari/govalid v0.0.0\n\nreplace github.com/sivchari/govalid => %s\n" % REPO)
    shutil.copy(os.path.join(REPO, "go.sum"), os.path.join(d, "go.sum"))
    body = []
    for s in range(12):
        body.append("//@@required" if s % 3 == 0 else "// doc")
        body.append("type S%d struct {" % s)
        for f in range(rng.randint(1, 6)):
            t = rng.choice(["string", "int", "[]string", "float64"])
            ms = {"string": ["required", "minlength=2", "email", "enum=a,b", "maxlength=9", "uuid"], "int": ["gt=1", "lte=10", "required", "enum=1,2"],
                  "[]string": ["minitems=1", "maxitems=4", "required"], "float64": ["gte=0.5", "lt=100", "required"]}[t]
            for m in rng.sample(ms, rng.randint(1, len(ms))):
                body.append("\t//@@" + m)
            body.append("\tF%d %s" % (f, t))
        body.append("}")
        body.append("")
    text = "\n".join(body)
    open(os.path.join(d, "legacy", "x.go"), "w").write("package spell\n\n" + text.replace("//@@", "// +govalid:"))
    open(os.path.join(d, "newsp", "x.go"), "w").write("package spell\n\n" + text.replace("//@@", "//govalid:"))
    p = run([gv, "./..."], cwd=d, env=GOENV, timeout=600)
    if p.returncode != 0:
        raise RuntimeError("generation failed in spelling test: " + (p.stderr or "")[-1500:])
    a = {f: open(os.path.join(d, "legacy", f), "rb").read() for f in sorted(os.listdir(os.path.join(d, "legacy"))) if f.endswith("_validator.go")}
    b = {f: open(os.path.join(d, "newsp", f), "rb").read() for f in sorted(os.listdir(os.path.join(d, "newsp"))) if f.endswith("_validator.go")}
    n = len(a)
    if a != b or not a:
        diff = [f for f in set(a) | set(b) if a.get(f) != b.get(f)]
        res.violation({"kind": "spec-violation", "what": "generated code differs between the legacy and the new spelling of the same markers",
                       "files": diff[:5], "source_legacy": open(os.path.join(d, "legacy", "x.go")).read()[:3000]})
    # migrating the legacy package leaves the generator's output unchanged
    p = run([gv, "migrate", "./legacy"], cwd=d, env=GOENV, timeout=600)
    for f in a:
        os.remove(os.path.join(d, "legacy", f))
    p = run([gv, "./legacy"], cwd=d, env=GOENV, timeout=600)
    a2 = {f: open(os.path.join(d, "legacy", f), "rb").read() for f in sorted(os.listdir(os.path.join(d, "legacy"))) if f.endswith("_validator.go")}
    if a2 != a:
        res.violation({"kind": "spec-violation", "what": "generator output for the migrated package differs from the output before migration",
                       "files": [f for f in set(a) | set(a2) if a.get(f) != a2.get(f)][:5]})
    res.coverage["spelling_pairs_byte_compared"] = n
    return n


def replay(payload):
    gv, err = build_govalid()
    d = os.path.join(scratch(), "rp")
    os.makedirs(os.path.join(d, "p"), exist_ok=True)
    open(os.path.join(d, "go.mod"), "w").write("module rp\n\ngo 1.24.3\n")
    c = bytes.fromhex(payload["input_hex"])
    open(os.path.join(d, "p", "f.go"), "wb").write(c)
    run([gv, "migrate", "./..."], cwd=d, env=GOENV)
    got = open(os.path.join(d, "p", "f.go"), "rb").read()
    model_build()
    want = model_migrate([c])[0][1]
    print("implementation == model:", got == want)
    return 0 if got == want else 1
