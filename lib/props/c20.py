"""C20 — HTTP middleware lets a request through iff its body validates. Theorems: Properties/C20.v.
Tie: net/http/httptest runs of both middleware variants against Misc/Middleware.v, the oracles (what
encoding/json and the validator return for the body) being obtained by direct calls in the same process."""
import json
import os
import random
import subprocess

from vlib import GOENV, MODEL_BIN, check_properties_file, go_build, model_build

TRUSTED = [
    "Coq 8.16.1 kernel; extraction (ExtrOcamlBasic only) + ocaml/main.ml driver",
    "hand-written Gallina model of validation/middleware/middleware.go (Misc/Middleware.v) as a function of two oracles: "
    "json.Decoder.Decode succeeded? / what Validate or ValidateContext returned (message, errors.Is context error?)",
    "encoding/json, net/http, net/http/httptest, errors.Is: not modelled; harness/cmd/mwprobe obtains the oracle values by direct calls",
]


def bodies(rng, tier):
    ok = {"name": "John", "email": "john@example.com"}
    out = [json.dumps(ok), json.dumps({"name": "", "email": "john@example.com"}), json.dumps({"name": "John", "email": "nope"}),
           json.dumps({"name": "", "email": ""}), json.dumps({"name": "J"}), json.dumps({"email": "a@b.cd"}), "{}", "null", "",
           " ", "{", '{"name":', '{"name":"a","email":"a@b.cd"', '{"name":1,"email":"a@b.cd"}', '{"name":"a","email":["x"]}',
           "[]", "[1,2]", "42", '"str"', "true", json.dumps(ok) + " trailing", json.dumps(ok) + "{", json.dumps(ok) + json.dumps(ok),
           json.dumps(ok) + "\n\n", "﻿" + json.dumps(ok), json.dumps(dict(ok, extra=1)), '{"name":"a","name":"","email":"a@b.cd"}',
           '{"Name":"A","EMAIL":"a@b.cd"}', '{"name":"a\\u0000","email":"a@b.cd"}', '{"name":"\\ud800","email":"a@b.cd"}',
           '{"name":"' + "x" * 100000 + '","email":"a@b.cd"}', "nul", "NULL", "{\"name\":\"a\",\"email\":\"a@b.cd\"}\x00"]
    # well-formed JSON objects that do not decode into the target type (wrong JSON type / out-of-range number for one field)
    out += ['{"mode":"ok","n":"200"}', '{"mode":"ok","n":1e40}', '{"n":"x"}', '{"mode":"ok","tags":"notalist"}', '{"mode":"ok","sub":{"x":"s"}}', '{"mode":5}',
            '{"mode":"ok","n":1.5}', '{"mode":"ok","tags":[1,2]}', '{"mode":"ok","sub":[]}', '{"mode":"ok","n":null,"tags":null}', '{"mode":"ok","n":7,"tags":["a"],"sub":{"x":1}}',
            '{"name":"John","email":"john@example.com","age":"x"}', '{"name":["John"],"email":"john@example.com"}']
    # rejected values that are echoed in the validation message: format verbs, line breaks, markup, quotes, controls, long text -
    # the body of the response carries the message verbatim
    for v in ("50%off", "%s", "%d%v%x", "100%sure@", "a%20b%2Fc d", "%!s(MISSING)", "%%", "%", "%[1]s", "%-5d|", "line1\nline2", "cr\r\nlf", "<script>alert(1)</script>",
              "a&b<c>d", 'q"uote\'s', "back\\slash", "tab\there", "nul\x00byte", "\x7f\x1b[31m", "\u00e9\u65e5\u672c", "\U0001F600", "x" * 3000, " lead and trail "):
        out.append(json.dumps({"name": "John", "email": v}))
        out.append(json.dumps({"name": "", "email": v}, ensure_ascii=False))
    # fields that decode themselves (time.Time, netip.Addr, custom UnmarshalJSON / UnmarshalText): well-formed JSON of the right
    # kind that the field's own decoder rejects is still a body that does not decode
    out += ['{"mode":"ok","when":"tomorrow"}', '{"mode":"ok","when":"2024-01-02T03:04:05Z"}', '{"mode":"fail","at":"2024-13-45T00:00:00Z"}', '{"mode":"ok","at":""}',
            '{"mode":"ok","at":"2024-01-02T03:04:05+01:00"}', '{"mode":"ok","addr":"999.1.1.1"}', '{"mode":"ok","addr":"10.0.0.1"}', '{"mode":"ok","addr":"::1%eth0"}',
            '{"mode":"ok","addr":""}', '{"mode":"ok","odd":"bad"}', '{"mode":"ok","odd":{"k":"bad"}}', '{"mode":"ok","odd":[1,2]}', '{"mode":"fail","odd":"bad"}',
            '{"mode":"ok","txt":"!x"}', '{"mode":"ok","txt":"x!"}', '{"mode":"ok","txt":5}', '{"mode":"ok","when":null,"odd":null}', '{"mode":"ok","when":12}',
            '{"name":"John","email":"john@example.com","when":"tomorrow"}']
    for mode in ("ok", "fail", "canceled", "deadline", "wrapped-canceled", "wrapped-deadline", "empty-message", "zzz"):
        out.append(json.dumps({"mode": mode}))
        out.append(json.dumps({"mode": mode, "name": "John", "email": "john@example.com"}))
    # sequences on the same middleware instance: a complete body followed by bodies that omit fields
    for _ in range(3):
        out += [json.dumps(ok), json.dumps({"name": "Jane"}), json.dumps({"email": "x@y.zz"}), "{}", json.dumps({"mode": "fail"}), json.dumps({"name": "n"}),
                json.dumps({"mode": "ok"}), "{}", json.dumps(ok), "null", json.dumps({"email": "a@b.cd"})]
    raw = [b.encode("utf-8", "surrogatepass") if isinstance(b, str) else b for b in out]
    raw += [b'{"name":"\xff","email":"a@b.cd"}', b"\xff\xfe", b'{"name":"a","email":"a@b.cd"}' + b" " * 5000]
    n = 60 if tier == "quick" else 2000
    base = json.dumps(ok).encode()
    for _ in range(n):
        b = bytearray(rng.choice(raw[:12]) or base)
        k = rng.randrange(3)
        if k == 0 and b:
            b[rng.randrange(len(b))] = rng.randrange(256)
        elif k == 1 and b:
            del b[rng.randrange(len(b)):]
        else:
            b[rng.randrange(len(b) + 1):0] = bytes([rng.choice(b'{}[]",: \\n0')])
        raw.append(bytes(b))
    return raw


def check(res):
    res.assumptions = TRUSTED
    res.coverage["trusted_base"] = TRUSTED
    res.coverage["checker_cmd"] = "make -C coq -j16 && coqc -Q theories GV theories/Properties/C20.v"
    check_properties_file(res, "theories/Properties/C20.v")
    ok, err = model_build()
    if not ok:
        res.violation({"kind": "proof-break", "what": "extraction / model build failed", "log_tail": err[-2000:]}, found_input=False)
        return
    exe, err = go_build("./cmd/mwprobe", "mwprobe", tags="test")
    if exe is None:
        res.violation({"kind": "correspondence-break", "what": "cannot build the middleware probe against /repo", "log_tail": err[-2500:]},
                      found_input=False)
        return
    rng = random.Random(res.seed)
    bs = bodies(rng, res.tier)
    inp = "".join((b.hex() or "-") + "\n" for b in bs)
    p = subprocess.run([exe], input=inp, stdout=subprocess.PIPE, stderr=subprocess.PIPE, text=True)
    if p.returncode != 0:
        raise RuntimeError("mwprobe failed: " + p.stderr[-2000:])
    rows = []
    model_in = []
    for line in p.stdout.splitlines():
        left, mid, right = [x.strip() for x in line.split("|")]
        name, variant, ck, body = left.split(" ")
        status, nc, rbody = mid.split(" ")
        dec, cls, msg = right.split(" ")
        rows.append((name, variant, ck, body, status, nc, rbody, dec, cls, msg))
        model_in.append("%s %s %s %s\n" % (variant, dec, cls, msg))
    m = subprocess.run([MODEL_BIN, "Middleware"], input="".join(model_in), stdout=subprocess.PIPE, text=True, check=True)
    outcomes = {}
    bad = 0
    for row, ml in zip(rows, m.stdout.splitlines()):
        name, variant, ck, body, status, nc, rbody, dec, cls, msg = row
        ms, mn, mb = ml.split(" ")
        outcomes[(variant, status, nc)] = outcomes.get((variant, status, nc), 0) + 1
        same = (ms == status and mn == nc and (mb == rbody or nc == "1"))
        # spec, directly: handler called iff the body decodes and validation returns nil
        spec_next = "1" if (dec == "1" and cls == "0") else "0"
        if not same or spec_next != nc:
            bad += 1
            if bad <= 3:
                res.violation({"kind": "spec-violation", "type": name, "variant": "ValidateRequestContext" if variant == "1" else "ValidateRequest",
                               "request_context": ck, "body_hex": body, "body_repr": repr(bytes.fromhex(body) if body != "-" else b"")[:300],
                               "implementation": {"status": status, "handler_called": nc, "response_body": repr(bytes.fromhex(rbody) if rbody != "-" else b"")[:200]},
                               "model": {"status": ms, "handler_called": mn, "response_body": repr(bytes.fromhex(mb) if mb != "-" else b"")[:200]},
                               "oracles": {"decodes": dec, "validation_class(0 nil,1 error,2 context error)": cls, "message": repr(bytes.fromhex(msg) if msg != "-" else b"")[:200]},
                               "what": "middleware response differs from Misc/Middleware.v (C20_next_iff, C20_rejected, C20_rejected_ctx)"})
    res.coverage.update({
        "evaluations": len(rows), "distinct_nontrivial": len({(r[0], r[1], r[2], r[3]) for r in rows if r[7] == "1"}),
        "rule": "request bodies (valid, each single-rule violation and combinations, null, wrong JSON types, truncated, empty, trailing garbage, "
                "BOM, duplicate keys, invalid UTF-8, 100 kB strings, random single-byte mutations) x {ValidateRequest, ValidateRequestContext} x "
                "{live, cancelled, expired} request context x {fixture PersonRequest, scripted validator returning nil / error / "
                "context errors / wrapped context errors}; distinct_nontrivial = distinct requests whose body decodes",
        "outcome_distribution": {"variant=%s status=%s handler_called=%s" % k: v for k, v in sorted(outcomes.items())},
        "samples": [{"type": r[0], "variant": r[1], "ctx": r[2], "body": repr(bytes.fromhex(r[3]) if r[3] != "-" else b"")[:80], "status": r[4], "handler_called": r[5]} for r in rows[6:12]],
    })


def replay(payload):
    print(json.dumps(payload, indent=1))
    return 1
