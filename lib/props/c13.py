"""C13 — UUID recognizer. Theorems: Properties/C13.v. Tie: differential on the exported
IsValidUUID (plus the internal helpers through the verif hook)."""
import subprocess

import recog
from vlib import MODEL_BIN, check_properties_file, go_build

PROP = "C13"
TOP = "IsValidUUID"
INTERNAL = ["hasValidHyphens", "hasValidHexChars", "isMaxUUID", "isValidUUIDVersionAndVariant"]
TRUSTED = [
    "Coq 8.16.1 kernel (coqc, vm_compute in finite byte sweeps); no native_compute",
    "Coq extraction to OCaml with ExtrOcamlBasic only; ocaml/main.ml line-protocol driver",
    "hand-written Gallina mirror of validation/validationhelper/uuid.go (Helpers/Uuid.v), tied to /repo by the differential run recorded here",
    "harness/cmd/helperprobe (calls the rebuilt Go functions), harness/cmd/strgen (input corpus)",
]


def check(res):
    res.assumptions = TRUSTED
    res.coverage["trusted_base"] = TRUSTED
    res.coverage["checker_cmd"] = "make -C coq -j16 && coqc -Q theories GV theories/Properties/C13.v"
    check_properties_file(res, "theories/Properties/C13.v")
    probe, hooked = recog.build_probe(res)
    if probe is None:
        return
    inp = recog.gen_inputs("uuid", res.seed, res.tier)
    mism = recog.differential(res, TOP, inp, probe, "exported entry point")
    if mism is None:
        return
    n, distinct, verdicts = recog.stats(inp, recog.os.path.join(recog.scratch(), TOP + ".go.out"))
    res.coverage.update({
        "evaluations": n, "distinct_nontrivial": distinct,
        "rule": "strgen uuid: 37 accepted bases (version x variant, nil, max in 3 casings) x every single-position "
                "substitution by all 256 bytes; every pair of positions over a class alphabet; all lengths 0..40; "
                "random case renderings; random hex-shaped and raw strings. distinct = distinct input strings; "
                "verdict split in functions.IsValidUUID.go_verdicts",
        "samples": [l.strip() for l in open(inp).readlines()[15:20]],
    })
    reported = 0
    for hexin, g, m in mism[:5]:
        sh, g2, m2 = recog.shrink(probe, TOP, hexin, g, m) if hexin != "<length mismatch>" else (hexin, g, m)
        res.violation({
            "kind": "spec-violation", "function": TOP, "input_hex": sh, "input_repr": repr(recog.unhex(sh)) if sh != "<length mismatch>" else sh,
            "implementation": g2, "model_and_spec": m2,
            "explanation": "C13_exact proves model = spec for every byte string; /repo's IsValidUUID differs from the model on this input (T accept, F reject, P panic)",
            "replay": "bin/check C13 --replay <this file>"})
        reported += 1
    drift = {}
    if hooked:
        for fn in INTERNAL:
            mi = recog.differential(res, fn, inp, probe, "internal helper (hook)")
            if mi and mi != "unavailable":
                drift[fn] = mi[:3]
        # leaf over its whole finite domain
        import os
        leaf = os.path.join(recog.scratch(), "bytes256.in")
        open(leaf, "w").write("".join("%d\n" % i for i in range(256)))
        mi = recog.differential(res, "isValidHexChar", leaf, probe, "leaf, exhaustive over 256 bytes")
        if mi and mi != "unavailable":
            drift["isValidHexChar"] = mi[:3]
    if drift:
        res.coverage["internal_drift"] = drift
        if not mism:
            # internal helpers differ from their model namesakes, but on the whole corpus the exported
            # function still equals the model (hence the spec): a rewrite, not a violation.
            res.coverage["internal_drift_note"] = "exported function still equals model on the whole corpus"


def replay(payload):
    probe, err = go_build("./cmd/helperprobe", "helperprobe_plain")
    inp = payload["input_hex"] + "\n"
    a = subprocess.run([probe, payload["function"]], input=inp, stdout=subprocess.PIPE, text=True).stdout.strip()
    m = subprocess.run([MODEL_BIN, payload["function"]], input=inp, stdout=subprocess.PIPE, text=True).stdout.strip()
    print("input=%r implementation=%s model/spec=%s" % (recog.unhex(payload["input_hex"]), a, m))
    return 0 if a == m else 1
