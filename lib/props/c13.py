"""C13 — UUID recognizer. Theorems: Properties/C13.v."""
import recog

TRUSTED = [
    "Coq 8.16.1 kernel (coqc; vm_compute only in sweeps over the 256 byte values and closed examples); no native_compute",
    "Coq extraction to OCaml with ExtrOcamlBasic only (no Extract Constant / Extract Inductive of our own); ocaml/main.ml line-protocol driver",
    "hand-written Gallina mirror of the Go recognizer, tied to /repo by the differential run recorded in this file",
    "harness/cmd/helperprobe (calls the rebuilt Go functions), harness/cmd/strgen (input corpus)",
]


def check(res):
    res.assumptions = TRUSTED
    res.coverage["trusted_base"] = TRUSTED
    recog.standard_check(
        res, "C13", "theories/Properties/C13.v", "uuid", "IsValidUUID",
        [(f, "uuid") for f in ("hasValidHyphens", "hasValidHexChars", "isMaxUUID", "isValidUUIDVersionAndVariant")],
        [("isValidHexChar", 256)],
        "strgen uuid: 37 accepted bases (version x variant, nil, max in 3 casings) x every single-position substitution "
        "by all 256 bytes; every pair of positions over a class alphabet; all lengths 0..40; random case renderings; "
        "random hex-shaped and raw strings. distinct_nontrivial = number of distinct input strings")


replay = recog.standard_replay
