"""C04 — see DESIGN.md §5 C04. Theorems: Properties/C04.v; tie: per-run certificates + differential."""
import corpora
import genprop


def check(res):
    corpus = corpora.c04(res.seed, res.tier)
    genprop.run(res, "C04", PROPFILE, corpus)


PROPFILE = "theories/Properties/C0456.v"
replay = genprop.replay
