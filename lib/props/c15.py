"""C15 — context contract. Theorems: Properties/C15.v."""
import corpora
import genprop


def ctx_contract(res, gr, results):
    """Spec-level reading of the observations: a context that turns done at its k-th Err() call."""
    n = 0
    for m in gr.meta:
        if not m["generated"] or m["pkg"] in gr.bad_pkgs:
            continue
        sc, st = genprop.find_struct(gr, m["key"])
        r = results[m["index"]]
        undisturbed = None
        for j, cs in enumerate(st["cases"]):
            o = gr.obs.get("%s/%d" % (m["key"], j))
            if o is None:
                continue
            n += 1
            bad = None
            if o["V"] != o["VT"]:
                bad = "Validate() and Validate%s(t) differ" % m["type"]
            if o["VTC"] != o["VC"]:
                bad = "ValidateContext and Validate%sContext differ" % m["type"]
            flip = cs.get("ctxflip", -1)
            # the generator model (gen_file) says how many cancellation points an undisturbed run passes: one per validated field
            want_calls = r["gcalls"][j] if j < len(r.get("gcalls", [])) else None
            if flip < 0:
                undisturbed = (o, int(o["calls"]) if want_calls is None else max(int(o["calls"]), want_calls))
                if want_calls is not None and int(o["calls"]) != want_calls and not cs.get("nil"):
                    bad = ("an undisturbed run polls the context %s times, but one cancellation point per validated field means %d"
                           % (o["calls"], want_calls))
                if o["VTC"] != o["V"]:
                    bad = "with a context that is never done, ValidateContext differs from Validate()"
            elif cs.get("nil"):
                if not o["VTC"].startswith("E:ErrNil"):
                    bad = "nil receiver does not yield ErrNil<T>"
            elif undisturbed is not None:
                u, ucalls = undisturbed
                code = "ctx:2" if cs.get("ctxerr") == "deadline" else "ctx:1"
                if flip < ucalls:
                    if o["VTC"] != code:
                        bad = ("the context turned done at Err() call %d (the undisturbed run makes %d calls) but the result is %s, not ctx.Err()"
                               % (flip, ucalls, o["VTC"]))
                elif o["VTC"] != u["V"]:
                    bad = "no cancellation was observed (done only from call %d, run makes %d) but the result differs from Validate()" % (flip, ucalls)
            # the model of the emitted code predicts the number of Err() calls
            if j < len(r["calls"]) and int(o["calls"]) != r["calls"][j] and not bad:
                bad = "number of ctx.Err() calls: compiled code %s, GoLite semantics of the translated file %d" % (o["calls"], r["calls"][j])
            if bad:
                res.violation({"kind": "spec-violation", "struct": m["key"], "case_index": j, "case": cs, "observed": o,
                               "source": genprop.struct_source(gr, m["key"]), "what": bad})
                break
    res.coverage["ctx_schedules_checked"] = n


def cel_loops(res):
    """CEL rules whose rendering loops over long collections of the receiver (membership in a 200-element field, a macro with a
    nested membership test), one of them on the LAST validated field.  The generator model does not cover CEL conditions, so
    the oracle is stated here: three validated fields = three cancellation points; a context that turns done at call k < 3 yields
    ctx.Err(); one that turns done later (or never) changes nothing - in particular it never turns a valid value into a report."""
    from corpora import with_ctx_flips
    from synth import SLICE, T, basic, case, fld, scenario, set_int, set_str, struct
    s, i64 = basic("string"), basic("int")
    ints = T("[]int", "TSlice", "coll")
    big = {"path": "Allowed", "vk": "coll", "isnil": False, "len": 200, "intelems": list(range(200))}
    known = {"path": "Known", "vk": "coll", "isnil": False, "len": 200, "strelems": [("t%d" % k).encode().hex() for k in range(200)]}

    def tags(*xs):
        return {"path": "Tags", "vk": "coll", "isnil": False, "len": len(xs), "strelems": [x.hex() for x in xs]}
    st = struct("Lookup", [fld("Name", ["//govalid:required"], s), fld("Allowed", [], ints), fld("Known", [], SLICE),
                           fld("Tags", ["//govalid:cel=value.all(tag, tag in this.Known)"], SLICE), fld("ID", ["//govalid:cel=value in this.Allowed"], i64)],
                with_ctx_flips([case([set_str("Name", b"n"), big, known, tags(b"t199", b"t150"), set_int("ID", 199)]),
                                case([set_str("Name", b""), big, known, tags(b"zz"), set_int("ID", 500)])], 12))
    corpus = {"scenarios": [scenario("c15cel", [st])]}

    def oracle(gr, results):
        n = 0
        for m in gr.meta:
            sc, st_ = genprop.find_struct(gr, m["key"])
            base = None
            for j, cs in enumerate(st_["cases"]):
                o = gr.obs.get("%s/%d" % (m["key"], j))
                if o is None:
                    continue
                n += 1
                flip = cs.get("ctxflip", -1)
                bad = None
                if flip < 0:
                    base = o
                    if o["calls"] != "3":
                        bad = "an undisturbed run polls the context %s times; three validated fields mean three cancellation points" % o["calls"]
                    elif o["VTC"] != o["V"] or o["V"] != o["VT"] or o["VC"] != o["VTC"]:
                        bad = "the four entry points disagree without any cancellation"
                    elif j == 0 and o["V"] != "nil":
                        bad = "a valid value is reported"
                elif base is not None:
                    code = "ctx:2" if cs.get("ctxerr") == "deadline" else "ctx:1"
                    if flip < 3 and o["VTC"] != code:
                        bad = "the context turned done at Err() call %d of 3 but the result is %s" % (flip, o["VTC"])
                    elif flip >= 3 and o["VTC"] != base["V"]:
                        bad = ("the context turned done only after the last cancellation point (from call %d on), yet the result %s differs from Validate() = %s"
                               % (flip, o["VTC"], base["V"]))
                if bad:
                    res.violation({"kind": "spec-violation", "struct": m["key"], "case_index": j, "case": {k: v for k, v in cs.items() if k != "sets"}, "observed": o,
                                   "source": genprop.struct_source(gr, m["key"]), "what": bad})
                    return
        res.coverage["cel_loop_schedules"] = n
    genprop.run(res, "C15", None, corpus, tag="c15cel", entry="VTC", use_ctx=True, spec=False, exec_cmp=False, extra=oracle)


def check(res):
    cel_loops(res)
    res.coverage["cel_loops"] = {k: res.coverage.get(k) for k in ("programs", "evaluations", "certificates", "cel_loop_schedules")}
    corpus = corpora.c15(res.seed, res.tier)
    genprop.run(res, "C15", PROPFILE, corpus, entry="VTC", use_ctx=True, spec=False,
                extra=lambda gr, r: ctx_contract(res, gr, r))


PROPFILE = "theories/Properties/C15.v"
replay = genprop.replay
