"""C15 — context contract. Theorems: Properties/C15.v."""
import corpora
import genprop


def ctx_contract(res, gr, results):
    """Spec-level reading of the observations: a context that turns done at its k-th Err() call."""
    n = 0
    for m in gr.meta:
        if not m["generated"] or m["pkg"] in gr.bad_pkgs:
            continue
        sc, st = genprop.find_struct(gr, m["key"])
        r = results[m["index"]]
        undisturbed = None
        for j, cs in enumerate(st["cases"]):
            o = gr.obs.get("%s/%d" % (m["key"], j))
            if o is None:
                continue
            n += 1
            bad = None
            if o["V"] != o["VT"]:
                bad = "Validate() and Validate%s(t) differ" % m["type"]
            if o["VTC"] != o["VC"]:
                bad = "ValidateContext and Validate%sContext differ" % m["type"]
            flip = cs.get("ctxflip", -1)
            # the generator model (gen_file) says how many cancellation points an undisturbed run passes: one per validated field
            want_calls = r["gcalls"][j] if j < len(r.get("gcalls", [])) else None
            if flip < 0:
                undisturbed = (o, int(o["calls"]) if want_calls is None else max(int(o["calls"]), want_calls))
                if want_calls is not None and int(o["calls"]) != want_calls and not cs.get("nil"):
                    bad = ("an undisturbed run polls the context %s times, but one cancellation point per validated field means %d"
                           % (o["calls"], want_calls))
                if o["VTC"] != o["V"]:
                    bad = "with a context that is never done, ValidateContext differs from Validate()"
            elif cs.get("nil"):
                if not o["VTC"].startswith("E:ErrNil"):
                    bad = "nil receiver does not yield ErrNil<T>"
            elif undisturbed is not None:
                u, ucalls = undisturbed
                code = "ctx:2" if cs.get("ctxerr") == "deadline" else "ctx:1"
                if flip < ucalls:
                    if o["VTC"] != code:
                        bad = ("the context turned done at Err() call %d (the undisturbed run makes %d calls) but the result is %s, not ctx.Err()"
                               % (flip, ucalls, o["VTC"]))
                elif o["VTC"] != u["V"]:
                    bad = "no cancellation was observed (done only from call %d, run makes %d) but the result differs from Validate()" % (flip, ucalls)
            # the model of the emitted code predicts the number of Err() calls
            if j < len(r["calls"]) and int(o["calls"]) != r["calls"][j] and not bad:
                bad = "number of ctx.Err() calls: compiled code %s, GoLite semantics of the translated file %d" % (o["calls"], r["calls"][j])
            if bad:
                res.violation({"kind": "spec-violation", "struct": m["key"], "case_index": j, "case": cs, "observed": o,
                               "source": genprop.struct_source(gr, m["key"]), "what": bad})
                break
    res.coverage["ctx_schedules_checked"] = n


def check(res):
    corpus = corpora.c15(res.seed, res.tier)
    genprop.run(res, "C15", PROPFILE, corpus, entry="VTC", use_ctx=True, spec=False,
                extra=lambda gr, r: ctx_contract(res, gr, r))


PROPFILE = "theories/Properties/C15.v"
replay = genprop.replay
