"""C10 — CEL markers: generated Go agrees with reference CEL semantics (cel-go).
Behavioural tie (B)/(D): every accepted expression whose output compiles is run, compiled, against cel-go's
evaluation of the same expression on value grids; stage 1 of the Coq development (Cel/*.v) is described in DESIGN.md."""
import json
import os
import random
import re

import celgen
from vlib import GOENV, REPO, build_govalid, check_properties_file, go_build, known_findings, run, scratch

TRUSTED = [
    "cel-go v0.26.1 as the reference evaluator (value bound to the field, this to a map of the struct's fields)",
    "the Go compiler as the judge of 'fails loudly'; lib/celgen.py (typed expression grammar and value grids); genharness celdriver",
]


# ---- syntactic classes of the known findings (narrow: expression shape + field type)
def has_unary_not(e):
    return "!" in re.sub(r"!=", "", e)


def arith_parens(e):
    # a parenthesised arithmetic sub-expression next to another arithmetic operator
    return bool(re.search(r"[*/%+-]\s*\([^()]*[+\-*/%][^()]*\)|\([^()]*[+\-*/%][^()]*\)\s*[*/%+-]", e))


NARROW = {"int8", "int16", "int32", "uint8", "uint16", "uint32", "uint64", "uint"}


def classes(vtype, expr):
    c = set()
    if has_unary_not(expr):
        c.add("cel_unary_not")
    if arith_parens(expr) or re.search(r"-\s*\S+\s*-|/\s*\S+\s*[*/]", expr):
        c.add("cel_arith_precedence")
    if "size(" in expr or ".size()" in expr:
        c.add("cel_size_counts_bytes")
    if re.search(r"[+\-*]", re.sub(r"'[^']*'", "", expr)) and (vtype in NARROW or "this.B" in expr or "this.U" in expr):
        c.add("cel_narrow_int_wrap")
    if re.search(r"[/%]", re.sub(r"'[^']*'", "", expr)):
        c.add("cel_div_by_zero")
    if re.search(r"\bin\s*\[\s*-?\d", expr):
        c.add("cel_in_int_list")
    if re.search(r"(this\.M|value)\.(all|exists|exists_one|filter|map)\(", expr) and (vtype == "map[string]int" or "this.M." in expr):
        c.add("cel_map_iterates_values")
    if "has(" in expr:
        c.add("cel_has_macro")
    return c


def check(res):
    res.assumptions = TRUSTED
    res.coverage["trusted_base"] = TRUSTED
    res.level = "exploration"
    rng = random.Random(res.seed)
    exprs = celgen.build(rng, res.tier)
    scen = [celgen.scenario_for(sid, vt, e, rng, 40 if res.tier == "quick" else 80) for sid, vt, e in exprs]
    info = {sid: (vt, e) for sid, vt, e in exprs}
    d = os.path.join(scratch(), "c10")
    os.makedirs(d, exist_ok=True)
    sp = os.path.join(d, "scen.json")
    json.dump({"scenarios": scen}, open(sp, "w"))
    gh, err = go_build("./cmd/genharness", "genharness")
    if gh is None:
        raise RuntimeError(err)
    mod = os.path.join(d, "scn")
    run([gh, "materialize", "-in", sp, "-dir", mod, "-repo", REPO], check=True)
    gv, err = build_govalid()
    if gv is None:
        res.violation({"kind": "correspondence-break", "what": "cmd/govalid does not build", "log_tail": err[-2000:]}, found_input=False)
        return
    p = run([gv, "./..."], cwd=mod, env=GOENV, timeout=3000)

    def generated(sid):
        return os.path.exists(os.path.join(mod, sid, "x_t_validator.go"))
    missing = [sid for sid in info if not generated(sid)]
    gen_failed = []
    if missing:
        # a generator abort takes the other packages of the invocation with it: retry the missing ones alone
        for sid in missing:
            q = run([gv, "./" + sid], cwd=mod, env=GOENV, timeout=600)
            if not generated(sid):
                gen_failed.append(sid)
    p = run(["go", "build", "./..."], cwd=mod, env=GOENV, timeout=3000)
    broken = set(re.findall(r"^# scn/(\S+)", p.stderr or "", re.M))
    ok_ids = [sid for sid in info if generated(sid) and sid not in broken]
    meta = [{"key": sid + "/T", "pkg": sid, "type": "T", "generated": True} for sid in ok_ids]
    mp = os.path.join(d, "meta.json")
    json.dump(meta, open(mp, "w"))
    run([gh, "celdriver", "-in", sp, "-dir", mod, "-meta", mp], check=True)
    exe = os.path.join(d, "celdrv.exe")
    p = run(["go", "build", "-o", exe, "./celdrv"], cwd=mod, env=GOENV, timeout=3000)
    if p.returncode != 0:
        raise RuntimeError("celdrv build failed: " + (p.stderr or "")[-2500:])
    p = run([exe, sp], cwd=mod, timeout=3000)
    if p.returncode != 0:
        raise RuntimeError("celdrv failed: " + (p.stderr or "")[-2500:])
    per = {}
    for line in p.stdout.splitlines():
        key, g, c = line.split("\t")
        sid = key.split("/")[0]
        per.setdefault(sid, []).append((int(key.rsplit("/", 1)[1]), g[3:], c[4:]))
    findings = {f["class"]: f for f in known_findings("C10")}
    stats = {"expressions": len(info), "generation_failed_loudly": len(gen_failed), "compile_failed_loudly": len(broken & set(info)),
             "run": len(ok_ids), "agree_on_all_boolean_points": 0, "boolean_points": 0, "disagreeing_expressions": 0}
    samples = []
    scen_by_id = {s["id"]: s for s in scen}
    for sid in ok_ids:
        vt, e = info[sid]
        rows = per.get(sid, [])
        bad = []
        for ci, g, c in rows:
            if c in ("true", "false"):
                stats["boolean_points"] += 1
                want = "pass" if c == "true" else "fail"
                if g != want:
                    bad.append((ci, g, c))
        if not bad:
            stats["agree_on_all_boolean_points"] += 1
            if len(samples) < 5:
                samples.append({"type": vt, "expr": e, "cases": len(rows), "boolean_points": sum(1 for r in rows if r[2] in ("true", "false"))})
            continue
        stats["disagreeing_expressions"] += 1
        cls = classes(vt, e)
        panicked = any(g.startswith("panic") for _, g, _ in bad)
        matched = None
        for c in sorted(cls):
            f = findings.get(c)
            if f and (f.get("observable") == "panic") == panicked:
                matched = f
                break
        ci, g, c = bad[0]
        if matched:
            res.known("%s %s: %s" % (matched["id"], matched["class"], matched["what"]))
            stats.setdefault("known_by_class", {}).setdefault(matched["class"], 0)
            stats["known_by_class"][matched["class"]] += 1
            continue
        gen_src = open(os.path.join(mod, sid, "x_t_validator.go")).read()
        cond = re.search(r"\n\tif (.*) \{\n\t\terr := ErrTVCELValidation", gen_src)
        res.violation({"kind": "spec-violation", "field_type": vt, "expression": e, "generated_condition": cond.group(1) if cond else None,
                       "case": scen_by_id[sid]["structs"][0]["cases"][ci], "cel_go_result": c, "compiled_validator": g,
                       "syntactic_classes": sorted(cls), "disagreeing_points": len(bad),
                       "what": "cel-go yields a boolean for this binding but the generated check does not report the CEL error exactly when it is false"})
    res.coverage.update({
        "evaluations": sum(len(v) for v in per.values()), "distinct_nontrivial": stats["run"],
        "rule": "typed CEL grammar (comparison, && || !, unary minus, + - * / %%, parenthesised nesting, size, contains/startsWith/endsWith/matches, "
                "in, string()/int()/double(), ternary, all/exists/exists_one/filter/map, this.X) x 17 field types; every expression is its own package; "
                "distinct_nontrivial = expressions that generated, compiled and ran; evaluations = (expression, binding) points",
        "stats": stats, "samples": samples or [{"note": "none"}],
    })


def replay(payload):
    print(json.dumps(payload, indent=1))
    return 1
