"""C10 — CEL markers: generated Go agrees with reference CEL semantics (cel-go).
Behavioural tie (B)/(D): every accepted expression whose output compiles is run, compiled, against cel-go's
evaluation of the same expression on value grids; stage 1 of the Coq development (Cel/*.v) is described in DESIGN.md."""
import json
import os
import random
import re

import celgen
import subprocess

from vlib import COQ, GOENV, REPO, build_govalid, check_properties_file, coq_make, go_build, known_findings, run, scratch

TRUSTED = [
    "Coq 8.16.1 kernel; vm_compute / vm_cast_no_check in the per-run certificates and model comparisons; no native_compute",
    "axioms (Print Assumptions, verbatim in this file): the stdlib Reals axioms and functional extensionality reached through Flocq's binary64 operations "
    "(ClassicalDedekindReals.sig_not_dec, sig_forall_dec, FunctionalExtensionality.functional_extensionality_dep, Classical_Prop.classic); none declared here",
    "hypotheses of C10_translation_sound about Go's standard library, which cel-go AND the generated code both call: a pattern accepted by regexp.Compile "
    "matches without failing; time.ParseDuration returns an int64; regexp matching, strconv float parsing/printing and time.ParseDuration are shared oracles",
    "hand-written Gallina models: Cel/CelSem.v (reference semantics of cel-go v0.26.1's interpreter; compared with cel-go on every binding of every run), "
    "Cel/GoSem.v (semantics of the emitted Go expressions; compared with the compiled validators), Cel/Translate.v (convertASTToGo; compared node for node "
    "with go/parser's tree of every emitted condition by kernel-checked certificates)",
    "translators of the harness: internal/celx (cel-go AST -> cexpr; Go condition -> gexpr via go/parser), cmd/genharness celcoq (struct bindings -> fval)",
    "cel-go's parser and checker as the front end shared by the generator and the reference; the Go compiler as the judge of 'fails loudly'; lib/celgen.py (grammar, grids)",
]


# ---- syntactic classes of the known findings (narrow: expression shape + field type)
def has_unary_not(e):
    return "!" in re.sub(r"!=", "", e)


def arith_parens(e):
    # a parenthesised arithmetic sub-expression next to another arithmetic operator
    return bool(re.search(r"[*/%+-]\s*\([^()]*[+\-*/%][^()]*\)|\([^()]*[+\-*/%][^()]*\)\s*[*/%+-]", e))


NARROW = {"int8", "int16", "int32", "uint8", "uint16", "uint32", "uint64", "uint"}


def classes(vtype, expr):
    c = set()
    if has_unary_not(expr):
        c.add("cel_unary_not")
    if arith_parens(expr) or re.search(r"-\s*\S+\s*-|/\s*\S+\s*[*/]", expr):
        c.add("cel_arith_precedence")
    if "size(" in expr or ".size()" in expr:
        c.add("cel_size_counts_bytes")
    if re.search(r"[+\-*]", re.sub(r"'[^']*'", "", expr)) and (vtype in NARROW or "this.B" in expr or "this.U" in expr):
        c.add("cel_narrow_int_wrap")
    if re.search(r"[/%]", re.sub(r"'[^']*'", "", expr)):
        c.add("cel_div_by_zero")
    if re.search(r"\bin\s*\[\s*-?\d", expr):
        c.add("cel_in_int_list")
    if re.search(r"(this\.M|value)\.(all|exists|exists_one|filter|map)\(", expr) and (vtype == "map[string]int" or "this.M." in expr):
        c.add("cel_map_iterates_values")
    if re.search(r"string\(this\.D\)", expr) or (vtype == "time.Duration" and "string(value)" in expr):
        c.add("cel_string_of_duration")
    return c


def coq_side(res, d, gh, sp, mod, obs_text, scen, shards=12):
    """cel-go's AST, the emitted condition and every observation as Coq terms; certificates and model comparisons
    evaluated by coqc.  Returns {scenario id: report}."""
    ok, out = coq_make()
    if not ok:
        res.violation({"kind": "proof-break", "what": "the Coq development no longer builds", "log_tail": out[-3000:]}, found_input=False)
        return None
    obs_path = os.path.join(d, "obs.txt")
    open(obs_path, "w").write(obs_text)
    n = len(scen)
    size = max(1, (n + shards - 1) // shards)
    jobs = []
    for k in range(0, n, size):
        sub = os.path.join(d, "coq%d" % (k // size))
        os.makedirs(sub, exist_ok=True)
        part = os.path.join(sub, "scen.json")
        json.dump({"scenarios": scen[k:k + size]}, open(part, "w"))
        run([gh, "celcoq", "-in", part, "-dir", mod, "-obs", obs_path, "-coq", os.path.join(sub, "Run.v")], check=True)
        info = json.load(open(os.path.join(sub, "Run.json")))
        lines = ["From GVRun Require Import Run.",
                 "From GV Require Import Base.Bytes Cel.Syntax Cel.CelSem Cel.GoSem Cel.Translate Cel.Env Cel.Typing Cel.Harness."]
        for it in info:
            i = it["index"]
            lines.append("Definition rep_%d := Eval vm_compute in check_case cs_%d." % (i, i))
            lines.append("Theorem cert_%d : cr_cert (check_case cs_%d) = cr_cert rep_%d. Proof. vm_cast_no_check (eq_refl (cr_cert rep_%d)). Qed." % (i, i, i, i))
            lines.append("Definition real_%d := case_sound cs_%d." % (i, i))
        lines.append("Definition all_reports := [%s]." % "; ".join("report_row %d%%nat rep_%d" % (it["index"], it["index"]) for it in info))
        lines.append("Set Printing Width 1000000. Set Printing Depth 1000000.")
        lines.append("Eval vm_compute in all_reports.")
        open(os.path.join(sub, "Check.v"), "w").write("\n".join(lines) + "\n")
        base = "coqc -Q %s GV -Q %s GVRun -w -notation-overridden" % (os.path.join(COQ, "theories"), sub)
        jobs.append((sub, info, subprocess.Popen("cd %s && %s Run.v && %s Check.v" % (sub, base, base), shell=True,
                                                 stdout=subprocess.PIPE, stderr=subprocess.PIPE, text=True)))
    reports = {}
    pat = re.compile(r"\((\d+), \[(\d+); (\d+); (\d+); (\d+); (\d+); (\d+)\], (\[[^\]]*\]), (\[[^\]]*\]), (\[[^\]]*\])\)")
    for sub, info, pr in jobs:
        out, err = pr.communicate(timeout=3000)
        if pr.returncode != 0:
            raise RuntimeError("C10 Coq run failed in %s: %s" % (sub, (out + err)[-3000:]))
        txt = out.replace("\n", " ")
        got = {}
        for m in pat.finditer(txt):
            nums = lambda s: [int(x) for x in re.findall(r"\d+", s)]
            got[int(m.group(1))] = {"model_generates": m.group(2) == "1", "cert": m.group(3) == "1", "fragment": m.group(4) == "1",
                                    "structs_ok": m.group(5) == "1", "cel_evaluated": int(m.group(6)), "go_evaluated": int(m.group(7)),
                                    "cel_mismatch": nums(m.group(8)), "go_mismatch": nums(m.group(9)), "spec_violation": nums(m.group(10))}
        if len(got) != len(info):
            raise RuntimeError("could not parse the Coq reports in %s: %s" % (sub, out[-2000:]))
        for it in info:
            r = got[it["index"]]
            r.update(it)
            reports[it["id"]] = r
    return reports


def check(res):
    res.assumptions = TRUSTED
    res.coverage["trusted_base"] = TRUSTED
    res.level = "proof"
    if not check_properties_file(res, "theories/Properties/C10.v"):
        return
    rng = random.Random(res.seed)
    exprs = celgen.build(rng, res.tier)
    scen = [celgen.scenario_for(sid, vt, e, rng, 40 if res.tier == "quick" else 80) for sid, vt, e in exprs]
    info = {sid: (vt, e) for sid, vt, e in exprs}
    d = os.path.join(scratch(), "c10")
    os.makedirs(d, exist_ok=True)
    sp = os.path.join(d, "scen.json")
    json.dump({"scenarios": scen}, open(sp, "w"))
    gh, err = go_build("./cmd/genharness", "genharness")
    if gh is None:
        raise RuntimeError(err)
    mod = os.path.join(d, "scn")
    run([gh, "materialize", "-in", sp, "-dir", mod, "-repo", REPO], check=True)
    gv, err = build_govalid()
    if gv is None:
        res.violation({"kind": "correspondence-break", "what": "cmd/govalid does not build", "log_tail": err[-2000:]}, found_input=False)
        return
    p = run([gv, "./..."], cwd=mod, env=GOENV, timeout=3000)

    def generated(sid):
        return os.path.exists(os.path.join(mod, sid, "x_t_validator.go"))
    missing = [sid for sid in info if not generated(sid)]
    gen_failed = []
    if missing:
        # a generator abort takes the other packages of the invocation with it: retry the missing ones alone
        for sid in missing:
            q = run([gv, "./" + sid], cwd=mod, env=GOENV, timeout=600)
            if not generated(sid):
                gen_failed.append(sid)
    p = run(["go", "build", "./..."], cwd=mod, env=GOENV, timeout=3000)
    broken = set(re.findall(r"^# scn/(\S+)", p.stderr or "", re.M))
    ok_ids = [sid for sid in info if generated(sid) and sid not in broken]
    meta = [{"key": sid + "/T", "pkg": sid, "type": "T", "generated": True} for sid in ok_ids]
    mp = os.path.join(d, "meta.json")
    json.dump(meta, open(mp, "w"))
    run([gh, "celdriver", "-in", sp, "-dir", mod, "-meta", mp], check=True)
    exe = os.path.join(d, "celdrv.exe")
    p = run(["go", "build", "-o", exe, "./celdrv"], cwd=mod, env=GOENV, timeout=3000)
    if p.returncode != 0:
        raise RuntimeError("celdrv build failed: " + (p.stderr or "")[-2500:])
    p = run([exe, sp], cwd=mod, timeout=3000)
    if p.returncode != 0:
        raise RuntimeError("celdrv failed: " + (p.stderr or "")[-2500:])
    coq = coq_side(res, d, gh, sp, mod, p.stdout, scen)
    per = {}
    for line in p.stdout.splitlines():
        key, g, c = line.split("\t")
        sid = key.split("/")[0]
        per.setdefault(sid, []).append((int(key.rsplit("/", 1)[1]), g[3:], c[4:]))
    findings = {f["class"]: f for f in known_findings("C10")}
    stats = {"expressions": len(info), "generation_failed_loudly": len(gen_failed), "compile_failed_loudly": len(broken & set(info)),
             "run": len(ok_ids), "agree_on_all_boolean_points": 0, "boolean_points": 0, "disagreeing_expressions": 0}
    samples = []
    scen_by_id = {s["id"]: s for s in scen}
    for sid in ok_ids:
        vt, e = info[sid]
        rows = per.get(sid, [])
        bad = []
        for ci, g, c in rows:
            if c in ("true", "false"):
                stats["boolean_points"] += 1
                want = "pass" if c == "true" else "fail"
                if g != want:
                    bad.append((ci, g, c))
        if not bad:
            stats["agree_on_all_boolean_points"] += 1
            if len(samples) < 5:
                samples.append({"type": vt, "expr": e, "cases": len(rows), "boolean_points": sum(1 for r in rows if r[2] in ("true", "false"))})
            continue
        stats["disagreeing_expressions"] += 1
        cls = classes(vt, e)
        panicked = any(g.startswith("panic") for _, g, _ in bad)
        matched = None
        for c in sorted(cls):
            f = findings.get(c)
            if f and (f.get("observable") == "panic") == panicked:
                matched = f
                break
        ci, g, c = bad[0]
        if matched:
            res.known("%s %s: %s" % (matched["id"], matched["class"], matched["what"]))
            stats.setdefault("known_by_class", {}).setdefault(matched["class"], 0)
            stats["known_by_class"][matched["class"]] += 1
            continue
        gen_src = open(os.path.join(mod, sid, "x_t_validator.go")).read()
        cond = re.search(r"\n\tif (.*) \{\n\t\terr := ErrTVCELValidation", gen_src)
        res.violation({"kind": "spec-violation", "field_type": vt, "expression": e, "generated_condition": cond.group(1) if cond else None,
                       "case": scen_by_id[sid]["structs"][0]["cases"][ci], "cel_go_result": c, "compiled_validator": g,
                       "syntactic_classes": sorted(cls), "disagreeing_points": len(bad),
                       "what": "cel-go yields a boolean for this binding but the generated check does not report the CEL error exactly when it is false"})
    # ---- the Coq side: generator model vs generator (certificates, loudness), reference model vs cel-go, Go model vs compiled code
    if coq is not None:
        cstat = {"certified": 0, "in_proved_fragment": 0, "in_fragment_and_certified": 0, "reference_model_points": 0,
                 "go_model_points": 0, "model_rejects_and_generator_rejects": 0}
        for sid in info:
            r = coq.get(sid)
            if r is None:
                continue
            vt, e = info[sid]
            compiled = sid in ok_ids
            base = {"field_type": vt, "expression": e, "generated_condition": r.get("cond")}
            if os.environ.get("VERIF_C10_DUMP"):
                open(os.environ["VERIF_C10_DUMP"], "a").write(json.dumps(dict(r, vt=vt, expr=e, compiled=compiled)) + "\n")
            if not r["structs_ok"]:
                raise RuntimeError("ill-typed struct value in the corpus of " + sid)
            if r["model_generates"] != r["generated"]:
                if r["generated"] and compiled:
                    res.violation(dict(base, kind="spec-violation", what="the generator model (Cel/Translate.v: cel_condition) stops generation for this expression "
                                       "(a construct without a faithful Go rendering, or rejected by the pre-filter / by cel-go), yet govalid emitted a check and it compiles: "
                                       "an untranslatable expression did not fail loudly"))
                elif not r["generated"]:
                    res.violation(dict(base, kind="correspondence-break", correspondence="cel_condition (Cel/Translate.v) vs internal/validator/rules/cel.go",
                                       what="the model produces a condition but govalid produced no file"), found_input=False)
                continue
            if not r["generated"]:
                cstat["model_rejects_and_generator_rejects"] += 1
                continue
            if r["cert"]:
                cstat["certified"] += 1
            elif not compiled:
                # the output does not compile: the loud outcome C10 asks for, whatever the condition looks like; the model's
                # prediction of a text that the compiler rejects is not an obligation of this property
                cstat["model_differs_on_noncompiling_output"] = cstat.get("model_differs_on_noncompiling_output", 0) + 1
            elif not r["spec_violation"]:
                res.violation(dict(base, kind="correspondence-break", correspondence="certificate cr_cert: emitted condition = cel_condition (Cel/Translate.v)",
                                   theorem="C10_translation_sound applies only to conditions equal to the model's", in_proved_fragment=r["fragment"],
                                   what="the condition emitted by the rebuilt govalid differs from the translator model's output; no binding of the grid separates it from cel-go"),
                              found_input=False)
            if r["fragment"]:
                cstat["in_proved_fragment"] += 1
                if r["cert"]:
                    cstat["in_fragment_and_certified"] += 1
            cstat["reference_model_points"] += r["cel_evaluated"]
            cstat["go_model_points"] += r["go_evaluated"]
            if r["cel_mismatch"]:
                res.violation(dict(base, kind="correspondence-break", correspondence="ceval (Cel/CelSem.v) vs cel-go Program.Eval",
                                   rows=r["cel_mismatch"][:5], what="the reference model of CEL disagrees with cel-go on these bindings"), found_input=False)
            if compiled and r["go_mismatch"]:
                res.violation(dict(base, kind="correspondence-break", correspondence="geval (Cel/GoSem.v) vs the compiled validator",
                                   rows=r["go_mismatch"][:5], what="the model of the emitted Go condition disagrees with the compiled code on these bindings"), found_input=False)
        res.coverage["coq"] = cstat
        res.obligations += cstat["certified"]
        res.discharged += cstat["certified"]
    res.coverage.update({
        "evaluations": sum(len(v) for v in per.values()), "distinct_nontrivial": stats["run"],
        "rule": "typed CEL grammar (comparison, && || !, unary minus, + - * / %%, parenthesised nesting, size, contains/startsWith/endsWith/matches, "
                "in, string()/int()/double(), ternary, all/exists/exists_one/filter/map, this.X) x 17 field types; every expression is its own package; "
                "distinct_nontrivial = expressions that generated, compiled and ran; evaluations = (expression, binding) points",
        "stats": stats, "samples": samples or [{"note": "none"}],
    })


def replay(payload):
    print(json.dumps(payload, indent=1))
    return 1
