"""C17 — validation never panics. Theorems: Properties/C17.v (helpers total; GoLite exec of generated files panic-free)."""
import corpora
import genfam
import genprop
import recog
from vlib import known_findings


def panics_in(res, gr, what):
    n = 0
    for key, o in gr.obs.items():
        n += 1
        for ep in ("V", "VT", "VTC", "VC"):
            if o[ep].startswith("panic:"):
                sid, sname, j = key.rsplit("/", 2)[0].split("/")[0], key.split("/")[1], int(key.split("/")[2])
                sc, st = genprop.find_struct(gr, "/".join(key.split("/")[:2]))
                cs = st["cases"][j]
                short = {"nil": cs.get("nil"), "sets": [dict(s, str=(s.get("str", "")[:80] + ("..." if len(s.get("str", "")) > 80 else ""))) for s in cs["sets"]]}
                res.violation({"kind": "spec-violation", "struct": "/".join(key.split("/")[:2]), "case_index": j, "case": short,
                               "entry_point": ep, "observed": o[ep], "what": what})
                return n
    return n


def helpers_no_panic(res):
    """the runtime recognizers on the malformed stream of every family (T/F/P from the rebuilt Go functions)"""
    probe, hooked = recog.build_probe(res)
    if probe is None:
        return
    total = 0
    for fam, fns in (("email", ["IsValidEmail"]), ("url", ["IsValidURL"]), ("uuid", ["IsValidUUID"]), ("alnum", ["IsValidAlpha", "IsNumeric"])):
        inp = recog.gen_inputs(fam, res.seed, "quick", name="c17" + fam)
        for fn in fns:
            out = inp + "." + fn + ".out"
            rc, err = recog.run_fn(probe, fn, inp, out)
            n, distinct, verdicts = recog.stats(inp, out)
            total += n
            if verdicts.get("P"):
                with open(inp) as fi, open(out) as fo:
                    for li, lo in zip(fi, fo):
                        if lo.strip() == "P":
                            res.violation({"kind": "spec-violation", "function": fn, "input_hex": li.strip(),
                                           "input_repr": repr(recog.unhex(li.strip()))[:300], "what": "the recognizer panics on this input"})
                            break
    res.coverage["helper_inputs_run"] = total


def cel_panics(res):
    """CEL rules with division, modulo, regular expressions and membership on the adversarial grid (compiled code only)."""
    import json
    import os
    import random
    import re
    import celgen
    from vlib import GOENV, REPO, build_govalid, go_build, run, scratch
    exprs = [("int", "value / this.A > 1"), ("int", "value % this.A == 0"), ("int", "this.A != 0 && value / this.A > 1"), ("int", "this.A == 0 || value % this.A == 1"),
             ("int", "100 / value > 1"), ("int64", "value / 2 > 1"), ("uint8", "200 / value > 1"), ("float64", "value / this.F > 1.0"), ("float64", "1.0 / value > 0.0"),
             ("string", "value.matches('^[a-z]+$')"), ("string", "value.matches('(a|b)*c')"), ("string", "value in ['a', 'b'] || size(value) > 3"),
             ("[]int", "value.all(x, 10 / x > 0)"), ("[]int", "value.exists(x, x % 2 == 0)"), ("[]string", "value.all(s, s.matches('^a'))"),
             ("string", "value.startsWith('/')"), ("string", "value.endsWith('/')"), ("string", "value.startsWith('ab') || value.endsWith('é')"),
             ("string", "value.contains('a') && startsWith(value, 'a')"), ("[]string", "value.all(s, s.startsWith('#'))"),
             ("[]string", "value.exists(s, s.endsWith('x'))"), ("string", "size(value) > 0 && value.startsWith(value)"), ("string", "value.matches('')"),
             ("string", "value + value == 'aa' || value < 'b'"), ("string", "int(value) > 1 || value == ''"), ("map[string]int", "'k' in value && size(value) < 3"),
             ("int", "-value < 3 && !(value % 2 == 0)"), ("int8", "value * value >= 0"), ("int", "value - (this.A - 3) != 0 && 7 / (value - (this.A - 3)) >= 0"),
             # a pattern that is only known at run time (D35): the companion S takes invalid patterns
             ("string", "value.matches(this.S)"), ("string", "matches(this.S, value)"), ("string", "value.matches(this.S + '$') || value == ''"),
             ("[]string", "value.all(s, s.matches(this.S))"), ("string", "this.S.matches(value)"),
             # constant patterns that do not compile, at every depth (the generator refuses them: a regexp.MustCompile on such a
             # literal would panic on the first evaluation)
             ("string", "value.matches('[')"), ("string", "value == '' || value.matches('*a')"), ("string", "!(value != 'x' && matches(value, '(?P<n'))"),
             ("[]string", "value.all(item, item.matches('^[a-z+$'))"), ("[]string", "value.exists(s, s.matches('('))"),
             ("[]string", "size(value.filter(s, s.matches('a{2,1}'))) == 0"), ("[]string", "value.exists_one(s, s.matches('\\\\'))"),
             ("[]string", "size(value.map(s, s.matches('['))) >= 0"), ("map[string]int", "value.all(k, k.matches('[z-a]'))"),
             ("[]string", "value.all(a, this.Tags.exists(b, b.matches(')') || a == b))"), ("[]string", "value.all(s, s.matches('^a$') || s.matches('[[:nope:]]'))")]
    rng = random.Random(res.seed)
    scen = [celgen.scenario_for("c17cel%d" % i, vt, e, rng, 60) for i, (vt, e) in enumerate(exprs)]
    d = os.path.join(scratch(), "c17cel")
    os.makedirs(d, exist_ok=True)
    sp = os.path.join(d, "scen.json")
    json.dump({"scenarios": scen}, open(sp, "w"))
    gh, _ = go_build("./cmd/genharness", "genharness")
    mod = os.path.join(d, "scn")
    run([gh, "materialize", "-in", sp, "-dir", mod, "-repo", REPO], check=True)
    gv, err = build_govalid()
    run([gv, "./..."], cwd=mod, env=GOENV, timeout=1800)
    p = run(["go", "build", "./..."], cwd=mod, env=GOENV, timeout=1800)
    broken = set(re.findall(r"^# scn/(\S+)", p.stderr or "", re.M))
    ok_ids = [s["id"] for s in scen if s["id"] not in broken and os.path.exists(os.path.join(mod, s["id"], "x_t_validator.go"))]
    mp = os.path.join(d, "meta.json")
    json.dump([{"key": sid + "/T", "pkg": sid, "type": "T", "generated": True} for sid in ok_ids], open(mp, "w"))
    run([gh, "celdriver", "-in", sp, "-dir", mod, "-meta", mp], check=True)
    exe = os.path.join(d, "celdrv.exe")
    p = run(["go", "build", "-o", exe, "./celdrv"], cwd=mod, env=GOENV, timeout=1800)
    if p.returncode != 0:
        raise RuntimeError("celdrv build failed: " + (p.stderr or "")[-2000:])
    p = run([exe, sp], cwd=mod, timeout=1800)
    findings = [f for f in known_findings("C17") if f.get("class") == "cel_div_by_zero"]
    n = 0
    seen_known = False
    info = dict(("c17cel%d" % i, x) for i, x in enumerate(exprs))
    for line in p.stdout.splitlines():
        key, g, c = line.split("\t")
        n += 1
        if g.startswith("go=panic"):
            sid = key.split("/")[0]
            vt, e = info[sid]
            ci = int(key.rsplit("/", 1)[1])
            is_div = "integer_divide_by_zero" in g and re.search(r"[/%]", re.sub(r"'[^']*'", "", e))
            if is_div and findings:
                if not seen_known:
                    res.known("%s %s: %s" % (findings[0]["id"], findings[0]["class"], findings[0]["what"]))
                seen_known = True
                continue
            sc = [s for s in scen if s["id"] == sid][0]
            res.violation({"kind": "spec-violation", "field_type": vt, "expression": e, "case": sc["structs"][0]["cases"][ci], "observed": g,
                           "what": "Validate panicked on a struct with a CEL rule"})
            break
    res.coverage["cel_cases_run"] = n
    res.coverage["cel_expressions_compiled"] = len(ok_ids)


def cel_nil_fields(res):
    """CEL rules over pointer / interface fields (string(value) on a nil *url.URL or nil fmt.Stringer, a selection through a
    nil pointer): compiled code only. One struct per rule so that one panic does not hide another."""
    from synth import T, basic, case, fld, scenario, struct
    ptr_inner = T("*Inner", "TPointer", "nilable")
    url_t = T("*url.URL", "TPointer", "nilable")
    stringer = T("fmt.Stringer", "TInterface", "nilable")
    i = basic("int")
    structs = [
        struct("Sel", [fld("V", ["//govalid:cel=this.P.X > 0 || value > 0"], i), fld("P", [], ptr_inner)],
               [case([]), case([{"path": "P", "vk": "nilable", "isnil": False}]), case([{"path": "P", "vk": "nilable", "isnil": True}])]),
        struct("Url", [fld("Endpoint", ["//govalid:cel=string(value).startsWith('https://') || string(value) != ''"], url_t)],
               [case([]), case([{"path": "Endpoint", "vk": "nilable", "isnil": False}])]),
        struct("Lbl", [fld("Label", ["//govalid:cel=string(value) != 'x'"], stringer), fld("N", ["//govalid:cel=string(this.Label) != 'y' || value == 0"], i)], [case([])]),
        struct("Req", [fld("P", ["//govalid:required"], ptr_inner), fld("L", ["//govalid:required"], stringer), fld("U", ["//govalid:required"], url_t)],
               [case([]), case([{"path": "P", "vk": "nilable", "isnil": False}, {"path": "U", "vk": "nilable", "isnil": False}])]),
        # pointers to struct literals that contain marked fields, further struct literals (by value and by pointer) and marked
        # pointers: whatever the generator does with the inner markers (ignored today: finding D37), a nil pointer anywhere on the
        # way must not be dereferenced
        struct("Order", [fld("ID", ["//govalid:required"], basic("string")),
                         fld("Shipping", [], T("*struct {\n\t\t//govalid:minlength=2\n\t\tCity string\n\t\tGeo  struct {\n\t\t\t//govalid:gt=0\n\t\t\tZone int\n\t\t}\n\t\tAlt *struct {\n\t\t\t//govalid:required\n\t\t\tK string\n\t\t\tDeep *struct {\n\t\t\t\t//govalid:required\n\t\t\t\tZ string\n\t\t\t}\n\t\t}\n\t}", "TPointer", "nilable")),
                         fld("Billing", ["//govalid:required"], T("*struct {\n\t\t//govalid:email\n\t\tMail string\n\t\tBox  struct {\n\t\t\t//govalid:maxitems=1\n\t\t\tTags []string\n\t\t}\n\t}", "TPointer", "nilable")),
                         fld("Lines", ["//govalid:minitems=1"], T("[]*struct {\n\t\t//govalid:required\n\t\tSKU string\n\t\tOpt struct {\n\t\t\t//govalid:gt=0\n\t\t\tN int\n\t\t}\n\t}", "TSlice", "coll"))],
               [case([]), case([{"path": "ID", "vk": "string", "str": "6f"}]),
                case([{"path": "ID", "vk": "string", "str": "6f"}, {"path": "Shipping", "vk": "nilable", "isnil": False}]),
                case([{"path": "Billing", "vk": "nilable", "isnil": False}, {"path": "Lines", "vk": "coll", "isnil": False, "len": 2}]),
                case([{"path": "Shipping", "vk": "nilable", "isnil": False}, {"path": "Billing", "vk": "nilable", "isnil": False}, {"path": "Lines", "vk": "coll", "isnil": True, "len": 0}])]),
    ]
    gr = genfam.GenRun(res, {"scenarios": [scenario("c17nil", structs, aux=["type Inner struct{ X int }"], imports=["fmt", "net/url"])]}, "c17nil")
    if not gr.generate() or gr.gen_status != 0:
        res.coverage["cel_nil_fields"] = "generation failed (loud): " + getattr(gr, "gen_log", "")[-300:]
        return
    gr.translate()
    ok, errs = gr.go_vet_build()
    if not ok:
        res.coverage["cel_nil_fields"] = "does not compile (loud): " + str(errs)[:300]
        return
    if gr.drive() is None:
        raise RuntimeError("driver failed: " + getattr(gr, "drv_error", ""))
    findings = [f for f in known_findings("C17") if f.get("class") == "cel_nil_pointer_select"]
    n = 0
    for key, o in sorted(gr.obs.items()):
        n += 1
        hit = [ep for ep in ("V", "VT", "VTC", "VC") if o[ep].startswith("panic:")]
        if not hit:
            continue
        sname = key.split("/")[1]
        j = int(key.split("/")[2])
        sc, st = genprop.find_struct(gr, "/".join(key.split("/")[:2]))
        p_nil = not any(s_.get("path") == "P" and not s_.get("isnil", True) for s_ in st["cases"][j]["sets"])
        if sname == "Sel" and p_nil and findings and "nil_pointer" in o[hit[0]]:
            res.known("%s %s: %s" % (findings[0]["id"], findings[0]["class"], findings[0]["what"]))
            continue
        res.violation({"kind": "spec-violation", "struct": "/".join(key.split("/")[:2]), "case_index": j, "case": st["cases"][j], "entry_point": hit[0],
                       "observed": o[hit[0]], "source": genprop.struct_source(gr, "/".join(key.split("/")[:2])),
                       "what": "Validate panicked on a struct with a CEL / required rule over pointer or interface fields"})
    res.coverage["cel_nil_field_cases"] = n


def check(res):
    cel_panics(res)
    cel_nil_fields(res)
    corpus = corpora.c17(res.seed, res.tier)
    gr, results = genprop.run(res, "C17", PROPFILE, corpus,
                              extra=lambda gr, r: res.coverage.__setitem__("lattice_cases", panics_in(res, gr, "Validate panicked on this value")))
    # 1 MiB strings: compiled code only
    huge = corpora.c17_huge()
    g2 = genfam.GenRun(res, huge, "c17huge")
    if g2.generate() and g2.gen_status == 0:
        g2.translate()
        ok, errs = g2.go_vet_build()
        if g2.drive() is not None:
            res.coverage["huge_string_cases"] = panics_in(res, g2, "Validate panicked on a 1 MiB string")
    helpers_no_panic(res)


PROPFILE = "theories/Properties/C17.v"
replay = genprop.replay
