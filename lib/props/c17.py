"""C17 — validation never panics. Theorems: Properties/C17.v (helpers total; GoLite exec of generated files panic-free)."""
import corpora
import genfam
import genprop
import recog
from vlib import known_findings


def panics_in(res, gr, what):
    n = 0
    for key, o in gr.obs.items():
        n += 1
        for ep in ("V", "VT", "VTC", "VC"):
            if o[ep].startswith("panic:"):
                sid, sname, j = key.rsplit("/", 2)[0].split("/")[0], key.split("/")[1], int(key.split("/")[2])
                sc, st = genprop.find_struct(gr, "/".join(key.split("/")[:2]))
                cs = st["cases"][j]
                short = {"nil": cs.get("nil"), "sets": [dict(s, str=(s.get("str", "")[:80] + ("..." if len(s.get("str", "")) > 80 else ""))) for s in cs["sets"]]}
                res.violation({"kind": "spec-violation", "struct": "/".join(key.split("/")[:2]), "case_index": j, "case": short,
                               "entry_point": ep, "observed": o[ep], "what": what})
                return n
    return n


def helpers_no_panic(res):
    """the runtime recognizers on the malformed stream of every family (T/F/P from the rebuilt Go functions)"""
    probe, hooked = recog.build_probe(res)
    if probe is None:
        return
    total = 0
    for fam, fns in (("email", ["IsValidEmail"]), ("url", ["IsValidURL"]), ("uuid", ["IsValidUUID"]), ("alnum", ["IsValidAlpha", "IsNumeric"])):
        inp = recog.gen_inputs(fam, res.seed, "quick", name="c17" + fam)
        for fn in fns:
            out = inp + "." + fn + ".out"
            rc, err = recog.run_fn(probe, fn, inp, out)
            n, distinct, verdicts = recog.stats(inp, out)
            total += n
            if verdicts.get("P"):
                with open(inp) as fi, open(out) as fo:
                    for li, lo in zip(fi, fo):
                        if lo.strip() == "P":
                            res.violation({"kind": "spec-violation", "function": fn, "input_hex": li.strip(),
                                           "input_repr": repr(recog.unhex(li.strip()))[:300], "what": "the recognizer panics on this input"})
                            break
    res.coverage["helper_inputs_run"] = total


def check(res):
    corpus = corpora.c17(res.seed, res.tier)
    gr, results = genprop.run(res, "C17", PROPFILE, corpus,
                              extra=lambda gr, r: res.coverage.__setitem__("lattice_cases", panics_in(res, gr, "Validate panicked on this value")))
    # 1 MiB strings: compiled code only
    huge = corpora.c17_huge()
    g2 = genfam.GenRun(res, huge, "c17huge")
    if g2.generate() and g2.gen_status == 0:
        g2.translate()
        ok, errs = g2.go_vet_build()
        if g2.drive() is not None:
            res.coverage["huge_string_cases"] = panics_in(res, g2, "Validate panicked on a 1 MiB string")
    helpers_no_panic(res)


PROPFILE = "theories/Properties/C17.v"
replay = genprop.replay
