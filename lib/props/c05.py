"""C05 — see DESIGN.md §5 C05. Theorems: Properties/C05.v; tie: per-run certificates + differential."""
import corpora
import genprop


def check(res):
    corpus = corpora.c05(res.seed, res.tier)
    genprop.run(res, "C05", PROPFILE, corpus)


PROPFILE = "theories/Properties/C0456.v"
replay = genprop.replay
