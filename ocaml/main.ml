(* Line-protocol driver for the extracted model.
   usage: model <function>      stdin: one case per line      stdout: one result per line
   Strings are hex-encoded bytes ("-" = empty string). Results: T / F / P (panic) or a decimal int. *)
module M = Model

let byte_tab : M.byte array = Array.of_list M.all_bytes

let hexval c = match c with
  | '0'..'9' -> Char.code c - 48
  | 'a'..'f' -> Char.code c - 87
  | 'A'..'F' -> Char.code c - 55
  | _ -> failwith "bad hex"

let bytes_of_hex (h : string) : M.byte list =
  if h = "-" then [] else begin
    let n = String.length h / 2 in
    let rec go i acc =
      if i < 0 then acc
      else go (i - 1) (byte_tab.(hexval h.[2*i] * 16 + hexval h.[2*i+1]) :: acc) in
    go (n - 1) []
  end

let rec nat_of_int n = if n <= 0 then M.O else M.S (nat_of_int (n - 1))
let rec int_of_nat = function M.O -> 0 | M.S n -> 1 + int_of_nat n
let rec int_of_pos = function M.XH -> 1 | M.XO p -> 2 * int_of_pos p | M.XI p -> 2 * int_of_pos p + 1
let int_of_n = function M.N0 -> 0 | M.Npos p -> int_of_pos p
let rec pos_of_int n = if n = 1 then M.XH else if n land 1 = 0 then M.XO (pos_of_int (n lsr 1)) else M.XI (pos_of_int (n lsr 1))
let n_of_int n = if n = 0 then M.N0 else M.Npos (pos_of_int n)

let hex_of_bytes (l : M.byte list) : string =
  if l = [] then "-" else begin
    let b = Buffer.create 256 in
    List.iter (fun c -> Buffer.add_string b (Printf.sprintf "%02x" (int_of_n (M.b2n c)))) l;
    Buffer.contents b
  end

let rb = function M.Ok true -> "T" | M.Ok false -> "F" | M.Panic -> "P"
let pb b = if b then "T" else "F"

let int_of_z = function M.Z0 -> 0 | M.Zpos p -> int_of_pos p | M.Zneg p -> - (int_of_pos p)
let strf f = fun a -> f (bytes_of_hex (List.hd a))

let split_ws s = List.filter (fun x -> x <> "") (String.split_on_char ' ' s)

(* each entry: name -> function from the line's fields to the result string *)
let table : (string * (string list -> string)) list = [
  "IsValidUUID", (fun a -> rb (M.isValidUUID (bytes_of_hex (List.hd a))));
  "hasValidHyphens", (fun a -> rb (M.hasValidHyphens (bytes_of_hex (List.hd a))));
  "hasValidHexChars", (fun a -> rb (M.hasValidHexChars (bytes_of_hex (List.hd a))));
  "isMaxUUID", (fun a -> rb (M.isMaxUUID (bytes_of_hex (List.hd a))));
  "isValidUUIDVersionAndVariant", (fun a -> rb (M.isValidUUIDVersionAndVariant (bytes_of_hex (List.hd a))));
  "isValidHexChar", (fun a -> pb (M.isValidHexChar byte_tab.(int_of_string (List.hd a))));
  "IsValidEmail", strf (fun s -> rb (M.isValidEmail s));
  "findAtSymbol", strf (fun s -> string_of_int (int_of_z (M.findAtSymbol s)));
  "isValidLocalPart", strf (fun s -> rb (M.isValidLocalPart s));
  "isValidLocalPartFormat", strf (fun s -> rb (M.isValidLocalPartFormat s));
  "isValidLocalPartChars", strf (fun s -> pb (M.isValidLocalPartChars s));
  "isValidLocalChar", (fun a -> pb (M.isValidLocalChar (n_of_int (int_of_string (List.hd a)))));
  "isValidLocalSpecialChar", (fun a -> pb (M.isValidLocalSpecialChar (n_of_int (int_of_string (List.hd a)))));
  "isValidDomainPart", strf (fun s -> rb (M.isValidDomainPart s));
  "validateDomainLabels", strf (fun s -> rb (M.validateDomainLabels s));
  "isValidDomainLabel", strf (fun s -> rb (M.isValidDomainLabel s));
  "isValidDomainLabelChars", strf (fun s -> pb (M.isValidDomainLabelChars s));
  "isValidDomainChar", (fun a -> pb (M.isValidDomainChar (n_of_int (int_of_string (List.hd a)))));
  "IsValidURL", strf (fun s -> rb (M.isValidURL s));
  "findSchemeEnd", strf (fun s -> string_of_int (int_of_z (M.findSchemeEnd s)));
  "isValidSchemeChar", (fun a -> pb (M.isValidSchemeChar byte_tab.(int_of_string (List.hd a))));
  "hasInvalidChars", strf (fun s -> pb (M.hasInvalidChars s));
  "validateSchemeWithoutHost", (fun a -> pb (M.validateSchemeWithoutHost (bytes_of_hex (List.hd a)) (nat_of_int (int_of_string (List.nth a 1)))));
  "validateSchemeWithHost", (fun a -> rb (M.validateSchemeWithHost (bytes_of_hex (List.hd a)) (nat_of_int (int_of_string (List.nth a 1)))));
  "isValidHostStart", (fun a -> pb (M.isValidHostStart byte_tab.(int_of_string (List.hd a))));
  "IsValidAlpha", strf (fun s -> pb (M.isValidAlpha s));
  "IsNumeric", strf (fun s -> pb (M.isNumeric s));
  "Migrate", strf (fun s -> let out = M.migrate_content s in
                            string_of_int (int_of_nat (M.migrate_count s)) ^ " " ^ hex_of_bytes out);
  "Middleware", (fun a ->
      (* variant decoded class msghex *)
      let variant = List.nth a 0 = "1" and decoded = List.nth a 1 = "1" in
      let v = match List.nth a 2 with
        | "0" -> M.VOk
        | "1" -> M.VFail (bytes_of_hex (List.nth a 3), false)
        | _ -> M.VFail (bytes_of_hex (List.nth a 3), true) in
      let r = M.mw_eval variant decoded v (bytes_of_hex "6e657874") in
      Printf.sprintf "%d %d %s" (int_of_nat r.M.status) (if r.M.next_called then 1 else 0) (hex_of_bytes r.M.body));
  "RuneCount", strf (fun s -> string_of_int (int_of_nat (M.rune_count s)));
  "Runes", strf (fun s -> String.concat "," (List.map (fun r -> string_of_int (int_of_n r)) (M.runes s)));
]

let () =
  let fname = Sys.argv.(1) in
  let f = try List.assoc fname table with Not_found -> (prerr_endline ("unknown function " ^ fname); exit 2) in
  let out = Buffer.create 65536 in
  (try
    while true do
      let line = input_line stdin in
      Buffer.add_string out (f (split_ws line));
      Buffer.add_char out '\n';
      if Buffer.length out > 60000 then (print_string (Buffer.contents out); Buffer.clear out)
    done
  with End_of_file -> ());
  print_string (Buffer.contents out)
