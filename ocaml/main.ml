(* Line-protocol driver for the extracted model.
   usage: model <function>      stdin: one case per line      stdout: one result per line
   Strings are hex-encoded bytes ("-" = empty string). Results: T / F / P (panic) or a decimal int. *)
module M = Model

let byte_tab : M.byte array = Array.of_list M.all_bytes

let hexval c = match c with
  | '0'..'9' -> Char.code c - 48
  | 'a'..'f' -> Char.code c - 87
  | 'A'..'F' -> Char.code c - 55
  | _ -> failwith "bad hex"

let bytes_of_hex (h : string) : M.byte list =
  if h = "-" then [] else begin
    let n = String.length h / 2 in
    let rec go i acc =
      if i < 0 then acc
      else go (i - 1) (byte_tab.(hexval h.[2*i] * 16 + hexval h.[2*i+1]) :: acc) in
    go (n - 1) []
  end

let rec nat_of_int n = if n <= 0 then M.O else M.S (nat_of_int (n - 1))
let rec int_of_nat = function M.O -> 0 | M.S n -> 1 + int_of_nat n
let rec int_of_pos = function M.XH -> 1 | M.XO p -> 2 * int_of_pos p | M.XI p -> 2 * int_of_pos p + 1
let int_of_n = function M.N0 -> 0 | M.Npos p -> int_of_pos p
let rec pos_of_int n = if n = 1 then M.XH else if n land 1 = 0 then M.XO (pos_of_int (n lsr 1)) else M.XI (pos_of_int (n lsr 1))
let n_of_int n = if n = 0 then M.N0 else M.Npos (pos_of_int n)

let rb = function M.Ok true -> "T" | M.Ok false -> "F" | M.Panic -> "P"
let pb b = if b then "T" else "F"

let split_ws s = List.filter (fun x -> x <> "") (String.split_on_char ' ' s)

(* each entry: name -> function from the line's fields to the result string *)
let table : (string * (string list -> string)) list = [
  "IsValidUUID", (fun a -> rb (M.isValidUUID (bytes_of_hex (List.hd a))));
  "hasValidHyphens", (fun a -> rb (M.hasValidHyphens (bytes_of_hex (List.hd a))));
  "hasValidHexChars", (fun a -> rb (M.hasValidHexChars (bytes_of_hex (List.hd a))));
  "isMaxUUID", (fun a -> rb (M.isMaxUUID (bytes_of_hex (List.hd a))));
  "isValidUUIDVersionAndVariant", (fun a -> rb (M.isValidUUIDVersionAndVariant (bytes_of_hex (List.hd a))));
  "isValidHexChar", (fun a -> pb (M.isValidHexChar byte_tab.(int_of_string (List.hd a))));
]

let () =
  let fname = Sys.argv.(1) in
  let f = try List.assoc fname table with Not_found -> (prerr_endline ("unknown function " ^ fname); exit 2) in
  let out = Buffer.create 65536 in
  (try
    while true do
      let line = input_line stdin in
      Buffer.add_string out (f (split_ws line));
      Buffer.add_char out '\n';
      if Buffer.length out > 60000 then (print_string (Buffer.contents out); Buffer.clear out)
    done
  with End_of_file -> ());
  print_string (Buffer.contents out)
