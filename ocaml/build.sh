#!/bin/sh
# Extract the model and build the native driver. Run from anywhere.
set -e
cd "$(dirname "$0")"
coqc -Q ../coq/theories GV ../coq/theories/Extract/Extract.v > extract.log 2>&1 || { cat extract.log; exit 1; }
rm -f model.mli
ocamlfind ocamlopt -O2 -w -a -package str model.ml main.ml -o model 2>/dev/null || \
ocamlfind ocamlopt -w -a model.ml main.ml -o model
