// helperalloc measures heap allocations of an exported recognizer of /repo's validationhelper package on the
// inputs it ACCEPTS (hex lines on stdin, "-" = empty): one malloc count for the whole batch, then, when that is
// not zero, testing.AllocsPerRun per input to name the offenders.
// Output: "TOTAL <inputs> <accepted> <mallocs>" and up to 8 lines "ALLOC <hex> <allocs per call>".
package main

import (
	"bufio"
	"encoding/hex"
	"fmt"
	"os"
	"runtime"
	"runtime/debug"
	"testing"

	vh "github.com/sivchari/govalid/validation/validationhelper"
)

var table = map[string]func(string) bool{
	"IsValidEmail": vh.IsValidEmail, "IsValidURL": vh.IsValidURL, "IsValidUUID": vh.IsValidUUID,
	"IsValidAlpha": vh.IsValidAlpha, "IsNumeric": vh.IsNumeric,
}

var sink bool

func main() {
	f, ok := table[os.Args[1]]
	if !ok {
		fmt.Fprintln(os.Stderr, "unknown function", os.Args[1])
		os.Exit(2)
	}
	in := bufio.NewScanner(os.Stdin)
	in.Buffer(make([]byte, 1<<20), 1<<26)
	var all, acc []string
	for in.Scan() {
		l := in.Text()
		if l == "-" {
			all = append(all, "")
			continue
		}
		b, err := hex.DecodeString(l)
		if err != nil {
			continue
		}
		all = append(all, string(b))
	}
	for _, s := range all {
		if func() (r bool) { defer func() { recover() }(); return f(s) }() {
			acc = append(acc, s)
		}
	}
	debug.SetGCPercent(-1)
	for _, s := range acc { // warm up (lazy initialisation is not charged to a call)
		sink = f(s)
	}
	var a, b runtime.MemStats
	runtime.ReadMemStats(&a)
	for _, s := range acc {
		sink = f(s)
	}
	runtime.ReadMemStats(&b)
	total := b.Mallocs - a.Mallocs
	fmt.Printf("TOTAL %d %d %d\n", len(all), len(acc), total)
	if total == 0 {
		return
	}
	n := 0
	for _, s := range acc {
		s := s
		if k := testing.AllocsPerRun(3, func() { sink = f(s) }); k > 0 {
			h := hex.EncodeToString([]byte(s))
			if h == "" {
				h = "-"
			}
			fmt.Printf("ALLOC %s %d\n", h, int(k))
			n++
			if n >= 8 {
				break
			}
		}
	}
}
