//go:build test

// mwprobe drives validation/middleware through net/http/httptest: every request body x both
// middleware variants x live / cancelled / expired request contexts, for the repository's fixture
// type and for a scripted validator. Each output line holds the observed response and, obtained
// by direct calls in the same process, what json decoding and validation return for that body.
package main

import (
	"bufio"
	"bytes"
	"context"
	"encoding/hex"
	"encoding/json"
	"errors"
	"fmt"
	"io"
	"net/http"
	"net/http/httptest"
	"net/netip"
	"os"
	"time"

	"github.com/sivchari/govalid/validation/middleware"
	"github.com/sivchari/govalid/validation/middleware/testfixture"
)

// Scripted is a request type whose validation result is chosen by the body.
type Scripted struct {
	Mode string `json:"mode"`
	// optional fields: their zero value validates, so a body that does not decode must not reach validation
	N    int      `json:"n"`
	Tags []string `json:"tags"`
	Sub  struct {
		X int `json:"x"`
	} `json:"sub"`
	// fields whose types decode themselves (json.Unmarshaler / encoding.TextUnmarshaler): their failures are errors of
	// their own kinds, neither *json.SyntaxError nor *json.UnmarshalTypeError
	When *time.Time `json:"when"`
	At   time.Time  `json:"at"`
	Addr netip.Addr `json:"addr"`
	Odd  Odd        `json:"odd"`
	Txt  OddText    `json:"txt"`
}

// Odd rejects some well-formed JSON values with an error type of its own.
type Odd struct{ V string }

type oddError struct{ what string }

func (e *oddError) Error() string { return "odd: " + e.what }

func (o *Odd) UnmarshalJSON(b []byte) error {
	if bytes.Contains(b, []byte("bad")) {
		return &oddError{string(b)}
	}
	o.V = string(b)
	return nil
}

// OddText rejects some strings through encoding.TextUnmarshaler.
type OddText string

func (o *OddText) UnmarshalText(b []byte) error {
	if len(b) > 0 && b[0] == '!' {
		return errors.New("text starts with !")
	}
	*o = OddText(b)
	return nil
}

func scriptedErr(mode string, ctx context.Context) error {
	switch mode {
	case "ok", "":
		if ctx != nil && ctx.Err() != nil {
			return ctx.Err()
		}
		return nil
	case "fail":
		return errors.New("scripted failure")
	case "canceled":
		return context.Canceled
	case "deadline":
		return context.DeadlineExceeded
	case "wrapped-canceled":
		return fmt.Errorf("validation aborted: %w", context.Canceled)
	case "wrapped-deadline":
		return fmt.Errorf("validation aborted: %w", context.DeadlineExceeded)
	case "empty-message":
		return errors.New("")
	}
	return errors.New("unknown mode " + mode)
}

func (s *Scripted) Validate() error                           { return scriptedErr(s.modeOf(), nil) }
func (s *Scripted) ValidateContext(ctx context.Context) error { return scriptedErr(s.modeOf(), ctx) }
func (s *Scripted) modeOf() string {
	if s == nil {
		return "fail"
	}
	return s.Mode
}

type probe struct {
	name     string
	plain    func(http.HandlerFunc) http.HandlerFunc
	withCtx  func(http.HandlerFunc) http.HandlerFunc
	decode   func(b []byte) (any, bool)
	validate func(x any, ctx context.Context) error // ctx == nil: Validate()
}

func probes() []probe {
	return []probe{
		{
			name:    "person",
			plain:   middleware.ValidateRequest[*testfixture.PersonRequest],
			withCtx: middleware.ValidateRequestContext[*testfixture.PersonRequest],
			decode: func(b []byte) (any, bool) {
				var x *testfixture.PersonRequest
				err := json.NewDecoder(bytes.NewReader(b)).Decode(&x)
				return x, err == nil
			},
			validate: func(x any, ctx context.Context) error {
				p := x.(*testfixture.PersonRequest)
				if ctx == nil {
					return p.Validate()
				}
				return p.ValidateContext(ctx)
			},
		},
		{
			name:    "scripted",
			plain:   middleware.ValidateRequest[*Scripted],
			withCtx: middleware.ValidateRequestContext[*Scripted],
			decode: func(b []byte) (any, bool) {
				var x *Scripted
				err := json.NewDecoder(bytes.NewReader(b)).Decode(&x)
				return x, err == nil
			},
			validate: func(x any, ctx context.Context) error {
				p := x.(*Scripted)
				if ctx == nil {
					return p.Validate()
				}
				return p.ValidateContext(ctx)
			},
		},
	}
}

func hexs(b []byte) string {
	if len(b) == 0 {
		return "-"
	}
	return hex.EncodeToString(b)
}

func mkctx(kind string) (context.Context, context.CancelFunc) {
	switch kind {
	case "cancelled":
		c, cancel := context.WithCancel(context.Background())
		cancel()
		return c, func() {}
	case "expired":
		c, cancel := context.WithDeadline(context.Background(), time.Now().Add(-time.Hour))
		return c, cancel
	}
	return context.Background(), func() {}
}

func main() {
	in := bufio.NewScanner(os.Stdin)
	in.Buffer(make([]byte, 1<<20), 1<<26)
	out := bufio.NewWriter(os.Stdout)
	defer out.Flush()
	// one middleware instance per (type, variant), reused for every request of the run:
	// state carried from one request to the next must not influence the verdict
	type inst struct {
		h          http.HandlerFunc
		nextCalled *bool
	}
	ps := probes()
	insts := map[string]inst{}
	for _, p := range ps {
		for vi, variant := range []func(http.HandlerFunc) http.HandlerFunc{p.plain, p.withCtx} {
			nc := new(bool)
			insts[fmt.Sprintf("%s/%d", p.name, vi)] = inst{h: variant(func(w http.ResponseWriter, r *http.Request) {
				*nc = true
				_, _ = w.Write([]byte("next"))
			}), nextCalled: nc}
		}
	}
	for in.Scan() {
		line := in.Text()
		var body []byte
		if line != "-" {
			body, _ = hex.DecodeString(line)
		}
		for _, p := range ps {
			for vi := range []int{0, 1} {
				for _, ck := range []string{"live", "cancelled", "expired"} {
					ctx, cancel := mkctx(ck)
					in0 := insts[fmt.Sprintf("%s/%d", p.name, vi)]
					*in0.nextCalled = false
					h := in0.h
					req := httptest.NewRequest(http.MethodPost, "/", bytes.NewReader(body)).WithContext(ctx)
					rec := httptest.NewRecorder()
					func() {
						defer func() {
							if r := recover(); r != nil {
								rec.Code = 599
							}
						}()
						h(rec, req)
					}()
					respBody, _ := io.ReadAll(rec.Result().Body)
					// oracles, by direct calls
					x, decoded := p.decode(body)
					class, msg := 0, ""
					if decoded {
						var verr error
						if vi == 0 {
							verr = p.validate(x, nil)
						} else {
							verr = p.validate(x, ctx)
						}
						if verr != nil {
							msg = verr.Error()
							class = 1
							if errors.Is(verr, context.Canceled) || errors.Is(verr, context.DeadlineExceeded) {
								class = 2
							}
						}
					}
					nc := 0
					if *in0.nextCalled {
						nc = 1
					}
					d := 0
					if decoded {
						d = 1
					}
					fmt.Fprintf(out, "%s %d %s %s | %d %d %s | %d %d %s\n", p.name, vi, ck, hexs(body), rec.Code, nc, hexs(respBody), d, class, hexs([]byte(msg)))
					cancel()
				}
			}
		}
	}
}
