//go:build !verif

// Fallback probe used when /repo's hook file no longer compiles (a rewrite renamed or
// removed an internal helper): only the exported entry points are available.
package main

import (
	"bufio"
	"encoding/hex"
	"fmt"
	"os"
	"strconv"
	"strings"
	"unicode/utf8"

	vh "github.com/sivchari/govalid/validation/validationhelper"
)

func unhex(s string) string {
	if s == "-" {
		return ""
	}
	b, err := hex.DecodeString(s)
	if err != nil {
		panic("bad hex input: " + s)
	}
	return string(b)
}

var table = map[string]func(string) bool{
	"IsValidUUID":  vh.IsValidUUID,
	"IsValidEmail": vh.IsValidEmail,
	"IsValidURL":   vh.IsValidURL,
	"IsValidAlpha": vh.IsValidAlpha,
	"IsNumeric":    vh.IsNumeric,
}

func call(f func(string) bool, s string) (out string) {
	defer func() {
		if r := recover(); r != nil {
			out = "P"
		}
	}()
	if f(s) {
		return "T"
	}
	return "F"
}

func main() {
	if len(os.Args) < 2 {
		fmt.Fprintln(os.Stderr, "usage: helperprobe <function>")
		os.Exit(2)
	}
	if os.Args[1] == "RuneCount" || os.Args[1] == "Runes" {
		in := bufio.NewScanner(os.Stdin)
		in.Buffer(make([]byte, 1<<20), 1<<26)
		out := bufio.NewWriterSize(os.Stdout, 1<<20)
		defer out.Flush()
		for in.Scan() {
			s := unhex(strings.Fields(in.Text())[0])
			if os.Args[1] == "RuneCount" {
				out.WriteString(strconv.Itoa(utf8.RuneCountInString(s)))
			} else {
				first := true
				for _, r := range s {
					if !first {
						out.WriteByte(',')
					}
					first = false
					out.WriteString(strconv.Itoa(int(r)))
				}
			}
			out.WriteByte('\n')
		}
		return
	}
	f, ok := table[os.Args[1]]
	if !ok {
		fmt.Fprintln(os.Stderr, "unknown function", os.Args[1])
		os.Exit(3)
	}
	in := bufio.NewScanner(os.Stdin)
	in.Buffer(make([]byte, 1<<20), 1<<26)
	out := bufio.NewWriterSize(os.Stdout, 1<<20)
	defer out.Flush()
	for in.Scan() {
		a := strings.Fields(in.Text())
		out.WriteString(call(f, unhex(a[0])))
		out.WriteByte('\n')
	}
}
