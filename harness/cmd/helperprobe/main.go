//go:build verif

// helperprobe runs one function of /repo's validationhelper package on every
// input line (hex-encoded bytes, "-" = empty) and prints T / F / P (panic) per line.
package main

import (
	"bufio"
	"encoding/hex"
	"fmt"
	"os"
	"strconv"
	"strings"
	"unicode/utf8"

	vh "github.com/sivchari/govalid/validation/validationhelper"
)

func unhex(s string) string {
	if s == "-" {
		return ""
	}
	b, err := hex.DecodeString(s)
	if err != nil {
		panic("bad hex input: " + s)
	}
	return string(b)
}

func tf(b bool) string {
	if b {
		return "T"
	}
	return "F"
}

func atoi(s string) int {
	n, err := strconv.Atoi(s)
	if err != nil {
		panic(err)
	}
	return n
}

type fn func(a []string) string

func str(f func(string) bool) fn { return func(a []string) string { return tf(f(unhex(a[0]))) } }
func byt(f func(byte) bool) fn   { return func(a []string) string { return tf(f(byte(atoi(a[0])))) } }
func run(f func(rune) bool) fn   { return func(a []string) string { return tf(f(rune(atoi(a[0])))) } }
func strint(f func(string) int) fn {
	return func(a []string) string { return strconv.Itoa(f(unhex(a[0]))) }
}
func strpos(f func(string, int) bool) fn {
	return func(a []string) string { return tf(f(unhex(a[0]), atoi(a[1]))) }
}

var table = map[string]fn{
	"IsValidUUID":                  str(vh.IsValidUUID),
	"hasValidHyphens":              str(vh.VerifHasValidHyphens),
	"hasValidHexChars":             str(vh.VerifHasValidHexChars),
	"isMaxUUID":                    str(vh.VerifIsMaxUUID),
	"isValidUUIDVersionAndVariant": str(vh.VerifIsValidUUIDVersionAndVariant),
	"isValidHexChar":               byt(vh.VerifIsValidHexChar),

	"IsValidEmail":            str(vh.IsValidEmail),
	"findAtSymbol":            strint(vh.VerifFindAtSymbol),
	"isValidLocalPart":        str(vh.VerifIsValidLocalPart),
	"isValidLocalPartFormat":  str(vh.VerifIsValidLocalPartFormat),
	"isValidLocalPartChars":   str(vh.VerifIsValidLocalPartChars),
	"isValidLocalChar":        run(vh.VerifIsValidLocalChar),
	"isValidLocalSpecialChar": run(vh.VerifIsValidLocalSpecialChar),
	"isValidDomainPart":       str(vh.VerifIsValidDomainPart),
	"validateDomainLabels":    str(vh.VerifValidateDomainLabels),
	"isValidDomainLabel":      str(vh.VerifIsValidDomainLabel),
	"isValidDomainLabelChars": str(vh.VerifIsValidDomainLabelChars),
	"isValidDomainChar":       run(vh.VerifIsValidDomainChar),

	"IsValidURL":                str(vh.IsValidURL),
	"findSchemeEnd":             strint(vh.VerifFindSchemeEnd),
	"isValidSchemeChar":         byt(vh.VerifIsValidSchemeChar),
	"hasInvalidChars":           str(vh.VerifHasInvalidChars),
	"validateSchemeWithoutHost": strpos(vh.VerifValidateSchemeWithoutHost),
	"validateSchemeWithHost":    strpos(vh.VerifValidateSchemeWithHost),
	"isValidHostStart":          byt(vh.VerifIsValidHostStart),

	"IsValidAlpha": str(vh.IsValidAlpha),
	"RuneCount":    func(a []string) string { return strconv.Itoa(utf8.RuneCountInString(unhex(a[0]))) },
	"Runes":        func(a []string) string { return runesOf(unhex(a[0])) },
	"IsNumeric":    str(vh.IsNumeric),
}

func call(f fn, a []string) (out string) {
	defer func() {
		if r := recover(); r != nil {
			out = "P"
		}
	}()
	return f(a)
}

func main() {
	if len(os.Args) < 2 {
		fmt.Fprintln(os.Stderr, "usage: helperprobe <function>")
		os.Exit(2)
	}
	f, ok := table[os.Args[1]]
	if !ok {
		fmt.Fprintln(os.Stderr, "unknown function", os.Args[1])
		os.Exit(2)
	}
	in := bufio.NewScanner(os.Stdin)
	in.Buffer(make([]byte, 1<<20), 1<<26)
	out := bufio.NewWriterSize(os.Stdout, 1<<20)
	defer out.Flush()
	for in.Scan() {
		line := in.Text()
		out.WriteString(call(f, strings.Fields(line)))
		out.WriteByte('\n')
	}
}

func runesOf(s string) string {
	var sb strings.Builder
	first := true
	for _, r := range s {
		if !first {
			sb.WriteByte(',')
		}
		first = false
		sb.WriteString(strconv.Itoa(int(r)))
	}
	return sb.String()
}
