// helperrace calls the runtime recognizers (and the CEL helper cache) from many goroutines on
// shared inputs; built with -race by the C16 check.
package main

import (
	"fmt"
	"os"
	"strconv"
	"sync"

	vh "github.com/sivchari/govalid/validation/validationhelper"
)

func main() {
	iters, _ := strconv.Atoi(os.Args[1])
	inputs := []string{"a@b.cd", "first.last@example.org", "https://example.com", "mailto:x", "550e8400-e29b-41d4-a716-446655440000",
		"FFFFFFFF-FFFF-FFFF-FFFF-FFFFFFFFFFFF", "abc", "123", "", "\xff", "a..b@c.de", "HTTP://x"}
	fns := []func(string) bool{vh.IsValidEmail, vh.IsValidURL, vh.IsValidUUID, vh.IsValidAlpha, vh.IsNumeric}
	want := map[[2]int]bool{}
	for i, f := range fns {
		for j, s := range inputs {
			want[[2]int{i, j}] = f(s)
		}
	}
	// concurrent FIRST use of the CEL helper: goroutines released together, distinct expressions
	start := make(chan struct{})
	var cw sync.WaitGroup
	celBad := make(chan string, 64)
	for g := 0; g < 16; g++ {
		cw.Add(1)
		go func(g int) {
			defer cw.Done()
			<-start
			for it := 0; it < 20; it++ {
				expr := fmt.Sprintf("value > %d", (g+it)%7)
				if got := vh.IsValidCEL(expr, 5, nil); got != (5 > (g+it)%7) {
					select {
					case celBad <- expr:
					default:
					}
				}
			}
		}(g)
	}
	close(start)
	cw.Wait()
	select {
	case b := <-celBad:
		fmt.Println("inconsistent IsValidCEL:", b)
		os.Exit(1)
	default:
	}
	// many distinct expressions (whatever the helper keeps per expression grows, is bounded or is evicted while others
	// look up): 16 goroutines over 1200 expressions, each expression also used by a second goroutine
	var mw sync.WaitGroup
	for g := 0; g < 16; g++ {
		mw.Add(1)
		go func(g int) {
			defer mw.Done()
			for k := 0; k < 150; k++ {
				for _, n := range []int{g*75 + k/2, ((g+1)%16)*75 + k/2} {
					expr := fmt.Sprintf("value >= %d", n)
					if vh.IsValidCEL(expr, n, nil) != true || vh.IsValidCEL(expr, n-1, nil) != false {
						select {
						case celBad <- expr:
						default:
						}
					}
				}
			}
		}(g)
	}
	mw.Wait()
	select {
	case b := <-celBad:
		fmt.Println("inconsistent IsValidCEL (many expressions):", b)
		os.Exit(1)
	default:
	}
	// expressions that do not compile, first seen while other goroutines look up cached ones: the verdict is false and whatever
	// the helper remembers about failures is written under concurrency
	var iw sync.WaitGroup
	for g := 0; g < 16; g++ {
		iw.Add(1)
		go func(g int) {
			defer iw.Done()
			for k := 0; k < 40; k++ {
				if g%2 == 0 {
					expr := fmt.Sprintf("value >>> %d", g*100+k/2)
					if vh.IsValidCEL(expr, 1, nil) != false {
						select {
						case celBad <- expr:
						default:
						}
					}
				} else {
					if vh.IsValidCEL("value >= 3", 3+k, nil) != true || vh.IsValidCEL(fmt.Sprintf("value >= %d", k%7), -1, nil) != false {
						select {
						case celBad <- "value >= N (next to invalid expressions)":
						default:
						}
					}
				}
			}
		}(g)
	}
	iw.Wait()
	select {
	case b := <-celBad:
		fmt.Println("inconsistent IsValidCEL (invalid expressions):", b)
		os.Exit(1)
	default:
	}
	var wg sync.WaitGroup
	bad := make(chan string, 64)
	for g := 0; g < 32; g++ {
		wg.Add(1)
		go func(g int) {
			defer wg.Done()
			for it := 0; it < iters; it++ {
				i := (g + it) % len(fns)
				j := (g*7 + it) % len(inputs)
				if fns[i](inputs[j]) != want[[2]int{i, j}] {
					select {
					case bad <- fmt.Sprintf("fn %d input %q", i, inputs[j]):
					default:
					}
				}
			}
		}(g)
	}
	wg.Wait()
	select {
	case b := <-bad:
		fmt.Println("inconsistent:", b)
		os.Exit(1)
	default:
	}
}
