// genharness: materialize scenarios as Go packages, translate generated validators into Coq terms,
// and write the generic reflection-based driver that runs the compiled validators.
package main

import (
	"encoding/json"
	"flag"
	"fmt"
	"os"
	"path/filepath"
	"sort"
	"strings"

	"verifharness/internal/coqterm"
	"verifharness/internal/decl"
	"verifharness/internal/golite"
)

func die(format string, a ...any) {
	fmt.Fprintf(os.Stderr, format+"\n", a...)
	os.Exit(2)
}

func load(path string) *decl.Corpus {
	b, err := os.ReadFile(path)
	if err != nil {
		die("read %s: %v", path, err)
	}
	var c decl.Corpus
	if err := json.Unmarshal(b, &c); err != nil {
		die("parse %s: %v", path, err)
	}
	return &c
}

func main() {
	if len(os.Args) < 2 {
		die("usage: genharness materialize|translate|driver ...")
	}
	fs := flag.NewFlagSet(os.Args[1], flag.ExitOnError)
	in := fs.String("in", "", "scenario corpus (JSON)")
	dir := fs.String("dir", "", "scratch module directory")
	repo := fs.String("repo", "/repo", "path of the govalid working tree")
	coq := fs.String("coq", "", "output .v file")
	meta := fs.String("meta", "", "meta.json written by translate / read by driver")
	obs := fs.String("obs", "", "observations of the CEL driver (celcoq)")
	mod := fs.String("module", "GVGen", "Coq logical prefix (informational)")
	_ = mod
	_ = fs.Parse(os.Args[2:])
	switch os.Args[1] {
	case "materialize":
		materialize(load(*in), *dir, *repo)
	case "translate":
		translate(load(*in), *dir, *coq, *meta)
	case "driver":
		driver(load(*in), *dir, *meta)
	case "celdriver":
		celDriver(load(*in), *dir, *meta)
	case "celcoq":
		celCoq(*in, *dir, *obs, *coq)
	default:
		die("unknown subcommand %s", os.Args[1])
	}
}

func materialize(c *decl.Corpus, dir, repo string) {
	must(os.MkdirAll(dir, 0o755))
	gomod := "module scn\n\ngo 1.24.3\n\nrequire github.com/sivchari/govalid v0.0.0\n\nreplace github.com/sivchari/govalid => " + repo + "\n"
	must(os.WriteFile(filepath.Join(dir, "go.mod"), []byte(gomod), 0o644))
	sum, err := os.ReadFile(filepath.Join(repo, "go.sum"))
	must(err)
	must(os.WriteFile(filepath.Join(dir, "go.sum"), sum, 0o644))
	for _, sc := range c.Scenarios {
		pd := filepath.Join(dir, sc.Pkg)
		must(os.MkdirAll(pd, 0o755))
		for base, content := range sc.Source() {
			must(os.WriteFile(filepath.Join(pd, base+".go"), []byte(content), 0o644))
		}
	}
}

func must(err error) {
	if err != nil {
		die("%v", err)
	}
}

type structMeta struct {
	Key        string      `json:"key"` // scenario/struct
	Pkg        string      `json:"pkg"`
	Type       string      `json:"type"`
	Generated  bool        `json:"generated"`
	File       string      `json:"file"`
	Sentinels  []string    `json:"sentinels"`
	SentinelPT [][2]string `json:"sentinel_pt"`
	OtherVars  []string    `json:"othervars"`
	Problems   []string    `json:"problems"`
	Index      int         `json:"index"`
}

func translate(c *decl.Corpus, dir, coqOut, metaOut string) {
	var sb strings.Builder
	sb.WriteString("(* written by genharness translate on every run: declarations as the model sees them (d_i),\n   what the rebuilt govalid emitted for them, translated (p_i), and the receiver values (v_i) *)\n")
	sb.WriteString("From GV Require Import Base.Bytes Base.GoFloat GoLite.Syntax GoLite.Sem Gen.Decl Gen.Rules Gen.Template.\n\n")
	var metas []structMeta
	idx := 0
	for _, sc := range c.Scenarios {
		for si := range sc.Structs {
			s := &sc.Structs[si]
			base := s.File
			if base == "" || sc.Grouped {
				base = "x"
			}
			gen := filepath.Join(dir, sc.Pkg, base+"_"+strings.ToLower(s.Name)+"_validator.go")
			m := structMeta{Key: sc.ID + "/" + s.Name, Pkg: sc.Pkg, Type: s.Name, File: gen, Index: idx}
			fmt.Fprintf(&sb, "(* %s *)\nDefinition tab_%d : numtab := %s.\n", m.Key, idx, s.CoqNumTab(sc.Grouped, sc.GroupDoc))
			fmt.Fprintf(&sb, "Definition d_%d : sdecl := %s.\n", idx, s.CoqDecl(sc.Grouped, sc.GroupDoc))
			content, err := os.ReadFile(gen)
			if err != nil {
				fmt.Fprintf(&sb, "Definition p_%d : option file := None.\n", idx)
			} else {
				m.Generated = true
				f, err := golite.Translate(gen, content)
				if err != nil {
					m.Problems = append(m.Problems, "parse error: "+err.Error())
					fmt.Fprintf(&sb, "Definition p_%d : option file := None.\n", idx)
				} else {
					m.Problems = f.Problems
					m.Sentinels = f.Sentinels
					m.SentinelPT = f.SentinelPT
					for _, n := range f.AllVarNames {
						isS := false
						for _, x := range f.Sentinels {
							if x == n {
								isS = true
							}
						}
						if !isS {
							m.OtherVars = append(m.OtherVars, n)
						}
					}
					fmt.Fprintf(&sb, "Definition p_%d : option file := Some\n  %s.\n", idx, f.Coq())
				}
			}
			vals := make([]string, len(s.Cases))
			for i, cs := range s.Cases {
				vals[i] = s.CoqCase(cs)
			}
			fmt.Fprintf(&sb, "Definition v_%d : list (option value) := %s.\n\n", idx, coqterm.List(vals))
			metas = append(metas, m)
			idx++
		}
	}
	fmt.Fprintf(&sb, "Definition n_structs : nat := %d%%nat.\n", idx)
	must(os.WriteFile(coqOut, []byte(sb.String()), 0o644))
	b, _ := json.MarshalIndent(metas, "", " ")
	must(os.WriteFile(metaOut, b, 0o644))
}

func driver(c *decl.Corpus, dir, metaPath string) {
	b, err := os.ReadFile(metaPath)
	must(err)
	var metas []structMeta
	must(json.Unmarshal(b, &metas))
	pkgs := map[string]bool{}
	var regs strings.Builder
	for _, m := range metas {
		if !m.Generated || len(m.Problems) > 0 && m.Type == "" {
			continue
		}
		pkgs[m.Pkg] = true
		T := m.Pkg + "." + m.Type
		fmt.Fprintf(&regs, "\tregistry[%q] = &reg{\n", m.Key)
		fmt.Fprintf(&regs, "\t\tNew: func() any { return new(%s) },\n\t\tNilPtr: func() any { return (*%s)(nil) },\n", T, T)
		fmt.Fprintf(&regs, "\t\tVT: func(x any) error { return %s.Validate%s(x.(*%s)) },\n", m.Pkg, m.Type, T)
		fmt.Fprintf(&regs, "\t\tVTC: func(ctx context.Context, x any) error { return %s.Validate%sContext(ctx, x.(*%s)) },\n", m.Pkg, m.Type, T)
		regs.WriteString("\t\tSentinels: []sentinel{")
		for _, s := range m.Sentinels {
			fmt.Fprintf(&regs, "{%q, &%s.%s}, ", s, m.Pkg, s)
		}
		regs.WriteString("},\n\t\tOthers: []other{")
		for _, s := range m.OtherVars {
			fmt.Fprintf(&regs, "{%q, func() any { return %s.%s }}, ", s, m.Pkg, s)
		}
		regs.WriteString("},\n\t}\n")
	}
	var imports []string
	for p := range pkgs {
		imports = append(imports, "\t\"scn/"+p+"\"")
	}
	sort.Strings(imports)
	srcText := strings.Replace(driverTemplate, "/*IMPORTS*/", strings.Join(imports, "\n"), 1)
	srcText = strings.Replace(srcText, "/*REGS*/", regs.String(), 1)
	must(os.MkdirAll(filepath.Join(dir, "drv"), 0o755))
	must(os.WriteFile(filepath.Join(dir, "drv", "main.go"), []byte(srcText), 0o644))
}

func celDriver(c *decl.Corpus, dir, metaPath string) {
	b, err := os.ReadFile(metaPath)
	must(err)
	var metas []structMeta
	must(json.Unmarshal(b, &metas))
	pkgs := map[string]bool{}
	var regs strings.Builder
	for _, m := range metas {
		if !m.Generated {
			continue
		}
		pkgs[m.Pkg] = true
		T := m.Pkg + "." + m.Type
		fmt.Fprintf(&regs, "\tregistry[%q] = &reg{New: func() any { return new(%s) }, VT: func(x any) error { return %s.Validate%s(x.(*%s)) }}\n", m.Key, T, m.Pkg, m.Type, T)
	}
	var imports []string
	for p := range pkgs {
		imports = append(imports, "\t\"scn/"+p+"\"")
	}
	sort.Strings(imports)
	srcText := strings.Replace(celDriverTemplate, "/*IMPORTS*/", strings.Join(imports, "\n"), 1)
	srcText = strings.Replace(srcText, "/*REGS*/", regs.String(), 1)
	must(os.MkdirAll(filepath.Join(dir, "celdrv"), 0o755))
	must(os.WriteFile(filepath.Join(dir, "celdrv", "main.go"), []byte(srcText), 0o644))
}
