package main

import (
	"encoding/hex"
	"encoding/json"
	"fmt"
	"math/big"
	"os"
	"path/filepath"
	"strings"

	"verifharness/internal/celx"
	"verifharness/internal/coqterm"
)

// celcoq: per CEL scenario, cel-go's AST, the emitted Go condition, the struct bindings and the
// observations (compiled validator, cel-go) as a Coq [celcase] (Cel/Harness.v).

type celSet struct {
	Path     string   `json:"path"`
	VK       string   `json:"vk"`
	Int      string   `json:"int"`
	Bits     string   `json:"bits"`
	Str      string   `json:"str"`
	Bool     bool     `json:"bool"`
	IsNil    bool     `json:"isnil"`
	StrElems []string `json:"strelems"`
	IntElems []int64  `json:"intelems"`
}

type celField struct {
	Names []string `json:"names"`
	Doc   []string `json:"doc"`
	Type  struct {
		Go string `json:"go"`
	} `json:"type"`
}

type celScenario struct {
	ID      string `json:"id"`
	Pkg     string `json:"pkg"`
	Structs []struct {
		Name   string     `json:"name"`
		Fields []celField `json:"fields"`
		Cases  []struct {
			Sets []celSet `json:"sets"`
		} `json:"cases"`
	} `json:"structs"`
}

var ikinds = map[string]string{
	"int8": "I8", "int16": "I16", "int32": "I32", "int64": "I64", "int": "IInt",
	"uint8": "U8", "uint16": "U16", "uint32": "U32", "uint64": "U64", "uint": "UInt", "time.Duration": "IDur",
}

func ftyOf(goType string) (string, bool) {
	if k, ok := ikinds[goType]; ok {
		return "TInt " + k, true
	}
	switch goType {
	case "float64":
		return "TF64", true
	case "string":
		return "TStr", true
	case "bool":
		return "TBool", true
	case "[]string":
		return "TStrs", true
	case "[]int":
		return "TInts IInt", true
	case "map[string]int":
		return "TMapSI IInt", true
	}
	return "", false
}

func unhexs(h string) string {
	b, _ := hex.DecodeString(h)
	return string(b)
}

func fvalOf(goType string, s *celSet) string {
	if k, ok := ikinds[goType]; ok {
		z := big.NewInt(0)
		if s != nil {
			z.SetString(s.Int, 10)
		}
		return fmt.Sprintf("XInt %s %s", k, coqterm.Z(z))
	}
	switch goType {
	case "float64":
		z := big.NewInt(0)
		if s != nil {
			z.SetString(s.Bits, 10)
		}
		return "XF64 " + coqterm.Z(z)
	case "string":
		if s == nil {
			return "XStr []"
		}
		return "XStr " + coqterm.Bytes(unhexs(s.Str))
	case "bool":
		return "XBool " + coqterm.Bool(s != nil && s.Bool)
	case "[]string":
		var items []string
		if s != nil {
			for _, e := range s.StrElems {
				items = append(items, coqterm.Bytes(unhexs(e)))
			}
		}
		return "XStrs " + coqterm.List(items)
	case "[]int":
		var items []string
		if s != nil {
			for _, e := range s.IntElems {
				items = append(items, coqterm.ZInt(e))
			}
		}
		return "XInts IInt " + coqterm.List(items)
	case "map[string]int":
		var items []string
		if s != nil {
			for i, e := range s.StrElems {
				items = append(items, fmt.Sprintf("(%s, %s)", coqterm.Bytes(unhexs(e)), coqterm.ZInt(s.IntElems[i])))
			}
		}
		return "XMapSI IInt " + coqterm.List(items)
	}
	return "XBool false"
}

func celCoq(inPath, dir, obsPath, coqOut string) {
	b, err := os.ReadFile(inPath)
	must(err)
	var corpus struct {
		Scenarios []celScenario `json:"scenarios"`
	}
	must(json.Unmarshal(b, &corpus))
	obs := map[string][2]string{}
	if ob, err := os.ReadFile(obsPath); err == nil {
		for _, line := range strings.Split(string(ob), "\n") {
			parts := strings.Split(line, "\t")
			if len(parts) == 3 {
				obs[parts[0]] = [2]string{strings.TrimPrefix(parts[1], "go="), strings.TrimPrefix(parts[2], "cel=")}
			}
		}
	}
	env, err := celx.NewEnv()
	must(err)
	var sb strings.Builder
	sb.WriteString("(* written by genharness celcoq on every run *)\n")
	sb.WriteString("From GV Require Import Base.Bytes Base.GoFloat Cel.Syntax Cel.CelSem Cel.GoSem Cel.Translate Cel.Env Cel.Typing Cel.Harness.\n\n")
	type info struct {
		ID        string `json:"id"`
		Index     int    `json:"index"`
		Cond      string `json:"cond"`
		Generated bool   `json:"generated"`
		Compiles  bool   `json:"cel_compiles"`
		Rows      int    `json:"rows"`
	}
	var infos []info
	for i, sc := range corpus.Scenarios {
		st := sc.Structs[0]
		expr := ""
		var ftys []string
		for _, f := range st.Fields {
			ft, ok := ftyOf(f.Type.Go)
			if !ok {
				die("celcoq: unsupported field type %s", f.Type.Go)
			}
			ftys = append(ftys, fmt.Sprintf("(%s, %s)", coqterm.Bytes(f.Names[0]), ft))
			if f.Names[0] == "V" {
				for _, d := range f.Doc {
					if k := strings.Index(d, "govalid:cel="); k >= 0 {
						expr = d[k+len("govalid:cel="):]
					}
				}
			}
		}
		ci := celx.Cel(env, expr)
		astTerm := "None"
		if ci.Compiles {
			astTerm = "(Some " + ci.Term + ")"
		}
		gen := filepath.Join(dir, sc.Pkg, "x_"+strings.ToLower(st.Name)+"_validator.go")
		realTerm := "None"
		generated := false
		condText := ""
		if content, err := os.ReadFile(gen); err == nil {
			generated = true
			if c, ok := celx.FindCelCondition(gen, content); ok {
				condText = c
				if t, err := celx.GoCond(c); err == nil {
					realTerm = "(Some " + t + ")"
				}
			}
		}
		var rows []string
		for j, cs := range st.Cases {
			o, ok := obs[fmt.Sprintf("%s/%s/%d", sc.ID, st.Name, j)]
			if !ok {
				continue
			}
			sets := map[string]*celSet{}
			for k := range cs.Sets {
				sets[cs.Sets[k].Path] = &cs.Sets[k]
			}
			var vals []string
			for _, f := range st.Fields {
				vals = append(vals, fmt.Sprintf("(%s, %s)", coqterm.Bytes(f.Names[0]), fvalOf(f.Type.Go, sets[f.Names[0]])))
			}
			goObs := "GoOther"
			switch {
			case o[0] == "pass":
				goObs = "GoPass"
			case o[0] == "fail":
				goObs = "GoFail"
			case strings.HasPrefix(o[0], "panic"):
				goObs = "GoPanic"
			}
			celObs := map[string]string{"true": "CelTrue", "false": "CelFalse", "err": "CelErr", "nonbool": "CelNonBool", "nocompile": "CelNoCompile"}[o[1]]
			if celObs == "" {
				celObs = "CelErr"
			}
			rows = append(rows, fmt.Sprintf("(%s, %s, %s)", coqterm.List(vals), goObs, celObs))
		}
		fmt.Fprintf(&sb, "(* %s *)\nDefinition cs_%d : celcase := {| cc_src := %s; cc_fname := bs \"V\"; cc_fields := %s;\n  cc_ast := %s;\n  cc_generated := %s; cc_real := %s;\n  cc_durs := %s; cc_res := %s;\n  cc_rows := %s |}.\n\n",
			sc.ID, i, coqterm.Bytes(expr), coqterm.List(ftys), astTerm, coqterm.Bool(generated), realTerm,
			celx.DurTable(ci.Strings), celx.RegexTable(ci.Strings), coqterm.List(rows))
		infos = append(infos, info{ID: sc.ID, Index: i, Cond: condText, Generated: generated, Compiles: ci.Compiles, Rows: len(rows)})
	}
	must(os.WriteFile(coqOut, []byte(sb.String()), 0o644))
	jb, _ := json.MarshalIndent(infos, "", " ")
	must(os.WriteFile(strings.TrimSuffix(coqOut, ".v")+".json", jb, 0o644))
}
