// ipclass prints, for every hex-encoded input line, how the Go standard library classifies the
// string: 4 (net.ParseIP != nil && To4() != nil), 6 (an IP that is not IPv4), 0 (not an IP).
// It is the oracle `ip_class` of the Coq model (C06 defines ipv4/ipv6 by the standard library).
package main

import (
	"bufio"
	"encoding/hex"
	"net"
	"os"
)

func main() {
	in := bufio.NewScanner(os.Stdin)
	in.Buffer(make([]byte, 1<<20), 1<<26)
	out := bufio.NewWriter(os.Stdout)
	defer out.Flush()
	for in.Scan() {
		s := in.Text()
		var b []byte
		if s != "-" {
			b, _ = hex.DecodeString(s)
		}
		ip := net.ParseIP(string(b))
		switch {
		case ip == nil:
			out.WriteString("0\n")
		case ip.To4() != nil:
			out.WriteString("4\n")
		default:
			out.WriteString("6\n")
		}
	}
}
