package main

import "math/rand"

func uuidBases() []string {
	var bases []string
	for _, ver := range "12345" {
		for _, vr := range "89abAB" {
			b := []byte("550e8400-e29b-41d4-a716-446655440000")
			b[14] = byte(ver)
			b[19] = byte(vr)
			bases = append(bases, string(b))
		}
	}
	bases = append(bases,
		"00000000-0000-0000-0000-000000000000",
		"ffffffff-ffff-ffff-ffff-ffffffffffff",
		"FFFFFFFF-FFFF-FFFF-FFFF-FFFFFFFFFFFF",
		"fFfFfFfF-FfFf-fFfF-FfFf-fFfFfFfFfFfF",
		"f47ac10b-58cc-4372-a567-0e02b2c3d479",
		"ABCDEFAB-CDEF-1BCD-8FAB-CDEFABCDEFAB",
		"abcdefab-cdef-5bcd-bfab-cdefabcdefab",
	)
	return bases
}

func genUUID(rng *rand.Rand, thorough bool) {
	bases := uuidBases()
	// corpus of fixed cases (the repository's own fuzz seeds and known past disagreements)
	for _, s := range []string{
		"", "550e8400e29b41d4a716446655440000", "{550e8400-e29b-41d4-a716-446655440000}",
		"550e8400-e29b-61d4-a716-446655440000", "550e8400-e29b-41d4-c716-446655440000",
		"550e8400-e29b-01d4-a716-446655440000", "550e8400-e29b-41d4-0716-446655440000",
		"550e8400_e29b_41d4_a716_446655440000", "550e8400-e29b-41d4-a716-44665544000g",
		"FFFFFFFF-FFFF-FFFF-FFFF-FFFFFFFFFFFF", "ffffffff-ffff-ffff-ffff-fffffffffffF",
		"00000000-0000-0000-0000-000000000001", "ffffffff-ffff-ffff-ffff-fffffffffffe",
		"ffffffff-ffff-0fff-ffff-ffffffffffff", "ffffffff-ffff-ffff-0fff-ffffffffffff",
	} {
		emit(s)
	}
	for _, b := range bases {
		emit(b)
	}
	// every single-position substitution by each of the 256 byte values
	for _, b := range bases {
		for i := 0; i < 36; i++ {
			for v := 0; v < 256; v++ {
				m := []byte(b)
				m[i] = byte(v)
				emit(string(m))
			}
		}
	}
	// every pair of positions over a class-representative alphabet
	alpha := []byte{'0', '1', '5', '6', '7', '8', '9', 'a', 'b', 'c', 'f', 'g', 'A', 'B', 'C', 'F', 'G', '-', 0, 0xff, ' '}
	pairBases := bases
	if !thorough {
		pairBases = []string{bases[0], bases[17], bases[30], bases[31], bases[32], bases[33]}
		alpha = []byte{'0', '1', '5', '6', '8', 'a', 'c', 'f', 'g', 'B', 'F', 'G', '-', 0xff}
	}
	for _, b := range pairBases {
		for i := 0; i < 36; i++ {
			for j := i + 1; j < 36; j++ {
				for _, x := range alpha {
					for _, y := range alpha {
						m := []byte(b)
						m[i], m[j] = x, y
						emit(string(m))
					}
				}
			}
		}
	}
	// multi-byte units overwriting two/three positions
	multiByteUnits(func(u string) {
		if len(u) > 3 {
			return
		}
		for _, at := range []int{0, 14, 33} {
			m := []byte(bases[0])
			copy(m[at:], u)
			emit(string(m))
		}
	})
	// all lengths 0..40: prefixes and extensions
	for _, b := range bases {
		for n := 0; n <= 40; n++ {
			if n <= 36 {
				emit(b[:n])
				emit(b[36-n:])
			} else {
				emit(b + rep("0", n-36))
				emit(rep("-", n-36) + b)
			}
		}
	}
	// case renderings of every letter mask (sampled)
	nCase := 20000
	if thorough {
		nCase = 400000
	}
	for k := 0; k < nCase; k++ {
		m := []byte(pick(rng, bases))
		for i := range m {
			c := m[i]
			if rng.Intn(2) == 0 {
				if c >= 'a' && c <= 'z' {
					m[i] = c - 32
				} else if c >= 'A' && c <= 'Z' {
					m[i] = c + 32
				}
			}
		}
		emit(string(m))
	}
	// random hex-shaped and raw random strings
	nRand := 50000
	if thorough {
		nRand = 2000000
	}
	hexd := "0123456789abcdefABCDEF"
	for k := 0; k < nRand; k++ {
		m := make([]byte, 36)
		for i := range m {
			if i == 8 || i == 13 || i == 18 || i == 23 {
				m[i] = '-'
			} else {
				m[i] = hexd[rng.Intn(len(hexd))]
			}
		}
		if rng.Intn(4) == 0 {
			m[rng.Intn(36)] = byte(rng.Intn(256))
		}
		emit(string(m))
		if k%10 == 0 {
			emit(randBytes(rng, rng.Intn(41)))
		}
	}
}
