package main

import "math/rand"

func genAlnum(rng *rand.Rand, thorough bool) {
	alphabet := []string{"a", "z", "A", "Z", "m", "`", "{", "@", "[", "0", "9", "5", "/", ":", "é", "\xef\xbc\x91", "\xd9\xa1", "\xff", "\x80", " ", "-", "+"}
	n := 4
	if thorough {
		n = 5
	}
	enumerate(alphabet, n, emit)
	for v := 0; v < 256; v++ {
		c := string([]byte{byte(v)})
		emit(c)
		emit("a" + c)
		emit(c + "a")
		emit("1" + c)
		emit(c + "1")
		emit("ab" + c + "cd")
		emit("12" + c + "34")
	}
	for v := 0; v < 256; v++ {
		for w := 0; w < 256; w++ {
			emit(string([]byte{byte(v), byte(w)}))
		}
	}
	for _, n := range []int{255, 256, 1023, 1024, 4095, 4096, 4097, 65535, 65536, 100000} {
		emit(rep("a", n))
		emit(rep("7", n))
		emit(rep("a", n-1) + "1")
		emit(rep("7", n-1) + "a")
		emit(rep("Z", n/2) + "\xc3\xa9" + rep("Z", n/2))
	}
	multiByteUnits(func(u string) {
		emit(u)
		emit("a" + u)
		emit("1" + u + "2")
	})
	nr := 20000
	if thorough {
		nr = 500000
	}
	for k := 0; k < nr; k++ {
		switch rng.Intn(3) {
		case 0:
			emit(randFrom(rng, "abcdefghijklmnopqrstuvwxyzABCDEFGHIJKLMNOPQRSTUVWXYZ", rng.Intn(40)))
		case 1:
			emit(randFrom(rng, "0123456789", rng.Intn(40)))
		default:
			emit(randBytes(rng, rng.Intn(12)))
		}
	}
	emit(rep("a", 20000))
	emit(rep("7", 20000))
	// every byte value at every position of members around the 8-byte block sizes (word-at-a-time implementations)
	for _, base := range []string{"abcdefghijklmnopqrstuvwxyzABCDEFGHIJKLMN", "0123456789012345678901234567890123456789"} {
		for _, l := range []int{7, 8, 9, 15, 16, 17, 24, 25, 33} {
			sweepPositions(base[:l])
		}
		sweepPairs(base[:17])
	}
	// numeric strings around the widths of machine integers (parsers used as shortcuts behave differently above them)
	for _, d := range []string{"9", "18446744073709551615", "18446744073709551616", "99999999999999999999", "89014103211118510720", "9223372036854775807",
		"9223372036854775808", "4294967295", "4294967296", "340282366920938463463374607431768211455", "340282366920938463463374607431768211456",
		"00000000000000000000", "000000000000000000000000000000000000001"} {
		emit(d)
	}
}

// sweepPairs emits s with every pair of ADJACENT positions replaced by every pair over a class-representative alphabet
// (block-wise implementations leak carries and borrows between neighbouring bytes).
func sweepPairs(s string) {
	alpha := []byte{0x00, 0x1f, 0x20, 0x21, 0x2f, 0x30, 0x39, 0x3a, 0x40, 0x41, 0x5a, 0x5b, 0x60, 0x61, 0x7a, 0x7b, 0x7e, 0x7f, 0x80, 0xa0, 0xa1, 0xbf, 0xc0, 0xfe, 0xff, '-', '.'}
	b := []byte(s)
	for i := 0; i+1 < len(b); i++ {
		o0, o1 := b[i], b[i+1]
		for _, x := range alpha {
			for _, y := range alpha {
				b[i], b[i+1] = x, y
				emit(string(b))
			}
		}
		b[i], b[i+1] = o0, o1
	}
}

// sweepPositions emits s with every single position replaced by every byte value.
func sweepPositions(s string) {
	b := []byte(s)
	for i := range b {
		old := b[i]
		for v := 0; v < 256; v++ {
			b[i] = byte(v)
			emit(string(b))
		}
		b[i] = old
	}
}

func genRunes(rng *rand.Rand, thorough bool) {
	alphabet := []string{"a", "é", "€", "😀", "\x80", "\xff", "\xe2\x82", "\xf0\x9f\x98", "\xc3", "\xed\xa0\x80", "\xef\xbf\xbd"}
	n := 5
	if thorough {
		n = 6
	}
	enumerate(alphabet, n, emit)
	// all two-byte strings
	for v := 0; v < 256; v++ {
		for w := 0; w < 256; w++ {
			emit(string([]byte{byte(v), byte(w)}))
		}
	}
	// every lead byte x boundary continuation bytes
	edge := []byte{0x00, 0x7f, 0x80, 0x8f, 0x90, 0x9f, 0xa0, 0xbf, 0xc0, 0xff}
	for l := 0xc0; l < 0x100; l++ {
		for _, b1 := range edge {
			for _, b2 := range edge {
				emit(string([]byte{byte(l), b1, b2}))
				for _, b3 := range edge {
					emit(string([]byte{byte(l), b1, b2, b3}))
					emit(string([]byte{byte(l), b1, b2, b3, 'a'}))
				}
			}
		}
	}
	nr := 50000
	if thorough {
		nr = 2000000
	}
	for k := 0; k < nr; k++ {
		if rng.Intn(2) == 0 {
			emit(randBytes(rng, rng.Intn(10)))
		} else {
			s := ""
			for j := rng.Intn(12); j > 0; j-- {
				s += pick(rng, alphabet)
			}
			emit(s)
		}
	}
	// long strings around typical N
	for _, unit := range []string{"a", "é", "😀", "\xff"} {
		for _, c := range []int{49, 50, 51, 255, 256, 257, 5000} {
			emit(rep(unit, c))
		}
	}
}
