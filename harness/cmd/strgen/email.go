package main

import (
	"math/rand"
	"strings"
)

func genEmail(rng *rand.Rand, thorough bool) {
	// fixed corpus: members, near-members, the repository's seeds
	for _, s := range []string{
		"a@b.c", "a@b.cd", "user@example.com", "first.last@sub.example.org", "a+b@x-y.z9",
		"!#$%&'*+-/=?^_`{|}~@example.com", "a@b", "a@.b", "a@b.", "@b.c", "a@", "a@@b.c", "a@b@c.d",
		".a@b.c", "a.@b.c", "a..b@c.d", "a@b..c", "a@-b.c", "a@b-.c", "a@b.-c", "a@b.c-", "a b@c.d",
		"a@b c.d", "a(b@c.d", "é@b.c", "a@é.c", "a\xff@b.c", "a@b\xff.c", "a@b.c\x00", "\x00a@b.c",
		"a@b_c.d", "a@1.2", "1@2.3", "a@b.c.d.e.f", "A@B.C", "a\"b@c.d", "a,b@c.d", "a;b@c.d",
		"a<b@c.d", "a>b@c.d", "a[b@c.d", "a]b@c.d", "a\\b@c.d", "a:b@c.d", "ab@c", "abcd", "", "@", "a@b@",
	} {
		emit(s)
	}
	// domains and local parts that look like something else (addresses, literals, reserved names, encodings): the grammar
	// is purely lexical, so each is judged by its labels alone
	for _, d := range []string{"1.2.3.4", "192.168.1.1", "0.0.0.0", "255.255.255.255", "256.1.1.1", "1.2.3", "1.2.3.4.5", "001.002.003.004",
		"1234.1.1.1", "12.34.56.78", "127.0.0.1", "10.0.0.1", "0x7f.0.0.1", "1.2.3.4a", "a1.2.3.4", "[1.2.3.4]", "[::1]", "::1", "1::2", "fe80--1.ipv6-literal.net",
		"localhost", "localhost.localdomain", "example.invalid", "example.test", "example.local", "example.example", "example.onion", "xn--80ak6aa92e.com",
		"xn--.com", "b.123", "b.co.uk", "b.c0m", "b.x", "0.a", "a.0", "9", "9.9", "1e3.5", "1-2.3-4", "com", "COM.", "a.b.c.d.e.f.g.h.i.j.k.l.m.n.o.p",
		"example.com:25", "example.com/path", "example.com?x=1", "example.com#f", "user:pw@example.com", "_dmarc.example.com", "*.example.com", "example..com"} {
		emit("a@" + d)
		emit("user@" + d)
		emit("first.last+tag@" + d)
		emit(d + "@b.cd")
		emit(d)
	}
	// names an implementation might special-case (mail providers, reserved hosts), in every letter case and with the characters
	// that Unicode case folding maps onto ASCII letters (U+212A KELVIN SIGN ~ k, U+017F LONG S ~ s, U+0130/U+0131 dotted and
	// dotless i, U+212B ANGSTROM ~ å), fullwidth forms, and with a trailing dot
	for _, d := range []string{"gmail.com", "googlemail.com", "yahoo.com", "hotmail.com", "outlook.com", "icloud.com", "live.com", "msn.com", "aol.com", "protonmail.com",
		"example.com", "example.org", "localhost.localdomain", "mail.ru", "qq.com", "gmx.de"} {
		up := strings.ToUpper(d)
		emit("user@" + d)
		emit("user@" + up)
		emit("USER@" + strings.ToUpper(d[:1]) + d[1:])
		emit("user@" + d + ".")
		emit("user@" + d + " ")
		for i := 0; i < len(d); i++ {
			for _, sub := range map[byte][]string{'k': {"\u212a"}, 'K': {"\u212a"}, 's': {"\u017f"}, 'i': {"\u0131", "\u0130"}, 'a': {"\u212b", "\uff41"}, 'o': {"\uff4f", "\u03bf"},
				'm': {"\uff4d"}, 'l': {"\uff4c", "1"}, 'c': {"\u0441"}, 'e': {"\u0435"}, '.': {"\u3002", "\uff0e"}}[d[i]] {
				emit("user@" + d[:i] + sub + d[i+1:])
				emit("user@" + up[:i] + sub + up[i+1:])
			}
		}
	}
	for _, l := range []string{"postmaster", "root", "admin", "no-reply", "MAILER-DAEMON", "1", "12345", "0x10", "+", "-", "_", "a+", "+a", "a++b", "a--b", "a__b", "a+b+c",
		"a=b", "a/b", "a?b", "a#b", "a%b", "a%40b", "a&b", "a'b", "a*b", "a^b", "a`b", "a{b}", "a|b", "a~b", "a!b", "a$b", "\"a\"", "\"a b\"", "\"\"", "a\"", "\"a", "(c)a", "a(c)",
		"<a>", "a:b", "mailto:a", "a@b", "null", "nil", "undefined", "true"} {
		emit(l + "@example.com")
		emit(l + "@b.cd")
	}
	// every byte value at every position of longer members (block-wise implementations; long local parts, labels, domains)
	for _, m := range []string{"abcdefgh.ijklmnop@qrstuvwx.yzabcdef.com", "a1b2c3d4e5f6g7h8@i9j0k1l2-m3n4o5p6.q7r8", "ops@eu-west-1.compute.internal.example.com",
		"user.name+tag@aaaaaaaaaaaaaaaaaaaaaaaaaaaaaaaa.bb"} {
		sweepPositions(m)
		sweepPairs(m)
	}
	// bounded-exhaustive over a class alphabet
	alphabet := []string{"a", "1", ".", "-", "_", "@", "+", "(", "é", "\xff"}
	n := 6
	if thorough {
		n = 7
	}
	enumerate(alphabet, n, emit)
	// every byte value at each structural role
	for v := 0; v < 256; v++ {
		c := string([]byte{byte(v)})
		emit(c + "a@bc.de")
		emit("a" + c + "@bc.de")
		emit("a" + c + "b@cd.ef")
		emit("ab@" + c + "c.de")
		emit("ab@c" + c + ".de")
		emit("ab@c" + c + "d.ef")
		emit("ab@cd." + c + "e")
		emit("ab@cd.e" + c)
		emit("ab@cd.e" + c + "f")
		emit("ab" + c + "cd.ef")
		// one-byte parts, and the same byte at both ends of a part (delimiter-pair handling such as quotes or brackets)
		emit(c + "@bc.de")
		emit("ab@" + c + ".de")
		emit("ab@cd." + c)
		emit(c + "@" + c + "." + c)
		emit(c + c + "@bc.de")
		emit(c + "a" + c + "@bc.de")
		emit(c + "a b" + c + "@bc.de")
		emit("ab@" + c + "c" + c + ".de")
		emit("ab@" + c + c)
		emit(c + "ab@cd.ef" + c)
		// internal-helper shaped inputs
		emit(c)
		emit("a" + c)
		emit(c + "a")
		emit("a" + c + "b")
		emit("a." + c + "b")
		emit("ab." + c)
	}
	// all two-byte strings and @-framed two-byte parts
	for v := 0; v < 256; v++ {
		for w := 0; w < 256; w++ {
			p := string([]byte{byte(v), byte(w)})
			emit(p)
			if thorough || (v%3 == 0) {
				emit(p + "@b.cd")
				emit("ab@" + p + ".c")
			}
		}
	}
	// multi-byte units in local part and domain
	multiByteUnits(func(u string) {
		emit("a" + u + "@bc.de")
		emit("ab@c" + u + ".de")
	})
	// length families around 64 / 63 / 253 / 254
	for ll := 1; ll <= 70; ll++ {
		if ll > 3 && ll < 60 {
			continue
		}
		emit(rep("a", ll) + "@b.cd")
		emit(rep("a", ll))
		emit("x." + rep("a", ll-1))
	}
	for lab := 60; lab <= 66; lab++ {
		emit("a@" + rep("b", lab) + ".cd")
		emit("a@cd." + rep("b", lab))
		emit("a@" + rep("b", lab) + "." + rep("c", lab) + ".d")
		emit(rep("b", lab))
		emit(rep("b", lab) + ".cd")
	}
	// total / domain length near the limits: local ll + '@' + domain built from 63-byte labels
	for ll := 1; ll <= 64; ll += 21 {
		for total := 246; total <= 258; total++ {
			dlen := total - ll - 1
			if dlen < 3 {
				continue
			}
			emit(rep("a", ll) + "@" + buildDomain(dlen))
		}
	}
	for dlen := 248; dlen <= 258; dlen++ {
		emit(buildDomain(dlen))
		emit("a@" + buildDomain(dlen))
	}
	// two boundaries at once: local-part length x first/last label length x domain length x total length
	for _, ll := range []int{1, 2, 62, 63, 64, 65} {
		for _, first := range []int{1, 2, 62, 63, 64} {
			for _, last := range []int{1, 2, 3, 62, 63, 64} {
				for _, dlen := range []int{first + last + 1, first + last + 3, 64, 65, 127, 128, 187, 188, 189, 190, 191, 192, 250, 251, 252, 253, 254, 255} {
					d, ok := domainWith(first, last, dlen)
					if !ok {
						continue
					}
					emit(rep("a", ll) + "@" + d)
					if ll == 64 || ll == 1 {
						emit(rep("a", ll-1) + "." + "@" + d)           // local part ending in a dot
						emit(rep("a", ll) + "@-" + d[1:])                // first label starting with a hyphen
						emit(rep("a", ll) + "@" + d[:len(d)-1] + "-")    // last label ending with a hyphen
					}
				}
			}
		}
	}
	// random structured addresses with mutations
	nr := 60000
	if thorough {
		nr = 1500000
	}
	lchars := "abcXYZ019.!#$%&'*+-/=?^_`{|}~"
	dchars := "abcXYZ019-."
	for k := 0; k < nr; k++ {
		l := randFrom(rng, lchars, 1+rng.Intn(8))
		d := randFrom(rng, dchars, 1+rng.Intn(5)) + "." + randFrom(rng, dchars, 1+rng.Intn(4))
		s := []byte(l + "@" + d)
		switch rng.Intn(6) {
		case 0:
			s[rng.Intn(len(s))] = byte(rng.Intn(256))
		case 1:
			i := rng.Intn(len(s))
			s = append(s[:i], s[i+1:]...)
		case 2:
			i := rng.Intn(len(s) + 1)
			s = append(s[:i], append([]byte{"@.-\x80é"[rng.Intn(5)]}, s[i:]...)...)
		}
		emit(string(s))
		if k%8 == 0 {
			emit(l)
			emit(d)
		}
	}
}

func randFrom(rng *rand.Rand, chars string, n int) string {
	b := make([]byte, n)
	for i := range b {
		b[i] = chars[rng.Intn(len(chars))]
	}
	return string(b)
}

// domainWith builds a domain of exactly total bytes whose first label has first bytes and whose last label has last bytes
// (the labels in between are as long as allowed); the label lengths themselves may exceed 63 on purpose.
func domainWith(first, last, total int) (string, bool) {
	rem := total - first - last - 1
	if rem < 0 || rem == 1 {
		return "", false
	}
	mid := ""
	for rem > 0 {
		l := 63
		if rem-1 < l {
			l = rem - 1
		}
		if l < 1 {
			return "", false
		}
		mid += rep("m", l) + "."
		rem -= l + 1
		if rem == 1 {
			return "", false
		}
	}
	return rep("f", first) + "." + mid + rep("z", last), true
}

// a syntactically valid domain of exactly n bytes (n >= 3): labels of <= 63 bytes
func buildDomain(n int) string {
	out := ""
	for n > 0 {
		if out != "" {
			out += "."
			n--
		}
		l := 63
		if n <= 65 {
			// leave room for a final label of at least 1 byte
			if n > 63 {
				l = n - 2
			} else {
				l = n
			}
		}
		out += rep("b", l)
		n -= l
	}
	if len(out) > 1 && out[len(out)-1] == '.' {
		out = out[:len(out)-1] + "c"
	}
	// make sure there are at least two labels
	hasDot := false
	for i := range out {
		if out[i] == '.' {
			hasDot = true
		}
	}
	if !hasDot && len(out) >= 3 {
		b := []byte(out)
		b[1] = '.'
		out = string(b)
	}
	return out
}
