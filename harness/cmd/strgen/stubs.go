package main

import "math/rand"

func genEmail(rng *rand.Rand, thorough bool) {}
func genURL(rng *rand.Rand, thorough bool)   {}
func genAlnum(rng *rand.Rand, thorough bool) {}
func genRunes(rng *rand.Rand, thorough bool) {}
