package main

import (
	"math/rand"
	"strings"
)

var urlSchemes = []string{"http", "https", "ftp", "ftps", "ssh", "sftp", "smtp", "smtps", "imap", "imaps", "pop3", "pop3s",
	"telnet", "file", "data", "ws", "wss", "git", "svn", "ldap", "ldaps", "mailto", "news", "nntp",
	"irc", "ircs", "rtsp", "rtmp", "sip", "sips", "xmpp"}

func nearMisses(s string) []string {
	out := []string{}
	b := []byte(s)
	// case changes
	for i := range b {
		m := append([]byte{}, b...)
		m[i] -= 32
		out = append(out, string(m))
	}
	up := make([]byte, len(b))
	for i := range b {
		if b[i] >= 'a' && b[i] <= 'z' {
			up[i] = b[i] - 32
		} else {
			up[i] = b[i]
		}
	}
	out = append(out, string(up))
	// one deletion, one insertion, one substitution
	for i := range b {
		out = append(out, string(append(append([]byte{}, b[:i]...), b[i+1:]...)))
		for _, c := range []byte("az09+-.:/ \x00\x7f\xff") {
			m := append([]byte{}, b...)
			m[i] = c
			out = append(out, string(m))
			ins := append(append(append([]byte{}, b[:i]...), c), b[i:]...)
			out = append(out, string(ins))
		}
	}
	out = append(out, s+"s", s+"x", "x"+s, s+"+"+s)
	return out
}

func genURL(rng *rand.Rand, thorough bool) {
	// every byte value at every position of longer members
	for _, m := range []string{"https://abcdefgh.ijklmnop/qrstuvwx?yz=1#frag", "mailto:abcdefghijklmnop@qrstuvwxyz.com", "ws://x1234567.example:8080/a", "file:///abcdefghijklmnop/qrstuvwx"} {
		sweepPositions(m)
		sweepPairs(m)
	}
	for _, s := range []string{
		"", ":", "::", "a", "http", "http:", "http:/", "http://", "http://a", "http:///", "http:///a", "http://[::1]",
		"http://-a", "http://.a", "mailto:", "mailto:a", "mailto:a@b.c", "file:", "file:/", "file:///x", "data:,", "news:x",
		"nntp:x", "gopher://a", "javascript:alert(1)", "HTTP://a", "Http://a", "http ://a", " http://a", "http://a ",
		"http://a\x00", "http://a\x7f", "http://a\x1f", "http://a\xff", "http://\xffa", "://a", ":http://a", "1http://a",
		"http//a", "http:a", "http:\\\\a", "xmpp://a", "sips://a", "sip:a", "ws://[", "h\xfftp://a", "ht:tp://a",
	} {
		emit(s)
	}
	// after the colon: every byte value as the byte after ":", ":/", "://", and forbidden bytes in every region of a member
	for _, sch := range urlSchemes {
		for v := 0; v < 256; v++ {
			c := string([]byte{byte(v)})
			emit(sch + ":" + c)
			emit(sch + ":/" + c)
			emit(sch + "://" + c)
			emit(sch + ":" + c + "/a")
		}
		for _, bad := range []string{" ", "\x00", "\x1f", "\x7f", "\t", "\n"} {
			for _, tmpl := range []string{"://a#%s", "://a?%s", "://[%s]", "://a/%s/b", "://%sa", "://a%s", ":%sx", ":x%s", "://a:8%s0", "://u%s@h"} {
				emit(sch + strings.Replace(tmpl, "%s", bad, 1))
			}
		}
	}
	// lengths around powers of two and well-known limits (255, 2048, the 2083 of old browsers, 4096, 8192, 65535): the shape
	// has no length bound
	for _, n := range []int{254, 255, 256, 1023, 1024, 2047, 2048, 2082, 2083, 2084, 2085, 3000, 4095, 4096, 4097, 8191, 8192, 8193, 65535, 65536, 70000} {
		for _, pre := range []string{"data:image/png;base64,", "https://example.com/search?q=", "mailto:", "file:///", "urn:"} {
			if n > len(pre) {
				emit(pre + rep("A", n-len(pre)))
				emit(pre + rep("a", n-len(pre)-1) + " ")
			}
		}
	}
	seps := []string{":", ":/", "://", "", ":///", "//", ":\\\\", ":/x/", " :", ": //"}
	tails := []string{"", "a", "example.com/path?q=1#f", "a b", "a\x00b", "a\x7f", "a\x1fb", "\xc3\xa9", "a\xff", "[::1]:80/", "/", "//"}
	all := append([]string{}, urlSchemes...)
	other := []string{"gopher", "javascript", "tel", "urn", "about", "blob", "chrome", "h", "x+y-z.1", "a.b", "ht+tp"}
	all = append(all, other...)
	// every supported scheme (and unsupported legal ones) x separator x every first host byte
	for _, sc := range all {
		for _, sep := range seps {
			for v := 0; v < 256; v++ {
				emit(sc + sep + string([]byte{byte(v)}))
			}
			for _, t := range tails {
				emit(sc + sep + t)
				emit(sc + sep + "a" + t)
			}
		}
	}
	// near-miss schemes
	for _, sc := range urlSchemes {
		for _, nm := range nearMisses(sc) {
			for _, sep := range []string{":", "://"} {
				emit(nm + sep + "a")
				emit(nm + sep)
			}
		}
	}
	// every byte inside an otherwise valid URL (forbidden-byte scan) at several positions
	for _, base := range []string{"http://example.com/a", "mailto:user@example.com", "file:/etc/passwd", "xmpp://a", "data:,x"} {
		for i := 0; i <= len(base); i++ {
			for v := 0; v < 256; v++ {
				c := string([]byte{byte(v)})
				emit(base[:i] + c + base[i:])
				if i < len(base) {
					emit(base[:i] + c + base[i+1:])
				}
			}
		}
	}
	// multi-byte units (Unicode spaces, C1 controls, ...) in host, path and opaque positions
	multiByteUnits(func(u string) {
		emit("http://a" + u)
		emit("https://" + u + "a")
		emit("mailto:" + u)
		emit("file:/x" + u + "y")
	})
	// bounded-exhaustive over scheme-aware tokens
	tokens := []string{"http", "mailto", "ws", ":", "/", "a", "[", " ", "\x01", "é", "+"}
	n := 5
	if thorough {
		n = 6
	}
	enumerate(tokens, n, emit)
	// internal helper inputs: (string, colonPos) pairs are generated by the orchestrator from these
	nr := 30000
	if thorough {
		nr = 1000000
	}
	chars := "htpsfmailowxn:/.[]-+ 09AZ\x00\x7f\xff"
	for k := 0; k < nr; k++ {
		s := pick(rng, all) + pick(rng, seps) + randFrom(rng, chars, rng.Intn(6))
		if rng.Intn(3) == 0 {
			b := []byte(s)
			if len(b) > 0 {
				b[rng.Intn(len(b))] = byte(rng.Intn(256))
			}
			s = string(b)
		}
		emit(s)
	}
}
