// strgen writes the input corpus for one recognizer family to stdout, one hex-encoded
// byte string per line ("-" = empty). Every random choice derives from -seed.
package main

import (
	"bufio"
	"encoding/hex"
	"flag"
	"fmt"
	"math/rand"
	"os"
)

var out *bufio.Writer

var posMode bool

func emit(s string) {
	if posMode {
		emitPos(s)
		return
	}
	if s == "" {
		out.WriteString("-\n")
		return
	}
	out.WriteString(hex.EncodeToString([]byte(s)))
	out.WriteByte('\n')
}

// (string, colonPos) pairs for the URL helpers that take a position
func emitPos(s string) {
	h := "-"
	if s != "" {
		h = hex.EncodeToString([]byte(s))
	}
	first := -1
	for i := 0; i < len(s); i++ {
		if s[i] == ':' {
			first = i
			break
		}
	}
	seen := map[int]bool{}
	for _, k := range []int{first, first + 1, first - 1, 0, 1, len(s) - 1, len(s), len(s) - 3, len(s) - 4} {
		if k < 0 || seen[k] {
			continue
		}
		seen[k] = true
		fmt.Fprintf(out, "%s %d\n", h, k)
	}
}

func main() {
	seed := flag.Int64("seed", 1, "PRNG seed")
	tier := flag.String("tier", "quick", "quick|thorough")
	flag.Parse()
	if flag.NArg() < 1 {
		fmt.Fprintln(os.Stderr, "usage: strgen [-seed n] [-tier t] <family>")
		os.Exit(2)
	}
	out = bufio.NewWriterSize(os.Stdout, 1<<20)
	defer out.Flush()
	rng := rand.New(rand.NewSource(*seed))
	thorough := *tier == "thorough"
	switch flag.Arg(0) {
	case "uuid":
		genUUID(rng, thorough)
	case "email":
		genEmail(rng, thorough)
	case "url":
		genURL(rng, thorough)
	case "urlpos":
		posMode = true
		genURL(rng, false)
	case "alnum":
		genAlnum(rng, thorough)
	case "runes":
		genRunes(rng, thorough)
	default:
		fmt.Fprintln(os.Stderr, "unknown family", flag.Arg(0))
		os.Exit(2)
	}
}

// enumerate every string of length <= n over alphabet (symbols may be multi-byte)
func enumerate(alphabet []string, n int, f func(string)) {
	var rec func(prefix string, left int)
	rec = func(prefix string, left int) {
		f(prefix)
		if left == 0 {
			return
		}
		for _, a := range alphabet {
			rec(prefix+a, left-1)
		}
	}
	rec("", n)
}

func randBytes(rng *rand.Rand, n int) string {
	b := make([]byte, n)
	for i := range b {
		b[i] = byte(rng.Intn(256))
	}
	return string(b)
}

// multi-byte sequences that matter to rewrites based on unicode.* classes or rune decoding:
// every 2-byte sequence, and 3-byte sequences over the leads that carry Unicode spaces,
// controls, BOM, replacement character and surrogates
func multiByteUnits(f func(string)) {
	for b1 := 0x80; b1 < 0x100; b1++ {
		for b2 := 0x00; b2 < 0x100; b2++ {
			if b2 < 0x80 && b2%16 != 0 {
				continue
			}
			f(string([]byte{byte(b1), byte(b2)}))
		}
	}
	for _, l := range []byte{0xe0, 0xe1, 0xe2, 0xe3, 0xed, 0xef} {
		for b1 := 0x80; b1 < 0xc0; b1++ {
			for b2 := 0x80; b2 < 0xc0; b2++ {
				f(string([]byte{l, byte(b1), byte(b2)}))
			}
		}
	}
	for _, u := range []string{"\xf0\x9f\x98\x80", "\xf0\x90\x80\x80", "\xf4\x8f\xbf\xbf", "\xf4\x90\x80\x80", "\xf0\x80\x80\x80"} {
		f(u)
	}
}

func pick(rng *rand.Rand, xs []string) string { return xs[rng.Intn(len(xs))] }

func rep(s string, n int) string {
	r := make([]byte, 0, len(s)*n)
	for i := 0; i < n; i++ {
		r = append(r, s...)
	}
	return string(r)
}
