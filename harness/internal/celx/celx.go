// Package celx renders (a) cel-go's AST of a CEL expression and (b) go/parser's AST of the Go
// condition govalid emitted for it as terms of the Coq development (Cel/Syntax.v: cexpr, gexpr).
package celx

import (
	"fmt"
	"go/ast"
	"go/constant"
	"go/parser"
	"go/token"
	"math"
	"math/big"
	"regexp"
	"strconv"
	"strings"
	"time"

	"github.com/google/cel-go/cel"
	exprpb "google.golang.org/genproto/googleapis/api/expr/v1alpha1"

	"verifharness/internal/coqterm"
)

// ---------------------------------------------------------------- CEL -> cexpr

var fnNames = map[string]string{
	"_&&_": "FAnd", "_||_": "FOr", "!_": "FNot", "-_": "FNeg", "_+_": "FAdd", "_-_": "FSub", "_*_": "FMul", "_/_": "FDiv", "_%_": "FMod",
	"_==_": "FEq", "_!=_": "FNe", "_<_": "FLt", "_<=_": "FLe", "_>_": "FGt", "_>=_": "FGe",
	"_?_:_": "FTernary", "@in": "FIn", "_[_]": "FIndex", "@not_strictly_false": "FNotStrictlyFalse",
	"size": "FSize", "contains": "FContains", "matches": "FMatches", "startsWith": "FStartsWith", "endsWith": "FEndsWith",
	"int": "FInt", "string": "FString", "double": "FDouble", "timestamp": "FTimestamp", "duration": "FDuration",
}

func fn(name string) string {
	if f, ok := fnNames[name]; ok {
		return f
	}
	return "(FOther " + coqterm.Bytes(name) + ")"
}

// CelInfo is what the reference front end (cel-go, configured like the generator configures it) says about an expression.
type CelInfo struct {
	Compiles bool
	Term     string   // cexpr term
	Strings  []string // string constants of the expression (arguments of duration(), ...)
}

func Cel(env *cel.Env, expr string) CelInfo {
	a, iss := env.Compile(expr)
	if iss != nil && iss.Err() != nil {
		return CelInfo{}
	}
	//nolint:staticcheck // the generator walks the same deprecated view
	e := a.Expr()
	ci := CelInfo{Compiles: true}
	ci.Term = ci.conv(e)
	return ci
}

func NewEnv() (*cel.Env, error) {
	return cel.NewEnv(cel.StdLib(), cel.Variable("value", cel.DynType), cel.Variable("this", cel.DynType))
}

func (ci *CelInfo) conv(e *exprpb.Expr) string {
	switch e.ExprKind.(type) {
	case *exprpb.Expr_IdentExpr:
		return "(EIdent " + coqterm.Bytes(e.GetIdentExpr().Name) + ")"
	case *exprpb.Expr_SelectExpr:
		s := e.GetSelectExpr()
		return fmt.Sprintf("(ESelect %s %s %s)", ci.conv(s.Operand), coqterm.Bytes(s.Field), coqterm.Bool(s.TestOnly))
	case *exprpb.Expr_ConstExpr:
		c := e.GetConstExpr()
		switch c.ConstantKind.(type) {
		case *exprpb.Constant_BoolValue:
			return "(EConst (KBool " + coqterm.Bool(c.GetBoolValue()) + "))"
		case *exprpb.Constant_Int64Value:
			return "(EConst (KInt " + coqterm.ZInt(c.GetInt64Value()) + "))"
		case *exprpb.Constant_Uint64Value:
			return "(EConst (KUint " + coqterm.ZUint(c.GetUint64Value()) + "))"
		case *exprpb.Constant_DoubleValue:
			return "(EConst (KDouble " + coqterm.ZUint(math.Float64bits(c.GetDoubleValue())) + "))"
		case *exprpb.Constant_StringValue:
			ci.Strings = append(ci.Strings, c.GetStringValue())
			return "(EConst (KString " + coqterm.Bytes(c.GetStringValue()) + "))"
		case *exprpb.Constant_BytesValue:
			return "(EConst (KBytes " + coqterm.Bytes(string(c.GetBytesValue())) + "))"
		default:
			return "(EConst KNull)"
		}
	case *exprpb.Expr_CallExpr:
		c := e.GetCallExpr()
		args := make([]string, len(c.Args))
		for i, a := range c.Args {
			args[i] = ci.conv(a)
		}
		f := fn(c.Function)
		if c.Target != nil {
			t := ci.conv(c.Target)
			switch len(args) {
			case 0:
				return fmt.Sprintf("(EMeth0 %s %s)", f, t)
			case 1:
				return fmt.Sprintf("(EMeth1 %s %s %s)", f, t, args[0])
			}
			return "EOther"
		}
		switch len(args) {
		case 1:
			return fmt.Sprintf("(ECall1 %s %s)", f, args[0])
		case 2:
			return fmt.Sprintf("(ECall2 %s %s %s)", f, args[0], args[1])
		case 3:
			return fmt.Sprintf("(ECall3 %s %s %s %s)", f, args[0], args[1], args[2])
		}
		return "EOther"
	case *exprpb.Expr_ListExpr:
		l := e.GetListExpr()
		if len(l.OptionalIndices) > 0 {
			return "EOther"
		}
		items := make([]string, len(l.Elements))
		for i, x := range l.Elements {
			items[i] = ci.conv(x)
		}
		return "(EList " + coqterm.List(items) + ")"
	case *exprpb.Expr_StructExpr:
		return "EStruct"
	case *exprpb.Expr_ComprehensionExpr:
		c := e.GetComprehensionExpr()
		if c.IterVar2 != "" {
			return "EOther"
		}
		return fmt.Sprintf("(ECompr %s %s %s %s %s %s %s)", coqterm.Bytes(c.IterVar), ci.conv(c.IterRange), coqterm.Bytes(c.AccuVar),
			ci.conv(c.AccuInit), ci.conv(c.LoopCondition), ci.conv(c.LoopStep), ci.conv(c.Result))
	}
	return "EOther"
}

// DurTable evaluates time.ParseDuration (the function both cel-go and the generated code call) on the string constants.
func DurTable(strs []string) string {
	seen := map[string]bool{}
	var items []string
	for _, s := range strs {
		if seen[s] {
			continue
		}
		seen[s] = true
		d, err := time.ParseDuration(s)
		if err != nil {
			items = append(items, fmt.Sprintf("(%s, None)", coqterm.Bytes(s)))
		} else {
			items = append(items, fmt.Sprintf("(%s, Some %s)", coqterm.Bytes(s), coqterm.ZInt(int64(d))))
		}
	}
	return coqterm.List(items)
}

// RegexTable evaluates regexp.Compile on the string constants.
func RegexTable(strs []string) string {
	seen := map[string]bool{}
	var items []string
	for _, s := range strs {
		if seen[s] {
			continue
		}
		seen[s] = true
		_, err := regexp.Compile(s)
		items = append(items, fmt.Sprintf("(%s, %s)", coqterm.Bytes(s), coqterm.Bool(err == nil)))
	}
	return coqterm.List(items)
}

// ---------------------------------------------------------------- Go -> gexpr

// GoCond parses the condition of an emitted if statement.
func GoCond(src string) (string, error) {
	e, err := parser.ParseExpr(src)
	if err != nil {
		return "", err
	}
	return GoExpr(e), nil
}

var binops = map[token.Token]string{
	token.LAND: "BAnd", token.LOR: "BOr", token.EQL: "BEq", token.NEQ: "BNe", token.LSS: "BLt", token.LEQ: "BLe",
	token.GTR: "BGt", token.GEQ: "BGe", token.ADD: "BAdd", token.SUB: "BSub", token.MUL: "BMul", token.QUO: "BDiv", token.REM: "BRem",
}

func lit(b *ast.BasicLit, neg bool) string {
	switch b.Kind {
	case token.INT:
		v := constant.MakeFromLiteral(b.Value, token.INT, 0)
		z, ok := new(big.Int).SetString(v.ExactString(), 10)
		if !ok {
			return "GUnknown"
		}
		if neg {
			z.Neg(z)
		}
		return "(GLitInt " + coqterm.Z(z) + ")"
	case token.FLOAT:
		f, err := strconv.ParseFloat(b.Value, 64)
		if err != nil {
			return "GUnknown"
		}
		if neg {
			f = -f
		}
		return "(GLitFloat " + coqterm.ZUint(math.Float64bits(f)) + ")"
	case token.STRING:
		s, err := strconv.Unquote(b.Value)
		if err != nil || neg {
			return "GUnknown"
		}
		return "(GLitStr " + coqterm.Bytes(s) + ")"
	}
	return "GUnknown"
}

func pkgCall(c *ast.CallExpr) (string, string, bool) {
	s, ok := c.Fun.(*ast.SelectorExpr)
	if !ok {
		return "", "", false
	}
	p, ok := s.X.(*ast.Ident)
	if !ok {
		return "", "", false
	}
	return p.Name, s.Sel.Name, true
}

func GoExpr(e ast.Expr) string {
	switch x := e.(type) {
	case *ast.Ident:
		switch x.Name {
		case "t":
			return "GT"
		case "true":
			return "(GLitBool true)"
		case "false":
			return "(GLitBool false)"
		case "nil":
			return "GLitNil"
		}
		return "(GVar " + coqterm.Bytes(x.Name) + ")"
	case *ast.SelectorExpr:
		return fmt.Sprintf("(GSel %s %s)", GoExpr(x.X), coqterm.Bytes(x.Sel.Name))
	case *ast.BasicLit:
		return lit(x, false)
	case *ast.ParenExpr:
		return "(GParen " + GoExpr(x.X) + ")"
	case *ast.UnaryExpr:
		switch x.Op {
		case token.NOT:
			return "(GNot " + GoExpr(x.X) + ")"
		case token.SUB:
			if b, ok := x.X.(*ast.BasicLit); ok && (b.Kind == token.INT || b.Kind == token.FLOAT) {
				return lit(b, true)
			}
			return "(GNeg " + GoExpr(x.X) + ")"
		}
		return "GUnknown"
	case *ast.BinaryExpr:
		op, ok := binops[x.Op]
		if !ok {
			return "GUnknown"
		}
		return fmt.Sprintf("(GBin %s %s %s)", op, GoExpr(x.X), GoExpr(x.Y))
	case *ast.CompositeLit:
		at, ok := x.Type.(*ast.ArrayType)
		if !ok || at.Len != nil {
			return "GUnknown"
		}
		items := make([]string, len(x.Elts))
		for i, el := range x.Elts {
			items[i] = GoExpr(el)
		}
		if id, ok := at.Elt.(*ast.Ident); ok && id.Name == "string" {
			return "(GStrList " + coqterm.List(items) + ")"
		}
		if it, ok := at.Elt.(*ast.InterfaceType); ok && (it.Methods == nil || len(it.Methods.List) == 0) {
			return "(GIfaceList " + coqterm.List(items) + ")"
		}
		return "GUnknown"
	case *ast.CallExpr:
		return goCall(x)
	}
	return "GUnknown"
}

func goCall(c *ast.CallExpr) string {
	if id, ok := c.Fun.(*ast.Ident); ok && id.Name == "len" && len(c.Args) == 1 {
		return "(GLen " + GoExpr(c.Args[0]) + ")"
	}
	if p, f, ok := pkgCall(c); ok {
		switch {
		case p == "strings" && len(c.Args) == 2 && (f == "Contains" || f == "HasPrefix" || f == "HasSuffix"):
			return fmt.Sprintf("(GStrFn S%s %s %s)", f, GoExpr(c.Args[0]), GoExpr(c.Args[1]))
		case p == "slices" && f == "Contains" && len(c.Args) == 2:
			return fmt.Sprintf("(GSlicesContains %s %s)", GoExpr(c.Args[0]), GoExpr(c.Args[1]))
		case p == "fmt" && f == "Sprintf" && len(c.Args) == 2:
			if b, ok := c.Args[0].(*ast.BasicLit); ok && b.Value == `"%v"` {
				return "(GSprintV " + GoExpr(c.Args[1]) + ")"
			}
		}
		return "GUnknown"
	}
	// regexp.MustCompile(p).MatchString(s)
	if s, ok := c.Fun.(*ast.SelectorExpr); ok && s.Sel.Name == "MatchString" && len(c.Args) == 1 {
		if inner, ok := s.X.(*ast.CallExpr); ok && len(inner.Args) == 1 {
			if p, f, ok := pkgCall(inner); ok && p == "regexp" && f == "MustCompile" {
				return fmt.Sprintf("(GMatch %s %s)", GoExpr(inner.Args[0]), GoExpr(c.Args[0]))
			}
		}
		return "GUnknown"
	}
	if fl, ok := c.Fun.(*ast.FuncLit); ok && len(c.Args) == 0 && (fl.Type.Params == nil || len(fl.Type.Params.List) == 0) {
		return closure(fl)
	}
	return "GUnknown"
}

// isRegexpCompile matches `re, err := regexp.Compile(P)`.
func isRegexpCompile(st ast.Stmt) bool {
	as, ok := st.(*ast.AssignStmt)
	if !ok || as.Tok != token.DEFINE || len(as.Lhs) != 2 || len(as.Rhs) != 1 || !isIdent(as.Lhs[0], "re") || !isIdent(as.Lhs[1], "err") {
		return false
	}
	c, ok := as.Rhs[0].(*ast.CallExpr)
	if !ok || len(c.Args) != 1 {
		return false
	}
	p, f, ok := pkgCall(c)
	return ok && p == "regexp" && f == "Compile"
}

func isIdent(e ast.Expr, name string) bool {
	id, ok := e.(*ast.Ident)
	return ok && id.Name == name
}

func returns(s ast.Stmt) (ast.Expr, bool) {
	r, ok := s.(*ast.ReturnStmt)
	if !ok || len(r.Results) != 1 {
		return nil, false
	}
	return r.Results[0], true
}

func blockReturns(b *ast.BlockStmt, name string) bool {
	if b == nil || len(b.List) != 1 {
		return false
	}
	r, ok := returns(b.List[0])
	return ok && isIdent(r, name)
}

// rangeOver matches `for _, x := range R { body }`.
func rangeOver(s ast.Stmt) (string, ast.Expr, []ast.Stmt, bool) {
	r, ok := s.(*ast.RangeStmt)
	if !ok || r.Tok != token.DEFINE || !isIdent(r.Key, "_") {
		return "", nil, nil, false
	}
	v, ok := r.Value.(*ast.Ident)
	if !ok {
		return "", nil, nil, false
	}
	return v.Name, r.X, r.Body.List, true
}

func resultType(fl *ast.FuncLit) string {
	if fl.Type.Results == nil || len(fl.Type.Results.List) != 1 {
		return ""
	}
	switch t := fl.Type.Results.List[0].Type.(type) {
	case *ast.Ident:
		return t.Name
	case *ast.SelectorExpr:
		if p, ok := t.X.(*ast.Ident); ok {
			return p.Name + "." + t.Sel.Name
		}
	case *ast.ArrayType:
		if _, ok := t.Elt.(*ast.InterfaceType); ok && t.Len == nil {
			return "[]interface{}"
		}
	}
	return ""
}

func closure(fl *ast.FuncLit) string {
	body := fl.Body.List
	rt := resultType(fl)
	switch {
	case rt == "bool" && len(body) == 2:
		x, r, inner, ok := rangeOver(body[0])
		ret, ok2 := returns(body[1])
		if !ok || !ok2 || len(inner) != 1 {
			return "GUnknown"
		}
		is, ok := inner[0].(*ast.IfStmt)
		if !ok || is.Init != nil || is.Else != nil {
			return "GUnknown"
		}
		if isIdent(ret, "true") && blockReturns(is.Body, "false") {
			if u, ok := is.Cond.(*ast.UnaryExpr); ok && u.Op == token.NOT {
				if p, ok := u.X.(*ast.ParenExpr); ok {
					return fmt.Sprintf("(GAll %s %s %s)", coqterm.Bytes(x), GoExpr(r), GoExpr(p.X))
				}
			}
			return "GUnknown"
		}
		if isIdent(ret, "false") && blockReturns(is.Body, "true") {
			return fmt.Sprintf("(GExists %s %s %s)", coqterm.Bytes(x), GoExpr(r), GoExpr(is.Cond))
		}
	case rt == "bool" && len(body) == 3 && isRegexpCompile(body[0]):
		// re, err := regexp.Compile(P); if err != nil { return false }; return re.MatchString(S)
		as := body[0].(*ast.AssignStmt)
		pat := as.Rhs[0].(*ast.CallExpr).Args[0]
		is, ok := body[1].(*ast.IfStmt)
		if !ok || is.Init != nil || is.Else != nil || !blockReturns(is.Body, "false") {
			return "GUnknown"
		}
		if cnd, ok := is.Cond.(*ast.BinaryExpr); !ok || cnd.Op != token.NEQ || !isIdent(cnd.X, "err") || !isIdent(cnd.Y, "nil") {
			return "GUnknown"
		}
		ret, ok := returns(body[2])
		if !ok {
			return "GUnknown"
		}
		call, ok := ret.(*ast.CallExpr)
		if !ok || len(call.Args) != 1 {
			return "GUnknown"
		}
		sel, ok := call.Fun.(*ast.SelectorExpr)
		if !ok || sel.Sel.Name != "MatchString" || !isIdent(sel.X, "re") {
			return "GUnknown"
		}
		return fmt.Sprintf("(GMatchSafe %s %s)", GoExpr(pat), GoExpr(call.Args[0]))
	case rt == "bool" && len(body) == 3:
		// count := 0; for _, x := range R { if C { count++; if count > 1 { return false } } }; return count == 1
		as, ok := body[0].(*ast.AssignStmt)
		if !ok || as.Tok != token.DEFINE || len(as.Lhs) != 1 || !isIdent(as.Lhs[0], "count") {
			return "GUnknown"
		}
		x, r, inner, ok := rangeOver(body[1])
		ret, ok2 := returns(body[2])
		if !ok || !ok2 || len(inner) != 1 {
			return "GUnknown"
		}
		be, ok := ret.(*ast.BinaryExpr)
		if !ok || be.Op != token.EQL || !isIdent(be.X, "count") {
			return "GUnknown"
		}
		if b, ok := be.Y.(*ast.BasicLit); !ok || b.Value != "1" {
			return "GUnknown"
		}
		is, ok := inner[0].(*ast.IfStmt)
		if !ok || is.Init != nil || is.Else != nil || len(is.Body.List) != 2 {
			return "GUnknown"
		}
		if inc, ok := is.Body.List[0].(*ast.IncDecStmt); !ok || inc.Tok != token.INC || !isIdent(inc.X, "count") {
			return "GUnknown"
		}
		is2, ok := is.Body.List[1].(*ast.IfStmt)
		if !ok || !blockReturns(is2.Body, "false") {
			return "GUnknown"
		}
		if c2, ok := is2.Cond.(*ast.BinaryExpr); !ok || c2.Op != token.GTR || !isIdent(c2.X, "count") {
			return "GUnknown"
		}
		return fmt.Sprintf("(GExistsOne %s %s %s)", coqterm.Bytes(x), GoExpr(r), GoExpr(is.Cond))
	case rt == "[]interface{}" && len(body) == 3:
		if _, ok := body[0].(*ast.DeclStmt); !ok {
			return "GUnknown"
		}
		x, r, inner, ok := rangeOver(body[1])
		ret, ok2 := returns(body[2])
		if !ok || !ok2 || !isIdent(ret, "result") || len(inner) != 1 {
			return "GUnknown"
		}
		appended := func(s ast.Stmt) (ast.Expr, bool) {
			as, ok := s.(*ast.AssignStmt)
			if !ok || as.Tok != token.ASSIGN || len(as.Lhs) != 1 || len(as.Rhs) != 1 || !isIdent(as.Lhs[0], "result") {
				return nil, false
			}
			c, ok := as.Rhs[0].(*ast.CallExpr)
			if !ok || !isIdent(c.Fun, "append") || len(c.Args) != 2 || !isIdent(c.Args[0], "result") {
				return nil, false
			}
			return c.Args[1], true
		}
		if is, ok := inner[0].(*ast.IfStmt); ok {
			if is.Init != nil || is.Else != nil || len(is.Body.List) != 1 {
				return "GUnknown"
			}
			if a, ok := appended(is.Body.List[0]); ok && isIdent(a, x) {
				return fmt.Sprintf("(GFilter %s %s %s)", coqterm.Bytes(x), GoExpr(r), GoExpr(is.Cond))
			}
			return "GUnknown"
		}
		if a, ok := appended(inner[0]); ok {
			return fmt.Sprintf("(GMapC %s %s %s)", coqterm.Bytes(x), GoExpr(r), GoExpr(a))
		}
	case rt == "int" && len(body) == 2:
		// func() int { if C { return A }; return B }
		if is, ok := body[0].(*ast.IfStmt); ok && is.Init == nil && is.Else == nil && len(is.Body.List) == 1 {
			a, ok1 := returns(is.Body.List[0])
			b, ok2 := returns(body[1])
			if ok1 && ok2 {
				return fmt.Sprintf("(GTern %s %s %s)", GoExpr(is.Cond), GoExpr(a), GoExpr(b))
			}
		}
	case len(body) == 3:
		// v, err := pkg.F(X[, 64]); if err != nil { return zero }; return v
		as, ok := body[0].(*ast.AssignStmt)
		if !ok || as.Tok != token.DEFINE || len(as.Lhs) != 2 || len(as.Rhs) != 1 || !isIdent(as.Lhs[1], "err") {
			return "GUnknown"
		}
		c, ok := as.Rhs[0].(*ast.CallExpr)
		if !ok {
			return "GUnknown"
		}
		is, ok := body[1].(*ast.IfStmt)
		if !ok || is.Init != nil || is.Else != nil || len(is.Body.List) != 1 {
			return "GUnknown"
		}
		if cnd, ok := is.Cond.(*ast.BinaryExpr); !ok || cnd.Op != token.NEQ || !isIdent(cnd.X, "err") || !isIdent(cnd.Y, "nil") {
			return "GUnknown"
		}
		zero, ok := returns(is.Body.List[0])
		if !ok {
			return "GUnknown"
		}
		ret, ok := returns(body[2])
		if !ok || !isIdent(ret, as.Lhs[0].(*ast.Ident).Name) {
			return "GUnknown"
		}
		isZero := func(vals ...string) bool {
			b, ok := zero.(*ast.BasicLit)
			if !ok {
				return false
			}
			for _, v := range vals {
				if b.Value == v {
					return true
				}
			}
			return false
		}
		p, f, ok := pkgCall(c)
		if !ok {
			return "GUnknown"
		}
		switch {
		case p == "strconv" && f == "Atoi" && rt == "int" && len(c.Args) == 1 && isZero("0"):
			return "(GAtoi " + GoExpr(c.Args[0]) + ")"
		case p == "strconv" && f == "ParseFloat" && rt == "float64" && len(c.Args) == 2 && isZero("0.0", "0"):
			if b, ok := c.Args[1].(*ast.BasicLit); ok && b.Value == "64" {
				return "(GParseFloat " + GoExpr(c.Args[0]) + ")"
			}
		case p == "time" && f == "ParseDuration" && rt == "time.Duration" && len(c.Args) == 1 && isZero("0"):
			return "(GParseDur " + GoExpr(c.Args[0]) + ")"
		case p == "time" && f == "Parse" && rt == "time.Time" && len(c.Args) == 2:
			return "(GParseTime " + GoExpr(c.Args[1]) + ")"
		}
	}
	return "GUnknown"
}

// FindCelCondition returns the source text of the condition of the if statement that reports a CEL error
// (`err := Err...CELValidation`) in a generated validator file.
func FindCelCondition(filename string, content []byte) (string, bool) {
	fset := token.NewFileSet()
	f, err := parser.ParseFile(fset, filename, content, 0)
	if err != nil {
		return "", false
	}
	found := ""
	ok := false
	ast.Inspect(f, func(n ast.Node) bool {
		is, isIf := n.(*ast.IfStmt)
		if !isIf || ok || is.Body == nil || len(is.Body.List) == 0 {
			return true
		}
		as, isAs := is.Body.List[0].(*ast.AssignStmt)
		if !isAs || len(as.Rhs) != 1 {
			return true
		}
		id, isId := as.Rhs[0].(*ast.Ident)
		if !isId || !strings.HasSuffix(id.Name, "CELValidation") {
			return true
		}
		found = string(content[fset.Position(is.Cond.Pos()).Offset:fset.Position(is.Cond.End()).Offset])
		ok = true
		return false
	})
	return found, ok
}
