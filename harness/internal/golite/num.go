package golite

import (
	"go/ast"
	"go/constant"
	"go/parser"
	"go/token"
	"math"
	"math/big"

	"verifharness/internal/coqterm"
)

// NumLit is a numeric constant as the Go compiler converts it to each candidate field type.
type NumLit struct {
	Int *big.Int // nil unless integer-valued
	F32 uint32
	F64 uint64
}

func (n NumLit) Coq() string {
	i := "None"
	if n.Int != nil {
		i = "(Some " + coqterm.Z(n.Int) + ")"
	}
	return "{| nl_int := " + i + "; nl_f32 := " + coqterm.ZUint(uint64(n.F32)) + "; nl_f64 := " + coqterm.ZUint(n.F64) + " |}"
}

// constOf evaluates a numeric literal with optional sign and parentheses.
func constOf(e ast.Expr) (constant.Value, bool) {
	switch x := e.(type) {
	case *ast.ParenExpr:
		return constOf(x.X)
	case *ast.BasicLit:
		if x.Kind != token.INT && x.Kind != token.FLOAT {
			return nil, false
		}
		v := constant.MakeFromLiteral(x.Value, x.Kind, 0)
		if v.Kind() == constant.Unknown {
			return nil, false
		}
		return v, true
	case *ast.UnaryExpr:
		if x.Op != token.SUB && x.Op != token.ADD {
			return nil, false
		}
		v, ok := constOf(x.X)
		if !ok {
			return nil, false
		}
		return constant.UnaryOp(x.Op, v, 0), true
	}
	return nil, false
}

func numLitOf(v constant.Value) NumLit {
	var n NumLit
	if iv := constant.ToInt(v); iv.Kind() == constant.Int {
		if b, ok := constant.Val(iv).(*big.Int); ok {
			n.Int = new(big.Int).Set(b)
		} else if i64, ok := constant.Val(iv).(int64); ok {
			n.Int = big.NewInt(i64)
		}
	}
	f32, _ := constant.Float32Val(v)
	f64, _ := constant.Float64Val(v)
	n.F32 = math.Float32bits(f32)
	n.F64 = math.Float64bits(f64)
	return n
}

// ParseNum evaluates the text of a marker parameter when it is a numeric literal.
func ParseNum(text string) (NumLit, bool) {
	e, err := parser.ParseExpr(text)
	if err != nil {
		return NumLit{}, false
	}
	v, ok := constOf(e)
	if !ok {
		return NumLit{}, false
	}
	return numLitOf(v), true
}
