// Package decl is the scenario format shared by the orchestrator (which synthesizes scenarios as
// JSON), the Go source renderer, the Coq term renderer and the driver generator.
package decl

import (
	"fmt"
	"math/big"
	"sort"
	"strings"

	"verifharness/internal/coqterm"
	"verifharness/internal/golite"
)

type TypeRef struct {
	Go     string `json:"go"`    // Go type expression as written in the field
	Model  string `json:"model"` // Coq gtype term
	VK     string `json:"vk"`    // int | float32 | float64 | complex | bool | string | nilable | coll | arr | opaque
	ArrLen int    `json:"arrlen,omitempty"`
}

type Field struct {
	Names  []string `json:"names"`
	Doc    []string `json:"doc"`
	Type   *TypeRef `json:"type,omitempty"`
	Nested []Field  `json:"nested,omitempty"`
}

type Struct struct {
	Name    string   `json:"name"`
	GenDoc  []string `json:"gendoc"`  // comment lines above `type`
	SpecDoc []string `json:"specdoc"` // comment lines above the spec inside a group
	Fields  []Field  `json:"fields"`
	Cases   []Case   `json:"cases"`
	File    string   `json:"file,omitempty"` // source file base name (default "x")
}

type Set struct {
	Path  string `json:"path"`
	VK    string `json:"vk"`
	Int   string `json:"int,omitempty"`  // decimal
	Bits  string `json:"bits,omitempty"` // decimal IEEE bits
	Str   string `json:"str,omitempty"`  // hex-encoded bytes
	Bool  bool   `json:"bool,omitempty"`
	IsNil bool   `json:"isnil,omitempty"`
	Len   int    `json:"len,omitempty"`
	CZero bool   `json:"czero,omitempty"`
}

type Case struct {
	Nil     bool   `json:"nil,omitempty"` // nil receiver
	Sets    []Set  `json:"sets"`
	CtxFlip int    `json:"ctxflip"`          // -1: never done; k: ctx.Err() is non-nil from its k-th call on
	CtxErr  string `json:"ctxerr,omitempty"` // canceled | deadline
}

type Scenario struct {
	ID       string   `json:"id"`
	Pkg      string   `json:"pkg"`
	Aux      []string `json:"aux"`     // auxiliary declarations (named types)
	Imports  []string `json:"imports"` // imports needed by aux / field types
	Structs  []Struct `json:"structs"`
	Grouped  bool     `json:"grouped"`  // render all structs in one `type ( ... )` group, aux non-struct specs in between
	GroupDoc []string `json:"groupdoc"` // comment lines above `type (` of a grouped declaration (GenDecl.Doc)
	GroupAux []string `json:"groupaux"` // non-struct specs placed between the structs of a group, e.g. "Mid int"
}

type Corpus struct {
	Scenarios []Scenario `json:"scenarios"`
}

// ---------------------------------------------------------------- Go source

func renderFields(sb *strings.Builder, fs []Field, indent string) {
	for _, f := range fs {
		for _, d := range f.Doc {
			sb.WriteString(indent + d + "\n")
		}
		sb.WriteString(indent + strings.Join(f.Names, ", "))
		if len(f.Names) > 0 {
			sb.WriteString(" ")
		}
		if f.Type != nil {
			sb.WriteString(f.Type.Go + "\n")
		} else {
			sb.WriteString("struct {\n")
			renderFields(sb, f.Nested, indent+"\t")
			sb.WriteString(indent + "}\n")
		}
	}
}

func (s *Struct) body() string {
	var sb strings.Builder
	sb.WriteString("struct {\n")
	renderFields(&sb, s.Fields, "\t")
	sb.WriteString("}")
	return sb.String()
}

// Source renders the scenario's Go files: file base name -> content.
func (sc *Scenario) Source() map[string]string {
	files := map[string]*strings.Builder{}
	get := func(name string) *strings.Builder {
		if name == "" {
			name = "x"
		}
		b, ok := files[name]
		if !ok {
			b = &strings.Builder{}
			b.WriteString("package " + sc.Pkg + "\n\n")
			files[name] = b
		}
		return b
	}
	main := get("x")
	if len(sc.Imports) > 0 {
		main.WriteString("import (\n")
		for _, im := range sc.Imports {
			main.WriteString("\t\"" + im + "\"\n")
		}
		main.WriteString(")\n\n")
	}
	for _, a := range sc.Aux {
		main.WriteString(a + "\n\n")
	}
	if sc.Grouped {
		for _, d := range sc.GroupDoc {
			main.WriteString(d + "\n")
		}
		main.WriteString("type (\n")
		for i, s := range sc.Structs {
			for _, d := range s.SpecDoc {
				main.WriteString("\t" + d + "\n")
			}
			body := strings.ReplaceAll(s.body(), "\n", "\n\t")
			main.WriteString("\t" + s.Name + " " + body + "\n\n")
			if i < len(sc.GroupAux) {
				main.WriteString("\t" + sc.GroupAux[i] + "\n\n")
			}
		}
		main.WriteString(")\n")
	} else {
		for _, s := range sc.Structs {
			b := get(s.File)
			for _, d := range s.GenDoc {
				b.WriteString(d + "\n")
			}
			b.WriteString("type " + s.Name + " " + s.body() + "\n\n")
		}
	}
	out := map[string]string{}
	for k, v := range files {
		out[k] = v.String()
	}
	return out
}

// ---------------------------------------------------------------- Coq terms

func coqField(f Field) string {
	if f.Type != nil {
		return "FPlain " + coqterm.BytesList(f.Names) + " " + coqterm.BytesList(f.Doc) + " (" + f.Type.Model + ")"
	}
	items := make([]string, len(f.Nested))
	for i, n := range f.Nested {
		items[i] = coqField(n)
	}
	return "FNested " + coqterm.BytesList(f.Names) + " " + coqterm.BytesList(f.Doc) + " " + coqterm.List(items)
}

// CoqDecl renders the struct as an sdecl term.
func (s *Struct) CoqDecl(grouped bool, groupDoc []string) string {
	doc := append([]string{}, s.GenDoc...)
	if grouped {
		// GenDecl.Doc lines followed by TypeSpec.Doc lines
		doc = append(append([]string{}, groupDoc...), s.SpecDoc...)
	}
	items := make([]string, len(s.Fields))
	for i, f := range s.Fields {
		items[i] = coqField(f)
	}
	return "{| sd_name := " + coqterm.Bytes(s.Name) + "; sd_doc := " + coqterm.BytesList(doc) + ";\n     sd_fields := " + coqterm.List(items) + " |}"
}

func collectDocs(fs []Field, acc *[]string) {
	for _, f := range fs {
		*acc = append(*acc, f.Doc...)
		collectDocs(f.Nested, acc)
	}
}

// CoqNumTab evaluates every marker parameter (and every trimmed enum item) that is a numeric literal.
func (s *Struct) CoqNumTab(grouped bool, groupDoc []string) string {
	var docs []string
	docs = append(docs, groupDoc...)
	docs = append(docs, s.GenDoc...)
	docs = append(docs, s.SpecDoc...)
	collectDocs(s.Fields, &docs)
	seen := map[string]bool{}
	var keys []string
	add := func(t string) {
		if !seen[t] {
			seen[t] = true
			keys = append(keys, t)
		}
	}
	for _, d := range docs {
		i := strings.Index(d, "=")
		if i < 0 || !strings.Contains(d[:i], "govalid:") {
			continue
		}
		arg := d[i+1:]
		add(arg)
		if strings.Contains(d[:i], "govalid:enum") {
			for _, it := range strings.Split(arg, ",") {
				add(strings.Trim(it, " \t\n\v\f\r"))
			}
		}
	}
	sort.Strings(keys)
	var items []string
	for _, k := range keys {
		if n, ok := golite.ParseNum(k); ok {
			items = append(items, "("+coqterm.Bytes(k)+", "+n.Coq()+")")
		}
	}
	return coqterm.List(items)
}

func zeroValue(t *TypeRef) string {
	switch t.VK {
	case "int":
		return "VInt 0%Z"
	case "float32":
		return "VF32 0%Z"
	case "float64":
		return "VF64 0%Z"
	case "complex":
		return "VComplex true"
	case "bool":
		return "VBool false"
	case "string":
		return "VStr []"
	case "nilable":
		return "VNilable true"
	case "coll":
		return "VColl true 0%nat"
	case "arr":
		return "VArr " + coqterm.Nat(t.ArrLen)
	}
	return "VOpaque"
}

func unhex(h string) string {
	b := make([]byte, len(h)/2)
	for i := range b {
		fmt.Sscanf(h[2*i:2*i+2], "%02x", &b[i])
	}
	return string(b)
}

func setValue(s Set, t *TypeRef) string {
	switch s.VK {
	case "int":
		z, _ := new(big.Int).SetString(s.Int, 10)
		return "VInt " + coqterm.Z(z)
	case "float32":
		z, _ := new(big.Int).SetString(s.Bits, 10)
		return "VF32 " + coqterm.Z(z)
	case "float64":
		z, _ := new(big.Int).SetString(s.Bits, 10)
		return "VF64 " + coqterm.Z(z)
	case "complex":
		return "VComplex " + coqterm.Bool(s.CZero)
	case "bool":
		return "VBool " + coqterm.Bool(s.Bool)
	case "string":
		return "VStr " + coqterm.Bytes(unhex(s.Str))
	case "nilable":
		return "VNilable " + coqterm.Bool(s.IsNil)
	case "coll":
		return "VColl " + coqterm.Bool(s.IsNil) + " " + coqterm.Nat(s.Len)
	case "arr":
		return "VArr " + coqterm.Nat(t.ArrLen)
	}
	return "VOpaque"
}

func coqValue(fs []Field, prefix string, sets map[string]Set) string {
	var items []string
	for _, f := range fs {
		for _, n := range f.Names {
			path := n
			if prefix != "" {
				path = prefix + "." + n
			}
			var v string
			if f.Type == nil {
				v = coqValue(f.Nested, path, sets)
			} else if s, ok := sets[path]; ok {
				v = setValue(s, f.Type)
			} else {
				v = zeroValue(f.Type)
			}
			items = append(items, "("+coqterm.Bytes(n)+", "+v+")")
		}
	}
	return "VStruct " + coqterm.List(items)
}

// CoqCase renders the receiver of a case as `option value`.
func (s *Struct) CoqCase(c Case) string {
	if c.Nil {
		return "None"
	}
	sets := map[string]Set{}
	for _, x := range c.Sets {
		sets[x.Path] = x
	}
	return "(Some (" + coqValue(s.Fields, "", sets) + "))"
}
