// Package coqterm prints Go data as Coq terms of the GV development.
package coqterm

import (
	"fmt"
	"math/big"
	"strings"
)

// Bytes prints a byte string as a Coq `bytes` term.
func Bytes(s string) string {
	plain := true
	for i := 0; i < len(s); i++ {
		c := s[i]
		if c < 0x20 || c > 0x7e || c == '"' {
			plain = false
			break
		}
	}
	if plain {
		return `(bs "` + s + `")`
	}
	var sb strings.Builder
	sb.WriteString("[")
	for i := 0; i < len(s); i++ {
		if i > 0 {
			sb.WriteString(";")
		}
		fmt.Fprintf(&sb, "x%02x", s[i])
	}
	sb.WriteString("]")
	return sb.String()
}

// Z prints an integer as a Coq Z term.
func Z(v *big.Int) string {
	if v.Sign() < 0 {
		return "(" + v.String() + ")%Z"
	}
	return v.String() + "%Z"
}

func ZInt(v int64) string   { return Z(big.NewInt(v)) }
func ZUint(v uint64) string { return Z(new(big.Int).SetUint64(v)) }

func Nat(n int) string { return fmt.Sprintf("%d%%nat", n) }

func Bool(b bool) string {
	if b {
		return "true"
	}
	return "false"
}

// List prints a Coq list.
func List(items []string) string {
	return "[" + strings.Join(items, "; ") + "]"
}

func BytesList(ss []string) string {
	items := make([]string, len(ss))
	for i, s := range ss {
		items[i] = Bytes(s)
	}
	return List(items)
}

func OptionBytes(s *string) string {
	if s == nil {
		return "None"
	}
	return "(Some " + Bytes(*s) + ")"
}
