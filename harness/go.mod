module verifharness

go 1.24.3

require (
	github.com/google/cel-go v0.26.1
	github.com/sivchari/govalid v0.0.0
	google.golang.org/genproto/googleapis/api v0.0.0-20240826202546-f6391c0de4c7
)

require (
	cel.dev/expr v0.24.0 // indirect
	github.com/antlr4-go/antlr/v4 v4.13.0 // indirect
	github.com/stoewer/go-strcase v1.2.0 // indirect
	golang.org/x/exp v0.0.0-20230515195305-f3d0a9c9a5cc // indirect
	google.golang.org/genproto/googleapis/rpc v0.0.0-20240826202546-f6391c0de4c7 // indirect
	google.golang.org/protobuf v1.34.2 // indirect
)

replace github.com/sivchari/govalid => /repo
