(* Big-step semantics of GoLite programs: what Validate<T>Context computes. *)
From GV Require Import Base.Bytes Base.Utf8 Base.GoFloat GoLite.Syntax.
From GV Require Import Helpers.Uuid Helpers.Email Helpers.Url Helpers.Alnum.

(* ---------- run-time values of struct fields ---------- *)
Inductive value :=
| VInt (z : Z)                          (* every integer kind; in range of its type *)
| VF32 (bits : Z)
| VF64 (bits : Z)
| VComplex (is_zero : bool)
| VBool (b : bool)
| VStr (s : bytes)
| VNilable (isnil : bool)               (* pointer, interface, func, unsafe.Pointer *)
| VColl (isnil : bool) (len : nat)      (* slice, map, chan *)
| VArr (len : nat)
| VStruct (fs : list (ident * value))
| VOpaque.

Fixpoint get_field (fs : list (ident * value)) (f : ident) : option value :=
  match fs with
  | [] => None
  | (n, v) :: r => if bytes_eqb n f then Some v else get_field r f
  end.

Fixpoint get_path (v : value) (p : list ident) : option value :=
  match p with
  | [] => Some v
  | f :: r => match v with
              | VStruct fs => match get_field fs f with Some w => get_path w r | None => None end
              | _ => None
              end
  end.

Inductive ctxerr := Canceled | DeadlineExceeded.

Record entry := { e_sentinel : ident; e_path : bytes; e_type : bytes; e_value : option value }.

Inductive result :=
| RNil
| RErr (name : ident)                 (* a package-level error variable, e.g. ErrNilT *)
| RCtx (e : option ctxerr)            (* the value of the second ctx.Err() call *)
| RReport (es : list entry)
| RPanic
| RStuck.                             (* ill-typed / not representable: the file would not compile *)

Record st := {
  s_errs : list entry;
  s_calls : nat;                      (* ctx.Err() calls so far *)
  s_allocs : nat;                     (* executed allocation sites *)
  s_gw : list (ident * option value); (* writes to package-level sentinels *)
  s_local : option entry              (* the local `err` *)
}.

Definition st0 : st := {| s_errs := []; s_calls := 0; s_allocs := 0; s_gw := []; s_local := None |}.

Record outcome := { o_res : result; o_st : st }.

Inductive ipclass := NotIP | IsV4 | IsV6.

(* ---------- conditions ---------- *)
Inductive cv :=
| CVal (v : value) | CNumLit (n : numlit) | CStrLit (s : bytes) | CNilLit | CBoolLit (b : bool) | CZeroCLit.

Definition eval_operand (cur : value) (o : operand) : option cv :=
  match o with
  | OField f => match get_path cur [f] with Some v => Some (CVal v) | None => None end
  | OLen f => match get_path cur [f] with
              | Some (VColl _ n) | Some (VArr n) => Some (CVal (VInt (Z.of_nat n)))
              | _ => None
              end
  | ORuneCount f => match get_path cur [f] with
                    | Some (VStr s) => Some (CVal (VInt (Z.of_nat (rune_count s))))
                    | _ => None
                    end
  | ONum n => Some (CNumLit n)
  | OStr s => Some (CStrLit s)
  | ONil => Some CNilLit
  | OBool b => Some (CBoolLit b)
  | OZeroComplex => Some CZeroCLit
  end.

Definition eqne (op : cmpop) (same : bool) : option bool :=
  match op with OpEq => Some same | OpNe => Some (negb same) | _ => None end.

Definition cmp_cv (op : cmpop) (a b : cv) : option bool :=
  match a, b with
  | CVal (VInt x), CNumLit n => match nl_int n with Some z => Some (zcmp op x z) | None => None end
  | CVal (VF32 x), CNumLit n => Some (fcmp32 op x (nl_f32 n))
  | CVal (VF64 x), CNumLit n => Some (fcmp64 op x (nl_f64 n))
  | CVal (VStr s), CStrLit t => eqne op (bytes_eqb s t)
  | CVal (VBool x), CBoolLit y => eqne op (Bool.eqb x y)
  | CVal (VNilable n), CNilLit => eqne op n
  | CVal (VColl n _), CNilLit => eqne op n
  | CVal (VComplex z), CZeroCLit => eqne op z
  | _, _ => None
  end.

Inductive cres := CB (b : bool) | CStuck | CPanic.

Definition helper_model (h : helper) (s : bytes) : res bool :=
  match h with
  | HEmail => IsValidEmail s
  | HURL => IsValidURL s
  | HUUID => IsValidUUID s
  | HAlpha => Ok (IsValidAlpha s)
  | HNumeric => Ok (IsNumeric s)
  end.

Section Exec.
  Variable ip_class : bytes -> ipclass.       (* net.ParseIP + To4: oracle for the standard library *)
  Variable ctx : nat -> option ctxerr.        (* result of the k-th ctx.Err() call *)

  Fixpoint eval_cond (cur : value) (c : cond) : cres :=
    match c with
    | CCmp op a b =>
        match eval_operand cur a, eval_operand cur b with
        | Some x, Some y => match cmp_cv op x y with Some r => CB r | None => CStuck end
        | _, _ => CStuck
        end
    | CNot x => match eval_cond cur x with CB r => CB (negb r) | o => o end
    (* ill-typedness (CStuck) is static in Go: both operands are checked; panics follow evaluation order *)
    | CAnd x y => match eval_cond cur x, eval_cond cur y with
                  | CStuck, _ | _, CStuck => CStuck
                  | CB true, r => r
                  | o, _ => o
                  end
    | COr x y => match eval_cond cur x, eval_cond cur y with
                 | CStuck, _ | _, CStuck => CStuck
                 | CB false, r => r
                 | o, _ => o
                 end
    | CHelper h f => match get_path cur [f] with
                     | Some (VStr s) => match helper_model h s with Ok r => CB r | Panic => CPanic end
                     | _ => CStuck
                     end
    | CIp want_v4 f => match get_path cur [f] with
                       | Some (VStr s) => CB (match ip_class s with
                                              | NotIP => true
                                              | IsV4 => negb want_v4
                                              | IsV6 => want_v4
                                              end)
                       | _ => CStuck
                       end
    | CRaw _ => CStuck
    end.

  Variable sentinels : list (ident * (bytes * bytes)).   (* name -> (Path, Type) *)

  Fixpoint lookup_sentinel (l : list (ident * (bytes * bytes))) (n : ident) : option (bytes * bytes) :=
    match l with
    | [] => None
    | (m, pt) :: r => if bytes_eqb m n then Some pt else lookup_sentinel r n
    end.

  Definition run_action (cur : value) (a : action) (s : st) : option st :=
    match a with
    | ACopy var =>
        match lookup_sentinel sentinels var with
        | Some (p, t) => Some {| s_errs := s_errs s; s_calls := s_calls s; s_allocs := s_allocs s; s_gw := s_gw s;
                                 s_local := Some {| e_sentinel := var; e_path := p; e_type := t; e_value := None |} |}
        | None => None
        end
    | ASetValue f =>
        match s_local s, get_path cur [f] with
        | Some e, Some v => Some {| s_errs := s_errs s; s_calls := s_calls s; s_allocs := S (s_allocs s); s_gw := s_gw s;
                                    s_local := Some {| e_sentinel := e_sentinel e; e_path := e_path e; e_type := e_type e; e_value := Some v |} |}
        | _, _ => None
        end
    | ASetGlobalValue var f =>
        match get_path cur [f] with
        | Some v => Some {| s_errs := s_errs s; s_calls := s_calls s; s_allocs := S (s_allocs s);
                            s_gw := s_gw s ++ [(var, Some v)]; s_local := s_local s |}
        | None => None
        end
    | AAppend =>
        match s_local s with
        | Some e => Some {| s_errs := s_errs s ++ [e]; s_calls := s_calls s; s_allocs := S (s_allocs s); s_gw := s_gw s;
                            s_local := s_local s |}
        | None => None
        end
    end.

  Fixpoint run_actions (cur : value) (acts : list action) (s : st) : option st :=
    match acts with
    | [] => Some s
    | a :: r => match run_action cur a s with Some s' => run_actions cur r s' | None => None end
    end.

  Definition bump (s : st) (k : nat) : st :=
    {| s_errs := s_errs s; s_calls := s_calls s + k; s_allocs := s_allocs s; s_gw := s_gw s; s_local := s_local s |}.

  (* inl (state, shadow) = fell through; inr = returned *)
  Fixpoint run_item (root : value) (it : item) (sh : list ident) (s : st) : (st * list ident) + outcome :=
    match it with
    | IPoll =>
        match ctx (s_calls s) with
        | Some _ => inr {| o_res := RCtx (ctx (S (s_calls s))); o_st := bump s 2 |}
        | None => inl (bump s 1, sh)
        end
    | IShadow p => inl (s, sh ++ p)
    | ICheck c acts =>
        match get_path root sh with
        | None => inr {| o_res := RStuck; o_st := s |}
        | Some cur =>
            match eval_cond cur c with
            | CB true => match run_actions cur acts s with
                         | Some s' => inl ({| s_errs := s_errs s'; s_calls := s_calls s'; s_allocs := s_allocs s';
                                              s_gw := s_gw s'; s_local := None |}, sh)
                         | None => inr {| o_res := RStuck; o_st := s |}
                         end
            | CB false => inl (s, sh)
            | CStuck => inr {| o_res := RStuck; o_st := s |}
            | CPanic => inr {| o_res := RPanic; o_st := s |}
            end
        end
    | IBlock body =>
        match (fix go (l : list item) (sh' : list ident) (s' : st) : st + outcome :=
                 match l with
                 | [] => inl s'
                 | i :: r => match run_item root i sh' s' with
                             | inl (s'', sh'') => go r sh'' s''
                             | inr o => inr o
                             end
                 end) body sh s with
        | inl s' => inl (s', sh)
        | inr o => inr o
        end
    end.

  Fixpoint run_items (root : value) (l : list item) (sh : list ident) (s : st) : st + outcome :=
    match l with
    | [] => inl s
    | i :: r => match run_item root i sh s with
                | inl (s', sh') => run_items root r sh' s'
                | inr o => inr o
                end
    end.

  Lemma run_block root body sh s :
    run_item root (IBlock body) sh s =
    match run_items root body sh s with inl s' => inl (s', sh) | inr o => inr o end.
  Proof.
    cbn [run_item].
    assert (E : forall l sh' s',
      (fix go (l : list item) (sh' : list ident) (s' : st) : st + outcome :=
         match l with
         | [] => inl s'
         | i :: r => match run_item root i sh' s' with
                     | inl (s'', sh'') => go r sh'' s''
                     | inr o => inr o
                     end
         end) l sh' s' = run_items root l sh' s').
    { induction l as [|i r IH]; intros; [reflexivity|]. cbn [run_items].
      destruct (run_item root i sh' s') as [[s'' sh'']|o]; [apply IH|reflexivity]. }
    rewrite E. reflexivity.
  Qed.
End Exec.

Fixpoint sentinel_table (ds : list vdecl) : list (ident * (bytes * bytes)) :=
  match ds with
  | [] => []
  | DSentinel n p t :: r => (n, (p, t)) :: sentinel_table r
  | _ :: r => sentinel_table r
  end.

(* Validate<T>Context(ctx, t) *)
Definition exec_file (ip_class : bytes -> ipclass) (ctx : nat -> option ctxerr) (f : file) (recv : option value) : outcome :=
  match recv with
  | None => match f_nilguard f with
            | Some n => {| o_res := RErr n; o_st := st0 |}
            | None => {| o_res := RPanic; o_st := st0 |}
            end
  | Some root =>
      match run_items ip_class ctx (sentinel_table (f_decls f)) root (f_items f) [] st0 with
      | inr o => o
      | inl s => {| o_res := if f_tail_ok f then (match s_errs s with [] => RNil | es => RReport es end) else RStuck;
                    o_st := s |}
      end
  end.

Definition background : nat -> option ctxerr := fun _ => None.    (* context.Background(): never done *)
