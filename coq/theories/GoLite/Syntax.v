(* GoLite: the fragment of Go that govalid emits (and plausible deviations from it),
   as a deep embedding. goliteparse (harness) translates generated files into these terms;
   Gen/Template.v produces them from a declaration. *)
From GV Require Import Base.Bytes Base.GoFloat.

Definition ident := bytes.

(* a numeric constant, as converted by the Go compiler to each type it may be compared with *)
Record numlit := { nl_int : option Z;     (* Some z when the constant is an integer *)
                   nl_f32 : Z;            (* bits of float32(c) *)
                   nl_f64 : Z }.          (* bits of float64(c) *)

Inductive operand :=
| OField (f : ident)              (* t.F *)
| OLen (f : ident)                (* len(t.F) *)
| ORuneCount (f : ident)          (* utf8.RuneCountInString(t.F) *)
| ONum (n : numlit)
| OStr (s : bytes)
| ONil
| OBool (b : bool)
| OZeroComplex.                   (* 0.0i *)

Inductive helper := HEmail | HURL | HUUID | HAlpha | HNumeric.

Inductive cond :=
| CCmp (op : cmpop) (a b : operand)
| CNot (c : cond)
| CAnd (a b : cond)
| COr (a b : cond)
| CHelper (h : helper) (f : ident)    (* validationhelper.IsValidX(t.F) *)
| CIp (want_v4 : bool) (f : ident)    (* ip := net.ParseIP(t.F); ip == nil || ip.To4() ==/!= nil *)
| CRaw (text : bytes).                (* anything else (CEL): opaque here *)

Inductive action :=
| ACopy (var : ident)                 (* err := ErrX *)
| ASetValue (f : ident)               (* err.Value = t.F *)
| ASetGlobalValue (var f : ident)     (* ErrX.Value = t.F  -- never emitted; representable so it can be caught *)
| AAppend.                            (* errs = append(errs, err) *)

Inductive item :=
| IPoll                               (* if ctx.Err() != nil { return ctx.Err() } *)
| IShadow (path : list ident)         (* t := t.A.B *)
| ICheck (c : cond) (acts : list action)
| IBlock (body : list item).

Inductive vdecl :=
| DAssert (iface : bytes) (tname : ident)        (* _ govalid.Validator = ( *T)(nil) *)
| DNil (name : ident)                            (* ErrNilT = errors.New(...) *)
| DSentinel (name : ident) (path ty : bytes)     (* ErrX = govaliderrors.ValidationError{Reason, Path, Type} *)
| DAlias (name target : ident).                  (* legacy name = new name *)

Record file := {
  f_type : ident;
  f_decls : list vdecl;
  f_nilguard : option ident;       (* if t == nil { return <ident> } *)
  f_items : list item;
  f_tail_ok : bool;                (* if len(errs) > 0 { return errs }; return nil *)
  f_wrappers_ok : bool             (* ValidateT, Validate, ValidateContext delegate as documented *)
}.

(* ---------- decidable equality (the validator of the per-run certificates) ---------- *)
Definition ident_eqb := bytes_eqb.

Definition optZ_eqb (a b : option Z) : bool :=
  match a, b with Some x, Some y => Z.eqb x y | None, None => true | _, _ => false end.

Definition numlit_eqb (a b : numlit) : bool :=
  optZ_eqb (nl_int a) (nl_int b) && Z.eqb (nl_f32 a) (nl_f32 b) && Z.eqb (nl_f64 a) (nl_f64 b).

Definition cmpop_eqb (a b : cmpop) : bool :=
  match a, b with
  | OpEq, OpEq | OpNe, OpNe | OpLt, OpLt | OpLe, OpLe | OpGt, OpGt | OpGe, OpGe => true
  | _, _ => false
  end.

Definition operand_eqb (a b : operand) : bool :=
  match a, b with
  | OField x, OField y | OLen x, OLen y | ORuneCount x, ORuneCount y => ident_eqb x y
  | ONum x, ONum y => numlit_eqb x y
  | OStr x, OStr y => bytes_eqb x y
  | ONil, ONil | OZeroComplex, OZeroComplex => true
  | OBool x, OBool y => Bool.eqb x y
  | _, _ => false
  end.

Definition helper_eqb (a b : helper) : bool :=
  match a, b with
  | HEmail, HEmail | HURL, HURL | HUUID, HUUID | HAlpha, HAlpha | HNumeric, HNumeric => true
  | _, _ => false
  end.

Fixpoint cond_eqb (a b : cond) : bool :=
  match a, b with
  | CCmp o x y, CCmp o' x' y' => cmpop_eqb o o' && operand_eqb x x' && operand_eqb y y'
  | CNot x, CNot y => cond_eqb x y
  | CAnd x y, CAnd x' y' | COr x y, COr x' y' => cond_eqb x x' && cond_eqb y y'
  | CHelper h f, CHelper h' f' => helper_eqb h h' && ident_eqb f f'
  | CIp v f, CIp v' f' => Bool.eqb v v' && ident_eqb f f'
  | CRaw t, CRaw t' => bytes_eqb t t'
  | _, _ => false
  end.

Definition action_eqb (a b : action) : bool :=
  match a, b with
  | ACopy x, ACopy y | ASetValue x, ASetValue y => ident_eqb x y
  | ASetGlobalValue x f, ASetGlobalValue y g => ident_eqb x y && ident_eqb f g
  | AAppend, AAppend => true
  | _, _ => false
  end.

Fixpoint list_eqb {A} (e : A -> A -> bool) (a b : list A) : bool :=
  match a, b with
  | [], [] => true
  | x :: a', y :: b' => e x y && list_eqb e a' b'
  | _, _ => false
  end.

Fixpoint item_eqb (a b : item) : bool :=
  match a, b with
  | IPoll, IPoll => true
  | IShadow p, IShadow q => list_eqb ident_eqb p q
  | ICheck c x, ICheck d y => cond_eqb c d && list_eqb action_eqb x y
  | IBlock x, IBlock y =>
      (fix go (x y : list item) : bool :=
         match x, y with
         | [], [] => true
         | i :: x', j :: y' => item_eqb i j && go x' y'
         | _, _ => false
         end) x y
  | _, _ => false
  end.

Definition vdecl_eqb (a b : vdecl) : bool :=
  match a, b with
  | DAssert i t, DAssert i' t' => bytes_eqb i i' && ident_eqb t t'
  | DNil n, DNil n' => ident_eqb n n'
  | DSentinel n p t, DSentinel n' p' t' => ident_eqb n n' && bytes_eqb p p' && bytes_eqb t t'
  | DAlias n t, DAlias n' t' => ident_eqb n n' && ident_eqb t t'
  | _, _ => false
  end.

Definition optid_eqb (a b : option ident) : bool :=
  match a, b with Some x, Some y => ident_eqb x y | None, None => true | _, _ => false end.

Definition file_eqb (a b : file) : bool :=
  ident_eqb (f_type a) (f_type b) && list_eqb vdecl_eqb (f_decls a) (f_decls b) &&
  optid_eqb (f_nilguard a) (f_nilguard b) && list_eqb item_eqb (f_items a) (f_items b) &&
  Bool.eqb (f_tail_ok a) (f_tail_ok b) && Bool.eqb (f_wrappers_ok a) (f_wrappers_ok b).

(* ---------- soundness of the equality test ---------- *)
Lemma list_eqb_eq {A} (e : A -> A -> bool) :
  (forall x y, e x y = true -> x = y) -> forall a b, list_eqb e a b = true -> a = b.
Proof.
  intros He. induction a as [|x a IH]; intros [|y b] H; simpl in H; try discriminate; [reflexivity|].
  apply andb_true_iff in H as [H1 H2]. f_equal; [apply He; exact H1 | apply IH; exact H2].
Qed.

Lemma ident_eqb_eq x y : ident_eqb x y = true -> x = y.
Proof. apply bytes_eqb_eq. Qed.

Lemma numlit_eqb_eq a b : numlit_eqb a b = true -> a = b.
Proof.
  destruct a as [i a32 a64], b as [j b32 b64]. unfold numlit_eqb. cbn.
  rewrite !andb_true_iff, !Z.eqb_eq. intros [[Hi ->] ->]. f_equal.
  destruct i, j; cbn in Hi; try discriminate; [apply Z.eqb_eq in Hi; congruence|reflexivity].
Qed.

Lemma cmpop_eqb_eq a b : cmpop_eqb a b = true -> a = b.
Proof. destruct a, b; cbn; congruence. Qed.

Lemma operand_eqb_eq a b : operand_eqb a b = true -> a = b.
Proof.
  destruct a, b; cbn; try discriminate; intro H; try reflexivity;
    try (apply ident_eqb_eq in H; congruence).
  - apply numlit_eqb_eq in H. congruence.
  - apply Bool.eqb_prop in H. congruence.
Qed.

Lemma helper_eqb_eq a b : helper_eqb a b = true -> a = b.
Proof. destruct a, b; cbn; congruence. Qed.

Lemma cond_eqb_eq a : forall b, cond_eqb a b = true -> a = b.
Proof.
  induction a; intros [] H; cbn in H; try discriminate.
  - rewrite !andb_true_iff in H. destruct H as [[H1 H2] H3].
    apply cmpop_eqb_eq in H1. apply operand_eqb_eq in H2, H3. congruence.
  - f_equal. auto.
  - apply andb_true_iff in H as [H1 H2]. f_equal; auto.
  - apply andb_true_iff in H as [H1 H2]. f_equal; auto.
  - apply andb_true_iff in H as [H1 H2]. apply helper_eqb_eq in H1. apply ident_eqb_eq in H2. congruence.
  - apply andb_true_iff in H as [H1 H2]. apply Bool.eqb_prop in H1. apply ident_eqb_eq in H2. congruence.
  - apply bytes_eqb_eq in H. congruence.
Qed.

Lemma action_eqb_eq a b : action_eqb a b = true -> a = b.
Proof.
  destruct a, b; cbn; try discriminate; intro H; try reflexivity;
    try (apply ident_eqb_eq in H; congruence).
  apply andb_true_iff in H as [H1 H2]. apply ident_eqb_eq in H1, H2. congruence.
Qed.

Fixpoint item_eqb_eq (a : item) : forall b, item_eqb a b = true -> a = b.
Proof.
  destruct a; intros [] H; cbn in H; try discriminate.
  - reflexivity.
  - f_equal. eapply list_eqb_eq; [apply ident_eqb_eq|exact H].
  - apply andb_true_iff in H as [H1 H2]. apply cond_eqb_eq in H1.
    apply (list_eqb_eq _ action_eqb_eq) in H2. congruence.
  - f_equal. revert body0 H. induction body as [|i x IH]; intros [|j y] H; try discriminate; [reflexivity|].
    apply andb_true_iff in H as [H1 H2]. f_equal; [apply item_eqb_eq; exact H1 | apply IH; exact H2].
Qed.

Lemma vdecl_eqb_eq a b : vdecl_eqb a b = true -> a = b.
Proof.
  destruct a, b; cbn; try discriminate; rewrite ?andb_true_iff; intro H.
  - destruct H as [H1 H2]. apply bytes_eqb_eq in H1. apply ident_eqb_eq in H2. congruence.
  - apply ident_eqb_eq in H. congruence.
  - destruct H as [[H1 H2] H3]. apply ident_eqb_eq in H1. apply bytes_eqb_eq in H2, H3. congruence.
  - destruct H as [H1 H2]. apply ident_eqb_eq in H1, H2. congruence.
Qed.

Theorem file_eqb_eq a b : file_eqb a b = true -> a = b.
Proof.
  destruct a, b. unfold file_eqb. cbn. rewrite !andb_true_iff.
  intros [[[[[H1 H2] H3] H4] H5] H6].
  apply ident_eqb_eq in H1. apply (list_eqb_eq _ vdecl_eqb_eq) in H2.
  apply (list_eqb_eq _ item_eqb_eq) in H4. apply Bool.eqb_prop in H5, H6.
  assert (f_nilguard0 = f_nilguard1).
  { destruct f_nilguard0, f_nilguard1; cbn in H3; try discriminate; [apply ident_eqb_eq in H3; congruence|reflexivity]. }
  congruence.
Qed.
