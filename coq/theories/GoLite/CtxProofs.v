(* The context contract, for ANY GoLite program (in particular for translated generated files):
   a run either returns what the second ctx.Err() call of some poll yields, or behaves exactly as
   with a context that is never done. *)
From GV Require Import Base.Bytes GoLite.Syntax GoLite.Sem.

Lemma run_action_calls tbl v a s s' : run_action tbl v a s = Some s' -> s_calls s' = s_calls s.
Proof.
  destruct a; unfold run_action;
    repeat match goal with |- context [match ?x with _ => _ end] => destruct x end;
    intro H; try discriminate; injection H as <-; reflexivity.
Qed.

Lemma run_actions_calls tbl v acts s s' : run_actions tbl v acts s = Some s' -> s_calls s' = s_calls s.
Proof.
  revert s. induction acts as [|a r IH]; intros s R; cbn [run_actions] in R.
  - injection R as <-. reflexivity.
  - destruct (run_action tbl v a s) as [s1|] eqn:A; [|discriminate].
    rewrite (IH _ R). eapply run_action_calls. exact A.
Qed.

Section Ctx.
  Variable ipc : bytes -> ipclass.
  Variable ctx : nat -> option ctxerr.
  Variable tbl : list (ident * (bytes * bytes)).

  Definition is_ctx_return (o : outcome) : Prop := exists k, o_res o = RCtx (ctx (S k)) /\ ctx k <> None /\ s_calls (o_st o) = S (S k).

  (* every ctx.Err() call of a run that fell through returned nil *)
  Definition quiet (a b : nat) : Prop := forall j, a <= j < b -> ctx j = None.

  Fixpoint item_contract (root : value) (i : item) (sh : list ident) (s : st) {struct i} :
    match run_item ipc ctx tbl root i sh s with
    | inr o => is_ctx_return o \/ run_item ipc background tbl root i sh s = inr o
    | inl (s', sh') => run_item ipc background tbl root i sh s = inl (s', sh') /\ s_calls s <= s_calls s' /\ quiet (s_calls s) (s_calls s')
    end.
  Proof.
    destruct i as [|p|c acts|body].
    - cbn [run_item]. destruct (ctx (s_calls s)) eqn:E.
      + left. exists (s_calls s). cbn. split; [reflexivity|]. split; [congruence|lia].
      + cbn. split; [reflexivity|]. split; [lia|]. intros j Hj. assert (j = s_calls s) by lia. subst. exact E.
    - cbn. split; [reflexivity|]. split; [lia|]. intros j Hj. lia.
    - cbn [run_item]. destruct (get_path root sh); [|right; reflexivity].
      destruct (eval_cond ipc v c) as [[|]| |].
      + destruct (run_actions tbl v acts s) as [s'|] eqn:R; [|right; reflexivity].
        cbn. split; [reflexivity|].
        pose proof (run_actions_calls tbl v acts s s' R) as C.
        rewrite C. split; [lia|]. intros j Hj. lia.
      + cbn. split; [reflexivity|]. split; [lia|]. intros j Hj. lia.
      + right. reflexivity.
      + right. reflexivity.
    - rewrite !run_block.
      assert (B : forall l sh0 s0,
                 match run_items ipc ctx tbl root l sh0 s0 with
                 | inr o => is_ctx_return o \/ run_items ipc background tbl root l sh0 s0 = inr o
                 | inl s' => run_items ipc background tbl root l sh0 s0 = inl s' /\ s_calls s0 <= s_calls s' /\ quiet (s_calls s0) (s_calls s')
                 end).
      { induction l as [|i r IH]; intros sh0 s0.
        - cbn. split; [reflexivity|]. split; [lia|]. intros j Hj. lia.
        - cbn [run_items]. pose proof (item_contract root i sh0 s0) as Hi.
          destruct (run_item ipc ctx tbl root i sh0 s0) as [[s1 sh1]|o].
          + destruct Hi as (E & L & Q). rewrite E. specialize (IH sh1 s1).
            destruct (run_items ipc ctx tbl root r sh1 s1) as [s2|o].
            * destruct IH as (E2 & L2 & Q2). split; [exact E2|]. split; [lia|].
              intros j Hj. destruct (Nat.lt_ge_cases j (s_calls s1)); [apply Q; lia|apply Q2; lia].
            * exact IH.
          + destruct Hi as [Hi|Hi]; [left; exact Hi|right; rewrite Hi; reflexivity]. }
      specialize (B body sh s).
      destruct (run_items ipc ctx tbl root body sh s) as [s'|o].
      + destruct B as (E & L & Q). rewrite E. auto.
      + destruct B as [B|B]; [left; exact B|right; rewrite B; reflexivity].
  Qed.

  Lemma items_contract root l sh s :
    match run_items ipc ctx tbl root l sh s with
    | inr o => is_ctx_return o \/ run_items ipc background tbl root l sh s = inr o
    | inl s' => run_items ipc background tbl root l sh s = inl s' /\ s_calls s <= s_calls s' /\ quiet (s_calls s) (s_calls s')
    end.
  Proof.
    revert sh s. induction l as [|i r IH]; intros sh s.
    - cbn. split; [reflexivity|]. split; [lia|]. intros j Hj. lia.
    - cbn [run_items]. pose proof (item_contract root i sh s) as Hi.
      destruct (run_item ipc ctx tbl root i sh s) as [[s1 sh1]|o].
      + destruct Hi as (E & L & Q). rewrite E. specialize (IH sh1 s1).
        destruct (run_items ipc ctx tbl root r sh1 s1) as [s2|o].
        * destruct IH as (E2 & L2 & Q2). split; [exact E2|]. split; [lia|].
          intros j Hj. destruct (Nat.lt_ge_cases j (s_calls s1)); [apply Q; lia|apply Q2; lia].
        * exact IH.
      + destruct Hi as [Hi|Hi]; [left; exact Hi|right; rewrite Hi; reflexivity].
  Qed.
End Ctx.

(* with a context that is never done, an early return can only be Stuck or Panic *)
Fixpoint background_item_early ipc tbl root (i : item) sh s o {struct i} :
  run_item ipc background tbl root i sh s = inr o -> o_res o = RStuck \/ o_res o = RPanic.
Proof.
  destruct i as [|p|c acts|body].
  - cbn. discriminate.
  - cbn. discriminate.
  - cbn [run_item]. destruct (get_path root sh); [|intro H; injection H as <-; auto].
    destruct (eval_cond ipc v c) as [[|]| |]; try (intro H; injection H as <-; auto); try discriminate.
    destruct (run_actions tbl v acts s); [discriminate|intro H; injection H as <-; auto].
  - rewrite run_block.
    assert (B : forall l sh0 s0 o0, run_items ipc background tbl root l sh0 s0 = inr o0 -> o_res o0 = RStuck \/ o_res o0 = RPanic).
    { induction l as [|i r IH]; intros sh0 s0 o0; [discriminate|]. cbn [run_items].
      destruct (run_item ipc background tbl root i sh0 s0) as [[s1 sh1]|o1] eqn:E.
      - apply IH.
      - intro H. injection H as <-. eapply background_item_early. exact E. }
    destruct (run_items ipc background tbl root body sh s) as [s'|o'] eqn:E; [discriminate|].
    intro H. injection H as <-. eapply B. exact E.
Qed.

Lemma background_items_early ipc tbl root l sh s o :
  run_items ipc background tbl root l sh s = inr o -> o_res o = RStuck \/ o_res o = RPanic.
Proof.
  revert sh s. induction l as [|i r IH]; intros sh s; [discriminate|]. cbn [run_items].
  destruct (run_item ipc background tbl root i sh s) as [[s1 sh1]|o1] eqn:E.
  - apply IH.
  - intro H. injection H as <-. eapply background_item_early. exact E.
Qed.

(* ValidateContext returns exactly what ctx.Err() returned when it observed the context done
   (the partial report is discarded); otherwise the outcome is identical to the run with
   context.Background(), and then every Err() call it made returned nil *)
Theorem ctx_contract ipc ctx f recv :
  let o := exec_file ipc ctx f recv in
  let b := exec_file ipc background f recv in
  (exists k, o_res o = RCtx (ctx (S k)) /\ ctx k <> None /\ s_calls (o_st o) = S (S k)) \/
  (o = b /\ forall j, j < s_calls (o_st b) -> ctx j = None) \/
  (o = b /\ (o_res b = RStuck \/ o_res b = RPanic)).
Proof.
  cbn zeta. unfold exec_file. destruct recv as [root|].
  - pose proof (items_contract ipc ctx (sentinel_table (f_decls f)) root (f_items f) [] st0) as H.
    destruct (run_items ipc ctx _ root (f_items f) [] st0) as [s|o].
    + destruct H as (E & _ & Q). rewrite E. right. left. split; [reflexivity|]. intros j Hj. apply Q. cbn in *. lia.
    + destruct H as [H|H]; [left; exact H|]. rewrite H.
      right. right. split; [reflexivity|]. eapply background_items_early. exact H.
  - destruct (f_nilguard f); right; left; (split; [reflexivity|]); cbn; intros j Hj; lia.
Qed.
