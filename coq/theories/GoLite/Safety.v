(* Safety facts about ANY GoLite program (so in particular about every translated generated file):
   no condition panics, and package-level sentinels are written only by an explicit ASetGlobalValue. *)
From GV Require Import Base.Bytes GoLite.Syntax GoLite.Sem.
From GV Require Import Helpers.UuidProofs Helpers.EmailProofs Helpers.UrlProofs.

Lemma helper_total' h s : exists b, helper_model h s = Ok b.
Proof.
  destruct h; cbn [helper_model].
  - apply IsValidEmail_total.
  - apply IsValidURL_total.
  - apply IsValidUUID_total.
  - eauto.
  - eauto.
Qed.

(* C17, conditions: evaluation yields a boolean or is ill-typed, never a panic *)
Theorem eval_cond_no_panic ipc cur c : eval_cond ipc cur c <> CPanic.
Proof.
  induction c; cbn [eval_cond].
  - destruct (eval_operand cur a), (eval_operand cur b); try discriminate. destruct (cmp_cv op c c0); discriminate.
  - destruct (eval_cond ipc cur c) as [[|]| |]; congruence.
  - destruct (eval_cond ipc cur c1) as [[|]| |], (eval_cond ipc cur c2) as [[|]| |]; congruence.
  - destruct (eval_cond ipc cur c1) as [[|]| |], (eval_cond ipc cur c2) as [[|]| |]; congruence.
  - destruct (get_path cur [f]) as [v|]; [destruct v|]; try discriminate.
    destruct (helper_total' h s) as [r Hr]. rewrite Hr. discriminate.
  - destruct (get_path cur [f]) as [v|]; [destruct v|]; discriminate.
  - discriminate.
Qed.

Fixpoint item_no_panic ipc ctx tbl root (i : item) sh s o {struct i} :
  run_item ipc ctx tbl root i sh s = inr o -> o_res o <> RPanic.
Proof.
  destruct i as [|p|c acts|body].
  - cbn [run_item]. destruct (ctx (s_calls s)); [|discriminate]. intro H. injection H as <-. discriminate.
  - cbn. discriminate.
  - cbn [run_item]. destruct (get_path root sh); [|intro H; injection H as <-; discriminate].
    pose proof (eval_cond_no_panic ipc v c) as N.
    destruct (eval_cond ipc v c) as [[|]| |]; try congruence; try discriminate.
    + destruct (run_actions tbl v acts s); [discriminate|intro H; injection H as <-; discriminate].
    + intro H; injection H as <-; discriminate.
  - rewrite run_block.
    assert (B : forall l sh0 s0 o0, run_items ipc ctx tbl root l sh0 s0 = inr o0 -> o_res o0 <> RPanic).
    { induction l as [|i r IH]; intros sh0 s0 o0; [discriminate|]. cbn [run_items].
      destruct (run_item ipc ctx tbl root i sh0 s0) as [[s1 sh1]|o1] eqn:E.
      - apply IH.
      - intro H. injection H as <-. eapply item_no_panic. exact E. }
    destruct (run_items ipc ctx tbl root body sh s) as [s'|o'] eqn:E; [discriminate|].
    intro H. injection H as <-. eapply B. exact E.
Qed.

Lemma items_no_panic ipc ctx tbl root l sh s o :
  run_items ipc ctx tbl root l sh s = inr o -> o_res o <> RPanic.
Proof.
  revert sh s. induction l as [|i r IH]; intros sh s; [discriminate|]. cbn [run_items].
  destruct (run_item ipc ctx tbl root i sh s) as [[s1 sh1]|o1] eqn:E.
  - apply IH.
  - intro H. injection H as <-. eapply item_no_panic. exact E.
Qed.

(* C17: a file with the nil guard never panics, whatever the receiver, the field values and the context *)
Theorem exec_no_panic ipc ctx f recv : f_nilguard f <> None -> o_res (exec_file ipc ctx f recv) <> RPanic.
Proof.
  intro G. unfold exec_file. destruct recv as [root|].
  - destruct (run_items ipc ctx _ root (f_items f) [] st0) as [s|o] eqn:E.
    + cbn. destruct (f_tail_ok f); [destruct (s_errs s)|]; discriminate.
    + eapply items_no_panic. exact E.
  - destruct (f_nilguard f); [discriminate|congruence].
Qed.

(* ---------- C16: writes to package-level state ---------- *)
Definition action_writes_global (a : action) : bool := match a with ASetGlobalValue _ _ => true | _ => false end.

Fixpoint item_writes_global (i : item) : bool :=
  match i with
  | ICheck _ acts => existsb action_writes_global acts
  | IBlock body => (fix go (l : list item) : bool := match l with [] => false | x :: r => item_writes_global x || go r end) body
  | _ => false
  end.

Definition file_writes_global (f : file) : bool := existsb item_writes_global (f_items f).

Lemma actions_keep_gw tbl v acts s s' :
  existsb action_writes_global acts = false -> run_actions tbl v acts s = Some s' -> s_gw s' = s_gw s.
Proof.
  revert s. induction acts as [|a r IH]; intros s W R; cbn [run_actions] in R; [injection R as <-; reflexivity|].
  cbn [existsb] in W. apply orb_false_iff in W as [Wa Wr].
  destruct (run_action tbl v a s) as [s1|] eqn:A; [|discriminate]. rewrite (IH _ Wr R).
  destruct a; try discriminate Wa; unfold run_action in A;
    repeat match type of A with context [match ?x with _ => _ end] => destruct x end; try discriminate; injection A as <-; reflexivity.
Qed.

Fixpoint item_keeps_gw ipc ctx tbl root (i : item) sh s {struct i} :
  item_writes_global i = false ->
  match run_item ipc ctx tbl root i sh s with
  | inl (s', _) => s_gw s' = s_gw s
  | inr o => s_gw (o_st o) = s_gw s
  end.
Proof.
  destruct i as [|p|c acts|body]; intro W.
  - cbn [run_item]. destruct (ctx (s_calls s)); reflexivity.
  - reflexivity.
  - cbn [run_item item_writes_global] in *. destruct (get_path root sh); [|reflexivity].
    destruct (eval_cond ipc v c) as [[|]| |]; try reflexivity.
    destruct (run_actions tbl v acts s) as [s'|] eqn:R; [|reflexivity]. cbn. eapply actions_keep_gw; eauto.
  - rewrite run_block. cbn [item_writes_global] in W.
    assert (B : forall l sh0 s0,
               (fix go (l : list item) : bool := match l with [] => false | x :: r => item_writes_global x || go r end) l = false ->
               match run_items ipc ctx tbl root l sh0 s0 with
               | inl s' => s_gw s' = s_gw s0
               | inr o => s_gw (o_st o) = s_gw s0
               end).
    { induction l as [|i r IH]; intros sh0 s0 Wl; [reflexivity|]. apply orb_false_iff in Wl as [Wi Wr]. cbn [run_items].
      pose proof (item_keeps_gw ipc ctx tbl root i sh0 s0 Wi) as Hi.
      destruct (run_item ipc ctx tbl root i sh0 s0) as [[s1 sh1]|o1]; [|exact Hi].
      specialize (IH sh1 s1 Wr). destruct (run_items ipc ctx tbl root r sh1 s1); congruence. }
    specialize (B body sh s W). destruct (run_items ipc ctx tbl root body sh s); exact B.
Qed.

(* a file without ASetGlobalValue leaves every package-level sentinel untouched, on every receiver,
   every context and every outcome; the receiver itself is not even in the state the program can write *)
Theorem exec_no_global_writes ipc ctx f recv :
  file_writes_global f = false -> s_gw (o_st (exec_file ipc ctx f recv)) = [].
Proof.
  intro W. unfold exec_file. destruct recv as [root|]; [|destruct (f_nilguard f); reflexivity].
  unfold file_writes_global in W.
  assert (B : forall l sh0 s0, existsb item_writes_global l = false ->
             match run_items ipc ctx (sentinel_table (f_decls f)) root l sh0 s0 with
             | inl s' => s_gw s' = s_gw s0
             | inr o => s_gw (o_st o) = s_gw s0
             end).
  { induction l as [|i r IH]; intros sh0 s0 Wl; [reflexivity|]. cbn [existsb] in Wl. apply orb_false_iff in Wl as [Wi Wr]. cbn [run_items].
    pose proof (item_keeps_gw ipc ctx (sentinel_table (f_decls f)) root i sh0 s0 Wi) as Hi.
    destruct (run_item ipc ctx _ root i sh0 s0) as [[s1 sh1]|o1]; [|exact Hi].
    specialize (IH sh1 s1 Wr). destruct (run_items ipc ctx _ root r sh1 s1); congruence. }
  specialize (B (f_items f) [] st0 W). destruct (run_items ipc ctx _ root (f_items f) [] st0); exact B.
Qed.
