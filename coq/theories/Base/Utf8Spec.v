(* What "the number of code points" means, independently of the decoder: RFC 3629 encoding of scalar
   values, and a greedy reading of arbitrary byte strings in which every byte that does not start a
   valid sequence counts as one.  Theorems: the decoder inverts the encoder, and rune_count computes
   exactly that count. *)
From GV Require Import Base.Bytes Base.Utf8.
From Coq Require Import ZifyN ZifyNat ZifyBool.
Ltac Zify.zify_post_hook ::= Z.div_mod_to_equations.
Local Open Scope N_scope.

Definition scalar (c : N) : Prop := c < 55296 \/ (57344 <= c /\ c <= 1114111).   (* not a surrogate, <= U+10FFFF *)

Definition nb (n : N) : byte := match Byte.of_N n with Some b => b | None => x00 end.

Lemma b2n_nb n : n < 256 -> b2n (nb n) = n.
Proof.
  intro H. unfold nb, b2n. destruct (Byte.of_N n) as [b|] eqn:E.
  - apply Byte.to_of_N. exact E.
  - apply Byte.of_N_None_iff in E. lia.
Qed.

Definition utf8_encode (c : N) : bytes :=
  if c <? 128 then [nb c]
  else if c <? 2048 then [nb (192 + c / 64); nb (128 + c mod 64)]
  else if c <? 65536 then [nb (224 + c / 4096); nb (128 + (c / 64) mod 64); nb (128 + c mod 64)]
  else [nb (240 + c / 262144); nb (128 + (c / 4096) mod 64); nb (128 + (c / 64) mod 64); nb (128 + c mod 64)].

Lemma encode_length c : (1 <= length (utf8_encode c) <= 4)%nat.
Proof. unfold utf8_encode. repeat match goal with |- context [if ?x then _ else _] => destruct x end; simpl; lia. Qed.

Theorem decode_encode c r : scalar c -> decode_rune (utf8_encode c ++ r) = (c, length (utf8_encode c)).
Proof.
  intro S. unfold utf8_encode.
  destruct (N.ltb_spec c 128) as [H1|H1].
  { cbn [app decode_rune length]. rewrite b2n_nb by lia. destruct (N.ltb_spec c 128); [reflexivity|lia]. }
  destruct (N.ltb_spec c 2048) as [H2|H2].
  { cbn [app decode_rune length]. rewrite b2n_nb by lia.
    destruct (N.ltb_spec (192 + c / 64) 128); [lia|]. destruct (N.ltb_spec (192 + c / 64) 194); [lia|].
    destruct (N.ltb_spec (192 + c / 64) 224); [|lia].
    unfold is_cont. rewrite b2n_nb by lia.
    destruct (N.leb_spec 128 (128 + c mod 64)); [|lia]. destruct (N.leb_spec (128 + c mod 64) 191); [|lia].
    cbn [andb]. f_equal. lia. }
  destruct (N.ltb_spec c 65536) as [H3|H3].
  { cbn [app decode_rune length]. rewrite b2n_nb by lia.
    destruct (N.ltb_spec (224 + c / 4096) 128); [lia|]. destruct (N.ltb_spec (224 + c / 4096) 194); [lia|].
    destruct (N.ltb_spec (224 + c / 4096) 224); [lia|]. destruct (N.ltb_spec (224 + c / 4096) 240); [|lia].
    unfold in_nrng, is_cont. rewrite !b2n_nb by lia.
    assert (A : (if 224 + c / 4096 =? 224 then 160 else 128) <= 128 + (c / 64) mod 64).
    { destruct (N.eqb_spec (224 + c / 4096) 224); lia. }
    assert (B : 128 + (c / 64) mod 64 <= (if 224 + c / 4096 =? 237 then 159 else 191)).
    { destruct (N.eqb_spec (224 + c / 4096) 237); [|lia]. destruct S as [S|S]; lia. }
    destruct (N.leb_spec (if 224 + c / 4096 =? 224 then 160 else 128) (128 + (c / 64) mod 64)); [|lia].
    destruct (N.leb_spec (128 + (c / 64) mod 64) (if 224 + c / 4096 =? 237 then 159 else 191)); [|lia].
    destruct (N.leb_spec 128 (128 + c mod 64)); [|lia]. destruct (N.leb_spec (128 + c mod 64) 191); [|lia].
    cbn [andb]. f_equal. lia. }
  assert (H4 : c <= 1114111) by (destruct S; lia).
  cbn [app decode_rune length]. rewrite b2n_nb by lia.
  destruct (N.ltb_spec (240 + c / 262144) 128); [lia|]. destruct (N.ltb_spec (240 + c / 262144) 194); [lia|].
  destruct (N.ltb_spec (240 + c / 262144) 224); [lia|]. destruct (N.ltb_spec (240 + c / 262144) 240); [lia|].
  destruct (N.ltb_spec (240 + c / 262144) 245); [|lia].
  unfold in_nrng, is_cont. rewrite !b2n_nb by lia.
  assert (A : (if 240 + c / 262144 =? 240 then 144 else 128) <= 128 + (c / 4096) mod 64).
  { destruct (N.eqb_spec (240 + c / 262144) 240); lia. }
  assert (B : 128 + (c / 4096) mod 64 <= (if 240 + c / 262144 =? 244 then 143 else 191)).
  { destruct (N.eqb_spec (240 + c / 262144) 244); lia. }
  destruct (N.leb_spec (if 240 + c / 262144 =? 240 then 144 else 128) (128 + (c / 4096) mod 64)); [|lia].
  destruct (N.leb_spec (128 + (c / 4096) mod 64) (if 240 + c / 262144 =? 244 then 143 else 191)); [|lia].
  destruct (N.leb_spec 128 (128 + (c / 64) mod 64)); [|lia]. destruct (N.leb_spec (128 + (c / 64) mod 64) 191); [|lia].
  destruct (N.leb_spec 128 (128 + c mod 64)); [|lia]. destruct (N.leb_spec (128 + c mod 64) 191); [|lia].
  cbn [andb]. f_equal. lia.
Qed.

Lemma nb_b2n b : nb (b2n b) = b.
Proof. unfold nb, b2n. rewrite Byte.of_to_N. reflexivity. Qed.

Lemma nb_eq n b : n = b2n b -> nb n = b.
Proof. intros ->. apply nb_b2n. Qed.

(* the decoder only ever accepts RFC 3629 encodings of scalar values *)
Theorem encode_decode s c w :
  decode_rune s = (c, w) ->
  (2 <= w)%nat \/ (w = 1%nat /\ exists p0 r, s = p0 :: r /\ b2n p0 < 128) ->
  scalar c /\ firstn w s = utf8_encode c.
Proof.
  destruct s as [|p0 r]; [cbn; intros H [Hw|(Hw & p & q & E & _)]; [injection H as _ <-; lia|discriminate E]|].
  unfold decode_rune. pose proof (b2n_bounded p0) as Bp.
  destruct (N.ltb_spec (b2n p0) 128) as [H1|H1].
  { intro H. injection H as <- <-. intros _. split; [left; lia|]. unfold utf8_encode.
    destruct (N.ltb_spec (b2n p0) 128); [|lia]. cbn. rewrite nb_b2n. reflexivity. }
  destruct (N.ltb_spec (b2n p0) 194) as [H2|H2].
  { intro H. injection H as <- <-. intros [Hw|(_ & p & q & E & Hp)]; [lia|]. injection E as <- <-. lia. }
  assert (NA : forall w0, (RuneError, 1%nat) = (c, w0) ->
               (2 <= w0)%nat \/ (w0 = 1%nat /\ exists (p : byte) (q : bytes), p0 :: r = p :: q /\ b2n p < 128) -> False).
  { intros w0 H [Hw|(_ & p & q & E & Hp)]; [injection H as _ <-; lia|]. injection E as <- <-. lia. }
  destruct (N.ltb_spec (b2n p0) 224) as [H3|H3].
  { destruct r as [|b1 r]; [let A := fresh in let B := fresh in (intros A B; exfalso; eapply NA; [exact A|exact B])|].
    unfold is_cont. pose proof (b2n_bounded b1) as B1.
    destruct (N.leb_spec 128 (b2n b1)); [|let A := fresh in let B := fresh in (intros A B; exfalso; eapply NA; [exact A|exact B])].
    destruct (N.leb_spec (b2n b1) 191); [|let A := fresh in let B := fresh in (intros A B; exfalso; eapply NA; [exact A|exact B])].
    cbn [andb]. intro HH. injection HH as <- <-. intros _.
    set (c := (b2n p0 - 192) * 64 + (b2n b1 - 128)).
    split; [left; lia|]. unfold utf8_encode.
    destruct (N.ltb_spec c 128); [lia|]. destruct (N.ltb_spec c 2048); [|lia].
    subst c. cbn [firstn]. f_equal; [symmetry; apply nb_eq; lia|]. f_equal. symmetry. apply nb_eq. lia. }
  destruct (N.ltb_spec (b2n p0) 240) as [H4|H4].
  { destruct r as [|b1 [|b2 r]]; try (let A := fresh in let B := fresh in (intros A B; exfalso; eapply NA; [exact A|exact B])).
    unfold in_nrng, is_cont. pose proof (b2n_bounded b1) as B1. pose proof (b2n_bounded b2) as B2.
    destruct (N.leb_spec (if b2n p0 =? 224 then 160 else 128) (b2n b1)) as [L1|L1]; [|let A := fresh in let B := fresh in (intros A B; exfalso; eapply NA; [exact A|exact B])].
    destruct (N.leb_spec (b2n b1) (if b2n p0 =? 237 then 159 else 191)) as [L2|L2]; [|let A := fresh in let B := fresh in (intros A B; exfalso; eapply NA; [exact A|exact B])].
    destruct (N.leb_spec 128 (b2n b2)); [|let A := fresh in let B := fresh in (intros A B; exfalso; eapply NA; [exact A|exact B])].
    destruct (N.leb_spec (b2n b2) 191); [|let A := fresh in let B := fresh in (intros A B; exfalso; eapply NA; [exact A|exact B])].
    cbn [andb]. intro HH. injection HH as <- <-. intros _.
    set (c := (b2n p0 - 224) * 4096 + (b2n b1 - 128) * 64 + (b2n b2 - 128)).
    assert (C1 : 2048 <= c) by (subst c; destruct (N.eqb_spec (b2n p0) 224), (N.eqb_spec (b2n p0) 237); lia).
    assert (C2 : c < 65536) by (subst c; destruct (N.eqb_spec (b2n p0) 224), (N.eqb_spec (b2n p0) 237); lia).
    assert (C3 : c < 55296 \/ 57344 <= c) by (subst c; destruct (N.eqb_spec (b2n p0) 224), (N.eqb_spec (b2n p0) 237); lia).
    split; [destruct C3; [left; lia|right; lia]|]. unfold utf8_encode.
    destruct (N.ltb_spec c 128); [lia|]. destruct (N.ltb_spec c 2048); [lia|]. destruct (N.ltb_spec c 65536); [|lia].
    subst c. destruct (N.eqb_spec (b2n p0) 224), (N.eqb_spec (b2n p0) 237);
      (cbn [firstn]; f_equal; [symmetry; apply nb_eq; lia|]; f_equal; [symmetry; apply nb_eq; lia|]; f_equal; symmetry; apply nb_eq; lia). }
  destruct (N.ltb_spec (b2n p0) 245) as [H5|H5]; [|let A := fresh in let B := fresh in (intros A B; exfalso; eapply NA; [exact A|exact B])].
  destruct r as [|b1 [|b2 [|b3 r]]]; try (let A := fresh in let B := fresh in (intros A B; exfalso; eapply NA; [exact A|exact B])).
  unfold in_nrng, is_cont. pose proof (b2n_bounded b1) as B1. pose proof (b2n_bounded b2) as B2. pose proof (b2n_bounded b3) as B3.
  destruct (N.leb_spec (if b2n p0 =? 240 then 144 else 128) (b2n b1)) as [L1|L1]; [|let A := fresh in let B := fresh in (intros A B; exfalso; eapply NA; [exact A|exact B])].
  destruct (N.leb_spec (b2n b1) (if b2n p0 =? 244 then 143 else 191)) as [L2|L2]; [|let A := fresh in let B := fresh in (intros A B; exfalso; eapply NA; [exact A|exact B])].
  destruct (N.leb_spec 128 (b2n b2)); [|let A := fresh in let B := fresh in (intros A B; exfalso; eapply NA; [exact A|exact B])].
  destruct (N.leb_spec (b2n b2) 191); [|let A := fresh in let B := fresh in (intros A B; exfalso; eapply NA; [exact A|exact B])].
  destruct (N.leb_spec 128 (b2n b3)); [|let A := fresh in let B := fresh in (intros A B; exfalso; eapply NA; [exact A|exact B])].
  destruct (N.leb_spec (b2n b3) 191); [|let A := fresh in let B := fresh in (intros A B; exfalso; eapply NA; [exact A|exact B])].
  cbn [andb]. intro HH. injection HH as <- <-. intros _.
  set (c := (b2n p0 - 240) * 262144 + (b2n b1 - 128) * 4096 + (b2n b2 - 128) * 64 + (b2n b3 - 128)).
  assert (C1 : 65536 <= c) by (subst c; destruct (N.eqb_spec (b2n p0) 240), (N.eqb_spec (b2n p0) 244); lia).
  assert (C2 : c <= 1114111) by (subst c; destruct (N.eqb_spec (b2n p0) 240), (N.eqb_spec (b2n p0) 244); lia).
  split; [right; lia|]. unfold utf8_encode.
  destruct (N.ltb_spec c 128); [lia|]. destruct (N.ltb_spec c 2048); [lia|]. destruct (N.ltb_spec c 65536); [lia|].
  subst c. destruct (N.eqb_spec (b2n p0) 240), (N.eqb_spec (b2n p0) 244);
    (cbn [firstn]; f_equal; [symmetry; apply nb_eq; lia|]; f_equal; [symmetry; apply nb_eq; lia|]; f_equal; [symmetry; apply nb_eq; lia|]; f_equal; symmetry; apply nb_eq; lia).
Qed.

(* ---------- the number of code points of an arbitrary byte string ---------- *)
Inductive cpcount : bytes -> nat -> Prop :=
| cc_nil : cpcount [] 0
| cc_valid c r n : scalar c -> cpcount r n -> cpcount (utf8_encode c ++ r) (S n)
| cc_invalid b r n :
    (forall c r', scalar c -> b :: r <> utf8_encode c ++ r') ->     (* b starts no valid sequence *)
    cpcount r n -> cpcount (b :: r) (S n).                            (* ... and counts as one *)

Local Close Scope N_scope.

Lemma runes_from_length_indep f f' pos pos' s :
  length s <= f -> length s <= f' -> length (runes_from f pos s) = length (runes_from f' pos' s).
Proof.
  revert f' pos pos' s. induction f as [|f IH]; intros f' pos pos' s H H'.
  - destruct s; [|simpl in H; lia]. destruct f'; reflexivity.
  - destruct s as [|b r]; [destruct f'; reflexivity|].
    destruct f' as [|f']; [simpl in H'; lia|]. cbn [runes_from].
    pose proof (decode_width_pos (b :: r) ltac:(congruence)) as W.
    destruct (decode_rune (b :: r)) as [c w]. cbn [snd] in W. cbn [length]. f_equal.
    apply IH; rewrite skipn_length; cbn [length] in *; lia.
Qed.

Lemma rune_count_step s c w : s <> [] -> decode_rune s = (c, w) -> rune_count s = S (rune_count (skipn w s)).
Proof.
  intros N D. unfold rune_count, runes_pos. destruct s as [|b r]; [congruence|].
  cbn [length runes_from]. rewrite D. cbn [length]. f_equal.
  pose proof (decode_width_pos (b :: r) ltac:(congruence)) as W. rewrite D in W. cbn [snd] in W.
  apply runes_from_length_indep; rewrite ?skipn_length; cbn [length] in *; lia.
Qed.

Lemma encode_nonempty c : utf8_encode c <> [].
Proof. pose proof (encode_length c). destruct (utf8_encode c); [simpl in *; lia|congruence]. Qed.

Lemma encode_length_one c : length (utf8_encode c) = 1 -> (c < 128)%N.
Proof.
  unfold utf8_encode. destruct (N.ltb_spec c 128); [auto|].
  destruct (c <? 2048)%N; [discriminate|]. destruct (c <? 65536)%N; discriminate.
Qed.

Lemma skipn_app_exact {A} (a b : list A) : skipn (length a) (a ++ b) = b.
Proof. induction a; [reflexivity|exact IHa]. Qed.

Theorem rune_count_valid c r : scalar c -> rune_count (utf8_encode c ++ r) = S (rune_count r).
Proof.
  intro S.
  assert (N : utf8_encode c ++ r <> []) by (pose proof (encode_nonempty c); destruct (utf8_encode c); [congruence|discriminate]).
  rewrite (rune_count_step _ _ _ N (decode_encode c r S)), skipn_app_exact. reflexivity.
Qed.

(* rune_count computes the specified count, and the count is unique *)
Theorem cpcount_rune_count s : cpcount s (rune_count s).
Proof.
  remember (length s) as n eqn:L. revert s L. induction n as [n IH] using lt_wf_ind. intros s L.
  destruct s as [|b r]; [apply cc_nil|].
  destruct (decode_rune (b :: r)) as [c w] eqn:D.
  pose proof (decode_width_pos (b :: r) ltac:(congruence)) as W. rewrite D in W. cbn [snd] in W.
  rewrite (rune_count_step (b :: r) c w ltac:(congruence) D).
  assert (IHs : cpcount (skipn w (b :: r)) (rune_count (skipn w (b :: r)))).
  { apply (IH (length (skipn w (b :: r)))); [rewrite skipn_length; subst n; cbn [length] in *; lia|reflexivity]. }
  destruct (Nat.le_gt_cases 2 w) as [W2|W2].
  - destruct (encode_decode _ _ _ D (or_introl W2)) as [Sc E].
    rewrite <- (firstn_skipn w (b :: r)) at 1. rewrite E. apply cc_valid; assumption.
  - assert (w = 1) by lia. subst w.
    destruct (N.ltb_spec (b2n b) 128) as [A|A].
    + destruct (encode_decode _ _ _ D (or_intror (conj eq_refl (ex_intro _ b (ex_intro _ r (conj eq_refl A)))))) as [Sc E].
      rewrite <- (firstn_skipn 1 (b :: r)) at 1. rewrite E. apply cc_valid; assumption.
    + apply cc_invalid; [|exact IHs].
      intros c' r' Sc' E. pose proof (decode_encode c' r' Sc') as D'. rewrite <- E, D in D'. injection D' as -> L1.
      symmetry in L1. apply encode_length_one in L1.
      unfold utf8_encode in E. destruct (N.ltb_spec c' 128); [|lia]. cbn in E. injection E as -> _. rewrite b2n_nb in A by lia. lia.
Qed.

Theorem cpcount_unique s n : cpcount s n -> n = rune_count s.
Proof.
  induction 1 as [|c r n Sc _ IH|b r n Hb _ IH].
  - reflexivity.
  - rewrite rune_count_valid by exact Sc. congruence.
  - destruct (decode_rune (b :: r)) as [c w] eqn:D.
    pose proof (decode_width_pos (b :: r) ltac:(congruence)) as W. rewrite D in W. cbn [snd] in W.
    rewrite (rune_count_step (b :: r) c w ltac:(congruence) D).
    assert (w = 1).
    { destruct (Nat.le_gt_cases 2 w) as [W2|W2]; [|lia]. exfalso.
      destruct (encode_decode _ _ _ D (or_introl W2)) as [Sc E].
      apply (Hb c (skipn w (b :: r)) Sc). rewrite <- E. symmetry. apply firstn_skipn. }
    subst w. cbn [skipn]. congruence.
Qed.

(* corollaries used by C03 *)
Corollary rune_count_valid_text (cs : list N) : Forall scalar cs -> rune_count (concat (map utf8_encode cs)) = length cs.
Proof.
  induction 1 as [|c cs Sc _ IH]; [reflexivity|]. cbn [map concat length]. rewrite rune_count_valid by exact Sc. congruence.
Qed.

Corollary rune_count_le_length s : rune_count s <= length s.
Proof.
  pose proof (cpcount_rune_count s) as H. induction H as [|c r n Sc _ IH|b r n _ _ IH]; [lia| |simpl; lia].
  rewrite app_length. pose proof (encode_length c). lia.
Qed.
