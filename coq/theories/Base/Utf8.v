(* Go's view of a string as a sequence of runes: utf8.DecodeRuneInString / range-over-string /
   utf8.RuneCountInString.  Invalid or truncated sequences yield RuneError (U+FFFD), width 1. *)
From GV Require Import Base.Bytes.
From Coq Require Import ZifyN ZifyNat ZifyBool.
Local Open Scope N_scope.

Definition RuneError : N := 65533.   (* 0xFFFD *)

Definition is_cont (b : byte) : bool := (128 <=? b2n b) && (b2n b <=? 191).   (* 0x80..0xBF *)
Definition in_nrng (lo hi : N) (b : byte) : bool := (lo <=? b2n b) && (b2n b <=? hi).

(* (rune, width); width 0 only for the empty string *)
Definition decode_rune (s : bytes) : N * nat :=
  match s with
  | [] => (RuneError, 0%nat)
  | p0 :: r =>
      let n0 := b2n p0 in
      if n0 <? 128 then (n0, 1%nat)
      else if n0 <? 194 then (RuneError, 1%nat)                  (* 0x80..0xC1: never a lead byte *)
      else if n0 <? 224 then                                      (* 0xC2..0xDF: 2 bytes *)
        match r with
        | b1 :: _ => if is_cont b1 then ((n0 - 192) * 64 + (b2n b1 - 128), 2%nat) else (RuneError, 1%nat)
        | _ => (RuneError, 1%nat)
        end
      else if n0 <? 240 then                                      (* 0xE0..0xEF: 3 bytes *)
        match r with
        | b1 :: b2 :: _ =>
            let lo := if n0 =? 224 then 160 else 128 in           (* E0: A0..BF *)
            let hi := if n0 =? 237 then 159 else 191 in           (* ED: 80..9F (no surrogates) *)
            if in_nrng lo hi b1 && is_cont b2
            then ((n0 - 224) * 4096 + (b2n b1 - 128) * 64 + (b2n b2 - 128), 3%nat)
            else (RuneError, 1%nat)
        | _ => (RuneError, 1%nat)
        end
      else if n0 <? 245 then                                      (* 0xF0..0xF4: 4 bytes *)
        match r with
        | b1 :: b2 :: b3 :: _ =>
            let lo := if n0 =? 240 then 144 else 128 in           (* F0: 90..BF *)
            let hi := if n0 =? 244 then 143 else 191 in           (* F4: 80..8F *)
            if in_nrng lo hi b1 && is_cont b2 && is_cont b3
            then ((n0 - 240) * 262144 + (b2n b1 - 128) * 4096 + (b2n b2 - 128) * 64 + (b2n b3 - 128), 4%nat)
            else (RuneError, 1%nat)
        | _ => (RuneError, 1%nat)
        end
      else (RuneError, 1%nat)                                     (* 0xF5..0xFF *)
  end.

(* for i, c := range s  ==>  the list of (byte index, rune) *)
Fixpoint runes_from (fuel : nat) (pos : nat) (s : bytes) : list (nat * N) :=
  match fuel with
  | O => []
  | S f =>
      match s with
      | [] => []
      | _ => let '(r, w) := decode_rune s in (pos, r) :: runes_from f (w + pos)%nat (skipn w s)
      end
  end.

Definition runes_pos (s : bytes) : list (nat * N) := runes_from (length s) 0 s.
Definition runes (s : bytes) : list N := map snd (runes_pos s).
Definition rune_count (s : bytes) : nat := length (runes_pos s).   (* utf8.RuneCountInString *)

(* ---------- basic facts ---------- *)
Lemma decode_width_pos s : s <> [] -> (1 <= snd (decode_rune s) <= length s)%nat.
Proof.
  destruct s as [|p0 r]; [congruence|]. intros _. unfold decode_rune.
  repeat match goal with
         | |- context [if ?c then _ else _] => destruct c
         | |- context [match ?l with [] => _ | _ :: _ => _ end] => destruct l
         end; simpl; lia.
Qed.

(* a non-ASCII first byte never yields an ASCII rune *)
Lemma decode_nonascii p0 r : 128 <= b2n p0 -> 128 <= fst (decode_rune (p0 :: r)).
Proof.
  intro H. unfold decode_rune.
  destruct (b2n p0 <? 128) eqn:E0; [lia|].
  destruct (b2n p0 <? 194) eqn:E1; [simpl; unfold RuneError; lia|].
  destruct (b2n p0 <? 224) eqn:E2.
  { destruct r as [|b1 r]; [simpl; unfold RuneError; lia|].
    unfold is_cont. destruct ((128 <=? b2n b1) && (b2n b1 <=? 191)) eqn:C; simpl; unfold RuneError; lia. }
  destruct (b2n p0 <? 240) eqn:E3.
  { destruct r as [|b1 [|b2 r]]; try (simpl; unfold RuneError; lia).
    unfold in_nrng, is_cont.
    destruct (b2n p0 =? 224) eqn:E224; destruct (b2n p0 =? 237) eqn:E237;
      match goal with |- context [if ?c then _ else _] => destruct c eqn:C end;
      simpl; unfold RuneError; lia. }
  destruct (b2n p0 <? 245) eqn:E4.
  { destruct r as [|b1 [|b2 [|b3 r]]]; try (simpl; unfold RuneError; lia).
    unfold in_nrng, is_cont.
    destruct (b2n p0 =? 240) eqn:E240; destruct (b2n p0 =? 244) eqn:E244;
      match goal with |- context [if ?c then _ else _] => destruct c eqn:C end;
      simpl; unfold RuneError; lia. }
  simpl; unfold RuneError; lia.
Qed.

Lemma decode_ascii p0 r : b2n p0 < 128 -> decode_rune (p0 :: r) = (b2n p0, 1%nat).
Proof. intro H. unfold decode_rune. destruct (b2n p0 <? 128) eqn:E; [reflexivity|lia]. Qed.

(* every byte skipped inside a multi-byte rune is a non-ASCII byte *)
Lemma decode_skipped_nonascii s :
  forall i b, (1 <= i < snd (decode_rune s))%nat -> nth_error s i = Some b -> 128 <= b2n b.
Proof.
  destruct s as [|p0 r]; [simpl; intros; lia|].
  unfold decode_rune.
  destruct (b2n p0 <? 128) eqn:E0; [simpl; intros; lia|].
  destruct (b2n p0 <? 194) eqn:E1; [simpl; intros; lia|].
  destruct (b2n p0 <? 224) eqn:E2.
  { destruct r as [|b1 r]; [simpl; intros; lia|].
    destruct (is_cont b1) eqn:C; [|simpl; intros; lia].
    simpl. intros i b Hi Hn. assert (i = 1%nat) by lia. subst. simpl in Hn. injection Hn as <-.
    unfold is_cont in C. lia. }
  destruct (b2n p0 <? 240) eqn:E3.
  { destruct r as [|b1 [|b2 r]]; try (simpl; intros; lia).
    destruct (in_nrng _ _ b1 && is_cont b2) eqn:C; [|simpl; intros; lia].
    simpl. intros i b Hi Hn.
    apply andb_true_iff in C as [C1 C2]. unfold in_nrng in C1. unfold is_cont in C2.
    destruct i as [|[|[|i]]]; try lia; simpl in Hn; injection Hn as <-.
    - destruct (b2n p0 =? 224); lia.
    - lia. }
  destruct (b2n p0 <? 245) eqn:E4.
  { destruct r as [|b1 [|b2 [|b3 r]]]; try (simpl; intros; lia).
    destruct (in_nrng _ _ b1 && is_cont b2 && is_cont b3) eqn:C; [|simpl; intros; lia].
    simpl. intros i b Hi Hn.
    apply andb_true_iff in C as [C12 C3]. apply andb_true_iff in C12 as [C1 C2].
    unfold in_nrng in C1. unfold is_cont in C2, C3.
    destruct i as [|[|[|[|i]]]]; try lia; simpl in Hn; injection Hn as <-.
    - destruct (b2n p0 =? 240); lia.
    - lia.
    - lia. }
  simpl; intros; lia.
Qed.

(* ---------- range-over-string with an ASCII-only predicate = loop over bytes ---------- *)
(* p is "ASCII-only" when it rejects every rune >= 0x80 (RuneError included) *)
Definition ascii_only (p : N -> bool) : Prop := forall r, 128 <= r -> p r = false.

Lemma forallb_runes_from (p : N -> bool) : ascii_only p ->
  forall f pos s, (length s <= f)%nat ->
  forallb (fun x => p (snd x)) (runes_from f pos s) = forallb (fun b => p (b2n b)) s.
Proof.
  intros Hp. induction f as [|f IH]; intros pos s Hl.
  - destruct s; [reflexivity|simpl in Hl; lia].
  - destruct s as [|p0 r]; [reflexivity|].
    cbn [runes_from].
    destruct (b2n p0 <? 128) eqn:E.
    + rewrite decode_ascii by lia. cbn [forallb snd skipn]. f_equal. apply IH. simpl in Hl. lia.
    + pose proof (decode_nonascii p0 r ltac:(lia)) as Hr.
      destruct (decode_rune (p0 :: r)) as [c w] eqn:D. cbn [fst] in Hr.
      cbn [forallb snd]. rewrite (Hp c Hr), (Hp (b2n p0)) by lia. reflexivity.
Qed.

Lemma forallb_runes (p : N -> bool) : ascii_only p ->
  forall s, forallb p (runes s) = forallb (fun b => p (b2n b)) s.
Proof.
  intros Hp s. unfold runes, runes_pos.
  rewrite <- (forallb_runes_from p Hp (length s) 0%nat s) by lia.
  induction (runes_from (length s) 0 s) as [|x l IHl]; [reflexivity|]. simpl. rewrite IHl. reflexivity.
Qed.

(* positions at which an ASCII-only predicate holds: by runes = by bytes *)
Fixpoint byte_hits (q : N -> bool) (pos : nat) (s : bytes) : list nat :=
  match s with
  | [] => []
  | b :: r => if q (b2n b) then pos :: byte_hits q (S pos) r else byte_hits q (S pos) r
  end.

Lemma byte_hits_skip q (w : nat) : forall pos (s : bytes),
  (w <= length s)%nat ->
  (forall i b, (i < w)%nat -> nth_error s i = Some b -> q (b2n b) = false) ->
  byte_hits q pos s = byte_hits q (w + pos) (skipn w s).
Proof.
  induction w as [|w IH]; intros pos s Hl H.
  - reflexivity.
  - destruct s as [|b r]; [simpl in Hl; lia|].
    cbn [byte_hits skipn]. rewrite (H 0%nat b) by (simpl; auto; lia).
    replace (S w + pos)%nat with (w + S pos)%nat by lia.
    apply IH; [simpl in Hl; lia|]. intros i b' Hi Hn. apply (H (S i) b'); [lia|exact Hn].
Qed.

Lemma rune_hits (q : N -> bool) : ascii_only q ->
  forall f pos s, (length s <= f)%nat ->
  map fst (filter (fun x => q (snd x)) (runes_from f pos s)) = byte_hits q pos s.
Proof.
  intros Hq. induction f as [|f IH]; intros pos s Hl.
  - destruct s; [reflexivity|simpl in Hl; lia].
  - destruct s as [|p0 r]; [reflexivity|].
    cbn [runes_from].
    destruct (b2n p0 <? 128) eqn:E.
    + rewrite decode_ascii by lia. cbn [filter snd skipn byte_hits].
      replace (1 + pos)%nat with (S pos) by lia.
      destruct (q (b2n p0)); cbn [map fst]; [f_equal|]; apply IH; simpl in Hl; lia.
    + pose proof (decode_nonascii p0 r ltac:(lia)) as Hr.
      pose proof (decode_width_pos (p0 :: r) ltac:(congruence)) as Hw.
      pose proof (decode_skipped_nonascii (p0 :: r)) as Hs.
      destruct (decode_rune (p0 :: r)) as [c w] eqn:D. cbn [fst snd] in *.
      cbn [filter snd]. rewrite (Hq c Hr).
      rewrite IH by (rewrite skipn_length; lia).
      symmetry. apply byte_hits_skip; [lia|].
      intros i b Hi Hn. apply Hq. destruct i as [|i].
      * simpl in Hn. injection Hn as <-. lia.
      * apply (Hs (S i) b); [lia|exact Hn].
Qed.
