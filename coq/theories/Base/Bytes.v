(* Go strings as lists of bytes; the result monad with an explicit Panic;
   finite sweeps over the 256 byte values. No proofs about govalid here. *)
From Coq Require Export List NArith ZArith Bool Arith Lia.
From Coq Require Export Strings.Byte.
Export ListNotations.

Definition bytes := list byte.

Definition b2n (b : byte) : N := Byte.to_N b.

(* ---------- result of running a piece of Go: a value, or a run-time panic ---------- *)
Inductive res (A : Type) : Type :=
| Ok (a : A)
| Panic.
Arguments Ok {A} a.
Arguments Panic {A}.

Definition bind {A B} (r : res A) (f : A -> res B) : res B :=
  match r with Ok a => f a | Panic => Panic end.
Notation "x <- e1 ;; e2" := (bind e1 (fun x => e2))
  (at level 61, e1 at next level, right associativity).

(* s[i] : panics when out of range, like Go *)
Definition idx (s : bytes) (i : nat) : res byte :=
  match nth_error s i with Some b => Ok b | None => Panic end.

(* Go's short-circuit && and || on computations that may panic *)
Definition andr (a : res bool) (b : res bool) : res bool :=
  x <- a ;; if x then b else Ok false.
Definition orr (a : res bool) (b : res bool) : res bool :=
  x <- a ;; if x then Ok true else b.

(* ---------- byte comparisons ---------- *)
Definition beq (a b : byte) : bool := Byte.eqb a b.
Definition ble (a b : byte) : bool := N.leb (b2n a) (b2n b).
Definition blt (a b : byte) : bool := N.ltb (b2n a) (b2n b).
Definition in_rng (lo hi c : byte) : bool := ble lo c && ble c hi.

Lemma beq_eq a b : beq a b = true <-> a = b.
Proof.
  unfold beq; split; intro H.
  - apply Byte.byte_dec_bl; exact H.
  - apply Byte.byte_dec_lb; exact H.
Qed.

Lemma beq_refl a : beq a a = true.
Proof. apply beq_eq; reflexivity. Qed.

Lemma beq_neq a b : beq a b = false <-> a <> b.
Proof.
  split; intro H.
  - intro E. apply beq_eq in E. congruence.
  - destruct (beq a b) eqn:E; [apply beq_eq in E; contradiction | reflexivity].
Qed.

Lemma b2n_inj a b : b2n a = b2n b -> a = b.
Proof.
  unfold b2n; intro H.
  pose proof (Byte.of_to_N a) as Ha. pose proof (Byte.of_to_N b) as Hb.
  rewrite H in Ha. congruence.
Qed.

Lemma b2n_bounded b : (b2n b <= 255)%N.
Proof. apply Byte.to_N_bounded. Qed.

(* ---------- byte-string equality ---------- *)
Fixpoint bytes_eqb (a b : bytes) : bool :=
  match a, b with
  | [], [] => true
  | x :: a', y :: b' => beq x y && bytes_eqb a' b'
  | _, _ => false
  end.

Lemma bytes_eqb_eq a b : bytes_eqb a b = true <-> a = b.
Proof.
  revert b; induction a as [|x a IH]; intros [|y b]; simpl; split; intro H;
    try reflexivity; try discriminate.
  - apply andb_true_iff in H as [H1 H2]. apply beq_eq in H1. apply IH in H2. congruence.
  - inversion H; subst. rewrite beq_refl. simpl. apply IH. reflexivity.
Qed.

Lemma bytes_eqb_refl a : bytes_eqb a a = true.
Proof. apply bytes_eqb_eq; reflexivity. Qed.

Lemma bytes_eqb_neq a b : bytes_eqb a b = false <-> a <> b.
Proof.
  split; intro H.
  - intro E. apply bytes_eqb_eq in E. congruence.
  - destruct (bytes_eqb a b) eqn:E; [apply bytes_eqb_eq in E; contradiction | reflexivity].
Qed.

(* ---------- the 256 bytes, and sweeps over them ---------- *)
Definition all_bytes : list byte :=
  flat_map (fun n => match Byte.of_N (N.of_nat n) with Some b => [b] | None => [] end)
           (seq 0 256).

Lemma all_bytes_complete_b (b : byte) : existsb (beq b) all_bytes = true.
Proof. destruct b; vm_compute; reflexivity. Qed.

Lemma all_bytes_complete (b : byte) : In b all_bytes.
Proof.
  pose proof (all_bytes_complete_b b) as H.
  apply existsb_exists in H as [x [Hin Hx]]. apply beq_eq in Hx. subst. exact Hin.
Qed.

Lemma byte_sweep (P : byte -> bool) :
  forallb P all_bytes = true -> forall b, P b = true.
Proof.
  intros H b. rewrite forallb_forall in H. apply H. apply all_bytes_complete.
Qed.

Lemma byte_sweep2 (P : byte -> byte -> bool) :
  forallb (fun a => forallb (P a) all_bytes) all_bytes = true -> forall a b, P a b = true.
Proof.
  intros H a b.
  pose proof (byte_sweep _ H a) as Ha. cbv beta in Ha.
  exact (byte_sweep _ Ha b).
Qed.

(* ---------- ASCII constants used by the recognizers ---------- *)
Local Open Scope byte_scope.
Definition c_hyphen : byte := "-".
Definition c_dot : byte := ".".
Definition c_at : byte := "@".
Definition c_colon : byte := ":".
Definition c_slash : byte := "/".
Definition c_space : byte := " ".
Definition c_0 : byte := "0".
Definition c_1 : byte := "1".
Definition c_5 : byte := "5".
Definition c_8 : byte := "8".
Definition c_9 : byte := "9".
Definition c_a : byte := "a".
Definition c_b : byte := "b".
Definition c_f : byte := "f".
Definition c_z : byte := "z".
Definition c_A : byte := "A".
Definition c_B : byte := "B".
Definition c_F : byte := "F".
Definition c_Z : byte := "Z".
Definition c_lbrack : byte := "[".
Definition c_plus : byte := "+".
Definition c_del : byte := x7f.
Local Close Scope byte_scope.

Definition is_digit (c : byte) : bool := in_rng c_0 c_9 c.
Definition is_lower (c : byte) : bool := in_rng c_a c_z c.
Definition is_upper (c : byte) : bool := in_rng c_A c_Z c.
Definition is_letter (c : byte) : bool := is_lower c || is_upper c.
Definition is_alnum (c : byte) : bool := is_letter c || is_digit c.

(* ---------- small list helpers ---------- *)
Definition last_byte (s : bytes) : res byte :=
  match s with [] => Panic | _ => idx s (length s - 1) end.

Lemma idx_lt s i : i < length s -> exists b, idx s i = Ok b /\ nth_error s i = Some b.
Proof.
  intro H. unfold idx. destruct (nth_error s i) eqn:E.
  - eauto.
  - apply nth_error_None in E. lia.
Qed.

Lemma idx_ge s i : length s <= i -> idx s i = Panic.
Proof.
  intro H. unfold idx. destruct (nth_error s i) eqn:E; [|reflexivity].
  assert (nth_error s i <> None) as N by congruence. apply nth_error_Some in N. lia.
Qed.

(* ---------- byte-string literals ---------- *)
From Coq Require Strings.String.
Export Coq.Strings.String.StringSyntax.
Delimit Scope string_scope with string.
Bind Scope string_scope with String.string.
Definition bs (s : String.string) : bytes := String.list_byte_of_string s.

Lemma forallb_eq {A} (f g : A -> bool) l : (forall x, f x = g x) -> forallb f l = forallb g l.
Proof. intro H. induction l as [|x l IH]; simpl; [reflexivity|]. rewrite H, IH. reflexivity. Qed.

Lemma existsb_eq {A} (f g : A -> bool) l : (forall x, f x = g x) -> existsb f l = existsb g l.
Proof. intro H. induction l as [|x l IH]; simpl; [reflexivity|]. rewrite H, IH. reflexivity. Qed.

Lemma nth_error_last (a : byte) (s : bytes) : nth_error (a :: s) (length s) = Some (last (a :: s) x00).
Proof.
  revert a. induction s as [|b s IH]; intro a; [reflexivity|].
  cbn [length nth_error]. rewrite IH. reflexivity.
Qed.

Lemma idx_last (s : bytes) : s <> [] -> idx s (length s - 1) = Ok (last s x00).
Proof.
  destruct s as [|a s]; [congruence|]. intros _.
  cbn [length]. rewrite Nat.sub_succ, Nat.sub_0_r. unfold idx. rewrite nth_error_last. reflexivity.
Qed.

Lemma idx_0 (a : byte) (s : bytes) : idx (a :: s) 0 = Ok a.
Proof. reflexivity. Qed.

Lemma last_indep {A} (l : list A) d d' : l <> [] -> last l d = last l d'.
Proof.
  induction l as [|a l IH]; [congruence|]. intros _. destruct l as [|b l]; [reflexivity|].
  change (last (a :: b :: l) d) with (last (b :: l) d). change (last (a :: b :: l) d') with (last (b :: l) d').
  apply IH. congruence.
Qed.

Lemma Ok_inj {A} (a b : A) : Ok a = Ok b -> a = b.
Proof. congruence. Qed.
