(* What trim_space (the model of strings.TrimSpace, Base/StrOps.v) removes: a maximal run of blank runes of
   unicode.IsSpace at each end, given by their UTF-8 encodings, and nothing else. *)
From Coq Require Import List NArith Lia Bool.
From GV Require Import Base.Bytes Base.StrOps.
Import ListNotations.

(* one blank rune, as its encoding *)
Inductive blank_rune : bytes -> Prop :=
| br1 : forall c, is_space c = true -> blank_rune [c]
| br2 : forall a b, space2 (b2n a) (b2n b) = true -> blank_rune [a; b]
| br3 : forall a b c, space3 (b2n a) (b2n b) (b2n c) = true -> blank_rune [a; b; c].

Inductive blanks : bytes -> Prop :=
| bl_nil : blanks []
| bl_cons : forall r s, blank_rune r -> blanks s -> blanks (r ++ s).

Definition starts_blank (s : bytes) : Prop := exists r t, blank_rune r /\ s = r ++ t.
Definition ends_blank (s : bytes) : Prop := exists t r, blank_rune r /\ s = t ++ r.

Lemma blanks_app : forall a b, blanks a -> blanks b -> blanks (a ++ b).
Proof.
  intros a b Ha Hb. induction Ha as [|r s Hr Hs IH]; [exact Hb|].
  rewrite <- app_assoc. constructor; assumption.
Qed.

Lemma blanks_one : forall r, blank_rune r -> blanks r.
Proof. intros r Hr. rewrite <- (app_nil_r r). constructor; [exact Hr|constructor]. Qed.

Lemma starts_blank_inv : forall s, starts_blank s ->
  match s with
  | x :: r => is_space x = true \/
      match r with
      | y :: r2 => space2 (b2n x) (b2n y) = true \/
          match r2 with z :: _ => space3 (b2n x) (b2n y) (b2n z) = true | [] => False end
      | [] => False
      end
  | [] => False
  end.
Proof.
  intros s (r & t & Hr & E). subst s. destruct Hr as [c Hc|a b Hab|a b c Habc]; cbn [app].
  - left. exact Hc.
  - right. left. exact Hab.
  - right. right. exact Habc.
Qed.

Lemma starts_blank_app : forall a b, starts_blank a -> starts_blank (a ++ b).
Proof. intros a b (r & t & Hr & E). subst a. exists r, (t ++ b). split; [exact Hr|]. rewrite app_assoc. reflexivity. Qed.

Lemma trim_left_spec_n : forall n s, length s <= n ->
  exists l, s = l ++ trim_left_space s /\ blanks l /\ ~ starts_blank (trim_left_space s).
Proof.
  induction n as [|n IH]; intros s Hn.
  - destruct s as [|x r]; [|cbn [length] in Hn; lia].
    exists []. split; [reflexivity|]. split; [constructor|]. intros H. apply starts_blank_inv in H. exact H.
  - destruct s as [|x r].
    { exists []. split; [reflexivity|]. split; [constructor|]. intros H. apply starts_blank_inv in H. exact H. }
    cbn [length] in Hn. cbn [trim_left_space]. destruct (is_space x) eqn:S1.
    { destruct (IH r) as (l & E & Bl & Ns); [lia|]. exists (x :: l). split; [cbn [app]; f_equal; exact E|].
      split; [|exact Ns]. change (x :: l) with ([x] ++ l). constructor; [apply br1; exact S1|exact Bl]. }
    destruct r as [|y r2].
    { exists []. split; [reflexivity|]. split; [constructor|]. intros H. apply starts_blank_inv in H.
      destruct H as [H|H]; [congruence|exact H]. }
    cbn [length] in Hn. destruct (space2 (b2n x) (b2n y)) eqn:S2.
    { destruct (IH r2) as (l & E & Bl & Ns); [lia|]. exists (x :: y :: l). split; [cbn [app]; do 2 f_equal; exact E|].
      split; [|exact Ns]. change (x :: y :: l) with ([x; y] ++ l). constructor; [apply br2; exact S2|exact Bl]. }
    destruct r2 as [|z r3].
    { exists []. split; [reflexivity|]. split; [constructor|]. intros H. apply starts_blank_inv in H.
      destruct H as [H|[H|H]]; [congruence|congruence|exact H]. }
    cbn [length] in Hn. destruct (space3 (b2n x) (b2n y) (b2n z)) eqn:S3.
    { destruct (IH r3) as (l & E & Bl & Ns); [lia|]. exists (x :: y :: z :: l). split; [cbn [app]; do 3 f_equal; exact E|].
      split; [|exact Ns]. change (x :: y :: z :: l) with ([x; y; z] ++ l). constructor; [apply br3; exact S3|exact Bl]. }
    exists []. split; [reflexivity|]. split; [constructor|]. intros H. apply starts_blank_inv in H.
    destruct H as [H|[H|H]]; congruence.
Qed.

Theorem trim_left_spec : forall s,
  exists l, s = l ++ trim_left_space s /\ blanks l /\ ~ starts_blank (trim_left_space s).
Proof. intros s. apply (trim_left_spec_n (length s)). lia. Qed.

(* the mirrored function on the reversed string *)
Definition rstarts_blank (s : bytes) : Prop := exists r t, blank_rune (rev r) /\ s = r ++ t.

Lemma rstarts_blank_inv : forall s, rstarts_blank s ->
  match s with
  | x :: r => is_space x = true \/
      match r with
      | y :: r2 => space2 (b2n y) (b2n x) = true \/
          match r2 with z :: _ => space3 (b2n z) (b2n y) (b2n x) = true | [] => False end
      | [] => False
      end
  | [] => False
  end.
Proof.
  intros s (r & t & Hr & E). subst s. remember (rev r) as q eqn:Q. destruct Hr as [c Hc|a b Hab|a b c Habc];
    apply (f_equal (@rev byte)) in Q; rewrite rev_involutive in Q; subst r; cbn.
  - left. exact Hc.
  - right. left. exact Hab.
  - right. right. exact Habc.
Qed.

Lemma trim_left_rev_spec_n : forall n s, length s <= n ->
  exists l, s = l ++ trim_left_space_rev s /\ blanks (rev l) /\ ~ rstarts_blank (trim_left_space_rev s).
Proof.
  induction n as [|n IH]; intros s Hn.
  - destruct s as [|x r]; [|cbn [length] in Hn; lia].
    exists []. split; [reflexivity|]. split; [constructor|]. intros H. apply rstarts_blank_inv in H. exact H.
  - destruct s as [|x r].
    { exists []. split; [reflexivity|]. split; [constructor|]. intros H. apply rstarts_blank_inv in H. exact H. }
    cbn [length] in Hn. cbn [trim_left_space_rev]. destruct (is_space x) eqn:S1.
    { destruct (IH r) as (l & E & Bl & Ns); [lia|]. exists (x :: l). split; [cbn [app]; f_equal; exact E|].
      split; [|exact Ns]. cbn [rev]. apply blanks_app; [exact Bl|]. apply blanks_one. apply br1. exact S1. }
    destruct r as [|y r2].
    { exists []. split; [reflexivity|]. split; [constructor|]. intros H. apply rstarts_blank_inv in H.
      destruct H as [H|H]; [congruence|exact H]. }
    cbn [length] in Hn. destruct (space2 (b2n y) (b2n x)) eqn:S2.
    { destruct (IH r2) as (l & E & Bl & Ns); [lia|]. exists (x :: y :: l). split; [cbn [app]; do 2 f_equal; exact E|].
      split; [|exact Ns]. cbn [rev]. rewrite <- app_assoc. apply blanks_app; [exact Bl|]. apply blanks_one. cbn [app]. apply br2. exact S2. }
    destruct r2 as [|z r3].
    { exists []. split; [reflexivity|]. split; [constructor|]. intros H. apply rstarts_blank_inv in H.
      destruct H as [H|[H|H]]; [congruence|congruence|exact H]. }
    cbn [length] in Hn. destruct (space3 (b2n z) (b2n y) (b2n x)) eqn:S3.
    { destruct (IH r3) as (l & E & Bl & Ns); [lia|]. exists (x :: y :: z :: l). split; [cbn [app]; do 3 f_equal; exact E|].
      split; [|exact Ns]. cbn [rev]. rewrite <- !app_assoc. apply blanks_app; [exact Bl|]. apply blanks_one. cbn [app]. apply br3. exact S3. }
    exists []. split; [reflexivity|]. split; [constructor|]. intros H. apply rstarts_blank_inv in H.
    destruct H as [H|[H|H]]; congruence.
Qed.

Lemma ends_blank_rev : forall u, ends_blank (rev u) -> rstarts_blank u.
Proof.
  intros u (t & r & Hr & E). exists (rev r), (rev t). split; [rewrite rev_involutive; exact Hr|].
  apply (f_equal (@rev byte)) in E. rewrite rev_involutive, rev_app_distr in E. exact E.
Qed.

(* strings.TrimSpace: s = (blank runes) ++ trim_space s ++ (blank runes), and what is left neither starts nor ends with a blank rune *)
Theorem trim_space_spec : forall s,
  exists l r, s = l ++ trim_space s ++ r /\ blanks l /\ blanks r /\
              ~ starts_blank (trim_space s) /\ ~ ends_blank (trim_space s).
Proof.
  intros s. destruct (trim_left_spec s) as (l & El & Bl & Nl).
  destruct (trim_left_rev_spec_n (length (rev (trim_left_space s))) (rev (trim_left_space s))) as (l' & Er & Br & Nr); [lia|].
  unfold trim_space. set (t := trim_left_space s) in *. set (u := trim_left_space_rev (rev t)) in *.
  assert (Et : t = rev u ++ rev l').
  { apply (f_equal (@rev byte)) in Er. rewrite rev_involutive, rev_app_distr in Er. exact Er. }
  exists l, (rev l'). split; [rewrite <- Et; exact El|]. split; [exact Bl|]. split; [exact Br|]. split.
  - intros H. apply Nl. rewrite Et. apply starts_blank_app. exact H.
  - intros H. apply Nr. apply ends_blank_rev. exact H.
Qed.

(* nothing is removed from a string that has no blank rune at either end *)
Lemma trim_left_fix : forall s, ~ starts_blank s -> trim_left_space s = s.
Proof.
  intros s H. destruct s as [|x r]; [reflexivity|]. cbn [trim_left_space].
  destruct (is_space x) eqn:S1. { exfalso. apply H. exists [x], r. split; [apply br1; exact S1|reflexivity]. }
  destruct r as [|y r2]; [reflexivity|]. destruct (space2 (b2n x) (b2n y)) eqn:S2.
  { exfalso. apply H. exists [x; y], r2. split; [apply br2; exact S2|reflexivity]. }
  destruct r2 as [|z r3]; [reflexivity|]. destruct (space3 (b2n x) (b2n y) (b2n z)) eqn:S3; [|reflexivity].
  exfalso. apply H. exists [x; y; z], r3. split; [apply br3; exact S3|reflexivity].
Qed.

Lemma trim_left_rev_fix : forall s, ~ rstarts_blank s -> trim_left_space_rev s = s.
Proof.
  intros s H. destruct s as [|x r]; [reflexivity|]. cbn [trim_left_space_rev].
  destruct (is_space x) eqn:S1. { exfalso. apply H. exists [x], r. split; [apply br1; exact S1|reflexivity]. }
  destruct r as [|y r2]; [reflexivity|]. destruct (space2 (b2n y) (b2n x)) eqn:S2.
  { exfalso. apply H. exists [x; y], r2. split; [apply br2; exact S2|reflexivity]. }
  destruct r2 as [|z r3]; [reflexivity|]. destruct (space3 (b2n z) (b2n y) (b2n x)) eqn:S3; [|reflexivity].
  exfalso. apply H. exists [x; y; z], r3. split; [apply br3; exact S3|reflexivity].
Qed.

Lemma rstarts_blank_rev : forall s, rstarts_blank (rev s) -> ends_blank s.
Proof.
  intros s (r & t & Hr & E). exists (rev t), (rev r). split; [exact Hr|].
  apply (f_equal (@rev byte)) in E. rewrite rev_involutive, rev_app_distr in E. exact E.
Qed.

Theorem trim_space_fix : forall s, ~ starts_blank s -> ~ ends_blank s -> trim_space s = s.
Proof.
  intros s H1 H2. unfold trim_space. rewrite (trim_left_fix s H1).
  rewrite trim_left_rev_fix; [apply rev_involutive|]. intros H. apply H2. apply rstarts_blank_rev. exact H.
Qed.

Theorem trim_space_idem : forall s, trim_space (trim_space s) = trim_space s.
Proof.
  intros s. destruct (trim_space_spec s) as (l & r & _ & _ & _ & N1 & N2). apply trim_space_fix; assumption.
Qed.
