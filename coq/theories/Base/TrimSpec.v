(* What trim_space (the model of strings.TrimSpace, Base/StrOps.v) removes: a maximal run of blank runes of
   unicode.IsSpace at each end, given by their UTF-8 encodings, and nothing else. *)
From Coq Require Import List NArith Lia Bool.
From GV Require Import Base.Bytes Base.StrOps.
Import ListNotations.

(* one blank rune, as its encoding *)
Inductive blank_rune : bytes -> Prop :=
| br1 : forall c, is_space c = true -> blank_rune [c]
| br2 : forall a b, space2 (b2n a) (b2n b) = true -> blank_rune [a; b]
| br3 : forall a b c, space3 (b2n a) (b2n b) (b2n c) = true -> blank_rune [a; b; c].

Inductive blanks : bytes -> Prop :=
| bl_nil : blanks []
| bl_cons : forall r s, blank_rune r -> blanks s -> blanks (r ++ s).

Definition starts_blank (s : bytes) : Prop := exists r t, blank_rune r /\ s = r ++ t.
Definition ends_blank (s : bytes) : Prop := exists t r, blank_rune r /\ s = t ++ r.

Lemma blanks_app : forall a b, blanks a -> blanks b -> blanks (a ++ b).
Proof.
  intros a b Ha Hb. induction Ha as [|r s Hr Hs IH]; [exact Hb|].
  rewrite <- app_assoc. constructor; assumption.
Qed.

Lemma blanks_one : forall r, blank_rune r -> blanks r.
Proof. intros r Hr. rewrite <- (app_nil_r r). constructor; [exact Hr|constructor]. Qed.

Lemma starts_blank_inv : forall s, starts_blank s ->
  match s with
  | x :: r => is_space x = true \/
      match r with
      | y :: r2 => space2 (b2n x) (b2n y) = true \/
          match r2 with z :: _ => space3 (b2n x) (b2n y) (b2n z) = true | [] => False end
      | [] => False
      end
  | [] => False
  end.
Proof.
  intros s (r & t & Hr & E). subst s. destruct Hr as [c Hc|a b Hab|a b c Habc]; cbn [app].
  - left. exact Hc.
  - right. left. exact Hab.
  - right. right. exact Habc.
Qed.

Lemma starts_blank_app : forall a b, starts_blank a -> starts_blank (a ++ b).
Proof. intros a b (r & t & Hr & E). subst a. exists r, (t ++ b). split; [exact Hr|]. rewrite app_assoc. reflexivity. Qed.

Lemma trim_left_spec_n : forall n s, length s <= n ->
  exists l, s = l ++ trim_left_space s /\ blanks l /\ ~ starts_blank (trim_left_space s).
Proof.
  induction n as [|n IH]; intros s Hn.
  - destruct s as [|x r]; [|cbn [length] in Hn; lia].
    exists []. split; [reflexivity|]. split; [constructor|]. intros H. apply starts_blank_inv in H. exact H.
  - destruct s as [|x r].
    { exists []. split; [reflexivity|]. split; [constructor|]. intros H. apply starts_blank_inv in H. exact H. }
    cbn [length] in Hn. cbn [trim_left_space]. destruct (is_space x) eqn:S1.
    { destruct (IH r) as (l & E & Bl & Ns); [lia|]. exists (x :: l). split; [cbn [app]; f_equal; exact E|].
      split; [|exact Ns]. change (x :: l) with ([x] ++ l). constructor; [apply br1; exact S1|exact Bl]. }
    destruct r as [|y r2].
    { exists []. split; [reflexivity|]. split; [constructor|]. intros H. apply starts_blank_inv in H.
      destruct H as [H|H]; [congruence|exact H]. }
    cbn [length] in Hn. destruct (space2 (b2n x) (b2n y)) eqn:S2.
    { destruct (IH r2) as (l & E & Bl & Ns); [lia|]. exists (x :: y :: l). split; [cbn [app]; do 2 f_equal; exact E|].
      split; [|exact Ns]. change (x :: y :: l) with ([x; y] ++ l). constructor; [apply br2; exact S2|exact Bl]. }
    destruct r2 as [|z r3].
    { exists []. split; [reflexivity|]. split; [constructor|]. intros H. apply starts_blank_inv in H.
      destruct H as [H|[H|H]]; [congruence|congruence|exact H]. }
    cbn [length] in Hn. destruct (space3 (b2n x) (b2n y) (b2n z)) eqn:S3.
    { destruct (IH r3) as (l & E & Bl & Ns); [lia|]. exists (x :: y :: z :: l). split; [cbn [app]; do 3 f_equal; exact E|].
      split; [|exact Ns]. change (x :: y :: z :: l) with ([x; y; z] ++ l). constructor; [apply br3; exact S3|exact Bl]. }
    exists []. split; [reflexivity|]. split; [constructor|]. intros H. apply starts_blank_inv in H.
    destruct H as [H|[H|H]]; congruence.
Qed.

Theorem trim_left_spec : forall s,
  exists l, s = l ++ trim_left_space s /\ blanks l /\ ~ starts_blank (trim_left_space s).
Proof. intros s. apply (trim_left_spec_n (length s)). lia. Qed.

(* the mirrored function on the reversed string *)
Definition rstarts_blank (s : bytes) : Prop := exists r t, blank_rune (rev r) /\ s = r ++ t.

Lemma rstarts_blank_inv : forall s, rstarts_blank s ->
  match s with
  | x :: r => is_space x = true \/
      match r with
      | y :: r2 => space2 (b2n y) (b2n x) = true \/
          match r2 with z :: _ => space3 (b2n z) (b2n y) (b2n x) = true | [] => False end
      | [] => False
      end
  | [] => False
  end.
Proof.
  intros s (r & t & Hr & E). subst s. remember (rev r) as q eqn:Q. destruct Hr as [c Hc|a b Hab|a b c Habc];
    apply (f_equal (@rev byte)) in Q; rewrite rev_involutive in Q; subst r; cbn.
  - left. exact Hc.
  - right. left. exact Hab.
  - right. right. exact Habc.
Qed.

Lemma trim_left_rev_spec_n : forall n s, length s <= n ->
  exists l, s = l ++ trim_left_space_rev s /\ blanks (rev l) /\ ~ rstarts_blank (trim_left_space_rev s).
Proof.
  induction n as [|n IH]; intros s Hn.
  - destruct s as [|x r]; [|cbn [length] in Hn; lia].
    exists []. split; [reflexivity|]. split; [constructor|]. intros H. apply rstarts_blank_inv in H. exact H.
  - destruct s as [|x r].
    { exists []. split; [reflexivity|]. split; [constructor|]. intros H. apply rstarts_blank_inv in H. exact H. }
    cbn [length] in Hn. cbn [trim_left_space_rev]. destruct (is_space x) eqn:S1.
    { destruct (IH r) as (l & E & Bl & Ns); [lia|]. exists (x :: l). split; [cbn [app]; f_equal; exact E|].
      split; [|exact Ns]. cbn [rev]. apply blanks_app; [exact Bl|]. apply blanks_one. apply br1. exact S1. }
    destruct r as [|y r2].
    { exists []. split; [reflexivity|]. split; [constructor|]. intros H. apply rstarts_blank_inv in H.
      destruct H as [H|H]; [congruence|exact H]. }
    cbn [length] in Hn. destruct (space2 (b2n y) (b2n x)) eqn:S2.
    { destruct (IH r2) as (l & E & Bl & Ns); [lia|]. exists (x :: y :: l). split; [cbn [app]; do 2 f_equal; exact E|].
      split; [|exact Ns]. cbn [rev]. rewrite <- app_assoc. apply blanks_app; [exact Bl|]. apply blanks_one. cbn [app]. apply br2. exact S2. }
    destruct r2 as [|z r3].
    { exists []. split; [reflexivity|]. split; [constructor|]. intros H. apply rstarts_blank_inv in H.
      destruct H as [H|[H|H]]; [congruence|congruence|exact H]. }
    cbn [length] in Hn. destruct (space3 (b2n z) (b2n y) (b2n x)) eqn:S3.
    { destruct (IH r3) as (l & E & Bl & Ns); [lia|]. exists (x :: y :: z :: l). split; [cbn [app]; do 3 f_equal; exact E|].
      split; [|exact Ns]. cbn [rev]. rewrite <- !app_assoc. apply blanks_app; [exact Bl|]. apply blanks_one. cbn [app]. apply br3. exact S3. }
    exists []. split; [reflexivity|]. split; [constructor|]. intros H. apply rstarts_blank_inv in H.
    destruct H as [H|[H|H]]; congruence.
Qed.

Lemma ends_blank_rev : forall u, ends_blank (rev u) -> rstarts_blank u.
Proof.
  intros u (t & r & Hr & E). exists (rev r), (rev t). split; [rewrite rev_involutive; exact Hr|].
  apply (f_equal (@rev byte)) in E. rewrite rev_involutive, rev_app_distr in E. exact E.
Qed.

(* strings.TrimSpace: s = (blank runes) ++ trim_space s ++ (blank runes), and what is left neither starts nor ends with a blank rune *)
Theorem trim_space_spec : forall s,
  exists l r, s = l ++ trim_space s ++ r /\ blanks l /\ blanks r /\
              ~ starts_blank (trim_space s) /\ ~ ends_blank (trim_space s).
Proof.
  intros s. destruct (trim_left_spec s) as (l & El & Bl & Nl).
  destruct (trim_left_rev_spec_n (length (rev (trim_left_space s))) (rev (trim_left_space s))) as (l' & Er & Br & Nr); [lia|].
  unfold trim_space. set (t := trim_left_space s) in *. set (u := trim_left_space_rev (rev t)) in *.
  assert (Et : t = rev u ++ rev l').
  { apply (f_equal (@rev byte)) in Er. rewrite rev_involutive, rev_app_distr in Er. exact Er. }
  exists l, (rev l'). split; [rewrite <- Et; exact El|]. split; [exact Bl|]. split; [exact Br|]. split.
  - intros H. apply Nl. rewrite Et. apply starts_blank_app. exact H.
  - intros H. apply Nr. apply ends_blank_rev. exact H.
Qed.

(* nothing is removed from a string that has no blank rune at either end *)
Lemma trim_left_fix : forall s, ~ starts_blank s -> trim_left_space s = s.
Proof.
  intros s H. destruct s as [|x r]; [reflexivity|]. cbn [trim_left_space].
  destruct (is_space x) eqn:S1. { exfalso. apply H. exists [x], r. split; [apply br1; exact S1|reflexivity]. }
  destruct r as [|y r2]; [reflexivity|]. destruct (space2 (b2n x) (b2n y)) eqn:S2.
  { exfalso. apply H. exists [x; y], r2. split; [apply br2; exact S2|reflexivity]. }
  destruct r2 as [|z r3]; [reflexivity|]. destruct (space3 (b2n x) (b2n y) (b2n z)) eqn:S3; [|reflexivity].
  exfalso. apply H. exists [x; y; z], r3. split; [apply br3; exact S3|reflexivity].
Qed.

Lemma trim_left_rev_fix : forall s, ~ rstarts_blank s -> trim_left_space_rev s = s.
Proof.
  intros s H. destruct s as [|x r]; [reflexivity|]. cbn [trim_left_space_rev].
  destruct (is_space x) eqn:S1. { exfalso. apply H. exists [x], r. split; [apply br1; exact S1|reflexivity]. }
  destruct r as [|y r2]; [reflexivity|]. destruct (space2 (b2n y) (b2n x)) eqn:S2.
  { exfalso. apply H. exists [x; y], r2. split; [apply br2; exact S2|reflexivity]. }
  destruct r2 as [|z r3]; [reflexivity|]. destruct (space3 (b2n z) (b2n y) (b2n x)) eqn:S3; [|reflexivity].
  exfalso. apply H. exists [x; y; z], r3. split; [apply br3; exact S3|reflexivity].
Qed.

Lemma rstarts_blank_rev : forall s, rstarts_blank (rev s) -> ends_blank s.
Proof.
  intros s (r & t & Hr & E). exists (rev t), (rev r). split; [exact Hr|].
  apply (f_equal (@rev byte)) in E. rewrite rev_involutive, rev_app_distr in E. exact E.
Qed.

Theorem trim_space_fix : forall s, ~ starts_blank s -> ~ ends_blank s -> trim_space s = s.
Proof.
  intros s H1 H2. unfold trim_space. rewrite (trim_left_fix s H1).
  rewrite trim_left_rev_fix; [apply rev_involutive|]. intros H. apply H2. apply rstarts_blank_rev. exact H.
Qed.

Theorem trim_space_idem : forall s, trim_space (trim_space s) = trim_space s.
Proof.
  intros s. destruct (trim_space_spec s) as (l & r & _ & _ & _ & N1 & N2). apply trim_space_fix; assumption.
Qed.

(* ---------- the decomposition is unique: the blank runes form a prefix-free code whose non-initial bytes never start a rune ---------- *)

(* first bytes of blank runes *)
Definition start_byte (c : byte) : bool :=
  is_space c || N.eqb (b2n c) 194 || N.eqb (b2n c) 225 || N.eqb (b2n c) 226 || N.eqb (b2n c) 227.

Lemma blank_rune_start : forall r, blank_rune r -> match r with c :: _ => start_byte c = true | [] => False end.
Proof.
  intros r H. destruct H as [c Hc|a b Hab|a b c Habc]; unfold start_byte.
  - rewrite Hc. reflexivity.
  - unfold space2 in Hab. apply andb_prop in Hab. destruct Hab as [Ha _]. rewrite Ha. rewrite !orb_true_r. reflexivity.
  - unfold space3 in Habc. repeat (apply orb_prop in Habc; destruct Habc as [Habc|Habc]);
      repeat (apply andb_prop in Habc; destruct Habc as [Habc ?]); rewrite Habc; rewrite ?orb_true_r; reflexivity.
Qed.

Lemma blanks_start : forall s, blanks s -> match s with c :: _ => start_byte c = true | [] => True end.
Proof.
  intros s H. destruct H as [|r s Hr Hs]; [exact I|]. apply blank_rune_start in Hr. destruct r as [|c r]; [contradiction|]. exact Hr.
Qed.

(* non-initial bytes of blank runes are not start bytes *)
Lemma space2_tail : forall a b, space2 (b2n a) (b2n b) = true -> start_byte b = false.
Proof.
  intros a b H. unfold space2 in H. apply andb_prop in H. destruct H as [_ H]. unfold start_byte, is_space.
  apply orb_prop in H. destruct H as [H|H]; apply N.eqb_eq in H; destruct b; vm_compute in H; try discriminate H; reflexivity.
Qed.

Lemma space3_tail : forall a b c, space3 (b2n a) (b2n b) (b2n c) = true -> start_byte b = false /\ start_byte c = false.
Proof.
  intros a b c H. unfold space3 in H.
  assert (Hb : N.eqb (b2n b) 154 || N.eqb (b2n b) 128 || N.eqb (b2n b) 129 = true).
  { repeat (apply orb_prop in H; destruct H as [H|H]); repeat (apply andb_prop in H; destruct H as [H ?]);
      match goal with E : N.eqb (b2n b) _ = true |- _ => rewrite E end; rewrite ?orb_true_r; reflexivity. }
  assert (Hc : N.leb 128 (b2n c) && N.leb (b2n c) 175 = true).
  { repeat (apply orb_prop in H; destruct H as [H|H]); repeat (apply andb_prop in H; destruct H as [H ?]);
      repeat match goal with E : _ || _ = true |- _ => apply orb_prop in E; destruct E as [E|E] end;
      repeat match goal with E : _ && _ = true |- _ => apply andb_prop in E; destruct E as [E ?] end;
      repeat match goal with E : N.eqb _ _ = true |- _ => apply N.eqb_eq in E end;
      repeat match goal with E : N.leb _ _ = true |- _ => apply N.leb_le in E end;
      apply andb_true_intro; split; apply N.leb_le; lia. }
  split.
  - destruct b; vm_compute in Hb; try discriminate Hb; reflexivity.
  - destruct c; vm_compute in Hc; try discriminate Hc; reflexivity.
Qed.

Lemma is_space_not_lead : forall a, is_space a = true ->
  N.eqb (b2n a) 194 = false /\ N.eqb (b2n a) 225 = false /\ N.eqb (b2n a) 226 = false /\ N.eqb (b2n a) 227 = false.
Proof. intros a H. destruct a; vm_compute in H; try discriminate H; vm_compute; auto. Qed.

Lemma space2_lead : forall a b, space2 a b = true -> N.eqb a 194 = true.
Proof. intros a b H. unfold space2 in H. apply andb_prop in H. tauto. Qed.

Lemma space3_lead : forall a b c, space3 a b c = true -> N.eqb a 225 || N.eqb a 226 || N.eqb a 227 = true.
Proof.
  intros a b c H. unfold space3 in H. repeat (apply orb_prop in H; destruct H as [H|H]); repeat (apply andb_prop in H; destruct H as [H ?]);
    rewrite H; rewrite ?orb_true_r; reflexivity.
Qed.

(* prefix-free *)
Lemma blank_rune_prefix_free : forall w w' p q, blank_rune w -> blank_rune w' -> w ++ p = w' ++ q -> w = w'.
Proof.
  intros w w' p q Hw Hw' E.
  destruct Hw as [c Hc|a b Hab|a b c Habc]; destruct Hw' as [c' Hc'|a' b' Hab'|a' b' c' Habc']; cbn [app] in E;
    try (injection E as -> E); try (injection E as -> E); try (injection E as -> E); try (subst; reflexivity).
  - apply is_space_not_lead in Hc. apply space2_lead in Hab'. destruct Hc as (H1 & _). congruence.
  - apply is_space_not_lead in Hc. apply space3_lead in Habc'. destruct Hc as (_ & H1 & H2 & H3). rewrite H1, H2, H3 in Habc'. discriminate.
  - apply is_space_not_lead in Hc'. apply space2_lead in Hab. destruct Hc' as (H1 & _). congruence.
  - apply space2_lead in Hab. apply space3_lead in Habc'. apply N.eqb_eq in Hab. rewrite Hab in Habc'. vm_compute in Habc'. discriminate.
  - apply is_space_not_lead in Hc'. apply space3_lead in Habc. destruct Hc' as (_ & H1 & H2 & H3). rewrite H1, H2, H3 in Habc. discriminate.
  - apply space2_lead in Hab'. apply space3_lead in Habc. apply N.eqb_eq in Hab'. rewrite Hab' in Habc. vm_compute in Habc. discriminate.
Qed.

Lemma blanks_prefix_align : forall a, blanks a -> forall b x y, blanks b -> a ++ x = b ++ y ->
  (exists c, blanks c /\ b = a ++ c) \/ (exists c, blanks c /\ a = b ++ c).
Proof.
  intros a Ha. induction Ha as [|w a0 Hw Ha0 IH]; intros b x y Hb E.
  - left. exists b. split; [exact Hb|reflexivity].
  - destruct Hb as [|w' b0 Hw' Hb0].
    + right. exists (w ++ a0). split; [constructor; assumption|reflexivity].
    + rewrite <- !app_assoc in E. assert (W : w = w') by (eapply blank_rune_prefix_free; eassumption). subst w'.
      apply app_inv_head in E. destruct (IH b0 x y Hb0 E) as [(c & Hc & Ec)|(c & Hc & Ec)].
      * left. exists c. split; [exact Hc|]. rewrite Ec, app_assoc. reflexivity.
      * right. exists c. split; [exact Hc|]. rewrite Ec, app_assoc. reflexivity.
Qed.

(* what follows a run of blank runes inside a run of blank runes is a run of blank runes *)
Lemma blanks_rest : forall a x, blanks (a ++ x) -> blanks a -> blanks x.
Proof.
  intros a x Hax Ha. destruct (blanks_prefix_align a Ha (a ++ x) x [] Hax) as [(c & Hc & Ec)|(c & Hc & Ec)].
  - rewrite app_nil_r. reflexivity.
  - apply app_inv_head in Ec. subst x. exact Hc.
  - rewrite <- app_assoc in Ec. rewrite <- (app_nil_r a) in Ec at 1. apply app_inv_head in Ec.
    symmetry in Ec. apply app_eq_nil in Ec. destruct Ec as [-> _]. constructor.
Qed.

(* a blank rune cannot begin inside a non-empty piece that does not start with one and be completed by blank runes *)
Lemma rune_in_front : forall w m r rest, blank_rune w -> m <> [] -> ~ starts_blank m -> blanks r -> m ++ r = w ++ rest -> False.
Proof.
  intros w m r rest Hw Hm Ns Hr E. destruct m as [|x m1]; [congruence|].
  destruct Hw as [c Hc|a b Hab|a b c Habc]; cbn [app] in E; injection E as -> E.
  - apply Ns. exists [c], m1. split; [apply br1; exact Hc|reflexivity].
  - destruct m1 as [|y m2]; cbn [app] in E.
    + subst r. apply blanks_start in Hr. apply space2_tail in Hab. congruence.
    + injection E as -> E. apply Ns. exists [a; b], m2. split; [apply br2; exact Hab|reflexivity].
  - destruct m1 as [|y m2]; cbn [app] in E.
    + subst r. apply blanks_start in Hr. apply space3_tail in Habc. destruct Habc as [H1 _]. congruence.
    + injection E as -> E. destruct m2 as [|z m3]; cbn [app] in E.
      * subst r. apply blanks_start in Hr. apply space3_tail in Habc. destruct Habc as [_ H2]. congruence.
      * injection E as -> E. apply Ns. exists [a; b; c], m3. split; [apply br3; exact Habc|reflexivity].
Qed.

(* a run of blank runes that ends with a run of blank runes starts with one *)
Lemma blanks_split : forall s, blanks s -> forall d r', s = d ++ r' -> blanks r' -> blanks d.
Proof.
  intros s Hs. induction Hs as [|w s0 Hw Hs0 IH]; intros d r' E Hr'.
  - symmetry in E. apply app_eq_nil in E. destruct E as [-> _]. constructor.
  - apply app_eq_app in E. destruct E as (l & [[E1 E2]|[E1 E2]]).
    + (* w = d ++ l, r' = l ++ s0 *)
      destruct l as [|x l1]. { rewrite app_nil_r in E1. subst d. apply blanks_one. exact Hw. }
      destruct d as [|y d1]; [constructor|]. exfalso. subst r'. apply blanks_start in Hr'. cbn [app] in Hr'.
      destruct Hw as [c Hc|a b Hab|a b c Habc]; cbn [app] in E1.
      * injection E1 as _ E1. destruct d1; discriminate E1.
      * injection E1 as _ E1. destruct d1 as [|? d2]; cbn [app] in E1; [|injection E1 as _ E1; destruct d2; discriminate E1].
        injection E1 as -> _. apply space2_tail in Hab. congruence.
      * injection E1 as _ E1. apply space3_tail in Habc. destruct Habc as [H1 H2]. destruct d1 as [|? d2]; cbn [app] in E1.
        -- injection E1 as -> _. congruence.
        -- injection E1 as _ E1. destruct d2 as [|? d3]; cbn [app] in E1; [|injection E1 as _ E1; destruct d3; discriminate E1].
           injection E1 as -> _. congruence.
    + (* d = w ++ l, s0 = l ++ r' *)
      subst d. constructor; [exact Hw|]. apply (IH l r' E2 Hr').
Qed.

Lemma blanks_end : forall l, blanks l -> l <> [] -> ends_blank l.
Proof.
  intros l Hl. induction Hl as [|w s Hw Hs IH]; intros Hn; [congruence|].
  destruct s as [|x s1].
  - exists [], w. split; [exact Hw|rewrite app_nil_r; reflexivity].
  - destruct IH as (t & r & Hr & E); [discriminate|]. exists (w ++ t), r. split; [exact Hr|]. rewrite E, app_assoc. reflexivity.
Qed.

Lemma uniq_same_left : forall m r m' r', m ++ r = m' ++ r' -> blanks r -> blanks r' -> ~ ends_blank m -> ~ ends_blank m' -> m = m'.
Proof.
  intros m r m' r' E Hr Hr' N N'. apply app_eq_app in E. destruct E as (l & [[E1 E2]|[E1 E2]]).
  - (* m = m' ++ l, r' = l ++ r *)
    assert (Hl : blanks l) by (apply (blanks_split r' Hr' l r E2 Hr)).
    destruct l as [|x l1]; [rewrite app_nil_r in E1; exact E1|]. exfalso. apply N.
    destruct (blanks_end _ Hl) as (t & w & Hw & Ew); [discriminate|]. exists (m' ++ t), w. split; [exact Hw|].
    rewrite E1, Ew, app_assoc. reflexivity.
  - assert (Hl : blanks l) by (apply (blanks_split r Hr l r' E2 Hr')).
    destruct l as [|x l1]; [rewrite app_nil_r in E1; symmetry; exact E1|]. exfalso. apply N'.
    destruct (blanks_end _ Hl) as (t & w & Hw & Ew); [discriminate|]. exists (m ++ t), w. split; [exact Hw|].
    rewrite E1, Ew, app_assoc. reflexivity.
Qed.

Lemma uniq_aux : forall c, blanks c -> forall m r m' r', m ++ r = c ++ m' ++ r' -> blanks r -> blanks r' ->
  ~ starts_blank m -> ~ starts_blank m' -> ~ ends_blank m -> ~ ends_blank m' -> m = m'.
Proof.
  intros c Hc m r m' r' E Hr Hr' S S' N N'. destruct Hc as [|w c0 Hw Hc0].
  - cbn [app] in E. eapply uniq_same_left; eassumption.
  - destruct m as [|x m1].
    + (* everything to the right of l is blank: m' must be empty too *)
      cbn [app] in E. subst r. rewrite <- app_assoc in Hr.
      assert (H1 : blanks (c0 ++ m' ++ r')) by (apply (blanks_rest w); [exact Hr|apply blanks_one; exact Hw]).
      assert (H2 : blanks (m' ++ r')) by (apply (blanks_rest c0); assumption).
      destruct m' as [|y m2]; [reflexivity|]. exfalso.
      remember ((y :: m2) ++ r') as s eqn:Es. destruct H2 as [|w2 s2 Hw2 Hs2]; [discriminate Es|].
      apply (rune_in_front w2 (y :: m2) r' s2 Hw2); [discriminate|exact S'|exact Hr'|symmetry; exact Es].
    + exfalso. rewrite <- app_assoc in E. apply (rune_in_front w (x :: m1) r (c0 ++ m' ++ r') Hw); [discriminate|exact S|exact Hr|exact E].
Qed.

(* strings.TrimSpace is characterised by trim_space_spec: the middle piece of such a decomposition is unique *)
Theorem trim_decomposition_unique : forall l m r l' m' r',
  l ++ m ++ r = l' ++ m' ++ r' -> blanks l -> blanks r -> blanks l' -> blanks r' ->
  ~ starts_blank m -> ~ ends_blank m -> ~ starts_blank m' -> ~ ends_blank m' -> m = m'.
Proof.
  intros l m r l' m' r' E Hl Hr Hl' Hr' S N S' N'.
  destruct (blanks_prefix_align l Hl l' (m ++ r) (m' ++ r') Hl' E) as [(c & Hc & Ec)|(c & Hc & Ec)].
  - subst l'. rewrite <- app_assoc in E. apply app_inv_head in E. eapply (uniq_aux c Hc m r m' r'); eassumption.
  - subst l. rewrite <- app_assoc in E. apply app_inv_head in E. symmetry. symmetry in E. eapply (uniq_aux c Hc m' r' m r); eassumption.
Qed.

Corollary trim_space_unique : forall s l m r, s = l ++ m ++ r -> blanks l -> blanks r -> ~ starts_blank m -> ~ ends_blank m -> m = trim_space s.
Proof.
  intros s l m r E Hl Hr S N. destruct (trim_space_spec s) as (l' & r' & E' & Hl' & Hr' & S' & N').
  eapply (trim_decomposition_unique l m r l' (trim_space s) r'); try eassumption. rewrite <- E. exact E'.
Qed.
