(* Go's float32 / float64 comparison operators, through Flocq's IEEE-754 formalisation.
   Values cross every boundary as bit patterns (Z). *)
From Coq Require Import ZArith Reals Bool Lia Lra.
From Flocq Require Import IEEE754.Binary IEEE754.Bits Core.Raux.

Inductive cmpop := OpEq | OpNe | OpLt | OpLe | OpGt | OpGe.

Definition of_cmp (op : cmpop) (c : option comparison) : bool :=
  match op, c with
  | OpEq, Some Eq => true
  | OpNe, Some Eq => false
  | OpNe, _ => true                       (* NaN != x is true *)
  | OpLt, Some Lt => true
  | OpLe, Some Lt | OpLe, Some Eq => true
  | OpGt, Some Gt => true
  | OpGe, Some Gt | OpGe, Some Eq => true
  | _, _ => false
  end.

Definition norm32 (b : Z) : Z := Z.modulo b (2 ^ 32).
Definition norm64 (b : Z) : Z := Z.modulo b (2 ^ 64).

Definition f32 (bits : Z) : binary32 := b32_of_bits (norm32 bits).
Definition f64 (bits : Z) : binary64 := b64_of_bits (norm64 bits).

Definition fcmp32 (op : cmpop) (x y : Z) : bool := of_cmp op (Bcompare 24 128 (f32 x) (f32 y)).
Definition fcmp64 (op : cmpop) (x y : Z) : bool := of_cmp op (Bcompare 53 1024 (f64 x) (f64 y)).

Definition is_nan32 (x : Z) : bool := is_nan 24 128 (f32 x).
Definition is_nan64 (x : Z) : bool := is_nan 53 1024 (f64 x).

Definition zcmp (op : cmpop) (x y : Z) : bool :=
  match op with
  | OpEq => Z.eqb x y | OpNe => negb (Z.eqb x y)
  | OpLt => Z.ltb x y | OpLe => Z.leb x y
  | OpGt => Z.ltb y x | OpGe => Z.leb y x
  end.

(* ---------- meaning of the float operators: the order of the extended reals ---------- *)
Section Meaning.
  Variables prec emax : Z.
  Context (prec_gt_0_ : FLX.Prec_gt_0 prec).
  Hypothesis Hmax : (prec < emax)%Z.
  Let float := binary_float prec emax.

  Inductive xreal := XNeg_inf | XFin (r : R) | XPos_inf.

  Definition xreal_of (x : float) : option xreal :=
    match x with
    | B754_nan _ _ _ _ _ => None
    | B754_infinity _ _ true => Some XNeg_inf
    | B754_infinity _ _ false => Some XPos_inf
    | _ => Some (XFin (B2R prec emax x))
    end.

  Definition xlt (a b : xreal) : Prop :=
    match a, b with
    | XNeg_inf, XNeg_inf => False
    | XNeg_inf, _ => True
    | XFin r, XFin s => (r < s)%R
    | XFin _, XPos_inf => True
    | _, _ => False
    end.

  Definition xrel (op : cmpop) (a b : xreal) : Prop :=
    match op with
    | OpEq => a = b | OpNe => a <> b
    | OpLt => xlt a b | OpLe => xlt a b \/ a = b
    | OpGt => xlt b a | OpGe => xlt b a \/ a = b
    end.

  (* v OP n holds in Go  <->  neither is NaN and the relation holds on the extended reals
     (for != : or one of them is NaN) *)
  Definition go_float_rel (op : cmpop) (x y : float) : Prop :=
    match xreal_of x, xreal_of y with
    | Some a, Some b => xrel op a b
    | _, _ => op = OpNe
    end.

  Lemma Rcompare_rel (r s : R) :
    match Rcompare r s with Lt => (r < s)%R | Eq => r = s | Gt => (s < r)%R end.
  Proof. destruct (Rcompare_spec r s); auto. Qed.

  Lemma XFin_inj r s : XFin r = XFin s <-> r = s.
  Proof. split; [intro H; injection H; auto | intros ->; reflexivity]. Qed.

  Theorem of_cmp_meaning (op : cmpop) (x y : float) :
    of_cmp op (Bcompare prec emax x y) = true <-> go_float_rel op x y.
  Proof.
    unfold go_float_rel.
    destruct x as [sx|sx|sx px Hx|sx mx ex Hx], y as [sy|sy|sy py Hy|sy my ey Hy];
      try (destruct op; cbn; intuition congruence);
      try (destruct sx; destruct op; cbn; intuition congruence);
      try (destruct sy; destruct op; cbn; intuition congruence);
      try (destruct sx, sy; destruct op; cbn; intuition congruence).
    all: match goal with
         | |- context [Bcompare prec emax ?a ?b] =>
             rewrite (Bcompare_correct prec emax a b eq_refl eq_refl)
         end.
    all: unfold xreal_of; cbv beta iota.
    all: match goal with
         | |- context [Rcompare ?r ?s] => pose proof (Rcompare_rel r s) as HR; destruct (Rcompare r s)
         end.
    all: destruct op; cbn [of_cmp xrel xlt]; rewrite ?XFin_inj; split; intro H; try reflexivity; try discriminate; try lra; auto.
    all: try (destruct H as [H|H]; try lra; try (apply XFin_inj in H; lra)).
    all: try (intro E; apply XFin_inj in E; lra).
    all: try (exfalso; apply H; apply XFin_inj; lra).
    all: try (right; apply XFin_inj; lra).
    all: try (left; lra).
  Qed.
End Meaning.
