(* strings.Split / strings.Join on one separator byte, with the round-trip lemmas. *)
From GV Require Import Base.Bytes.

Fixpoint split_on (c : byte) (s : bytes) : list bytes :=
  match s with
  | [] => [[]]
  | x :: r =>
      if beq x c then [] :: split_on c r
      else match split_on c r with
           | h :: t => (x :: h) :: t
           | [] => [[x]]
           end
  end.

Fixpoint join (c : byte) (l : list bytes) : bytes :=
  match l with
  | [] => []
  | x :: t => match t with [] => x | _ => x ++ c :: join c t end
  end.

Lemma split_on_nonempty c s : split_on c s <> [].
Proof.
  destruct s as [|x r]; simpl; [congruence|].
  destruct (beq x c); [congruence|]. destruct (split_on c r); congruence.
Qed.

Lemma join_cons c x t : t <> [] -> join c (x :: t) = x ++ c :: join c t.
Proof. destruct t; [congruence|reflexivity]. Qed.

Lemma join_split c s : join c (split_on c s) = s.
Proof.
  induction s as [|x r IH]; [reflexivity|]. cbn [split_on].
  destruct (beq x c) eqn:E.
  - apply beq_eq in E. subst. rewrite join_cons by apply split_on_nonempty. simpl. f_equal. exact IH.
  - pose proof (split_on_nonempty c r) as N.
    destruct (split_on c r) as [|h t]; [congruence|].
    destruct t as [|h2 t]; simpl in *; congruence.
Qed.

Lemma split_no_sep c s : Forall (fun x => ~ In c x) (split_on c s).
Proof.
  induction s as [|x r IH]; simpl.
  - constructor; [tauto|constructor].
  - destruct (beq x c) eqn:E.
    + constructor; [simpl; tauto|exact IH].
    + pose proof (split_on_nonempty c r) as N.
      destruct (split_on c r) as [|h t]; [congruence|].
      inversion IH; subst. constructor; [|assumption].
      simpl. intros [->|H]; [rewrite beq_refl in E; discriminate|contradiction].
Qed.

Lemma split_on_nosep c x : ~ In c x -> split_on c x = [x].
Proof.
  induction x as [|a x IH]; intro H; [reflexivity|]. cbn [split_on].
  destruct (beq a c) eqn:E; [apply beq_eq in E; subst; simpl in H; tauto|].
  rewrite IH by (simpl in H; tauto). reflexivity.
Qed.

Lemma split_on_app c x r : ~ In c x -> split_on c (x ++ c :: r) = x :: split_on c r.
Proof.
  induction x as [|a x IH]; intro H.
  - simpl. rewrite beq_refl. reflexivity.
  - cbn [app split_on].
    destruct (beq a c) eqn:E; [apply beq_eq in E; subst; simpl in H; tauto|].
    rewrite IH by (simpl in H; tauto). reflexivity.
Qed.

Lemma split_join c l : l <> [] -> Forall (fun x => ~ In c x) l -> split_on c (join c l) = l.
Proof.
  induction l as [|x t IH]; [congruence|]. intros _ H. inversion H; subst.
  destruct t as [|y t].
  - simpl. apply split_on_nosep. assumption.
  - rewrite join_cons by congruence. rewrite split_on_app by assumption. f_equal.
    apply IH; [congruence|assumption].
Qed.

(* "s is l joined by c, where no piece contains c"  <->  l is the split of s *)
Lemma join_iff_split c s l :
  (l <> [] /\ Forall (fun x => ~ In c x) l /\ s = join c l) <-> l = split_on c s.
Proof.
  split.
  - intros (N & F & ->). symmetry. apply split_join; assumption.
  - intros ->. split; [apply split_on_nonempty|]. split; [apply split_no_sep|]. symmetry. apply join_split.
Qed.

Definition is_empty (s : bytes) : bool := match s with [] => true | _ => false end.

Definition slice_to (s : bytes) (n : nat) : res bytes :=
  if Nat.leb n (length s) then Ok (firstn n s) else Panic.
Definition slice_from (s : bytes) (n : nat) : res bytes :=
  if Nat.leb n (length s) then Ok (skipn n s) else Panic.

Fixpoint has_prefix (p s : bytes) : bool :=
  match p, s with
  | [], _ => true
  | a :: p', b :: s' => beq a b && has_prefix p' s'
  | _ :: _, [] => false
  end.

Lemma has_prefix_iff p s : has_prefix p s = true <-> exists r, s = p ++ r.
Proof.
  revert s; induction p as [|a p IH]; intros s; simpl.
  - split; [eauto|reflexivity].
  - destruct s as [|b s]; [split; [discriminate|intros [r H]; discriminate]|].
    rewrite andb_true_iff, beq_eq, IH. split.
    + intros [-> [r ->]]. eauto.
    + intros [r H]. injection H as -> ->. eauto.
Qed.

(* ---------- more string operations used by the generator model ---------- *)
Fixpoint drop_prefix (p s : bytes) : option bytes :=
  match p, s with
  | [], _ => Some s
  | a :: p', b :: s' => if beq a b then drop_prefix p' s' else None
  | _ :: _, [] => None
  end.

Lemma drop_prefix_app p r : drop_prefix p (p ++ r) = Some r.
Proof. induction p as [|a p IH]; [reflexivity|]. simpl. rewrite beq_refl. exact IH. Qed.

Lemma drop_prefix_some p s r : drop_prefix p s = Some r -> s = p ++ r.
Proof.
  revert s. induction p as [|a p IH]; intros s H; simpl in H.
  - injection H as ->. reflexivity.
  - destruct s as [|b s]; [discriminate|]. destruct (beq a b) eqn:E; [|discriminate].
    apply beq_eq in E. subst. simpl. f_equal. apply IH. exact H.
Qed.

(* strings.TrimPrefix *)
Definition trim_prefix (p s : bytes) : bytes := match drop_prefix p s with Some r => r | None => s end.

(* split on the first occurrence of c: (before, Some after) or (s, None) *)
Fixpoint cut (c : byte) (s : bytes) : bytes * option bytes :=
  match s with
  | [] => ([], None)
  | x :: r => if beq x c then ([], Some r)
              else let '(a, b) := cut c r in (x :: a, b)
  end.

(* strings.TrimSpace removes the runes of unicode.IsSpace at both ends: the ASCII blanks \t \n \v \f \r and space,
   U+0085, U+00A0, U+1680, U+2000..U+200A, U+2028, U+2029, U+202F, U+205F and U+3000.  A rune is decoded at the
   left end by DecodeRuneInString and at the right end by DecodeLastRuneInString; both return one of these runes
   exactly when its (unique, well-formed) encoding is a prefix, respectively a suffix, of the string, so the model
   matches the encodings as byte patterns. *)
Definition is_space (c : byte) : bool :=
  beq c " "%byte || (N.leb 9 (b2n c) && N.leb (b2n c) 13).

Definition space2 (a b : N) : bool := N.eqb a 194 && (N.eqb b 133 || N.eqb b 160).
Definition space3 (a b c : N) : bool :=
  (N.eqb a 225 && N.eqb b 154 && N.eqb c 128)
  || (N.eqb a 226 && N.eqb b 128 && ((N.leb 128 c && N.leb c 138) || N.eqb c 168 || N.eqb c 169 || N.eqb c 175))
  || (N.eqb a 226 && N.eqb b 129 && N.eqb c 159)
  || (N.eqb a 227 && N.eqb b 128 && N.eqb c 128).

Fixpoint trim_left_space (s : bytes) : bytes :=
  match s with
  | x :: r =>
      if is_space x then trim_left_space r else
      match r with
      | y :: r2 =>
          if space2 (b2n x) (b2n y) then trim_left_space r2 else
          match r2 with
          | z :: r3 => if space3 (b2n x) (b2n y) (b2n z) then trim_left_space r3 else s
          | [] => s
          end
      | [] => s
      end
  | [] => []
  end.

(* the same on the reversed string: the encodings are matched last byte first *)
Fixpoint trim_left_space_rev (s : bytes) : bytes :=
  match s with
  | x :: r =>
      if is_space x then trim_left_space_rev r else
      match r with
      | y :: r2 =>
          if space2 (b2n y) (b2n x) then trim_left_space_rev r2 else
          match r2 with
          | z :: r3 => if space3 (b2n z) (b2n y) (b2n x) then trim_left_space_rev r3 else s
          | [] => s
          end
      | [] => s
      end
  | [] => []
  end.

Definition trim_space (s : bytes) : bytes := rev (trim_left_space_rev (rev (trim_left_space s))).

Definition remove_byte (c : byte) (s : bytes) : bytes := filter (fun x => negb (beq x c)) s.

(* lexicographic order on byte strings (Go's < on strings) *)
Fixpoint bytes_ltb (a b : bytes) : bool :=
  match a, b with
  | [], [] => false
  | [], _ :: _ => true
  | _ :: _, [] => false
  | x :: a', y :: b' => if blt x y then true else if blt y x then false else bytes_ltb a' b'
  end.

(* sort.SliceStable by a key: stable insertion sort *)
Section Sort.
  Context {A : Type} (key : A -> bytes).
  Fixpoint insert_stable (x : A) (l : list A) : list A :=
    match l with
    | [] => [x]
    | y :: r => if bytes_ltb (key y) (key x) then y :: insert_stable x r else x :: l
    end.
  (* fold from the right so that equal keys keep their original order *)
  Fixpoint sort_stable (l : list A) : list A :=
    match l with
    | [] => []
    | x :: r => insert_stable x (sort_stable r)
    end.
End Sort.
