From GV Require Import Base.Bytes Base.StrOps Gen.Decl Misc.Migrate.

(* ---------- a migrated marker line is a line comment, scanned exactly like the original ---------- *)
Lemma fold_step_line l : fold_left step l SLine = SLine.
Proof. induction l as [|c l IH]; [reflexivity|exact IH]. Qed.

Lemma blank_not_special c : is_blank c = true -> step SCode c = SCode.
Proof.
  unfold is_blank. rewrite orb_true_iff, !beq_eq. intros [->| ->]; reflexivity.
Qed.

Lemma scan_blanks_then l : fold_left step l SCode = fold_left step (trim_left_blanks l) SCode.
Proof.
  induction l as [|c l IH]; [reflexivity|]. cbn [trim_left_blanks].
  destruct (is_blank c) eqn:B; [|reflexivity].
  cbn [fold_left]. rewrite blank_not_special by exact B. exact IH.
Qed.

Lemma scan_comment_line p rest : has_prefix (bs "//") p = true -> fold_left step (p ++ rest) SCode = SLine.
Proof.
  intro H. apply has_prefix_iff in H as [r ->]. cbn. apply fold_step_line.
Qed.

Lemma old_prefix_slashes : exists r, old_prefix = bs "//" ++ r.
Proof. eexists. vm_compute. reflexivity. Qed.
Lemma new_prefix_slashes : exists r, new_prefix = bs "//" ++ r.
Proof. eexists. vm_compute. reflexivity. Qed.

Lemma trim_leading l x : trim_left_blanks x = x -> trim_left_blanks (leading_blanks l ++ x) = x.
Proof.
  intro H. induction l as [|c l IH]; cbn [leading_blanks]; [exact H|].
  destruct (is_blank c) eqn:B; [cbn [app trim_left_blanks]; rewrite B; exact IH|exact H].
Qed.

Lemma trim_new_prefix rest : trim_left_blanks (new_prefix ++ rest) = new_prefix ++ rest.
Proof. reflexivity. Qed.

Lemma scan_line_migrated st l : scan_line st (migrate_line st l) = scan_line st l.
Proof.
  unfold migrate_line, legacy_rest. destruct st; try reflexivity.
  destruct (drop_prefix old_prefix (trim_left_blanks l)) as [rest|] eqn:D; [|reflexivity].
  apply drop_prefix_some in D. unfold scan_line. f_equal.
  rewrite (scan_blanks_then l), D.
  destruct old_prefix_slashes as [r1 E1]. destruct new_prefix_slashes as [r2 E2].
  rewrite scan_blanks_then.
  rewrite (trim_leading l _ (trim_new_prefix rest)), E1, E2, <- !app_assoc. cbn. rewrite !fold_step_line. reflexivity.
Qed.

(* a migrated line is no longer a legacy marker line *)
Lemma migrated_not_legacy st l : legacy_rest st (migrate_line st l) = None \/ legacy_rest st l = None.
Proof.
  unfold migrate_line. destruct (legacy_rest st l) as [rest|] eqn:L; [left|right; reflexivity].
  unfold legacy_rest in *. destruct st; try reflexivity.
  rewrite (trim_leading l _ (trim_new_prefix rest)). reflexivity.
Qed.

Lemma migrate_line_idem st l : migrate_line st (migrate_line st l) = migrate_line st l.
Proof.
  destruct (migrated_not_legacy st l) as [H|H].
  - unfold migrate_line at 1. rewrite H. reflexivity.
  - unfold migrate_line. rewrite H. rewrite H. reflexivity.
Qed.

Lemma migrate_lines_idem st ls : migrate_lines st (migrate_lines st ls) = migrate_lines st ls.
Proof.
  revert st. induction ls as [|l r IH]; intro st; [reflexivity|].
  cbn [migrate_lines]. rewrite migrate_line_idem, scan_line_migrated, IH. reflexivity.
Qed.

(* no line gains a newline *)
Lemma no_nl_prefix : ~ In nl new_prefix.
Proof. vm_compute. intuition discriminate. Qed.

Lemma leading_blanks_sub l c : In c (leading_blanks l) -> In c l.
Proof.
  induction l as [|a l IH]; simpl; [tauto|]. destruct (is_blank a); simpl; [|tauto]. intros [->|H]; auto.
Qed.

Lemma trim_left_sub l c : In c (trim_left_blanks l) -> In c l.
Proof.
  induction l as [|a l IH]; simpl; [tauto|]. destruct (is_blank a); simpl; [|tauto]. auto.
Qed.

Lemma migrate_line_no_nl st l : ~ In nl l -> ~ In nl (migrate_line st l).
Proof.
  intros H. unfold migrate_line. destruct (legacy_rest st l) as [rest|] eqn:L; [|exact H].
  unfold legacy_rest in L. destruct st; try discriminate.
  apply drop_prefix_some in L. intro I. apply in_app_or in I. destruct I as [I|I].
  - apply H. apply leading_blanks_sub. exact I.
  - apply in_app_or in I. destruct I as [I|I]; [exact (no_nl_prefix I)|].
    apply H. apply trim_left_sub. rewrite L. apply in_or_app. right. exact I.
Qed.

Lemma migrate_lines_no_nl st ls : Forall (fun x => ~ In nl x) ls -> Forall (fun x => ~ In nl x) (migrate_lines st ls).
Proof.
  revert st. induction ls as [|l r IH]; intros st H; [constructor|].
  inversion H; subst. constructor; [apply migrate_line_no_nl; assumption|apply IH; assumption].
Qed.

Lemma migrate_lines_nonempty st ls : ls <> [] -> migrate_lines st ls <> [].
Proof. destruct ls; [congruence|discriminate]. Qed.

Theorem migrate_idempotent s : migrate_content (migrate_content s) = migrate_content s.
Proof.
  unfold migrate_content.
  rewrite split_join.
  - rewrite migrate_lines_idem. reflexivity.
  - apply migrate_lines_nonempty, split_on_nonempty.
  - apply migrate_lines_no_nl, split_no_sep.
Qed.

(* ---------- only legacy marker comment lines change, and only their prefix ---------- *)
Definition line_rel (a b : bytes) : Prop :=
  a = b \/
  exists indent rest, Forall (fun c => is_blank c = true) indent /\
                      a = indent ++ old_prefix ++ rest /\ b = indent ++ new_prefix ++ rest.

Lemma leading_blanks_blank l : Forall (fun c => is_blank c = true) (leading_blanks l).
Proof.
  induction l as [|c l IH]; simpl; [constructor|]. destruct (is_blank c) eqn:B; [constructor; assumption|constructor].
Qed.

Lemma migrate_line_rel st l : line_rel l (migrate_line st l).
Proof.
  unfold migrate_line. destruct (legacy_rest st l) as [rest|] eqn:L; [|left; reflexivity].
  right. unfold legacy_rest in L. destruct st; try discriminate. apply drop_prefix_some in L.
  exists (leading_blanks l), rest. split; [apply leading_blanks_blank|]. split; [|reflexivity].
  rewrite <- L. apply blanks_split.
Qed.

Theorem migrate_lines_rel st ls : Forall2 line_rel ls (migrate_lines st ls).
Proof.
  revert st. induction ls as [|l r IH]; intro st; [constructor|].
  cbn [migrate_lines]. constructor; [apply migrate_line_rel|apply IH].
Qed.

(* line structure (count, hence every '\n', '\r' and the presence of a final newline) is preserved *)
Theorem migrate_same_lines s :
  Forall2 line_rel (split_on nl s) (split_on nl (migrate_content s)).
Proof.
  unfold migrate_content. rewrite split_join.
  - apply migrate_lines_rel.
  - apply migrate_lines_nonempty, split_on_nonempty.
  - apply migrate_lines_no_nl, split_no_sep.
Qed.

(* a line that starts inside a raw string or a block comment is never touched *)
Theorem migrate_line_inside st l : st <> SCode -> migrate_line st l = l.
Proof. intro H. unfold migrate_line, legacy_rest. destruct st; try reflexivity. congruence. Qed.

Theorem dry_run_writes_nothing s : migrate_file true s = [].
Proof. unfold migrate_file. destruct (Nat.eqb (migrate_count s) 0); reflexivity. Qed.

Lemma count_zero_id st ls : count_legacy st ls = 0 -> migrate_lines st ls = ls.
Proof.
  revert st. induction ls as [|l r IH]; intros st H; [reflexivity|].
  cbn [count_legacy migrate_lines] in *. unfold migrate_line.
  destruct (legacy_rest st l); [discriminate|]. f_equal. apply IH. exact H.
Qed.

Theorem nothing_to_migrate s : migrate_count s = 0 -> migrate_content s = s.
Proof.
  intro H. unfold migrate_content. rewrite count_zero_id by exact H. apply join_split.
Qed.

(* after a migration there is nothing left to migrate *)
Lemma count_after st ls : count_legacy st (migrate_lines st ls) = 0.
Proof.
  revert st. induction ls as [|l r IH]; intro st; [reflexivity|].
  cbn [migrate_lines count_legacy]. rewrite scan_line_migrated, IH.
  destruct (migrated_not_legacy st l) as [H|H].
  - rewrite H. reflexivity.
  - unfold migrate_line. rewrite H, H. reflexivity.
Qed.

Theorem migrate_then_nothing s : migrate_count (migrate_content s) = 0.
Proof.
  unfold migrate_count, migrate_content. rewrite split_join.
  - apply count_after.
  - apply migrate_lines_nonempty, split_on_nonempty.
  - apply migrate_lines_no_nl, split_no_sep.
Qed.

(* ---------- both spellings denote the same marker ---------- *)
Theorem spelling_equiv r : parse_marker_comment (old_prefix ++ r) = parse_marker_comment (new_prefix ++ r).
Proof.
  unfold parse_marker_comment.
  assert (H1 : has_prefix new_prefix (new_prefix ++ r) = true) by (apply has_prefix_iff; eauto).
  assert (H2 : has_prefix new_prefix (old_prefix ++ r) = false) by reflexivity.
  assert (H3 : has_prefix old_prefix (old_prefix ++ r) = true) by (apply has_prefix_iff; eauto).
  rewrite H1, H2, H3. reflexivity.
Qed.

(* the comment text of a doc line, in the other spelling *)
Definition to_new (c : bytes) : bytes :=
  match drop_prefix old_prefix c with Some r => new_prefix ++ r | None => c end.

Lemma parse_to_new c : parse_marker_comment (to_new c) = parse_marker_comment c.
Proof.
  unfold to_new. destruct (drop_prefix old_prefix c) as [r|] eqn:D; [|reflexivity].
  apply drop_prefix_some in D. subst. symmetry. apply spelling_equiv.
Qed.

Theorem markers_to_new doc : markers_of_doc (map to_new doc) = markers_of_doc doc.
Proof.
  unfold markers_of_doc. generalize (@nil marker).
  induction doc as [|c r IH]; intro acc; [reflexivity|].
  cbn [map fold_left]. rewrite parse_to_new. apply IH.
Qed.

(* ---------- the generator's output does not depend on the spelling ---------- *)
From GV Require Import GoLite.Syntax Gen.Rules Gen.Template.

Fixpoint field_to_new (fd : field) : field :=
  match fd with
  | FPlain names doc t => FPlain names (map to_new doc) t
  | FNested names doc fs => FNested names (map to_new doc) (map field_to_new fs)
  end.

Definition sdecl_to_new (d : sdecl) : sdecl :=
  {| sd_name := sd_name d; sd_doc := map to_new (sd_doc d); sd_fields := map field_to_new (sd_fields d) |}.

Lemma sorted_to_new doc : sorted_markers (map to_new doc) = sorted_markers doc.
Proof. unfold sorted_markers. rewrite markers_to_new. reflexivity. Qed.

Lemma direct_fields_to_new fs : direct_fields (map field_to_new fs) = direct_fields fs.
Proof.
  induction fs as [|f r IH]; [reflexivity|]. cbn [map direct_fields flat_map].
  unfold direct_fields in IH. rewrite IH. destruct f; reflexivity.
Qed.

Fixpoint analyze_field_to_new tab tms S parent (fd : field) {struct fd} :
  analyze_field tab tms S parent (field_to_new fd) = analyze_field tab tms S parent fd.
Proof.
  destruct fd as [names doc t|names doc fs].
  - cbn [field_to_new analyze_field]. rewrite sorted_to_new. reflexivity.
  - cbn [field_to_new analyze_field]. rewrite sorted_to_new, direct_fields_to_new.
    apply flat_map_ext. intro n. f_equal.
    induction fs as [|g r IH]; [reflexivity|].
    cbn [map]. rewrite analyze_field_to_new. f_equal. exact IH.
Qed.

Theorem gen_file_spelling tab d : gen_file tab (sdecl_to_new d) = gen_file tab d.
Proof.
  unfold gen_file, analyze, sdecl_to_new. cbn [sd_name sd_doc sd_fields].
  rewrite sorted_to_new.
  assert (E : flat_map (analyze_field tab (sorted_markers (sd_doc d)) (sd_name d) []) (map field_to_new (sd_fields d))
            = flat_map (analyze_field tab (sorted_markers (sd_doc d)) (sd_name d) []) (sd_fields d)).
  { induction (sd_fields d) as [|f r IH]; [reflexivity|]. cbn [map flat_map]. rewrite analyze_field_to_new, IH. reflexivity. }
  rewrite E. reflexivity.
Qed.
