(* validation/middleware/middleware.go: both handlers as functions of what json.Decoder.Decode and
   the body's Validate / ValidateContext return (oracles for encoding/json and for the validator). *)
From GV Require Import Base.Bytes.

(* what body.Validate() / body.ValidateContext(ctx) returned *)
Inductive verr :=
| VOk                                   (* nil *)
| VFail (msg : bytes) (is_ctx : bool).  (* err.Error(); errors.Is(err, Canceled) || errors.Is(err, DeadlineExceeded) *)

Record response := { status : nat; body : bytes; next_called : bool }.

Definition nl : byte := x0a.
Definition invalid_json : bytes := bs "Invalid JSON" ++ [nl].                (* http.Error appends a newline *)
Definition validation_error (msg : bytes) : bytes := bs "Validation error: " ++ msg ++ [nl].

Section Handlers.
  Variable T : Type.
  Variable decode : bytes -> option T.          (* json.NewDecoder(r.Body).Decode(&body) == nil *)
  Variable next_body : bytes.                   (* whatever the wrapped handler writes *)

  (* ValidateRequest[T] *)
  Definition ValidateRequest (validate : T -> verr) (b : bytes) : response :=
    match decode b with
    | None => {| status := 400; body := invalid_json; next_called := false |}
    | Some x =>
        match validate x with
        | VFail msg _ => {| status := 400; body := validation_error msg; next_called := false |}
        | VOk => {| status := 200; body := next_body; next_called := true |}
        end
    end.

  (* ValidateRequestContext[T] *)
  Definition ValidateRequestContext (validate_ctx : T -> verr) (b : bytes) : response :=
    match decode b with
    | None => {| status := 400; body := invalid_json; next_called := false |}
    | Some x =>
        match validate_ctx x with
        | VFail msg is_ctx => {| status := if is_ctx then 408 else 400; body := validation_error msg; next_called := false |}
        | VOk => {| status := 200; body := next_body; next_called := true |}
        end
    end.

  (* ---------- C20 ---------- *)
  Theorem next_iff validate b :
    next_called (ValidateRequest validate b) = true <-> exists x, decode b = Some x /\ validate x = VOk.
  Proof.
    unfold ValidateRequest. destruct (decode b) as [x|]; cbn.
    - destruct (validate x) eqn:V; cbn; split; try discriminate.
      + intros _. eauto.
      + reflexivity.
      + intros (y & E & H). injection E as <-. congruence.
    - split; [discriminate|]. intros (y & E & _). discriminate.
  Qed.

  Theorem next_iff_ctx validate_ctx b :
    next_called (ValidateRequestContext validate_ctx b) = true <-> exists x, decode b = Some x /\ validate_ctx x = VOk.
  Proof.
    unfold ValidateRequestContext. destruct (decode b) as [x|]; cbn.
    - destruct (validate_ctx x) eqn:V; cbn; split; try discriminate.
      + intros _. eauto.
      + reflexivity.
      + intros (y & E & H). injection E as <-. congruence.
    - split; [discriminate|]. intros (y & E & _). discriminate.
  Qed.

  (* otherwise: 400 (or 408 for a context error in the context-aware variant), with the message, handler not called *)
  Theorem rejected validate b :
    next_called (ValidateRequest validate b) = false ->
    status (ValidateRequest validate b) = 400 /\
    (decode b = None /\ body (ValidateRequest validate b) = invalid_json \/
     exists x msg c, decode b = Some x /\ validate x = VFail msg c /\ body (ValidateRequest validate b) = validation_error msg).
  Proof.
    unfold ValidateRequest. destruct (decode b) as [x|]; cbn.
    - destruct (validate x) eqn:V; cbn; [discriminate|]. intros _. split; [reflexivity|]. right. exists x, msg, is_ctx. auto.
    - intros _. split; [reflexivity|]. left. split; reflexivity.
  Qed.

  Theorem rejected_ctx validate_ctx b :
    next_called (ValidateRequestContext validate_ctx b) = false ->
    (decode b = None /\ status (ValidateRequestContext validate_ctx b) = 400 /\ body (ValidateRequestContext validate_ctx b) = invalid_json) \/
    exists x msg c, decode b = Some x /\ validate_ctx x = VFail msg c /\
                    status (ValidateRequestContext validate_ctx b) = (if c then 408 else 400) /\
                    body (ValidateRequestContext validate_ctx b) = validation_error msg.
  Proof.
    unfold ValidateRequestContext. destruct (decode b) as [x|]; cbn.
    - destruct (validate_ctx x) eqn:V; cbn; [discriminate|]. intros _. right. exists x, msg, is_ctx. auto.
    - intros _. left. auto.
  Qed.

  (* a validator honouring the context contract (C15: a done context yields ctx.Err()) gives 408 *)
  Theorem cancelled_gives_408 validate_ctx b x msg :
    decode b = Some x -> validate_ctx x = VFail msg true ->
    status (ValidateRequestContext validate_ctx b) = 408 /\ next_called (ValidateRequestContext validate_ctx b) = false.
  Proof. intros D V. unfold ValidateRequestContext. rewrite D, V. auto. Qed.

  (* the handler is never called together with an error status *)
  Theorem never_both validate_ctx b :
    next_called (ValidateRequestContext validate_ctx b) = true -> status (ValidateRequestContext validate_ctx b) = 200.
  Proof.
    unfold ValidateRequestContext. destruct (decode b) as [x|]; cbn; [|discriminate].
    destruct (validate_ctx x); cbn; [reflexivity|discriminate].
  Qed.
End Handlers.

(* entry point for the extracted driver: the oracles' answers are given explicitly *)
Definition mw_eval (ctx_variant : bool) (decoded : bool) (v : verr) (next_body : bytes) : response :=
  let dec := fun (_ : bytes) => if decoded then Some tt else None in
  if ctx_variant then ValidateRequestContext unit dec next_body (fun _ => v) []
  else ValidateRequest unit dec next_body (fun _ => v) [].
