(* `govalid migrate` (cmd/govalid/migrate.go): a Go tokenizer state machine precise enough to tell
   where a `//` comment token can start, and the rewriting of legacy marker comments. *)
From GV Require Import Base.Bytes Base.StrOps Gen.Decl.

(* scanner states, including the intra-line ones *)
Inductive lstate :=
| SCode | SSlash                      (* code; code after a '/' *)
| SLine                               (* inside a // comment *)
| SBlock | SBlockStar                 (* inside /* */; after a '*' inside it *)
| SRaw                                (* inside a raw string literal *)
| SStr | SStrEsc                      (* inside "..." ; after a backslash *)
| SRune | SRuneEsc.                   (* inside '...' ; after a backslash *)

Local Open Scope byte_scope.

Definition step (st : lstate) (c : byte) : lstate :=
  match st with
  | SCode => if beq c "/" then SSlash else if beq c "`" then SRaw else if beq c """" then SStr
             else if beq c "'" then SRune else SCode
  | SSlash => if beq c "/" then SLine else if beq c "*" then SBlock
              else if beq c "`" then SRaw else if beq c """" then SStr else if beq c "'" then SRune else SCode
  | SLine => SLine
  | SBlock => if beq c "*" then SBlockStar else SBlock
  | SBlockStar => if beq c "/" then SCode else if beq c "*" then SBlockStar else SBlock
  | SRaw => if beq c "`" then SCode else SRaw
  | SStr => if beq c "\" then SStrEsc else if beq c """" then SCode else SStr
  | SStrEsc => SStr
  | SRune => if beq c "\" then SRuneEsc else if beq c "'" then SCode else SRune
  | SRuneEsc => SRune
  end.

(* a newline ends line comments and (erroneously unterminated) interpreted strings and runes *)
Definition newline (st : lstate) : lstate :=
  match st with
  | SBlock | SBlockStar => SBlock
  | SRaw => SRaw
  | _ => SCode
  end.

Definition scan_line (st : lstate) (line : bytes) : lstate := newline (fold_left step line st).

Definition is_blank (c : byte) : bool := beq c " " || beq c x09.

Fixpoint trim_left_blanks (s : bytes) : bytes :=
  match s with
  | c :: r => if is_blank c then trim_left_blanks r else s
  | [] => []
  end.

Fixpoint leading_blanks (s : bytes) : bytes :=
  match s with
  | c :: r => if is_blank c then c :: leading_blanks r else []
  | [] => []
  end.

Lemma blanks_split s : s = leading_blanks s ++ trim_left_blanks s.
Proof. induction s as [|c r IH]; [reflexivity|]. simpl. destruct (is_blank c); simpl; congruence. Qed.

(* a legacy marker comment that is the first thing on its line, scanned in code state *)
Definition legacy_rest (st : lstate) (line : bytes) : option bytes :=
  match st with
  | SCode => drop_prefix old_prefix (trim_left_blanks line)
  | _ => None
  end.

Definition migrate_line (st : lstate) (line : bytes) : bytes :=
  match legacy_rest st line with
  | Some rest => leading_blanks line ++ new_prefix ++ rest
  | None => line
  end.

Fixpoint migrate_lines (st : lstate) (lines : list bytes) : list bytes :=
  match lines with
  | [] => []
  | l :: r => migrate_line st l :: migrate_lines (scan_line st l) r
  end.

Fixpoint count_legacy (st : lstate) (lines : list bytes) : nat :=
  match lines with
  | [] => 0
  | l :: r => (match legacy_rest st l with Some _ => 1 | None => 0 end) + count_legacy (scan_line st l) r
  end.

Definition nl : byte := x0a.

Definition migrate_content (s : bytes) : bytes := join nl (migrate_lines SCode (split_on nl s)).
Definition migrate_count (s : bytes) : nat := count_legacy SCode (split_on nl s).

(* migrateFile: the list of file contents written (none under --dry-run, none when nothing changes) *)
Definition migrate_file (dry_run : bool) (s : bytes) : list bytes :=
  if Nat.eqb (migrate_count s) 0 then [] else if dry_run then [] else [migrate_content s].
