(* The report-exactness theorem for whole generated files, and its corollaries. *)
From GV Require Import Base.Bytes Base.Utf8 Base.StrOps Base.GoFloat GoLite.Syntax GoLite.Sem.
From GV Require Import Gen.Decl Gen.Rules Gen.Template Gen.Spec Gen.Guard Gen.GenProofs1 Gen.Typed Gen.GenProofs2 Gen.GenProofs3.

(* ---------- from the decidable guard to the shape conditions of the proof ---------- *)
Fixpoint nested_ok (fd : field) : kf_nested_field_marker_f fd = false -> field_ok [] fd.
Proof.
  destruct fd as [names doc t|names doc fs]; intro H; [exact I|].
  cbn [kf_nested_field_marker_f] in H. apply orb_false_iff in H as [Hd Hf].
  cbn [field_ok]. split; [reflexivity|]. split.
  - unfold has_markers in Hd. apply negb_false_iff in Hd. destruct (markers_of_doc doc); [reflexivity|discriminate].
  - induction fs as [|g r IH]; [exact I|]. apply orb_false_iff in Hf as [Hg Hr]. split; [apply nested_ok; exact Hg|apply IH; exact Hr].
Qed.

Lemma plain_fields_ok tms fs : existsb is_nested fs = false -> fields_ok tms fs.
Proof.
  induction fs as [|g r IH]; [intros; exact I|]. cbn [existsb]. intro H. apply orb_false_iff in H as [Hg Hr].
  split; [destruct g; [exact I|discriminate]|apply IH; exact Hr].
Qed.

Lemma all_nested_ok fs : existsb kf_nested_field_marker_f fs = false -> fields_ok [] fs.
Proof.
  induction fs as [|g r IH]; [intros; exact I|]. cbn [existsb]. intro H. apply orb_false_iff in H as [Hg Hr].
  split; [apply nested_ok; exact Hg|apply IH; exact Hr].
Qed.

Lemma guard_fields_ok d :
  kf_nested_field_marker d = false -> kf_structlevel_with_nested d = false ->
  fields_ok (sorted_markers (sd_doc d)) (sd_fields d).
Proof.
  unfold kf_nested_field_marker, kf_structlevel_with_nested. intros H1 H2.
  destruct (existsb is_nested (sd_fields d)) eqn:N.
  - rewrite andb_true_r in H2. unfold has_markers in H2. apply negb_false_iff in H2.
    unfold sorted_markers. destruct (markers_of_doc (sd_doc d)); [|discriminate]. cbn. apply all_nested_ok. exact H1.
  - apply plain_fields_ok. exact N.
Qed.

Lemma mask_zero tab d : in_guard tab d = true ->
  kf_nested_field_marker d = false /\ kf_structlevel_with_nested d = false /\ kf_duplicate_names tab d = false /\ kf_shared_errvar tab d = false.
Proof.
  unfold in_guard, kf_mask. intro H. apply Nat.eqb_eq in H.
  destruct (kf_nested_field_marker d), (kf_structlevel_with_nested d), (kf_duplicate_names tab d), (kf_shared_errvar tab d); cbn in H; auto; lia.
Qed.

(* the receiver is a value of the declared struct type *)
Definition wt_struct (d : sdecl) (root : value) : Prop :=
  exists cur, root = VStruct cur /\ wt_fields cur (sd_fields d).

Definition report_of (r : result) : option (list (bytes * bytes * option value)) :=
  match r with
  | RNil => Some []
  | RReport es => Some (map proj es)
  | _ => None
  end.

Lemma gen_file_shape tab d f : gen_file tab d = Some f ->
  f_items f = flat_map group_items (analyze tab d) /\
  sentinel_table (f_decls f) = sentinel_table (err_decls (all_validators (analyze tab d)) []) /\
  f_tail_ok f = true /\ f_nilguard f = Some (bs "ErrNil" ++ sd_name d).
Proof.
  unfold gen_file. destruct (analyze tab d) as [|md mds]; [discriminate|]. intro H. injection H as <-. cbn. auto.
Qed.

Section Exact.
  Variable ipc : bytes -> ipclass.
  Variable tab : numtab.

  (* the common core: either the run is ill-typed (RStuck) - and then some marker parameter of the declaration is
     outside the documented language - or it returns exactly the expected report *)
  Lemma gen_exact_core d f root :
    in_guard tab d = true -> gen_file tab d = Some f -> wt_struct d root ->
    let o := exec_file ipc background f (Some root) in
    (o_res o = RStuck /\ params_ok tab d = false) \/
    (report_of (o_res o) = Some (map projw (expected ipc tab d root)) /\
     (o_res o = RNil <-> expected ipc tab d root = []) /\
     s_gw (o_st o) = [] /\ s_allocs (o_st o) = 2 * length (expected ipc tab d root)).
  Proof.
    intros G Hf (cur & -> & W). destruct (mask_zero tab d G) as (G1 & G2 & _ & G4).
    destruct (gen_file_shape tab d f Hf) as (Hi & Ht & Htl & _).
    cbn zeta. unfold exec_file. rewrite Hi, Ht, Htl.
    pose proof (fields_run ipc tab (sentinel_table (err_decls (all_validators (analyze tab d)) [])) (params_ok tab d = false)
                  (VStruct cur) (sorted_markers (sd_doc d)) (sd_name d) cur (sd_fields d) eq_refl
                  (guard_fields_ok d G1 G2) W) as R.
    fold (analyze tab d) in R.
    specialize (R (lookup_exact _ (names_ok_of_guard tab d G4)) (fun X => X) st0 eq_refl).
    unfold expected.
    destruct (run_items _ _ _ _ _ _ _) as [s|o]; [|left; exact R].
    right. destruct R as (E & _ & Gw & Al). cbn [s_errs st0 map app] in E. cbn [s_gw s_allocs st0] in Gw, Al.
    cbn [o_res o_st]. rewrite Gw. split; [|split; [|split; [reflexivity|exact Al]]].
    - destruct (s_errs s) as [|e es] eqn:Es; cbn [report_of]; [rewrite <- E; reflexivity|rewrite E; reflexivity].
    - destruct (s_errs s) as [|e es] eqn:Es.
      + split; [intros _|reflexivity]. cbn in E. symmetry in E. apply map_eq_nil in E. exact E.
      + split; [discriminate|]. intro X. rewrite X in E. discriminate E.
  Qed.

  (* C07: with a context that is never done, Validate<T>Context(ctx, &v) either does not type-check
     (RStuck: outside the documented parameter language) or returns exactly the expected report *)
  Theorem gen_exact d f root :
    in_guard tab d = true -> gen_file tab d = Some f -> wt_struct d root ->
    let o := exec_file ipc background f (Some root) in
    o_res o = RStuck \/
    (report_of (o_res o) = Some (map projw (expected ipc tab d root)) /\
     (o_res o = RNil <-> expected ipc tab d root = []) /\
     s_gw (o_st o) = [] /\ s_allocs (o_st o) = 2 * length (expected ipc tab d root)).
  Proof.
    intros G Hf W. destruct (gen_exact_core d f root G Hf W) as [[H _]|H]; [left; exact H|right; exact H].
  Qed.

  (* the same without the escape: when every marker parameter is in the documented language (params_ok, decidable)
     the generated code is well-typed and returns exactly the expected report *)
  Theorem gen_exact_typed d f root :
    in_guard tab d = true -> params_ok tab d = true -> gen_file tab d = Some f -> wt_struct d root ->
    let o := exec_file ipc background f (Some root) in
    o_res o <> RStuck /\
    report_of (o_res o) = Some (map projw (expected ipc tab d root)) /\
    (o_res o = RNil <-> expected ipc tab d root = []) /\
    s_gw (o_st o) = [] /\ s_allocs (o_st o) = 2 * length (expected ipc tab d root).
  Proof.
    intros G P Hf W. destruct (gen_exact_core d f root G Hf W) as [[_ H]|H]; [congruence|].
    split; [|exact H]. destruct H as (H & _). intro X. cbn zeta in *. rewrite X in H. discriminate H.
  Qed.

  (* a nil receiver yields the ErrNil<T> sentinel, before anything else *)
  Theorem gen_nil_receiver d f ctx : gen_file tab d = Some f ->
    o_res (exec_file ipc ctx f None) = RErr (bs "ErrNil" ++ sd_name d) /\ s_calls (o_st (exec_file ipc ctx f None)) = 0.
  Proof.
    unfold gen_file. destruct (analyze tab d); [discriminate|]. intro H. injection H as <-. split; reflexivity.
  Qed.
End Exact.
