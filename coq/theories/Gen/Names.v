(* The declarations of a generated file against the identifiers its function body uses (C08: "no missing or
   duplicate declarations"):
     - every error variable a check copies, and the nil sentinel, is declared by the var block — for EVERY
       declaration, nested or not, in or out of the known-finding classes;
     - for flat structs (no inline nested struct) the declared names are pairwise distinct unless two field
       names differ by the suffix "Min"/"Max" (XMin //length next to X //minlength: finding D20).
   Both are also decidable predicates on files, evaluated on every translated real output. *)
From Coq Require Import Lia.
From GV Require Import Base.Bytes Base.StrOps GoLite.Syntax Gen.Decl Gen.Rules Gen.Template Gen.Guard Gen.GenProofs3.

(* ---------- identifiers the function body refers to ---------- *)
Definition action_vars (a : action) : list ident :=
  match a with ACopy v => [v] | ASetGlobalValue v _ => [v] | _ => [] end.

Fixpoint item_vars (i : item) : list ident :=
  match i with
  | ICheck _ acts => flat_map action_vars acts
  | IBlock body => (fix go (l : list item) : list ident := match l with [] => [] | j :: r => item_vars j ++ go r end) body
  | IPoll | IShadow _ => []
  end.

Definition body_vars (f : file) : list ident :=
  match f_nilguard f with Some n => [n] | None => [] end ++ flat_map item_vars (f_items f).

Definition mem (x : ident) (l : list ident) : bool := existsb (bytes_eqb x) l.

Definition uses_declared_b (f : file) : bool := forallb (fun v => mem v (declared_names f)) (body_vars f).

Lemma mem_In x l : mem x l = true <-> In x l.
Proof.
  unfold mem. rewrite existsb_exists. split.
  - intros (y & Hy & E). apply bytes_eqb_eq in E. subst y. exact Hy.
  - intro H. exists x. split; [exact H|apply bytes_eqb_refl].
Qed.

Lemma block_vars body : item_vars (IBlock body) = flat_map item_vars body.
Proof. cbn [item_vars]. induction body as [|j r IH]; [reflexivity|]. cbn [flat_map]. rewrite IH. reflexivity. Qed.

Lemma checks_vars vs : flat_map item_vars (checks_of vs) = map v_errvar (filter has_cond vs).
Proof.
  unfold checks_of. induction vs as [|v r IH]; [reflexivity|]. cbn [flat_map filter]. unfold has_cond at 1.
  destruct (v_cond v); cbn [app flat_map map item_vars action_vars]; rewrite IH; reflexivity.
Qed.

Lemma group_vars m : flat_map item_vars (group_items m) = map v_errvar (filter has_cond (md_validators m)).
Proof.
  unfold group_items. destruct (md_parent m).
  - cbn [flat_map item_vars app]. apply checks_vars.
  - cbn [flat_map]. rewrite block_vars. cbn [flat_map item_vars app]. rewrite app_nil_r. apply checks_vars.
Qed.

Lemma filter_app_ {A} (p : A -> bool) a b : filter p (a ++ b) = filter p a ++ filter p b.
Proof. induction a as [|x a IH]; [reflexivity|]. cbn. destruct (p x); cbn; rewrite IH; reflexivity. Qed.

Lemma groups_vars mds :
  flat_map item_vars (flat_map group_items mds) = map v_errvar (filter has_cond (all_validators mds)).
Proof.
  unfold all_validators. induction mds as [|m r IH]; [reflexivity|]. cbn [flat_map].
  rewrite flat_map_app, filter_app_, map_app, IH, group_vars. reflexivity.
Qed.

Lemma emitted_declared vs : forall seen w,
  In w (emitted vs seen) -> In (v_errvar w) (flat_map decl_name (err_decls vs seen)).
Proof.
  induction vs as [|v r IH]; intros seen w H; [contradiction|]. cbn [emitted err_decls] in *.
  destruct (v_cond v); [|apply IH; exact H].
  destruct (existsb (key_eqb (v_key v)) seen); [apply IH; exact H|].
  rewrite flat_map_app. apply in_or_app. right. cbn [flat_map decl_name app].
  destruct H as [<-|H]; [left; reflexivity|right; apply IH; exact H].
Qed.

(* every variable the body copies from is declared: holds for every declaration *)
Lemma uses_declared_mds ty iface nilname mds t w :
  uses_declared_b {| f_type := ty;
                     f_decls := DAssert iface ty :: DNil nilname :: err_decls (all_validators mds) [];
                     f_nilguard := Some nilname; f_items := flat_map group_items mds;
                     f_tail_ok := t; f_wrappers_ok := w |} = true.
Proof.
  unfold uses_declared_b, body_vars, declared_names. cbn [f_nilguard f_items f_decls].
  apply forallb_forall. intros x Hx. apply mem_In.
  change (In x (nilname :: flat_map decl_name (err_decls (all_validators mds) []))).
  apply in_app_or in Hx as [[<-|[]]|Hx]; [left; reflexivity|]. right.
  rewrite groups_vars in Hx. apply in_map_iff in Hx as (v & <- & Hv). apply filter_In in Hv as [Hin Hc].
  assert (Hc' : v_cond v <> None) by (unfold has_cond in Hc; destruct (v_cond v); congruence).
  destruct (key_covered _ [] v Hin Hc') as [X|(w0 & Hw & Hk)]; [discriminate X|].
  rewrite <- (key_errvar _ _ Hk). apply emitted_declared. exact Hw.
Qed.

Theorem gen_uses_declared tab d f : gen_file tab d = Some f -> uses_declared_b f = true.
Proof.
  unfold gen_file. destruct (analyze tab d) as [|m0 mr]; [discriminate|]. intro H. injection H as <-.
  exact (uses_declared_mds _ _ _ (m0 :: mr) _ _).
Qed.

(* ---------- distinct names for flat structs ---------- *)
Definition flat (d : sdecl) : bool := negb (existsb is_nested (sd_fields d)).

Definition names_of_field (fd : field) : list ident :=
  match fd with FPlain ns _ _ => ns | FNested ns _ _ => ns end.
Definition field_names (d : sdecl) : list ident := flat_map names_of_field (sd_fields d).

(* f = g ++ "Min" or f = g ++ "Max" *)
Definition clash (f g : ident) : bool := bytes_eqb f (g ++ bs "Min") || bytes_eqb f (g ++ bs "Max").
Definition no_clash (names : list ident) : bool :=
  forallb (fun f => forallb (fun g => negb (clash f g)) names) names.

Lemma nodup_b_iff l : nodup_b l = true <-> NoDup l.
Proof.
  induction l as [|x r IH]; cbn [nodup_b]; [split; [constructor|reflexivity]|].
  rewrite andb_true_iff, negb_true_iff, IH. split.
  - intros [H1 H2]. constructor; [|exact H2]. intro X. apply mem_In in X. unfold mem in X. congruence.
  - intro H. inversion H as [|? ? N D]; subst. split; [|exact D].
    destruct (existsb (bytes_eqb x) r) eqn:E; [|reflexivity]. exfalso. apply N. apply mem_In. exact E.
Qed.

Definition vshape (S : ident) (names : list ident) (v : validator) : Prop :=
  v_struct v = S /\ v_parent v = [] /\ In (v_field v) names.

Lemma make_validators_shape tab ms n t S parent v :
  In v (make_validators tab ms n t S parent) -> v_struct v = S /\ v_parent v = parent /\ v_field v = n.
Proof.
  unfold make_validators. intro H. apply in_flat_map in H as (m & _ & H).
  destruct (rule_of_id (mk_id m)); [|contradiction].
  destruct (make_cond tab r n t (mk_arg m)); [contradiction| |]; destruct H as [<-|[]]; cbn; auto.
Qed.

Lemma flat_validators tab d v :
  flat d = true -> In v (all_validators (analyze tab d)) -> vshape (sd_name d) (field_names d) v.
Proof.
  unfold flat, analyze, all_validators, field_names. intros F H.
  apply in_flat_map in H as (m & Hm & Hv). apply in_flat_map in Hm as (fd & Hfd & Hm).
  assert (N : is_nested fd = false).
  { apply negb_true_iff in F. destruct (is_nested fd) eqn:E; [|reflexivity].
    assert (existsb is_nested (sd_fields d) = true) by (apply existsb_exists; eauto). congruence. }
  destruct fd as [names doc t|]; [|discriminate N]. cbn [analyze_field] in Hm.
  apply in_flat_map in Hm as (n & Hn & Hm).
  destruct (make_validators tab _ n t (sd_name d) []) as [|v0 vr] eqn:MV; [contradiction|].
  destruct Hm as [<-|[]]. cbn [md_validators] in Hv. rewrite <- MV in Hv.
  destruct (make_validators_shape _ _ _ _ _ _ _ Hv) as (A & B & C). unfold vshape. repeat split; auto.
  rewrite C. apply in_flat_map. exists (FPlain names doc t). split; [exact Hfd|exact Hn].
Qed.

(* the rule suffixes: none is a proper suffix of another except LengthValidation of Min/MaxLengthValidation *)
Lemma app_suffix_firstn (s2 l s1 : bytes) : s2 = l ++ s1 -> l = firstn (length s2 - length s1) s2.
Proof.
  intros ->. rewrite app_length. replace (length l + length s1 - length s1) with (length l + 0) by lia.
  rewrite firstn_app_2. cbn. rewrite app_nil_r. reflexivity.
Qed.

Lemma suffix_table r r' l :
  suffix r' = l ++ suffix r -> (l = [] /\ r = r') \/ l = bs "Min" \/ l = bs "Max".
Proof.
  intro H. pose proof (app_suffix_firstn _ _ _ H) as L.
  destruct r, r'; vm_compute in L; subst l;
    first [ left; split; reflexivity | right; left; reflexivity | right; right; reflexivity | vm_compute in H; discriminate H ].
Qed.

Lemma suffix_len r : 12 <= length (suffix r).
Proof. destruct r; vm_compute; lia. Qed.

Lemma name_collision f r g r' :
  f ++ suffix r = g ++ suffix r' -> (f = g /\ r = r') \/ clash f g = true \/ clash g f = true.
Proof.
  intro H. apply app_eq_app in H as (l & [[A B]|[A B]]).
  - destruct (suffix_table _ _ _ B) as [[-> E]|[->| ->]].
    + left. rewrite app_nil_r in A. auto.
    + right. left. unfold clash. rewrite A, bytes_eqb_refl. reflexivity.
    + right. left. unfold clash. rewrite A, bytes_eqb_refl. apply orb_true_r.
  - destruct (suffix_table _ _ _ B) as [[-> E]|[->| ->]].
    + left. rewrite app_nil_r in A. auto.
    + right. right. unfold clash. rewrite A, bytes_eqb_refl. reflexivity.
    + right. right. unfold clash. rewrite A, bytes_eqb_refl. apply orb_true_r.
Qed.

Lemma no_clash_spec names f g : no_clash names = true -> In f names -> In g names -> clash f g = false.
Proof.
  unfold no_clash. intros H Hf Hg. rewrite forallb_forall in H. specialize (H f Hf).
  rewrite forallb_forall in H. specialize (H g Hg). apply negb_true_iff in H. exact H.
Qed.

Lemma errvar_flat S names v : vshape S names v -> v_errvar v = bs "Err" ++ S ++ v_field v ++ suffix (v_rule v).
Proof.
  intros (A & B & _). unfold v_errvar, cleaned. rewrite A, B. cbn [app concat]. rewrite app_nil_r, <- app_assoc. reflexivity.
Qed.

Lemma legacy_flat S names v : vshape S names v -> v_legacy v = v_errvar v.
Proof. intro H. rewrite (errvar_flat _ _ _ H). destruct H as (A & _). unfold v_legacy. rewrite A. reflexivity. Qed.

Lemma errvar_injective S names v w :
  no_clash names = true -> vshape S names v -> vshape S names w -> v_errvar v = v_errvar w -> v_key v = v_key w.
Proof.
  intros NC Hv Hw E. rewrite (errvar_flat _ _ _ Hv), (errvar_flat _ _ _ Hw) in E.
  apply app_inv_head in E. apply app_inv_head in E.
  destruct Hv as (A & B & C), Hw as (A' & B' & C').
  destruct (name_collision _ _ _ _ E) as [[F R]|[X|X]].
  - unfold v_key, cleaned. rewrite A, A', B, B', F, R. reflexivity.
  - rewrite (no_clash_spec _ _ _ NC C C') in X. discriminate.
  - rewrite (no_clash_spec _ _ _ NC C' C) in X. discriminate.
Qed.

Lemma emitted_keys vs : forall seen,
  NoDup (map v_key (emitted vs seen)) /\
  (forall w, In w (emitted vs seen) -> existsb (key_eqb (v_key w)) seen = false).
Proof.
  induction vs as [|v r IH]; intro seen; [split; [constructor|intros ? []]|]. cbn [emitted].
  destruct (v_cond v); [|apply IH].
  destruct (existsb (key_eqb (v_key v)) seen) eqn:E; [apply IH|].
  destruct (IH (v_key v :: seen)) as [N D]. split.
  - cbn [map]. constructor; [|exact N]. intro X. apply in_map_iff in X as (w & Hk & Hw).
    specialize (D w Hw). cbn [existsb] in D. rewrite Hk, key_eqb_refl in D. discriminate.
  - intros w [<-|Hw]; [exact E|]. specialize (D w Hw). cbn [existsb] in D. apply orb_false_iff in D as [_ D]. exact D.
Qed.

Lemma NoDup_map_transfer {A K N} (k : A -> K) (g : A -> N) (l : list A) :
  (forall x y, In x l -> In y l -> g x = g y -> k x = k y) -> NoDup (map k l) -> NoDup (map g l).
Proof.
  induction l as [|a l IH]; intros Inj H; [constructor|]. cbn [map] in *. inversion H as [|? ? Na Nl]; subst.
  constructor.
  - intro X. apply in_map_iff in X as (b & Hb & Ib). apply Na. apply in_map_iff. exists b. split; [|exact Ib].
    apply Inj; [right; exact Ib|left; reflexivity|exact Hb].
  - apply IH; [|exact Nl]. intros x y Hx Hy. apply Inj; right; assumption.
Qed.

Lemma flat_decl_names S names vs : Forall (vshape S names) vs -> forall seen,
  flat_map decl_name (err_decls vs seen) = map v_errvar (emitted vs seen).
Proof.
  induction 1 as [|v r Hv _ IH]; intro seen; [reflexivity|]. cbn [err_decls emitted].
  destruct (v_cond v); [|apply IH].
  destruct (existsb (key_eqb (v_key v)) seen); [apply IH|].
  rewrite (legacy_flat _ _ _ Hv), bytes_eqb_refl. cbn [app flat_map decl_name map]. rewrite IH. reflexivity.
Qed.

Lemma flat_nodup S names vs :
  no_clash names = true -> Forall (vshape S names) vs ->
  NoDup ((bs "ErrNil" ++ S) :: flat_map decl_name (err_decls vs [])).
Proof.
  intros NC Sh. rewrite (flat_decl_names _ _ _ Sh). constructor.
  - intro X. apply in_map_iff in X as (w & Hw & Iw). apply emitted_in in Iw as [Iw _].
    rewrite Forall_forall in Sh. rewrite (errvar_flat _ _ _ (Sh w Iw)) in Hw.
    change (bs "ErrNil") with (bs "Err" ++ bs "Nil") in Hw. rewrite <- app_assoc in Hw. apply app_inv_head in Hw.
    apply (f_equal (@length _)) in Hw. rewrite !app_length in Hw. pose proof (suffix_len (v_rule w)).
    change (length (bs "Nil")) with 3 in Hw. lia.
  - destruct (emitted_keys vs []) as [N _]. apply (NoDup_map_transfer v_key); [|exact N].
    intros x y Hx Hy. apply emitted_in in Hx as [Hx _]. apply emitted_in in Hy as [Hy _].
    rewrite Forall_forall in Sh. apply (errvar_injective _ _ _ _ NC (Sh x Hx) (Sh y Hy)).
Qed.

Theorem flat_names_distinct tab d f :
  flat d = true -> no_clash (field_names d) = true -> gen_file tab d = Some f ->
  nodup_b (declared_names f) = true.
Proof.
  intros F NC. unfold gen_file. destruct (analyze tab d) as [|m0 mr] eqn:A; [discriminate|]. intro H. injection H as <-.
  apply nodup_b_iff. unfold declared_names. cbn [f_decls].
  change (NoDup ((bs "ErrNil" ++ sd_name d) :: flat_map decl_name (err_decls (all_validators (m0 :: mr)) []))).
  apply (flat_nodup _ (field_names d)); [exact NC|]. rewrite <- A.
  apply Forall_forall. intros v Hv. apply (flat_validators tab); assumption.
Qed.

(* ---------- output files (writeFile): <source>_<lower-cased type name>_validator.go ---------- *)
Definition out_file (lower : ident -> ident) (src T : ident) : bytes := src ++ bs "_" ++ lower T ++ bs "_validator.go".

Lemma out_file_collision lower src a b : out_file lower src a = out_file lower src b <-> lower a = lower b.
Proof.
  unfold out_file. split; [|intros ->; reflexivity]. intro H.
  apply app_inv_head in H. apply app_inv_head in H. apply app_inv_tail in H. exact H.
Qed.

(* the structs of one source file get pairwise different files iff their lower-cased names are pairwise different *)
Theorem out_files_distinct lower src (Ts : list ident) : NoDup (map lower Ts) <-> NoDup (map (out_file lower src) Ts).
Proof.
  induction Ts as [|T Ts IH]; cbn [map]; [split; constructor|]. split; intro H; inversion H as [|? ? N D]; subst; constructor.
  - intro X. apply N. apply in_map_iff in X as (u & E & I). apply out_file_collision in E. apply in_map_iff. exists u. auto.
  - apply IH. exact D.
  - intro X. apply N. apply in_map_iff in X as (u & E & I). apply in_map_iff. exists u. split; [|exact I].
    apply out_file_collision. exact E.
  - apply IH. exact D.
Qed.

Definition ascii_lower_byte (c : Byte.byte) : Byte.byte :=
  let n := Byte.to_N c in
  if (N.leb 65 n && N.leb n 90)%bool then match Byte.of_N (n + 32) with Some d => d | None => c end else c.
Definition ascii_lower (s : ident) : ident := map ascii_lower_byte s.
