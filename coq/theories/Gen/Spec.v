(* What the markers mean, written from the property texts (C01-C07, C09), at the level of field
   values: no condition syntax, no error-variable names, no generator state. *)
From GV Require Import Base.Bytes Base.Utf8 Base.StrOps Base.GoFloat GoLite.Syntax GoLite.Sem Gen.Decl Gen.Rules.
From GV Require Import Helpers.Uuid Helpers.Email Helpers.Url Helpers.Alnum.

(* v OP n for a numeric field value and a bound given by its literal *)
Definition num_rel (op : cmpop) (v : value) (n : numlit) : option bool :=
  match v with
  | VInt x => match nl_int n with Some z => Some (zcmp op x z) | None => None end
  | VF32 x => Some (fcmp32 op x (nl_f32 n))
  | VF64 x => Some (fcmp64 op x (nl_f64 n))
  | _ => None
  end.

(* the zero value of the field's type *)
Definition is_zero_value (v : value) : option bool :=
  match v with
  | VInt x => Some (Z.eqb x 0)
  | VF32 x => Some (fcmp32 OpEq x 0)          (* +0.0 and -0.0 *)
  | VF64 x => Some (fcmp64 OpEq x 0)
  | VComplex z => Some z
  | VBool b => Some (negb b)
  | VStr s => Some (is_empty s)
  | VNilable n => Some n
  | VColl n _ => Some n                       (* nil, not merely empty *)
  | VArr n => Some (Nat.eqb n 0)
  | VStruct _ | VOpaque => None               (* no rule *)
  end.

Definition coll_len (v : value) : option Z :=
  match v with VColl _ n | VArr n => Some (Z.of_nat n) | _ => None end.

Definition str_of (v : value) : option bytes := match v with VStr s => Some s | _ => None end.

Definition okb (r : res bool) : bool := match r with Ok b => b | Panic => false end.

(* Some true: the rule is violated; Some false: satisfied; None: the rule does not apply / undefined *)
Definition violated (ip_class : bytes -> ipclass) (tab : numtab) (r : rule) (arg : option bytes) (t : gtype) (v : value) : option bool :=
  match r with
  | RGt | RGte | RLt | RLte =>
      if is_numeric_type t then
        match arg with
        | Some a => match num_of tab a with
                    | Some n => option_map negb (num_rel (match r with RGt => OpGt | RGte => OpGe | RLt => OpLt | _ => OpLe end) v n)
                    | None => None
                    end
        | None => None
        end
      else None
  | RRequired => is_zero_value v
  | RMinlength | RMaxlength | RLength =>
      if is_string_type t then
        match arg, str_of v with
        | Some a, Some s =>
            match num_of tab a with
            | Some n => match nl_int n with
                        | Some z => let c := Z.of_nat (rune_count s) in
                                    Some (match r with RMinlength => Z.ltb c z | RMaxlength => Z.ltb z c | _ => negb (Z.eqb c z) end)
                        | None => None
                        end
            | None => None
            end
        | _, _ => None
        end
      else None
  | RMinitems | RMaxitems =>
      if is_collection_type t then
        match arg, coll_len v with
        | Some a, Some c =>
            match num_of tab a with
            | Some n => match nl_int n with
                        | Some z => Some (match r with RMinitems => Z.ltb c z | _ => Z.ltb z c end)
                        | None => None
                        end
            | None => None
            end
        | _, _ => None
        end
      else None
  | REnum =>
      match arg, enum_kind_of t with
      | Some a, Some EString =>
          match v with
          | VStr s => Some (negb (existsb (bytes_eqb s) (enum_items a)))
          | _ => None
          end
      | Some a, Some ENumeric =>
          (* accepted iff numerically equal to one of the items *)
          let items := map (num_of tab) (enum_items a) in
          if forallb (fun o => match o with Some _ => true | None => false end) items then
            (fix go (l : list (option numlit)) : option bool :=
               match l with
               | [] => Some true
               | Some n :: r => match num_rel OpEq v n, go r with
                                | Some e, Some rest => Some (negb e && rest)
                                | _, _ => None
                                end
               | None :: _ => None
               end) items
          else None
      | _, _ => None
      end
  | REmail => if is_string_type t then option_map (fun s => negb (okb (IsValidEmail s))) (str_of v) else None
  | RUrl => if is_string_type t then option_map (fun s => negb (okb (IsValidURL s))) (str_of v) else None
  | RUuid => if is_string_type t then option_map (fun s => negb (okb (IsValidUUID s))) (str_of v) else None
  | RAlpha => if is_string_type t then option_map (fun s => negb (IsValidAlpha s)) (str_of v) else None
  | RNumeric => if is_string_type t then option_map (fun s => negb (IsNumeric s)) (str_of v) else None
  | RIpv4 => if is_string_type t then option_map (fun s => match ip_class s with IsV4 => false | _ => true end) (str_of v) else None
  | RIpv6 => if is_string_type t then option_map (fun s => match ip_class s with IsV6 => false | _ => true end) (str_of v) else None
  | RCel => None
  end.

(* one expected report entry: dotted path, rule name, and the field's current value *)
Record want := { w_path : bytes; w_type : bytes; w_value : value }.

Definition rules_of (tms : list marker) (doc : list bytes) : list marker := tms ++ sorted_markers doc.

Definition want_for (ip_class : bytes -> ipclass) (tab : numtab) (ms : list marker) (S : ident) (parent : list ident)
           (n : ident) (t : gtype) (v : value) : list want :=
  flat_map (fun m =>
    match rule_of_id (mk_id m) with
    | Some r => match violated ip_class tab r (mk_arg m) t v with
                | Some true => [{| w_path := field_path S parent n; w_type := trim_prefix (bs "govalid:") (mk_id m); w_value := v |}]
                | _ => []
                end
    | None => []
    end) ms.

(* every name of every field, nested inline structs with their full dotted path *)
Fixpoint want_field (ip_class : bytes -> ipclass) (tab : numtab) (tms : list marker) (S : ident) (parent : list ident)
         (cur : list (ident * value)) (fd : field) : list want :=
  match fd with
  | FPlain names doc t =>
      flat_map (fun n => match get_field cur n with
                         | Some v => want_for ip_class tab (rules_of tms doc) S parent n t v
                         | None => []
                         end) names
  | FNested names doc fs =>
      flat_map (fun n => match get_field cur n with
                         | Some (VStruct sub) =>
                             (fix go (l : list field) : list want :=
                                match l with
                                | [] => []
                                | g :: r => want_field ip_class tab tms S (parent ++ [n]) sub g ++ go r
                                end) fs
                         | _ => []
                         end) names
  end.

Definition expected (ip_class : bytes -> ipclass) (tab : numtab) (d : sdecl) (root : value) : list want :=
  match root with
  | VStruct fs => flat_map (want_field ip_class tab (sorted_markers (sd_doc d)) (sd_name d) [] fs) (sd_fields d)
  | _ => []
  end.
