(* internal/analyzers/govalid/govalid.go (analyzeMarker, makeValidator) and
   templates/validation.go.tmpl, as a function from a struct declaration to a GoLite file. *)
From GV Require Import Base.Bytes Base.StrOps Base.GoFloat GoLite.Syntax Gen.Decl Gen.Rules.

Record metadata := { md_validators : list validator; md_parent : list ident }.   (* ParentVariable *)

(* makeValidator: one validator per marker whose identifier is registered and whose factory accepts *)
Definition make_validators (tab : numtab) (ms : list marker) (f : ident) (t : gtype)
           (S : ident) (parent : list ident) : list validator :=
  flat_map (fun m =>
    match rule_of_id (mk_id m) with
    | None => []
    | Some r =>
        match make_cond tab r f t (mk_arg m) with
        | NoValidator => []
        | EmptyCond => [{| v_rule := r; v_rulename := trim_prefix (bs "govalid:") (mk_id m); v_field := f;
                           v_struct := S; v_parent := parent; v_cond := None |}]
        | WithCond c => [{| v_rule := r; v_rulename := trim_prefix (bs "govalid:") (mk_id m); v_field := f;
                            v_struct := S; v_parent := parent; v_cond := Some c |}]
        end
    end) ms.

(* the (name, type) pairs that a nested struct's direct fields contribute to the propagation loop;
   a field that is itself an inline struct is seen by go/types as a struct type *)
Definition direct_fields (fs : list field) : list (ident * gtype) :=
  flat_map (fun fd => match fd with
                      | FPlain names _ t => map (fun n => (n, t)) names
                      | FNested names _ _ => map (fun n => (n, TStructT)) names
                      end) fs.

(* analyzeMarker *)
Fixpoint analyze_field (tab : numtab) (tms : list marker) (S : ident) (parent : list ident) (fd : field) : list metadata :=
  match fd with
  | FPlain names doc t =>
      let ms := tms ++ sorted_markers doc in
      flat_map (fun n =>
        match make_validators tab ms n t S parent with
        | [] => []
        | vs => [{| md_validators := vs; md_parent := parent |}]
        end) names
  | FNested names doc fs =>
      let ms := tms ++ sorted_markers doc in
      flat_map (fun n =>
        (* propagate the markers of this field to the nested fields, with the OUTER parent path *)
        let vs := flat_map (fun nt => make_validators tab ms (fst nt) (snd nt) S parent) (direct_fields fs) in
        let pv := parent ++ [n] in
        (match vs with [] => [] | _ => [{| md_validators := vs; md_parent := pv |}] end)
        ++ (fix go (l : list field) : list metadata :=
              match l with
              | [] => []
              | g :: r => analyze_field tab tms S pv g ++ go r
              end) fs) names
  end.

Definition analyze (tab : numtab) (d : sdecl) : list metadata :=
  let tms := sorted_markers (sd_doc d) in
  flat_map (analyze_field tab tms (sd_name d) []) (sd_fields d).

(* ---------- the template ---------- *)
Definition key_eqb (a b : rule * bytes) : bool := rule_eqb (fst a) (fst b) && bytes_eqb (snd a) (snd b).

(* {{.Err}} for every validator whose Validate is not empty, with the per-struct memory *)
Fixpoint err_decls (vs : list validator) (seen : list (rule * bytes)) : list vdecl :=
  match vs with
  | [] => []
  | v :: r =>
      match v_cond v with
      | None => err_decls r seen
      | Some _ =>
          if existsb (key_eqb (v_key v)) seen then err_decls r seen
          else (if bytes_eqb (v_errvar v) (v_legacy v) then [] else [DAlias (v_legacy v) (v_errvar v)])
               ++ DSentinel (v_errvar v) (v_path v) (v_rulename v)
               :: err_decls r (v_key v :: seen)
      end
  end.

Definition checks_of (vs : list validator) : list item :=
  flat_map (fun v => match v_cond v with
                     | Some c => [ICheck c [ACopy (v_errvar v); ASetValue (v_field v); AAppend]]
                     | None => []
                     end) vs.

Definition group_items (m : metadata) : list item :=
  match md_parent m with
  | [] => IPoll :: checks_of (md_validators m)
  | p => [IBlock (IPoll :: IShadow p :: checks_of (md_validators m))]
  end.

Definition all_validators (mds : list metadata) : list validator := flat_map md_validators mds.

Definition gen_file (tab : numtab) (d : sdecl) : option file :=
  match analyze tab d with
  | [] => None                                    (* no rules: no file is written *)
  | mds =>
      Some {| f_type := sd_name d;
              f_decls := DAssert (bs "govalid.Validator") (sd_name d)
                         :: DNil (bs "ErrNil" ++ sd_name d)
                         :: err_decls (all_validators mds) [];
              f_nilguard := Some (bs "ErrNil" ++ sd_name d);
              f_items := flat_map group_items mds;
              f_tail_ok := true;
              f_wrappers_ok := true |}
  end.
