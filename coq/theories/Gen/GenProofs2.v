(* Part 2 of the report-exactness proof: executing the checks the generator emits for one field. *)
From GV Require Import Base.Bytes Base.Utf8 Base.StrOps Base.GoFloat GoLite.Syntax GoLite.Sem Gen.Decl Gen.Rules Gen.Template Gen.Spec Gen.GenProofs1 Gen.Typed.

(* ---------- conditions produced by make_cond never panic ---------- *)
Section NoPanic.
  Variable ipc : bytes -> ipclass.
  Variable tab : numtab.
  Notation ev := (eval_cond ipc).

  Lemma not_pure_no_panic (cur : value) (c : cond) : pure_cond c = true -> ev cur (CNot c) <> CPanic.
  Proof.
    intro P. rewrite eval_not. pose proof (pure_no_panic ipc cur c P). destruct (ev cur c); congruence.
  Qed.

  Lemma helper_no_panic (cur : value) (h : helper) (f : ident) : ev cur (CNot (CHelper h f)) <> CPanic.
  Proof.
    rewrite eval_not. cbn [eval_cond]. destruct (get_path cur [f]) as [v|]; [destruct v|]; try discriminate.
    destruct (helper_total h s) as [r Hr]. rewrite Hr. discriminate.
  Qed.

  Lemma cond_no_panic r f t arg c cur : make_cond tab r f t arg = WithCond c -> ev cur c <> CPanic.
  Proof.
    intro Hm. destruct r; cbn [make_cond] in Hm;
      repeat match type of Hm with
             | (if ?x then _ else _) = _ => destruct x
             | match ?x with _ => _ end = _ => destruct x eqn:?
             end; try discriminate; injection Hm as <-;
      try apply helper_no_panic; try discriminate.
    all: try (unfold num_cmp; destruct (num_of tab _); try discriminate;
              first [apply not_pure_no_panic; reflexivity | apply pure_no_panic; reflexivity]).
    all: try (cbn [eval_cond]; destruct (get_path cur [f]) as [v|]; [destruct v|]; discriminate).
    - (* enum *)
      apply pure_no_panic. eapply conj_pure; [|eassumption].
      apply Forall_forall. intros x Hx. apply in_map_iff in Hx as [it [<- _]].
      destruct e; try reflexivity. destruct (num_of tab it); reflexivity.
    - (* required *)
      unfold required_cond in *.
      repeat match goal with
             | H : match ?x with _ => _ end = Some _ |- _ => destruct x eqn:?; try discriminate H
             end;
      match goal with H : Some _ = Some _ |- _ => injection H as <- end; apply pure_no_panic; reflexivity.
  Qed.
End NoPanic.

(* ---------- running the emitted checks ---------- *)
Section Run.
  Variable ipc : bytes -> ipclass.
  Variable tab : numtab.
  Variable tbl : list (ident * (bytes * bytes)).      (* the sentinel table of the generated file *)
  Variable SA : Prop.     (* "stuck allowed": some marker parameter of the declaration is outside the documented language *)
  Notation ev := (eval_cond ipc).
  Notation runi := (run_item ipc background tbl).
  Notation runs := (run_items ipc background tbl).

  Definition proj (e : entry) : bytes * bytes * option value := (e_path e, e_type e, e_value e).
  Definition projw (w : want) : bytes * bytes * option value := (w_path w, w_type w, Some (w_value w)).

  (* what a run of some items did to the state: it got stuck (the file would not type-check), or it
     appended exactly the wanted entries and touched nothing else *)
  Definition good (res : st + outcome) (s : st) (ws : list want) : Prop :=
    match res with
    | inr o => o_res o = RStuck /\ SA
    | inl s' => map proj (s_errs s') = map proj (s_errs s) ++ map projw ws /\
                s_local s' = None /\ s_gw s' = s_gw s /\
                s_allocs s' = s_allocs s + 2 * length ws
    end.

  Lemma good_nil s : s_local s = None -> good (inl s) s [].
  Proof. intro H. cbn. rewrite app_nil_r, Nat.add_0_r. auto. Qed.

  Lemma good_trans r s s' ws ws' :
    good (inl s') s ws -> good r s' ws' -> good r s (ws ++ ws').
  Proof.
    intros (A & B & C & D) H. destruct r as [s''|o]; [|exact H].
    destruct H as (A' & B' & C' & D'). cbn. rewrite A', A, map_app, app_assoc, app_length.
    repeat split; auto; try congruence. lia.
  Qed.

  Definition no_shadow (i : item) : Prop := match i with IShadow _ => False | _ => True end.

  Lemma run_item_keeps_shadow root i sh s s' sh' : no_shadow i -> runi root i sh s = inl (s', sh') -> sh' = sh.
  Proof.
    destruct i; cbn [no_shadow]; intros N H; try contradiction.
    - cbn in H. injection H as _ <-. reflexivity.
    - cbn [run_item] in H. destruct (get_path root sh); [|discriminate].
      destruct (eval_cond _ _ _) as [[|]| |]; try discriminate.
      + destruct (run_actions _ _ _ _); [|discriminate]. injection H as _ <-. reflexivity.
      + injection H as _ <-. reflexivity.
    - rewrite run_block in H. destruct (run_items _ _ _ _ _ _ _); [|discriminate]. injection H as _ <-. reflexivity.
  Qed.

  Lemma run_items_app root a b sh s :
    Forall no_shadow a ->
    runs root (a ++ b) sh s = match runs root a sh s with inl s' => runs root b sh s' | inr o => inr o end.
  Proof.
    revert s. induction a as [|i a IH]; intros s F; [reflexivity|].
    inversion F; subst. cbn [app run_items].
    destruct (runi root i sh s) as [[s' sh']|o] eqn:E; [|reflexivity].
    rewrite (run_item_keeps_shadow _ _ _ _ _ _ H1 E). apply IH. assumption.
  Qed.

  (* one check, with the standard body *)
  Lemma run_check root sh s cur c evar f p t val :
    get_path root sh = Some (VStruct cur) -> s_local s = None ->
    lookup_sentinel tbl evar = Some (p, t) -> get_field cur f = Some val ->
    runi root (ICheck c [ACopy evar; ASetValue f; AAppend]) sh s =
    match ev (VStruct cur) c with
    | CB true => inl ({| s_errs := s_errs s ++ [{| e_sentinel := evar; e_path := p; e_type := t; e_value := Some val |}];
                         s_calls := s_calls s; s_allocs := S (S (s_allocs s)); s_gw := s_gw s; s_local := None |}, sh)
    | CB false => inl (s, sh)
    | CStuck => inr {| o_res := RStuck; o_st := s |}
    | CPanic => inr {| o_res := RPanic; o_st := s |}
    end.
  Proof.
    intros Hp Hl Hs Hf. cbn [run_item]. rewrite Hp.
    destruct (ev (VStruct cur) c) as [[|]| |]; try reflexivity.
    cbn [run_actions run_action]. rewrite Hs. cbn [s_local]. rewrite get_path1, Hf. cbn. reflexivity.
  Qed.

  (* the checks for one (name, type) of a field and a list of markers *)
  Lemma checks_run root sh cur ms n t v S parent :
    get_path root sh = Some (VStruct cur) ->
    get_field cur n = Some v -> has_type v t = true ->
    (forall vd, In vd (make_validators tab ms n t S parent) -> v_cond vd <> None ->
                lookup_sentinel tbl (v_errvar vd) = Some (v_path vd, v_rulename vd)) ->
    (ms_params_ok tab ms t = false -> SA) ->
    forall s, s_local s = None ->
    good (runs root (checks_of (make_validators tab ms n t S parent)) sh s) s (want_for ipc tab ms S parent n t v).
  Proof.
    intros Hp Hf Ht. induction ms as [|m ms IH]; intros Hlook Hpar s Hl.
    2: assert (Hpar' : ms_params_ok tab ms t = false -> SA)
         by (intro X; apply Hpar; unfold ms_params_ok; cbn [forallb]; fold (ms_params_ok tab ms t); rewrite X; apply andb_false_r).
    - apply good_nil. exact Hl.
    - unfold make_validators, want_for, checks_of in *. cbn [flat_map] in *.
      fold (make_validators tab ms n t S parent) in *. fold (want_for ipc tab ms S parent n t v) in *.
      destruct (rule_of_id (mk_id m)) as [r|] eqn:R; [|cbn [app] in *; apply IH; auto].
      destruct (make_cond tab r n t (mk_arg m)) as [| |c] eqn:M.
      + (* no validator *)
        rewrite (cond_absent ipc tab r n t (mk_arg m) v) by (try (intros c; rewrite M; discriminate); exact Ht).
        cbn [app] in *. apply IH; auto.
      + (* a validator whose Validate() is empty: declared nowhere, checked nowhere *)
        rewrite (cond_absent ipc tab r n t (mk_arg m) v) by (try (intros c; rewrite M; discriminate); exact Ht).
        cbn [app flat_map v_cond] in *. apply IH; [|exact Hpar'|exact Hl]. intros vd Hin. apply Hlook. right. exact Hin.
      + (* a check *)
        pose proof (Hlook _ (or_introl eq_refl) ltac:(discriminate)) as L.
        cbn [v_errvar v_path v_rulename v_rule v_struct v_parent v_field] in L.
        cbn [app flat_map v_cond v_errvar v_field v_rule v_struct v_parent] in *.
        match goal with |- good (runs root (?x :: ?l) sh s) _ _ => change (x :: l) with ([x] ++ l) end.
        rewrite run_items_app by (constructor; [exact I|constructor]).
        cbn [run_items]. rewrite (run_check root sh s cur c _ n _ _ v Hp Hl L Hf).
        pose proof (cond_no_panic ipc tab r n t (mk_arg m) c (VStruct cur) M) as NP.
        destruct (ev (VStruct cur) c) as [b| |] eqn:E; [| |congruence].
        2: { split; [reflexivity|]. apply Hpar. unfold ms_params_ok. cbn [forallb]. unfold marker_params_ok at 1. rewrite R.
             destruct (rule_params_ok tab r (mk_arg m) t) eqn:RP; [|reflexivity].
             exfalso. exact (cond_typed ipc tab r n t (mk_arg m) c cur v RP M Hf Ht E). }
        rewrite (cond_sound ipc tab r n t (mk_arg m) c cur v b M Hf Ht E).
        assert (IH' : forall s0, s_local s0 = None ->
                  good (runs root (checks_of (make_validators tab ms n t S parent)) sh s0) s0 (want_for ipc tab ms S parent n t v)).
        { apply IH; [|exact Hpar']. intros vd' Hin. apply Hlook. right. exact Hin. }
        destruct b.
        * eapply (good_trans _ s _ [_]); [|apply IH'; reflexivity].
          cbn. rewrite map_app. cbn. repeat split; auto. lia.
        * apply IH'. exact Hl.
  Qed.
End Run.
