(* One function per file of internal/validator/rules: the factory's type guard and the emitted
   condition; the naming scheme shared by all rules (fieldpath.go). *)
From GV Require Import Base.Bytes Base.StrOps Base.GoFloat GoLite.Syntax Gen.Decl.

Inductive rule :=
| RAlpha | RCel | REmail | REnum | RGt | RGte | RIpv4 | RIpv6 | RLength | RLt | RLte
| RMaxitems | RMaxlength | RMinitems | RMinlength | RNumeric | RRequired | RUrl | RUuid.

Definition rule_eqb (a b : rule) : bool :=
  match a, b with
  | RAlpha, RAlpha | RCel, RCel | REmail, REmail | REnum, REnum | RGt, RGt | RGte, RGte
  | RIpv4, RIpv4 | RIpv6, RIpv6 | RLength, RLength | RLt, RLt | RLte, RLte
  | RMaxitems, RMaxitems | RMaxlength, RMaxlength | RMinitems, RMinitems | RMinlength, RMinlength
  | RNumeric, RNumeric | RRequired, RRequired | RUrl, RUrl | RUuid, RUuid => true
  | _, _ => false
  end.

Lemma rule_eqb_eq a b : rule_eqb a b = true <-> a = b.
Proof. destruct a, b; cbn; split; congruence. Qed.

(* the registry: marker identifier -> rule *)
Definition registry : list (bytes * rule) :=
  [(bs "govalid:alpha", RAlpha); (bs "govalid:cel", RCel); (bs "govalid:email", REmail);
   (bs "govalid:enum", REnum); (bs "govalid:gt", RGt); (bs "govalid:gte", RGte);
   (bs "govalid:ipv4", RIpv4); (bs "govalid:ipv6", RIpv6); (bs "govalid:length", RLength);
   (bs "govalid:lt", RLt); (bs "govalid:lte", RLte); (bs "govalid:maxitems", RMaxitems);
   (bs "govalid:maxlength", RMaxlength); (bs "govalid:minitems", RMinitems);
   (bs "govalid:minlength", RMinlength); (bs "govalid:numeric", RNumeric);
   (bs "govalid:required", RRequired); (bs "govalid:url", RUrl); (bs "govalid:uuid", RUuid)].

Fixpoint assoc {A} (l : list (bytes * A)) (k : bytes) : option A :=
  match l with
  | [] => None
  | (k', v) :: r => if bytes_eqb k' k then Some v else assoc r k
  end.

Definition rule_of_id (id : bytes) : option rule := assoc registry id.

(* "Err[@PATH]<suffix>" *)
Definition suffix (r : rule) : bytes :=
  bs match r with
     | RAlpha => "AlphaValidation" | RCel => "CELValidation" | REmail => "EmailValidation"
     | REnum => "EnumValidation" | RGt => "GTValidation" | RGte => "GTEValidation"
     | RIpv4 => "Ipv4Validation" | RIpv6 => "Ipv6Validation" | RLength => "LengthValidation"
     | RLt => "LTValidation" | RLte => "LTEValidation" | RMaxitems => "MaxItemsValidation"
     | RMaxlength => "MaxLengthValidation" | RMinitems => "MinItemsValidation"
     | RMinlength => "MinLengthValidation" | RNumeric => "NumericValidation"
     | RRequired => "RequiredValidation" | RUrl => "URLValidation" | RUuid => "UUIDValidation"
     end%string.

(* ---------- type guards ---------- *)
Definition basic_is_numeric (b : basic) : bool :=      (* types.IsNumeric: integers, floats, complex *)
  match b with BInt _ | BF32 | BF64 | BC64 | BC128 => true | _ => false end.

Definition is_numeric_type (t : gtype) : bool :=
  match underlying t with TBasic b => basic_is_numeric b | _ => false end.

Definition is_string_type (t : gtype) : bool :=
  match underlying t with TBasic BString => true | _ => false end.

Definition is_collection_type (t : gtype) : bool :=
  match underlying t with TSlice | TArray _ | TMap | TChan => true | _ => false end.

(* ---------- validatorhelper.Zero and required() ---------- *)
Definition zero_lit : numlit := {| nl_int := Some 0%Z; nl_f32 := 0%Z; nl_f64 := 0%Z |}.

Definition zero_of_basic (b : basic) : option operand :=
  match b with
  | BBool => Some (OBool false)
  | BInt _ => Some (ONum zero_lit)
  | BF32 | BF64 => Some (ONum zero_lit)
  | BC64 | BC128 => Some OZeroComplex
  | BString => Some (OStr [])
  | BUnsafePtr => Some ONil
  end.

Definition zero_of (t : gtype) : option operand :=
  match t with
  | TBasic b => zero_of_basic b
  | TPointer | TInterface | TSignature => Some ONil
  | TNamed u => match u with
                | TBasic b => zero_of_basic b
                | TPointer | TInterface | TSignature => Some ONil
                | _ => None
                end
  | _ => None
  end.

(* required(name, typ): switch on the underlying type for collections, else compare with Zero *)
Definition required_cond (f : ident) (t : gtype) : option cond :=
  match underlying t with
  | TSlice | TMap | TChan => Some (CCmp OpEq (OField f) ONil)
  | TArray _ => Some (CCmp OpEq (OLen f) (ONum zero_lit))
  | _ => match zero_of t with
         | Some z => Some (CCmp OpEq (OField f) z)
         | None => None
         end
  end.

(* ---------- enum ---------- *)
Inductive enum_kind := EString | ENumeric | ECustom.

Definition enum_kind_of (t : gtype) : option enum_kind :=
  match underlying t with
  | TBasic BString => Some EString
  | TBasic (BInt UIntptr) => None
  | TBasic (BInt _) | TBasic BF32 | TBasic BF64 => Some ENumeric
  | TBasic _ => None
  | _ => Some ECustom
  end.

Definition enum_items (arg : bytes) : list bytes := map trim_space (split_on ","%byte arg).

Fixpoint conj (cs : list cond) : option cond :=
  match cs with
  | [] => None
  | [c] => Some c
  | c :: r => match conj r with Some d => Some (CAnd c d) | None => Some c end
  end.

(* the condition for one (rule, field, type, argument); None = no validator / empty Validate() *)
Inductive made := NoValidator | EmptyCond | WithCond (c : cond).

Definition num_cmp (tab : numtab) (neg : bool) (op : cmpop) (lhs : operand) (arg : bytes) : cond :=
  match num_of tab arg with
  | Some n => if neg then CNot (CCmp op lhs (ONum n)) else CCmp op lhs (ONum n)
  | None => CRaw []
  end.

Definition make_cond (tab : numtab) (r : rule) (f : ident) (t : gtype) (arg : option bytes) : made :=
  match r with
  | RGt | RGte | RLt | RLte =>
      if is_numeric_type t then
        match arg with
        | Some a => WithCond (num_cmp tab true (match r with RGt => OpGt | RGte => OpGe | RLt => OpLt | _ => OpLe end) (OField f) a)
        | None => NoValidator
        end
      else NoValidator
  | RRequired => match required_cond f t with Some c => WithCond c | None => EmptyCond end
  | RMinlength | RMaxlength | RLength =>
      if is_string_type t then
        match arg with
        | Some a => WithCond (num_cmp tab false (match r with RMinlength => OpLt | RMaxlength => OpGt | _ => OpNe end) (ORuneCount f) a)
        | None => NoValidator
        end
      else NoValidator
  | RMinitems | RMaxitems =>
      if is_collection_type t then
        match arg with
        | Some a => WithCond (num_cmp tab false (match r with RMinitems => OpLt | _ => OpGt end) (OLen f) a)
        | None => NoValidator
        end
      else NoValidator
  | REnum =>
      match arg with
      | None => NoValidator
      | Some a =>
          match enum_kind_of t with
          | None => NoValidator
          | Some k =>
              let items := enum_items a in
              let one (it : bytes) : cond :=
                match k with
                | EString | ECustom => CCmp OpNe (OField f) (OStr it)
                | ENumeric => match num_of tab it with
                              | Some n => CCmp OpNe (OField f) (ONum n)
                              | None => CRaw []
                              end
                end in
              match conj (map one items) with Some c => WithCond c | None => EmptyCond end
          end
      end
  | REmail => if is_string_type t then WithCond (CNot (CHelper HEmail f)) else NoValidator
  | RUrl => if is_string_type t then WithCond (CNot (CHelper HURL f)) else NoValidator
  | RUuid => if is_string_type t then WithCond (CNot (CHelper HUUID f)) else NoValidator
  | RAlpha => if is_string_type t then WithCond (CNot (CHelper HAlpha f)) else NoValidator
  | RNumeric => if is_string_type t then WithCond (CNot (CHelper HNumeric f)) else NoValidator
  | RIpv4 => if is_string_type t then WithCond (CIp true f) else NoValidator
  | RIpv6 => if is_string_type t then WithCond (CIp false f) else NoValidator
  | RCel => match arg with
            | Some a => if is_empty (trim_space a) then NoValidator else WithCond (CRaw [])
            | None => NoValidator
            end
  end.

(* ---------- names and paths (fieldpath.go) ---------- *)
Definition dotted (l : list ident) : bytes := join "."%byte l.

(* NewFieldPath(structName, parentPath, fieldName): blank components are skipped *)
Definition field_path (S : ident) (parent : list ident) (f : ident) : bytes := dotted (S :: parent ++ [f]).
Definition cleaned (S : ident) (parent : list ident) (f : ident) : bytes := concat (S :: parent ++ [f]).

Record validator := {
  v_rule : rule;
  v_rulename : bytes;          (* marker identifier without "govalid:" = the Type of the error *)
  v_field : ident;
  v_struct : ident;
  v_parent : list ident;       (* ParentPath, as components *)
  v_cond : option cond         (* None: Validate() = "" *)
}.

Definition v_path (v : validator) : bytes := field_path (v_struct v) (v_parent v) (v_field v).
Definition v_errvar (v : validator) : ident := bs "Err" ++ cleaned (v_struct v) (v_parent v) (v_field v) ++ suffix (v_rule v).
Definition v_legacy (v : validator) : ident := bs "Err" ++ v_struct v ++ v_field v ++ suffix (v_rule v).
(* GeneratorMemory key, up to the constant per-struct prefix: (rule, cleaned path) *)
Definition v_key (v : validator) : rule * bytes := (v_rule v, cleaned (v_struct v) (v_parent v) (v_field v)).
