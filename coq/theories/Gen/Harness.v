(* Model-side observation functions used by the per-run correspondence files (gen/Run_*.v):
   what the compiled validator printed (obs) against what the model and the spec predict. *)
From GV Require Import Base.Bytes Base.StrOps Base.GoFloat GoLite.Syntax GoLite.Sem Gen.Decl Gen.Rules Gen.Template Gen.Spec.

Inductive obs :=
| ObNil
| ObErr (name : ident)
| ObCtx (code : nat)                            (* 1 Canceled, 2 DeadlineExceeded, 0 a nil error *)
| ObReport (es : list (bytes * bytes * bool))   (* Path, Type, Value equals the field's current value *)
| ObPanic
| ObOther.

Fixpoint value_eqb (a b : value) : bool :=
  match a, b with
  | VInt x, VInt y | VF32 x, VF32 y | VF64 x, VF64 y => Z.eqb x y
  | VComplex x, VComplex y | VBool x, VBool y | VNilable x, VNilable y => Bool.eqb x y
  | VStr x, VStr y => bytes_eqb x y
  | VColl n x, VColl m y => Bool.eqb n m && Nat.eqb x y
  | VArr x, VArr y => Nat.eqb x y
  | VStruct x, VStruct y =>
      (fix go (x y : list (ident * value)) : bool :=
         match x, y with
         | [], [] => true
         | (n, v) :: x', (m, w) :: y' => bytes_eqb n m && value_eqb v w && go x' y'
         | _, _ => false
         end) x y
  | VOpaque, VOpaque => true
  | _, _ => false
  end.

(* "T.A.B" -> [A; B] *)
Definition path_tail (p : bytes) : list ident := tl (split_on "."%byte p).

Definition entry_ok (root : value) (e : entry) : bool :=
  match e_value e, get_path root (path_tail (e_path e)) with
  | Some v, Some w => value_eqb v w
  | _, _ => false
  end.

Definition obs_of (recv : option value) (o : outcome) : obs :=
  match o_res o with
  | RNil => ObNil
  | RErr n => ObErr n
  | RCtx (Some Canceled) => ObCtx 1
  | RCtx (Some DeadlineExceeded) => ObCtx 2
  | RCtx None => ObCtx 0
  | RReport es => match recv with
                  | Some root => ObReport (map (fun e => (e_path e, e_type e, entry_ok root e)) es)
                  | None => ObOther
                  end
  | RPanic => ObPanic
  | RStuck => ObOther
  end.

Definition obs_of_spec (d : sdecl) (ws : list want) : obs :=
  match ws with
  | [] => ObNil
  | _ => ObReport (map (fun w => (w_path w, w_type w, true)) ws)
  end.

Definition triple_eqb (a b : bytes * bytes * bool) : bool :=
  let '(p, t, o) := a in let '(p', t', o') := b in bytes_eqb p p' && bytes_eqb t t' && Bool.eqb o o'.

Definition obs_eqb (a b : obs) : bool :=
  match a, b with
  | ObNil, ObNil | ObPanic, ObPanic | ObOther, ObOther => true
  | ObErr x, ObErr y => bytes_eqb x y
  | ObCtx x, ObCtx y => Nat.eqb x y
  | ObReport x, ObReport y => list_eqb triple_eqb x y
  | _, _ => false
  end.

(* the property fixes which entries appear, not their order: compare reports as multisets *)
Fixpoint remove_first (t : bytes * bytes * bool) (l : list (bytes * bytes * bool)) : option (list (bytes * bytes * bool)) :=
  match l with
  | [] => None
  | x :: r => if triple_eqb t x then Some r
              else match remove_first t r with Some r' => Some (x :: r') | None => None end
  end.

Fixpoint multiset_eqb (a b : list (bytes * bytes * bool)) : bool :=
  match a with
  | [] => match b with [] => true | _ => false end
  | x :: r => match remove_first x b with Some b' => multiset_eqb r b' | None => false end
  end.

Definition obs_same_set (a b : obs) : bool :=
  match a, b with
  | ObReport x, ObReport y => multiset_eqb x y
  | _, _ => obs_eqb a b
  end.

(* C02 projection: which rules are reported (as a multiset of Type names), whatever the Path *)
Definition obs_same_types (a b : obs) : bool :=
  match a, b with
  | ObReport x, ObReport y =>
      multiset_eqb (map (fun e => let '(_, t, _) := e in ([], t, true)) x) (map (fun e => let '(_, t, _) := e in ([], t, true)) y)
  | _, _ => obs_eqb a b
  end.

(* ctx oracle of the driver: non-nil from the flip-th call on *)
Definition flip_ctx (flip : option nat) (e : ctxerr) : nat -> option ctxerr :=
  fun k => match flip with
           | Some f => if Nat.leb f k then Some e else None
           | None => None
           end.

Definition opt_file_eqb (a b : option file) : bool :=
  match a, b with
  | Some x, Some y => file_eqb x y
  | None, None => true
  | _, _ => false
  end.

(* where two files differ: (component, index); component 0 = equal, 1 = type, 2 = decls, 3 = nil guard,
   4 = items, 5 = tail, 6 = wrappers, 7 = one side has no file *)
Fixpoint first_diff {A} (e : A -> A -> bool) (a b : list A) (i : nat) : option nat :=
  match a, b with
  | [], [] => None
  | x :: a', y :: b' => if e x y then first_diff e a' b' (S i) else Some i
  | _, _ => Some i
  end.

Definition file_diff (a b : option file) : nat * nat :=
  match a, b with
  | None, None => (0, 0)
  | Some x, Some y =>
      if negb (ident_eqb (f_type x) (f_type y)) then (1, 0)
      else match first_diff vdecl_eqb (f_decls x) (f_decls y) 0 with
           | Some i => (2, i)
           | None =>
               if negb (optid_eqb (f_nilguard x) (f_nilguard y)) then (3, 0)
               else match first_diff item_eqb (f_items x) (f_items y) 0 with
                    | Some i => (4, i)
                    | None => if negb (Bool.eqb (f_tail_ok x) (f_tail_ok y)) then (5, 0)
                              else if negb (Bool.eqb (f_wrappers_ok x) (f_wrappers_ok y)) then (6, 0) else (0, 0)
                    end
           end
  | _, _ => (7, 0)
  end.

(* errors.Is(err, S) for an exported sentinel S: some entry has S's Path and Type
   (Reason is copied from S together with them; Value is ignored) *)
Definition errors_is (es : list (bytes * bytes * bool)) (path ty : bytes) : bool :=
  existsb (fun e => let '(p, t, _) := e in bytes_eqb p path && bytes_eqb t ty) es.

(* ---------- from a certificate to a theorem about the emitted code ---------- *)
From GV Require Import Gen.Guard Gen.GenProofs2 Gen.GenProofs3 Gen.GenExact GoLite.CtxProofs GoLite.Safety.

(* If the file that the rebuilt govalid emitted (translated: p) equals the generator model's file for the
   declaration d - which is what a per-run certificate cert_i establishes by computation in the kernel - then the
   report-exactness theorem holds for THAT file, for every well-typed receiver value. *)
Theorem validator_sound ipc tab d (p : option file) :
  opt_file_eqb p (gen_file tab d) = true ->
  forall f, p = Some f -> in_guard tab d = true -> forall root, wt_struct d root ->
  let o := exec_file ipc background f (Some root) in
  o_res o = RStuck \/
  (report_of (o_res o) = Some (map projw (expected ipc tab d root)) /\
   (o_res o = RNil <-> expected ipc tab d root = []) /\
   s_gw (o_st o) = [] /\ s_allocs (o_st o) = 2 * length (expected ipc tab d root)).
Proof.
  intros E f -> G root W. unfold opt_file_eqb in E.
  destruct (gen_file tab d) as [g|] eqn:Hg; [|discriminate E].
  apply file_eqb_eq in E. subst g. exact (gen_exact ipc tab d f root G Hg W).
Qed.
