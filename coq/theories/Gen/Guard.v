(* Decidable predicates on declarations: the shapes on which the generator is known to deviate
   from the specification (classes of known_findings.json), and the guard of the main theorems. *)
From GV Require Import Base.Bytes Base.StrOps GoLite.Syntax Gen.Decl Gen.Rules Gen.Template.

Definition has_markers (doc : list bytes) : bool := negb (match markers_of_doc doc with [] => true | _ => false end).

(* D7: a marker written on a field whose type is an inline struct (propagated with the outer path) *)
Fixpoint kf_nested_field_marker_f (fd : field) : bool :=
  match fd with
  | FPlain _ _ _ => false
  | FNested _ doc fs =>
      has_markers doc ||
      (fix go (l : list field) : bool := match l with [] => false | g :: r => kf_nested_field_marker_f g || go r end) fs
  end.
Definition kf_nested_field_marker (d : sdecl) : bool := existsb kf_nested_field_marker_f (sd_fields d).

Definition is_nested (fd : field) : bool := match fd with FNested _ _ _ => true | _ => false end.

(* D8: struct-level markers together with an inline nested struct (nested fields checked twice) *)
Definition kf_structlevel_with_nested (d : sdecl) : bool :=
  has_markers (sd_doc d) && existsb is_nested (sd_fields d).

(* names declared by the var block of the generated file *)
Definition decl_name (v : vdecl) : list ident :=
  match v with
  | DNil n => [n] | DSentinel n _ _ => [n] | DAlias n _ => [n] | DAssert _ _ => []
  end.
Definition declared_names (f : file) : list ident := flat_map decl_name (f_decls f).

Fixpoint nodup_b (l : list ident) : bool :=
  match l with
  | [] => true
  | x :: r => negb (existsb (bytes_eqb x) r) && nodup_b r
  end.

(* D9 / D20: two declarations of the generated var block share a name (the file does not compile) *)
Definition kf_duplicate_names (tab : numtab) (d : sdecl) : bool :=
  match gen_file tab d with
  | Some f => negb (nodup_b (declared_names f))
  | None => false
  end.

(* D10: two checks of the struct share an error variable although their paths differ *)
Definition same_var_other_path (v w : validator) : bool :=
  bytes_eqb (v_errvar v) (v_errvar w) && negb (bytes_eqb (v_path v) (v_path w) && bytes_eqb (v_rulename v) (v_rulename w)).

Definition kf_shared_errvar (tab : numtab) (d : sdecl) : bool :=
  let vs := filter (fun v => match v_cond v with Some _ => true | None => false end) (all_validators (analyze tab d)) in
  existsb (fun v => existsb (same_var_other_path v) vs) vs.

(* bit mask reported to the orchestrator: 1 D7, 2 D8, 4 duplicate names, 8 shared error variable *)
Definition kf_mask (tab : numtab) (d : sdecl) : nat :=
  (if kf_nested_field_marker d then 1 else 0) + (if kf_structlevel_with_nested d then 2 else 0) +
  (if kf_duplicate_names tab d then 4 else 0) + (if kf_shared_errvar tab d then 8 else 0).

(* the guard of the report-exactness theorems *)
Definition in_guard (tab : numtab) (d : sdecl) : bool := Nat.eqb (kf_mask tab d) 0.
