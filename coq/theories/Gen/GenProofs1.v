(* Part 1 of the report-exactness proof: the condition emitted for a rule, evaluated by the GoLite
   semantics on a well-typed field value, decides exactly the rule's verdict in the specification. *)
From GV Require Import Base.Bytes Base.Utf8 Base.StrOps Base.GoFloat GoLite.Syntax GoLite.Sem Gen.Decl Gen.Rules Gen.Template Gen.Spec.
From GV Require Import Helpers.Uuid Helpers.Email Helpers.Url Helpers.Alnum Helpers.UuidProofs Helpers.EmailProofs Helpers.UrlProofs.

(* a field value of the shape go/types promises for the field's type *)
Definition has_type (v : value) (t : gtype) : bool :=
  match underlying t, v with
  | TBasic (BInt _), VInt _ => true
  | TBasic BF32, VF32 _ => true
  | TBasic BF64, VF64 _ => true
  | TBasic BC64, VComplex _ | TBasic BC128, VComplex _ => true
  | TBasic BBool, VBool _ => true
  | TBasic BString, VStr _ => true
  | TBasic BUnsafePtr, VNilable _ => true
  | TPointer, VNilable _ | TInterface, VNilable _ | TSignature, VNilable _ => true
  | TSlice, VColl _ _ | TMap, VColl _ _ | TChan, VColl _ _ => true
  | TArray n, VArr m => Nat.eqb n m
  | TStructT, VOpaque => true
  | _, _ => false
  end.

Lemma helper_total h s : exists b, helper_model h s = Ok b.
Proof.
  destruct h; cbn [helper_model].
  - apply IsValidEmail_total.
  - apply IsValidURL_total.
  - apply IsValidUUID_total.
  - eauto.
  - eauto.
Qed.

Section Cond.
  Variable ipc : bytes -> ipclass.
  Variable ctx : nat -> option ctxerr.
  Variable tab : numtab.

  Notation ev := (eval_cond ipc).

  Lemma get_path1 cur f : get_path (VStruct cur) [f] = get_field cur f.
  Proof. cbn. destruct (get_field cur f); reflexivity. Qed.

  Lemma cmp_num op v n : cmp_cv op (CVal v) (CNumLit n) = num_rel op v n.
  Proof. destruct v; reflexivity. Qed.

  Lemma eval_cmp_field_num cur f v op n :
    get_field cur f = Some v ->
    ev (VStruct cur) (CCmp op (OField f) (ONum n)) = match num_rel op v n with Some r => CB r | None => CStuck end.
  Proof.
    intro H. cbn [eval_cond eval_operand]. rewrite get_path1, H. rewrite cmp_num. reflexivity.
  Qed.

  Lemma eval_not cur x : ev cur (CNot x) = match ev cur x with CB r => CB (negb r) | o => o end.
  Proof. reflexivity. Qed.

  (* ---------- numeric bounds ---------- *)
  Lemma num_rule_sound op f (t : gtype) a cur v b :
    is_numeric_type t = true ->
    get_field cur f = Some v ->
    ev (VStruct cur) (num_cmp tab true op (OField f) a) = CB b ->
    (match num_of tab a with Some n => option_map negb (num_rel op v n) | None => None end) = Some b.
  Proof.
    intros _ Hf H. unfold num_cmp in H. destruct (num_of tab a) as [n|]; [|discriminate H].
    rewrite eval_not, (eval_cmp_field_num cur f v op n Hf) in H.
    destruct (num_rel op v n); [|discriminate H]. cbn. congruence.
  Qed.

  (* ---------- required ---------- *)
  Lemma Zeqb_of_nat m : Z.eqb (Z.of_nat m) 0 = Nat.eqb m 0.
  Proof. destruct m; reflexivity. Qed.

  Lemma bytes_eqb_nil s : bytes_eqb s [] = is_empty s.
  Proof. destruct s; reflexivity. Qed.

  Lemma required_sound f t c cur v b :
    required_cond f t = Some c -> get_field cur f = Some v -> has_type v t = true ->
    ev (VStruct cur) c = CB b -> is_zero_value v = Some b.
  Proof.
    unfold required_cond, has_type. intros Hc Hf Ht He.
    destruct (underlying t) as [bk|u| | | | |n| | |] eqn:U.
    - (* basic *)
      assert (Z : zero_of t = zero_of_basic bk).
      { destruct t; cbn in U |- *; try discriminate; first [congruence | subst; reflexivity]. }
      rewrite Z in Hc.
      destruct bk as [|k| | | | | |]; destruct v; try discriminate Ht; cbn in Hc; injection Hc as <-;
        cbn [eval_cond eval_operand] in He; rewrite get_path1, Hf in He; cbn in He; try (injection He as <-);
        try reflexivity.
      cbn. f_equal. symmetry. apply bytes_eqb_nil.
    - discriminate Ht.
    - assert (Z : zero_of t = Some ONil) by (destruct t; cbn in U |- *; try discriminate; first [reflexivity | subst; reflexivity]).
      rewrite Z in Hc. injection Hc as <-. destruct v; try discriminate Ht.
      cbn [eval_cond eval_operand] in He. rewrite get_path1, Hf in He. cbn in He |- *. congruence.
    - assert (Z : zero_of t = Some ONil) by (destruct t; cbn in U |- *; try discriminate; first [reflexivity | subst; reflexivity]).
      rewrite Z in Hc. injection Hc as <-. destruct v; try discriminate Ht.
      cbn [eval_cond eval_operand] in He. rewrite get_path1, Hf in He. cbn in He |- *. congruence.
    - assert (Z : zero_of t = Some ONil) by (destruct t; cbn in U |- *; try discriminate; first [reflexivity | subst; reflexivity]).
      rewrite Z in Hc. injection Hc as <-. destruct v; try discriminate Ht.
      cbn [eval_cond eval_operand] in He. rewrite get_path1, Hf in He. cbn in He |- *. congruence.
    - injection Hc as <-. destruct v; try discriminate Ht.
      cbn [eval_cond eval_operand] in He. rewrite get_path1, Hf in He. cbn in He |- *. congruence.
    - injection Hc as <-. destruct v; try discriminate Ht.
      cbn [eval_cond eval_operand] in He. rewrite get_path1, Hf in He. cbn in He.
      injection He as <-. cbn. f_equal. symmetry. apply Zeqb_of_nat.
    - injection Hc as <-. destruct v; try discriminate Ht.
      cbn [eval_cond eval_operand] in He. rewrite get_path1, Hf in He. cbn in He |- *. congruence.
    - injection Hc as <-. destruct v; try discriminate Ht.
      cbn [eval_cond eval_operand] in He. rewrite get_path1, Hf in He. cbn in He |- *. congruence.
    - (* struct type: no zero literal *)
      assert (Z : zero_of t = None) by (destruct t; cbn in U |- *; try discriminate; first [reflexivity | subst; reflexivity]).
      rewrite Z in Hc. discriminate Hc.
  Qed.

  Lemma required_none f t v : required_cond f t = None -> has_type v t = true -> is_zero_value v = None.
  Proof.
    unfold required_cond, has_type. intros Hc Ht.
    destruct (underlying t) as [bk|u| | | | |n| | |] eqn:U; try discriminate Hc.
    - assert (Z : zero_of t = zero_of_basic bk).
      { destruct t; cbn in U |- *; try discriminate; first [congruence | subst; reflexivity]. }
      rewrite Z in Hc. destruct bk; discriminate Hc.
    - discriminate Ht.
    - assert (Z : zero_of t = Some ONil) by (destruct t; cbn in U |- *; try discriminate; first [reflexivity | subst; reflexivity]).
      rewrite Z in Hc. discriminate.
    - assert (Z : zero_of t = Some ONil) by (destruct t; cbn in U |- *; try discriminate; first [reflexivity | subst; reflexivity]).
      rewrite Z in Hc. discriminate.
    - assert (Z : zero_of t = Some ONil) by (destruct t; cbn in U |- *; try discriminate; first [reflexivity | subst; reflexivity]).
      rewrite Z in Hc. discriminate.
    - destruct v; try discriminate Ht. reflexivity.
  Qed.

  (* ---------- string length and collection size ---------- *)
  Lemma eval_cmp_runecount cur f s op n :
    get_field cur f = Some (VStr s) ->
    ev (VStruct cur) (CCmp op (ORuneCount f) (ONum n)) =
    match nl_int n with Some z => CB (zcmp op (Z.of_nat (rune_count s)) z) | None => CStuck end.
  Proof.
    intro H. cbn [eval_cond eval_operand]. rewrite get_path1, H. cbn. destruct (nl_int n); reflexivity.
  Qed.

  Lemma eval_cmp_len cur f v c op n :
    get_field cur f = Some v -> coll_len v = Some c ->
    ev (VStruct cur) (CCmp op (OLen f) (ONum n)) =
    match nl_int n with Some z => CB (zcmp op c z) | None => CStuck end.
  Proof.
    intros H Hc. cbn [eval_cond eval_operand]. rewrite get_path1, H.
    destruct v; try discriminate Hc; cbn in Hc; injection Hc as <-; cbn; destruct (nl_int n); reflexivity.
  Qed.

  Lemma has_type_string v t : is_string_type t = true -> has_type v t = true -> exists s, v = VStr s.
  Proof.
    unfold is_string_type, has_type. destruct (underlying t) as [bk|u| | | | |n| | |]; try discriminate.
    destruct bk; try discriminate. intros _. destruct v; try discriminate. eauto.
  Qed.

  Lemma has_type_coll v t : is_collection_type t = true -> has_type v t = true -> exists c, coll_len v = Some c.
  Proof.
    unfold is_collection_type, has_type. destruct (underlying t) as [bk|u| | | | |n| | |]; try discriminate;
      intros _; destruct v; try discriminate; cbn; eauto.
  Qed.

  (* ---------- enum ---------- *)
  Lemma eval_and cur x y :
    ev cur (CAnd x y) = match ev cur x, ev cur y with
                        | CStuck, _ | _, CStuck => CStuck
                        | CB true, r => r
                        | o, _ => o
                        end.
  Proof. reflexivity. Qed.

  Lemma conj_cons_some x r : exists c, conj (x :: r) = Some c.
  Proof.
    revert x. induction r as [|y r IH]; intro x; [eexists; reflexivity|].
    destruct (IH y) as [d D]. cbn [conj] in *. rewrite D. eexists. reflexivity.
  Qed.

  (* a non-empty conjunction of stuck-free, panic-free conditions *)
  Lemma eval_conj cur (cs : list cond) (bs : list bool) c :
    conj cs = Some c -> Forall2 (fun x b => ev cur x = CB b) cs bs -> ev cur c = CB (forallb (fun b => b) bs).
  Proof.
    revert bs c. induction cs as [|x r IH]; intros bs c Hc H; [discriminate Hc|].
    inversion H as [|? b ? bs' Hx Hr]; subst. cbn [conj] in Hc.
    destruct r as [|y r'].
    - injection Hc as <-. inversion Hr; subst. cbn. rewrite Hx, andb_true_r. reflexivity.
    - destruct (conj_cons_some y r') as [d D]. rewrite D in Hc.
      injection Hc as <-. rewrite eval_and, Hx, (IH bs' d D Hr). cbn [forallb].
      destruct b; cbn; [reflexivity|]. destruct (forallb (fun b : bool => b) bs'); reflexivity.
  Qed.

  (* comparisons never panic *)
  Fixpoint pure_cond (c : cond) : bool :=
    match c with
    | CCmp _ _ _ | CRaw _ => true
    | CAnd a b => pure_cond a && pure_cond b
    | _ => false
    end.

  Lemma pure_no_panic cur c : pure_cond c = true -> ev cur c <> CPanic.
  Proof.
    induction c; cbn [pure_cond]; try discriminate; intro H.
    - cbn [eval_cond]. destruct (eval_operand cur a), (eval_operand cur b); try discriminate.
      destruct (cmp_cv op c c0); discriminate.
    - apply andb_true_iff in H as [H1 H2]. specialize (IHc1 H1). specialize (IHc2 H2).
      rewrite eval_and. destruct (ev cur c1) as [[|]| |], (ev cur c2) as [[|]| |]; congruence.
  Qed.

  Lemma conj_pure cs c : Forall (fun x => pure_cond x = true) cs -> conj cs = Some c -> pure_cond c = true.
  Proof.
    revert c. induction cs as [|x r IH]; intros c F Hc; [discriminate Hc|].
    inversion F; subst. cbn [conj] in Hc. destruct r as [|y r'].
    - injection Hc as <-. assumption.
    - destruct (conj_cons_some y r') as [d D]. rewrite D in Hc. injection Hc as <-.
      cbn [pure_cond]. rewrite (IH d H2 D). rewrite H1. reflexivity.
  Qed.

  (* conversely: a conjunction of comparisons that evaluates to a boolean has boolean conjuncts *)
  Lemma eval_conj_inv cur (cs : list cond) c b :
    Forall (fun x => pure_cond x = true) cs ->
    conj cs = Some c -> ev cur c = CB b ->
    exists bs, Forall2 (fun x b => ev cur x = CB b) cs bs.
  Proof.
    revert c b. induction cs as [|x r IH]; intros c b F Hc He; [discriminate Hc|].
    inversion F as [|? ? Px Pr]; subst.
    cbn [conj] in Hc. destruct r as [|y r'].
    - injection Hc as <-. exists [b]. constructor; [exact He|constructor].
    - destruct (conj_cons_some y r') as [d D]. rewrite D in Hc.
      injection Hc as <-. rewrite eval_and in He.
      pose proof (pure_no_panic cur d (conj_pure _ _ Pr D)) as Nd.
      destruct (ev cur x) as [bx| |] eqn:Ex; try discriminate He;
        destruct (ev cur d) as [bd| |] eqn:Ed; try discriminate He; try congruence;
        try (destruct bx; discriminate He).
      destruct (IH d bd Pr D Ed) as [bs Hbs]. exists (bx :: bs). constructor; assumption.
  Qed.

  Lemma forallb_negb_existsb {A} (p : A -> bool) l : forallb (fun b : bool => b) (map (fun x => negb (p x)) l) = negb (existsb p l).
  Proof. induction l as [|x l IH]; [reflexivity|]. cbn. rewrite IH. destruct (p x); reflexivity. Qed.

  Lemma enum_string_sound cur f s items c b :
    get_field cur f = Some (VStr s) ->
    conj (map (fun it => CCmp OpNe (OField f) (OStr it)) items) = Some c ->
    ev (VStruct cur) c = CB b -> b = negb (existsb (bytes_eqb s) items).
  Proof.
    intros Hf Hc He.
    assert (F : Forall2 (fun x b => ev (VStruct cur) x = CB b)
                        (map (fun it => CCmp OpNe (OField f) (OStr it)) items) (map (fun it => negb (bytes_eqb s it)) items)).
    { clear Hc He. induction items as [|it r IH]; [constructor|]. cbn [map]. constructor; [|exact IH].
      cbn [eval_cond eval_operand]. rewrite get_path1, Hf. reflexivity. }
    rewrite (eval_conj _ _ _ _ Hc F) in He. injection He as <-. apply forallb_negb_existsb.
  Qed.

  Lemma num_rel_ne_eq v n r : num_rel OpNe v n = Some r -> num_rel OpEq v n = Some (negb r).
  Proof.
    destruct v; cbn; try discriminate.
    - destruct (nl_int n); [|discriminate]. cbn. intro H. injection H as <-. rewrite negb_involutive. reflexivity.
    - unfold fcmp32. intro H. injection H as <-. f_equal.
      destruct (Flocq.IEEE754.Binary.Bcompare 24 128 (f32 bits) (f32 (nl_f32 n))) as [[| |]|]; reflexivity.
    - unfold fcmp64. intro H. injection H as <-. f_equal.
      destruct (Flocq.IEEE754.Binary.Bcompare 53 1024 (f64 bits) (f64 (nl_f64 n))) as [[| |]|]; reflexivity.
  Qed.

  Definition enum_one (f : ident) (it : bytes) : cond :=
    match num_of tab it with
    | Some n => CCmp OpNe (OField f) (ONum n)
    | None => CRaw []
    end.

  Definition enum_go (v : value) : list (option numlit) -> option bool :=
    fix go (l : list (option numlit)) : option bool :=
      match l with
      | [] => Some true
      | Some n :: r => match num_rel OpEq v n, go r with
                       | Some e, Some rest => Some (negb e && rest)
                       | _, _ => None
                       end
      | None :: _ => None
      end.

  Lemma enum_num_sound cur f v items c b :
    get_field cur f = Some v ->
    conj (map (enum_one f) items) = Some c ->
    ev (VStruct cur) c = CB b ->
    forallb (fun o : option numlit => match o with Some _ => true | None => false end) (map (num_of tab) items) = true /\
    enum_go v (map (num_of tab) items) = Some b.
  Proof.
    intros Hf Hc He.
    assert (P : Forall (fun x => pure_cond x = true) (map (enum_one f) items)).
    { apply Forall_forall. intros x Hx. apply in_map_iff in Hx as [it [<- _]]. unfold enum_one. destruct (num_of tab it); reflexivity. }
    destruct (eval_conj_inv _ _ _ _ P Hc He) as [bs Hbs].
    rewrite (eval_conj _ _ _ _ Hc Hbs) in He. injection He as <-.
    clear Hc P. revert bs Hbs. induction items as [|it r IH]; intros bs Hbs.
    - inversion Hbs; subst. split; reflexivity.
    - cbn [map] in Hbs. inversion Hbs as [|? b0 ? bs' H1 H2]; subst.
      destruct (IH bs' H2) as [A B]. unfold enum_one in H1.
      cbn [map forallb enum_go]. destruct (num_of tab it) as [n|] eqn:N; [|discriminate H1].
      rewrite (eval_cmp_field_num cur f v OpNe n Hf) in H1.
      destruct (num_rel OpNe v n) as [r0|] eqn:R; [|discriminate H1]. injection H1 as <-.
      split; [exact A|].
      change (enum_go v (Some n :: map (num_of tab) r)) with (match num_rel OpEq v n, enum_go v (map (num_of tab) r) with Some e, Some rest => Some (negb e && rest) | _, _ => None end).
      rewrite (num_rel_ne_eq _ _ _ R).
      rewrite B. rewrite negb_involutive. reflexivity.
  Qed.

  (* ---------- helpers and IP ---------- *)
  Lemma helper_sound cur f s h b :
    get_field cur f = Some (VStr s) ->
    ev (VStruct cur) (CNot (CHelper h f)) = CB b ->
    exists r, helper_model h s = Ok r /\ b = negb r.
  Proof.
    intros Hf He. rewrite eval_not in He. cbn [eval_cond] in He. rewrite get_path1, Hf in He.
    destruct (helper_total h s) as [r Hr]. rewrite Hr in He. injection He as <-. eauto.
  Qed.
End Cond.

Section Sound.
  Variable ipc : bytes -> ipclass.
  Variable tab : numtab.
  Notation ev := (eval_cond ipc).

  Lemma violated_enum_numeric a t v :
    enum_kind_of t = Some ENumeric ->
    violated ipc tab REnum (Some a) t v =
    (if forallb (fun o : option numlit => match o with Some _ => true | None => false end) (map (num_of tab) (enum_items a))
     then enum_go v (map (num_of tab) (enum_items a)) else None).
  Proof. intro K. unfold violated. rewrite K. reflexivity. Qed.

  Theorem cond_sound r f t arg c cur v b :
    make_cond tab r f t arg = WithCond c -> get_field cur f = Some v -> has_type v t = true ->
    ev (VStruct cur) c = CB b -> violated ipc tab r arg t v = Some b.
  Proof.
    intros Hm Hf Ht He. destruct r; cbn [make_cond] in Hm.
    - (* alpha *)
      destruct (is_string_type t) eqn:S; [|discriminate]. injection Hm as <-.
      destruct (has_type_string _ _ S Ht) as [s ->].
      destruct (helper_sound ipc cur f s HAlpha b Hf He) as (r & Hr & ->). cbn in Hr. injection Hr as <-.
      unfold violated. rewrite S. reflexivity.
    - (* cel *)
      destruct arg as [a|]; [|discriminate]. destruct (is_empty (trim_space a)); [discriminate|]. injection Hm as <-. discriminate He.
    - (* email *)
      destruct (is_string_type t) eqn:S; [|discriminate]. injection Hm as <-.
      destruct (has_type_string _ _ S Ht) as [s ->].
      destruct (helper_sound ipc cur f s HEmail b Hf He) as (r & Hr & ->). cbn in Hr.
      unfold violated. rewrite S. cbn. rewrite Hr. reflexivity.
    - (* enum *)
      destruct arg as [a|]; [|discriminate]. destruct (enum_kind_of t) as [[| |]|] eqn:K; try discriminate.
      + (* string *)
        destruct (conj _) as [c'|] eqn:C in Hm; [|discriminate]. injection Hm as <-.
        assert (S : is_string_type t = true).
        { unfold enum_kind_of in K. unfold is_string_type. destruct (underlying t) as [bk|u| | | | |n| | |]; try discriminate.
          destruct bk as [|k| | | | | |]; try discriminate; try reflexivity. destruct k; discriminate. }
        destruct (has_type_string _ _ S Ht) as [s ->].
        unfold violated. rewrite K. f_equal. symmetry. eapply enum_string_sound; eauto.
      + (* numeric *)
        destruct (conj _) as [c'|] eqn:C in Hm; [|discriminate]. injection Hm as <-.
        rewrite (violated_enum_numeric a t v K).
        destruct (enum_num_sound ipc tab cur f v (enum_items a) c' b Hf C He) as [A B]. rewrite A. exact B.
      + (* custom: comparing a non-basic value with a string literal does not type-check *)
        destruct (conj _) as [c'|] eqn:C in Hm; [|discriminate]. injection Hm as <-.
        exfalso.
        assert (NS : forall s, v <> VStr s).
        { intros s ->. unfold enum_kind_of in K. unfold has_type in Ht.
          destruct (underlying t) as [bk|u| | | | |n| | |]; try discriminate;
            try (destruct bk as [|k| | | | | |]; try discriminate; destruct k; discriminate). }
        assert (P : Forall (fun x => pure_cond x = true) (map (fun it => CCmp OpNe (OField f) (OStr it)) (enum_items a))).
        { apply Forall_forall. intros x Hx. apply in_map_iff in Hx as [it [<- _]]. reflexivity. }
        destruct (eval_conj_inv ipc _ _ _ _ P C He) as [bs Hbs].
        pose proof (split_on_nonempty ","%byte a) as NE. unfold enum_items in Hbs.
        destruct (split_on ","%byte a) as [|it0 r0]; [congruence|]. cbn [map] in Hbs. inversion Hbs as [|? ? ? ? H1 _]; subst.
        cbn [eval_cond eval_operand] in H1. rewrite get_path1, Hf in H1. destruct v; try discriminate H1. eapply NS; reflexivity.
    - (* gt *)
      destruct (is_numeric_type t) eqn:N; [|discriminate]. destruct arg as [a|]; [|discriminate]. injection Hm as <-.
      unfold violated. rewrite N. eapply num_rule_sound; eauto.
    - (* gte *)
      destruct (is_numeric_type t) eqn:N; [|discriminate]. destruct arg as [a|]; [|discriminate]. injection Hm as <-.
      unfold violated. rewrite N. eapply num_rule_sound; eauto.
    - (* ipv4 *)
      destruct (is_string_type t) eqn:S; [|discriminate]. injection Hm as <-.
      destruct (has_type_string _ _ S Ht) as [s ->].
      cbn [eval_cond] in He. rewrite get_path1, Hf in He. injection He as <-.
      unfold violated. rewrite S. cbn. destruct (ipc s); reflexivity.
    - (* ipv6 *)
      destruct (is_string_type t) eqn:S; [|discriminate]. injection Hm as <-.
      destruct (has_type_string _ _ S Ht) as [s ->].
      cbn [eval_cond] in He. rewrite get_path1, Hf in He. injection He as <-.
      unfold violated. rewrite S. cbn. destruct (ipc s); reflexivity.
    - (* length *)
      destruct (is_string_type t) eqn:S; [|discriminate]. destruct arg as [a|]; [|discriminate]. injection Hm as <-.
      destruct (has_type_string _ _ S Ht) as [s ->].
      unfold violated. rewrite S. cbn [str_of]. unfold num_cmp in He. destruct (num_of tab a) as [n|]; [|discriminate He].
      rewrite (eval_cmp_runecount ipc cur f s OpNe n Hf) in He. destruct (nl_int n); [|discriminate He]. injection He as <-. reflexivity.
    - (* lt *)
      destruct (is_numeric_type t) eqn:N; [|discriminate]. destruct arg as [a|]; [|discriminate]. injection Hm as <-.
      unfold violated. rewrite N. eapply num_rule_sound; eauto.
    - (* lte *)
      destruct (is_numeric_type t) eqn:N; [|discriminate]. destruct arg as [a|]; [|discriminate]. injection Hm as <-.
      unfold violated. rewrite N. eapply num_rule_sound; eauto.
    - (* maxitems *)
      destruct (is_collection_type t) eqn:S; [|discriminate]. destruct arg as [a|]; [|discriminate]. injection Hm as <-.
      destruct (has_type_coll _ _ S Ht) as [cl Hcl].
      unfold violated. rewrite S, Hcl. unfold num_cmp in He. destruct (num_of tab a) as [n|]; [|discriminate He].
      rewrite (eval_cmp_len ipc cur f v cl OpGt n Hf Hcl) in He. destruct (nl_int n); [|discriminate He]. injection He as <-. reflexivity.
    - (* maxlength *)
      destruct (is_string_type t) eqn:S; [|discriminate]. destruct arg as [a|]; [|discriminate]. injection Hm as <-.
      destruct (has_type_string _ _ S Ht) as [s ->].
      unfold violated. rewrite S. cbn [str_of]. unfold num_cmp in He. destruct (num_of tab a) as [n|]; [|discriminate He].
      rewrite (eval_cmp_runecount ipc cur f s OpGt n Hf) in He. destruct (nl_int n); [|discriminate He]. injection He as <-. reflexivity.
    - (* minitems *)
      destruct (is_collection_type t) eqn:S; [|discriminate]. destruct arg as [a|]; [|discriminate]. injection Hm as <-.
      destruct (has_type_coll _ _ S Ht) as [cl Hcl].
      unfold violated. rewrite S, Hcl. unfold num_cmp in He. destruct (num_of tab a) as [n|]; [|discriminate He].
      rewrite (eval_cmp_len ipc cur f v cl OpLt n Hf Hcl) in He. destruct (nl_int n); [|discriminate He]. injection He as <-. reflexivity.
    - (* minlength *)
      destruct (is_string_type t) eqn:S; [|discriminate]. destruct arg as [a|]; [|discriminate]. injection Hm as <-.
      destruct (has_type_string _ _ S Ht) as [s ->].
      unfold violated. rewrite S. cbn [str_of]. unfold num_cmp in He. destruct (num_of tab a) as [n|]; [|discriminate He].
      rewrite (eval_cmp_runecount ipc cur f s OpLt n Hf) in He. destruct (nl_int n); [|discriminate He]. injection He as <-. reflexivity.
    - (* numeric *)
      destruct (is_string_type t) eqn:S; [|discriminate]. injection Hm as <-.
      destruct (has_type_string _ _ S Ht) as [s ->].
      destruct (helper_sound ipc cur f s HNumeric b Hf He) as (r & Hr & ->). cbn in Hr. injection Hr as <-.
      unfold violated. rewrite S. reflexivity.
    - (* required *)
      destruct (required_cond f t) as [c'|] eqn:R; [|discriminate]. injection Hm as <-.
      unfold violated. eapply required_sound; eauto.
    - (* url *)
      destruct (is_string_type t) eqn:S; [|discriminate]. injection Hm as <-.
      destruct (has_type_string _ _ S Ht) as [s ->].
      destruct (helper_sound ipc cur f s HURL b Hf He) as (r & Hr & ->). cbn in Hr.
      unfold violated. rewrite S. cbn. rewrite Hr. reflexivity.
    - (* uuid *)
      destruct (is_string_type t) eqn:S; [|discriminate]. injection Hm as <-.
      destruct (has_type_string _ _ S Ht) as [s ->].
      destruct (helper_sound ipc cur f s HUUID b Hf He) as (r & Hr & ->). cbn in Hr.
      unfold violated. rewrite S. cbn. rewrite Hr. reflexivity.
  Qed.

  (* no validator, or a validator with an empty condition: the specification has no verdict either *)
  Theorem cond_absent r f t arg v :
    (forall c, make_cond tab r f t arg <> WithCond c) -> has_type v t = true -> violated ipc tab r arg t v = None.
  Proof.
    intros Hm Ht. destruct r; cbn [make_cond] in Hm; unfold violated;
      try (destruct (is_string_type t) eqn:S; [|reflexivity]);
      try (destruct (is_numeric_type t) eqn:N; [|reflexivity]);
      try (destruct (is_collection_type t) eqn:C; [|reflexivity]);
      try (destruct arg as [a|]; [|reflexivity]);
      try (exfalso; eapply Hm; reflexivity); try reflexivity.
    - (* enum *)
      destruct (enum_kind_of t) as [k|] eqn:K; [|reflexivity].
      exfalso. pose proof (split_on_nonempty ","%byte a) as NE. unfold enum_items in Hm.
      destruct (split_on ","%byte a) as [|it0 r0]; [congruence|]. cbn [map] in Hm.
      match type of Hm with context [conj (?x :: ?l)] => destruct (conj_cons_some x l) as [d D]; rewrite D in Hm end.
      eapply Hm. reflexivity.
    - (* required *)
      destruct (required_cond f t) as [c|] eqn:R; [exfalso; eapply Hm; reflexivity|].
      eapply required_none; eauto.
  Qed.
End Sound.
