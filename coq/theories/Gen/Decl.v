(* The part of go/ast + go/types that the generator looks at, and marker comments. *)
From GV Require Import Base.Bytes Base.StrOps GoLite.Syntax.

Inductive ikind := I8 | I16 | I32 | I64 | IInt | U8 | U16 | U32 | U64 | UInt | UIntptr.
Inductive basic := BBool | BInt (k : ikind) | BF32 | BF64 | BC64 | BC128 | BString | BUnsafePtr.

(* go/types view of a field type.  TNamed u: a defined or alias type whose underlying type is u *)
Inductive gtype :=
| TBasic (b : basic)
| TNamed (u : gtype)
| TPointer | TInterface | TSignature | TSlice | TArray (n : nat) | TMap | TChan
| TStructT.                      (* a struct type that is not written inline (named struct, time.Time, ...) *)

Definition underlying (t : gtype) : gtype := match t with TNamed u => u | _ => t end.

(* ast.Field: names (several for `A, B T`, none for an embedded field), doc comment lines, type *)
Inductive field :=
| FPlain (names : list ident) (doc : list bytes) (t : gtype)
| FNested (names : list ident) (doc : list bytes) (fs : list field).   (* inline struct { ... } *)

Record sdecl := {
  sd_name : ident;
  sd_doc : list bytes;           (* GenDecl.Doc lines followed by TypeSpec.Doc lines *)
  sd_fields : list field
}.

(* literal texts of marker parameters, evaluated by go/constant (trusted: harness/synth) *)
Definition numtab := list (bytes * numlit).
Fixpoint num_of (tab : numtab) (text : bytes) : option numlit :=
  match tab with
  | [] => None
  | (t, n) :: r => if bytes_eqb t text then Some n else num_of r text
  end.

(* ---------- marker comments (internal/analyzers/markers/analyzer.go) ---------- *)
Record marker := { mk_id : bytes; mk_arg : option bytes }.

Definition new_prefix : bytes := bs "//govalid:".
Definition old_prefix : bytes := bs "// +govalid:".

(* parseMarkerComment: the content after "//" resp. "// +", when the line is a marker *)
Definition parse_marker_comment (text : bytes) : option bytes :=
  if has_prefix new_prefix text then Some (trim_prefix (bs "//") text)
  else if has_prefix old_prefix text then Some (trim_prefix (bs "// +") text)
  else None.

(* extractMarker: split on the first '=' *)
Definition extract_marker (content : bytes) : marker :=
  match cut "="%byte content with
  | (id, Some e) => {| mk_id := id; mk_arg := Some e |}
  | (id, None) => {| mk_id := id; mk_arg := None |}
  end.

(* MarkerSet.Add: a later marker with the same identifier replaces the earlier one in place *)
Fixpoint marker_add (ms : list marker) (m : marker) : list marker :=
  match ms with
  | [] => [m]
  | x :: r => if bytes_eqb (mk_id x) (mk_id m) then m :: r else x :: marker_add r m
  end.

Definition markers_of_doc (doc : list bytes) : list marker :=
  fold_left (fun ms line => match parse_marker_comment line with
                            | Some c => marker_add ms (extract_marker c)
                            | None => ms
                            end) doc [].

Definition sorted_markers (doc : list bytes) : list marker := sort_stable mk_id (markers_of_doc doc).
