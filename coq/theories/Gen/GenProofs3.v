(* Part 3 of the report-exactness proof: groups, fields (with nesting), the sentinel table, and the
   theorem about whole generated files. *)
From GV Require Import Base.Bytes Base.Utf8 Base.StrOps Base.GoFloat GoLite.Syntax GoLite.Sem.
From GV Require Import Gen.Decl Gen.Rules Gen.Template Gen.Spec Gen.Guard Gen.GenProofs1 Gen.Typed Gen.GenProofs2.

(* ---------- well-typed receiver values and the guard, field by field ---------- *)
Fixpoint wt_field (cur : list (ident * value)) (fd : field) : Prop :=
  match fd with
  | FPlain names _ t => Forall (fun n => exists v, get_field cur n = Some v /\ has_type v t = true) names
  | FNested names _ fs =>
      Forall (fun n => exists sub, get_field cur n = Some (VStruct sub) /\
                                   (fix go (l : list field) : Prop :=
                                      match l with [] => True | g :: r => wt_field sub g /\ go r end) fs) names
  end.

Fixpoint wt_fields (cur : list (ident * value)) (fs : list field) : Prop :=
  match fs with [] => True | g :: r => wt_field cur g /\ wt_fields cur r end.

(* no marker on a nested-struct field, and no struct-level markers once there is nesting *)
Fixpoint field_ok (tms : list marker) (fd : field) : Prop :=
  match fd with
  | FPlain _ _ _ => True
  | FNested _ doc fs =>
      tms = [] /\ markers_of_doc doc = [] /\
      (fix go (l : list field) : Prop := match l with [] => True | g :: r => field_ok tms g /\ go r end) fs
  end.

Fixpoint fields_ok (tms : list marker) (fs : list field) : Prop :=
  match fs with [] => True | g :: r => field_ok tms g /\ fields_ok tms r end.

Section Fields.
  Variable ipc : bytes -> ipclass.
  Variable tab : numtab.
  Variable tbl : list (ident * (bytes * bytes)).
  Variable SA : Prop.
  Notation runs := (run_items ipc background tbl).
  Notation good := (good SA).

  Definition looked_up (vs : list validator) : Prop :=
    forall vd, In vd vs -> v_cond vd <> None -> lookup_sentinel tbl (v_errvar vd) = Some (v_path vd, v_rulename vd).

  Lemma get_path_app v p q : get_path v (p ++ q) = match get_path v p with Some w => get_path w q | None => None end.
  Proof.
    revert v. induction p as [|f p IH]; intro v; [reflexivity|]. cbn [app get_path].
    destruct v; try reflexivity. destruct (get_field fs f); [apply IH|reflexivity].
  Qed.

  Lemma good_bump r s k ws : good r (bump s k) ws -> good r s ws.
  Proof. destruct r; auto. Qed.

  Lemma checks_no_shadow vs : Forall no_shadow (checks_of vs).
  Proof.
    unfold checks_of. induction vs as [|v r IH]; [constructor|]. cbn [flat_map].
    destruct (v_cond v); [constructor; [exact I|exact IH]|exact IH].
  Qed.

  Lemma group_no_shadow m : Forall no_shadow (group_items m).
  Proof.
    unfold group_items. destruct (md_parent m).
    - constructor; [exact I|apply checks_no_shadow].
    - constructor; [exact I|constructor].
  Qed.

  Lemma groups_no_shadow mds : Forall no_shadow (flat_map group_items mds).
  Proof.
    induction mds as [|m r IH]; [constructor|]. cbn [flat_map]. apply Forall_app. split; [apply group_no_shadow|exact IH].
  Qed.

  (* one group: a cancellation point, then the checks, at top level or inside a block that shadows t *)
  Lemma group_run root parent cur vs s ws :
    get_path root parent = Some (VStruct cur) -> s_local s = None ->
    (forall s0, s_local s0 = None -> good (runs root (checks_of vs) parent s0) s0 ws) ->
    good (runs root (group_items {| md_validators := vs; md_parent := parent |}) [] s) s ws.
  Proof.
    intros Hp Hl Hc. unfold group_items. cbn [md_parent md_validators].
    destruct parent as [|p0 pr].
    - cbn [run_items run_item background]. apply (good_bump _ s 1). apply Hc. exact Hl.
    - cbn [run_items]. rewrite run_block. cbn [run_items run_item background app].
      specialize (Hc (bump s 1) Hl).
      destruct (runs root (checks_of vs) (p0 :: pr) (bump s 1)) as [s'|o]; [|exact Hc].
      apply (good_bump (inl s') s 1). exact Hc.
  Qed.

  Lemma good_nil_inv s ws : good (inl s) s ws -> ws = [].
  Proof. intros (_ & _ & _ & A). destruct ws; [reflexivity|]. cbn in A. lia. Qed.

  Lemma runs_app root a b s wa wb :
    Forall no_shadow a -> good (runs root a [] s) s wa ->
    (forall s', s_local s' = None -> good (runs root b [] s') s' wb) ->
    good (runs root (a ++ b) [] s) s (wa ++ wb).
  Proof.
    intros F Ha Hb. rewrite run_items_app by exact F.
    destruct (runs root a [] s) as [s'|o] eqn:E; [|exact Ha].
    eapply good_trans; [exact Ha|]. apply Hb. destruct Ha as (_ & L & _). exact L.
  Qed.

  (* a plain field: one group per name that has validators *)
  Lemma plain_run root tms S parent cur names doc t :
    get_path root parent = Some (VStruct cur) ->
    wt_field cur (FPlain names doc t) ->
    looked_up (all_validators (analyze_field tab tms S parent (FPlain names doc t))) ->
    (field_params_ok tab tms (FPlain names doc t) = false -> SA) ->
    forall s, s_local s = None ->
    good (runs root (flat_map group_items (analyze_field tab tms S parent (FPlain names doc t))) [] s) s
         (want_field ipc tab tms S parent cur (FPlain names doc t)).
  Proof.
    intros Hp. cbn [analyze_field want_field wt_field]. unfold rules_of.
    induction names as [|n names IH]; intros Hw Hl Hpar s Hs.
    - apply (good_nil SA). exact Hs.
    - inversion Hw as [|? ? (v & Hv & Ht) Hw']; subst. cbn [flat_map]. rewrite Hv. cbn [field_params_ok] in Hpar.
      set (ms := tms ++ sorted_markers doc) in *.
      assert (Hl1 : looked_up (make_validators tab ms n t S parent) /\
                    looked_up (all_validators (flat_map (fun n0 => match make_validators tab ms n0 t S parent with
                                                                     | [] => []
                                                                     | v0 :: l => [{| md_validators := v0 :: l; md_parent := parent |}]
                                                                     end) names))).
      { unfold looked_up, all_validators in *. cbn [flat_map] in Hl. split; intros vd Hin Hc; apply Hl; auto.
        - rewrite flat_map_app. apply in_or_app. left.
          destruct (make_validators tab ms n t S parent); [contradiction|]. cbn. rewrite app_nil_r. exact Hin.
        - rewrite flat_map_app. apply in_or_app. right. exact Hin. }
      destruct Hl1 as [La Lb].
      pose proof (fun s0 H0 => checks_run ipc tab tbl SA root parent cur ms n t v S parent Hp Hv Ht La Hpar s0 H0) as Hc.
      rewrite flat_map_app.
      apply runs_app.
      + apply groups_no_shadow.
      + destruct (make_validators tab ms n t S parent) as [|v0 vs] eqn:MV.
        * cbn. specialize (Hc s Hs). cbn in Hc. rewrite (good_nil_inv s _ Hc). apply (good_nil SA). exact Hs.
        * cbn [flat_map]. rewrite app_nil_r. apply (group_run root parent cur); auto.
      + intros s' Hs'. apply IH; auto.
  Qed.

  Lemma looked_up_app a b : looked_up (a ++ b) -> looked_up a /\ looked_up b.
  Proof. unfold looked_up. intro H. split; intros vd Hin; apply H; apply in_or_app; auto. Qed.

  Lemma all_validators_app a b : all_validators (a ++ b) = all_validators a ++ all_validators b.
  Proof. apply flat_map_app. Qed.

  Lemma sorted_nil doc : markers_of_doc doc = [] -> sorted_markers doc = [].
  Proof. unfold sorted_markers. intros ->. reflexivity. Qed.

  Lemma no_markers_no_validators (l : list (ident * gtype)) S parent :
    flat_map (fun nt : ident * gtype => make_validators tab [] (fst nt) (snd nt) S parent) l = [].
  Proof. induction l as [|x l IHl]; [reflexivity|]. cbn. exact IHl. Qed.

  (* any field, nested inline structs included *)
  Fixpoint field_run (fd : field) root tms S parent cur {struct fd} :
    get_path root parent = Some (VStruct cur) ->
    field_ok tms fd -> wt_field cur fd ->
    looked_up (all_validators (analyze_field tab tms S parent fd)) ->
    (field_params_ok tab tms fd = false -> SA) ->
    forall s, s_local s = None ->
    good (runs root (flat_map group_items (analyze_field tab tms S parent fd)) [] s) s
         (want_field ipc tab tms S parent cur fd).
  Proof.
    destruct fd as [names doc t|names doc fs]; intros Hp Hok Hw Hl Hpar s Hs.
    - apply plain_run; auto.
    - cbn [field_ok] in Hok. destruct Hok as (-> & Hdoc & Hfs).
      cbn [analyze_field want_field wt_field] in *. rewrite (sorted_nil doc Hdoc) in *. cbn [app] in *.
      revert s Hs. induction names as [|n names IHn]; intros s Hs.
      + apply (good_nil SA). exact Hs.
      + inversion Hw as [|? ? (sub & Hsub & Hwsub) Hw']; subst. cbn [flat_map] in *. rewrite Hsub.
        (* no marker reaches the propagation loop *)
        rewrite (no_markers_no_validators (direct_fields fs) S parent) in *. cbn [app] in *.
        rewrite all_validators_app in Hl. destruct (looked_up_app _ _ Hl) as [La Lb].
        rewrite flat_map_app.
        assert (Hp' : get_path root (parent ++ [n]) = Some (VStruct sub)).
        { rewrite get_path_app, Hp. cbn. rewrite Hsub. reflexivity. }
        apply runs_app.
        * apply groups_no_shadow.
        * (* the nested struct's own fields *)
          clear IHn Lb Hw' Hw Hl. cbn [field_params_ok] in Hpar. revert s Hs La Hpar. induction fs as [|g fs' IHf]; intros s Hs La Hpar.
          -- apply (good_nil SA). exact Hs.
          -- destruct Hfs as [Hg Hfs']. destruct Hwsub as [Wg Wfs'].
             assert (Hpg : field_params_ok tab [] g = false -> SA) by (intro X; apply Hpar; rewrite X; reflexivity).
             assert (Hpr : (fix go (l : list field) : bool := match l with [] => true | g0 :: r => field_params_ok tab [] g0 && go r end) fs' = false -> SA)
               by (intro X; apply Hpar; rewrite X; apply andb_false_r).
             rewrite all_validators_app in La. destruct (looked_up_app _ _ La) as [L1 L2].
             rewrite flat_map_app. apply runs_app.
             ++ apply groups_no_shadow.
             ++ apply (field_run g root [] S (parent ++ [n]) sub); auto.
             ++ intros s' Hs'. apply IHf; auto.
        * intros s' Hs'. apply IHn; auto.
  Qed.

  Lemma fields_run root tms S cur fs :
    root = VStruct cur -> fields_ok tms fs -> wt_fields cur fs ->
    looked_up (all_validators (flat_map (analyze_field tab tms S []) fs)) ->
    (forallb (field_params_ok tab tms) fs = false -> SA) ->
    forall s, s_local s = None ->
    good (runs root (flat_map group_items (flat_map (analyze_field tab tms S []) fs)) [] s) s
         (flat_map (want_field ipc tab tms S [] cur) fs).
  Proof.
    intros ->. induction fs as [|g fs IH]; intros Hok Hw Hl Hpar s Hs.
    - apply (good_nil SA). exact Hs.
    - destruct Hok as [Hg Hok]. destruct Hw as [Wg Hw]. cbn [flat_map] in *.
      assert (Hpg : field_params_ok tab tms g = false -> SA) by (intro X; apply Hpar; cbn [forallb]; rewrite X; reflexivity).
      assert (Hpr : forallb (field_params_ok tab tms) fs = false -> SA) by (intro X; apply Hpar; cbn [forallb]; rewrite X; apply andb_false_r).
      rewrite all_validators_app in Hl. destruct (looked_up_app _ _ Hl) as [L1 L2].
      rewrite flat_map_app. apply runs_app.
      + apply groups_no_shadow.
      + apply (field_run g (VStruct cur) tms S [] cur); auto.
      + intros s' Hs'. apply IH; auto.
  Qed.
End Fields.

(* ---------- the sentinel table of a generated file ---------- *)
Fixpoint emitted (vs : list validator) (seen : list (rule * bytes)) : list validator :=
  match vs with
  | [] => []
  | v :: r =>
      match v_cond v with
      | None => emitted r seen
      | Some _ => if existsb (key_eqb (v_key v)) seen then emitted r seen
                  else v :: emitted r (v_key v :: seen)
      end
  end.

Definition sentinel_of (v : validator) : ident * (bytes * bytes) := (v_errvar v, (v_path v, v_rulename v)).

Lemma sentinel_table_app a b : sentinel_table (a ++ b) = sentinel_table a ++ sentinel_table b.
Proof.
  induction a as [|x a IH]; [reflexivity|]. cbn [app sentinel_table]. destruct x; cbn [app]; rewrite IH; reflexivity.
Qed.

Lemma table_emitted vs seen : sentinel_table (err_decls vs seen) = map sentinel_of (emitted vs seen).
Proof.
  revert seen. induction vs as [|v r IH]; intro seen; [reflexivity|]. cbn [err_decls emitted].
  destruct (v_cond v); [|apply IH].
  destruct (existsb (key_eqb (v_key v)) seen); [apply IH|].
  rewrite sentinel_table_app. destruct (bytes_eqb (v_errvar v) (v_legacy v)); cbn [sentinel_table app map]; rewrite IH; reflexivity.
Qed.

Lemma emitted_in vs seen w : In w (emitted vs seen) -> In w vs /\ v_cond w <> None.
Proof.
  revert seen. induction vs as [|v r IH]; intros seen H; [contradiction|]. cbn [emitted] in H.
  destruct (v_cond v) eqn:C.
  - destruct (existsb (key_eqb (v_key v)) seen).
    + destruct (IH _ H). split; [right|]; assumption.
    + destruct H as [<-|H]; [split; [left; reflexivity|congruence]|]. destruct (IH _ H). split; [right|]; assumption.
  - destruct (IH _ H). split; [right|]; assumption.
Qed.

Lemma key_eqb_refl k : key_eqb k k = true.
Proof. destruct k as [r b]. unfold key_eqb. cbn. rewrite bytes_eqb_refl. destruct r; reflexivity. Qed.

Lemma key_eqb_eq a b : key_eqb a b = true -> a = b.
Proof.
  destruct a as [r x], b as [r' y]. unfold key_eqb. cbn. rewrite andb_true_iff. intros [H1 H2].
  apply rule_eqb_eq in H1. apply bytes_eqb_eq in H2. congruence.
Qed.

Lemma key_covered vs seen v :
  In v vs -> v_cond v <> None ->
  existsb (key_eqb (v_key v)) seen = true \/ exists w, In w (emitted vs seen) /\ v_key w = v_key v.
Proof.
  revert seen. induction vs as [|x r IH]; intros seen Hin Hc; [contradiction|]. cbn [emitted].
  destruct Hin as [->|Hin].
  - destruct (v_cond v) eqn:C; [|congruence].
    destruct (existsb (key_eqb (v_key v)) seen) eqn:E; [left; reflexivity|].
    right. exists v. split; [left; reflexivity|reflexivity].
  - destruct (v_cond x) eqn:C; [|apply IH; assumption].
    destruct (existsb (key_eqb (v_key x)) seen) eqn:E; [apply IH; assumption|].
    destruct (IH (v_key x :: seen) Hin Hc) as [H|(w & Hw & Hk)].
    + cbn [existsb] in H. apply orb_true_iff in H as [H|H].
      * right. exists x. split; [left; reflexivity|]. symmetry. apply key_eqb_eq. exact H.
      * left. exact H.
    + right. exists w. split; [right; exact Hw|exact Hk].
Qed.

Lemma key_errvar v w : v_key w = v_key v -> v_errvar w = v_errvar v.
Proof. unfold v_key, v_errvar. intro H. injection H as -> ->. reflexivity. Qed.

Lemma lookup_map_some ws name pt :
  lookup_sentinel (map sentinel_of ws) name = Some pt ->
  exists w, In w ws /\ v_errvar w = name /\ pt = (v_path w, v_rulename w).
Proof.
  induction ws as [|x r IH]; [discriminate|]. cbn [map lookup_sentinel sentinel_of].
  destruct (bytes_eqb (v_errvar x) name) eqn:E.
  - intro H. injection H as <-. apply bytes_eqb_eq in E. exists x. auto with datatypes.
  - intro H. destruct (IH H) as (w & A & B & C). exists w. auto with datatypes.
Qed.

Lemma lookup_map_in ws w : In w ws -> lookup_sentinel (map sentinel_of ws) (v_errvar w) <> None.
Proof.
  induction ws as [|x r IH]; [contradiction|]. cbn [map lookup_sentinel sentinel_of]. intros [->|H].
  - rewrite bytes_eqb_refl. discriminate.
  - destruct (bytes_eqb (v_errvar x) (v_errvar w)); [discriminate|apply IH; exact H].
Qed.

Definition has_cond (v : validator) : bool := match v_cond v with Some _ => true | None => false end.

(* no two checks share an error variable unless they share Path and Type *)
Definition names_ok (vs : list validator) : Prop :=
  forall v w, In v vs -> In w vs -> v_cond v <> None -> v_cond w <> None ->
              v_errvar v = v_errvar w -> v_path v = v_path w /\ v_rulename v = v_rulename w.

Lemma names_ok_of_guard tab d : kf_shared_errvar tab d = false -> names_ok (all_validators (analyze tab d)).
Proof.
  unfold kf_shared_errvar, names_ok. intros H v w Hv Hw Cv Cw E.
  set (vs := filter _ _) in H.
  assert (Iv : In v vs) by (apply filter_In; split; [exact Hv|destruct (v_cond v); congruence]).
  assert (Iw : In w vs) by (apply filter_In; split; [exact Hw|destruct (v_cond w); congruence]).
  destruct (existsb (fun v0 => existsb (same_var_other_path v0) vs) vs) eqn:X; [discriminate|].
  assert (Y : same_var_other_path v w = false).
  { destruct (same_var_other_path v w) eqn:Z; [|reflexivity].
    assert (existsb (fun v0 => existsb (same_var_other_path v0) vs) vs = true).
    { apply existsb_exists. exists v. split; [exact Iv|]. apply existsb_exists. exists w. auto. }
    congruence. }
  unfold same_var_other_path in Y. rewrite E, bytes_eqb_refl in Y. cbn [andb] in Y.
  apply negb_false_iff, andb_true_iff in Y as [A B]. apply bytes_eqb_eq in A, B. auto.
Qed.

Theorem lookup_exact vs :
  names_ok vs ->
  forall vd, In vd vs -> v_cond vd <> None ->
  lookup_sentinel (sentinel_table (err_decls vs [])) (v_errvar vd) = Some (v_path vd, v_rulename vd).
Proof.
  intros N vd Hin Hc. rewrite table_emitted.
  destruct (key_covered vs [] vd Hin Hc) as [H|(w & Hw & Hk)]; [discriminate H|].
  pose proof (lookup_map_in _ _ Hw) as NN. rewrite (key_errvar _ _ Hk) in NN.
  destruct (lookup_sentinel (map sentinel_of (emitted vs [])) (v_errvar vd)) as [pt|] eqn:L; [|congruence].
  destruct (lookup_map_some _ _ _ L) as (w' & Hw' & He & ->).
  destruct (emitted_in _ _ _ Hw') as [I' C'].
  destruct (N w' vd I' Hin C' Hc He) as [-> ->]. reflexivity.
Qed.
