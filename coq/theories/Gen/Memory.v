(* validator.GeneratorMemory as an explicit state machine (internal/validator/validator.go,
   the Err() methods of the rules, and run() in internal/analyzers/govalid/govalid.go). *)
From GV Require Import Base.Bytes Base.StrOps GoLite.Syntax Gen.Decl Gen.Rules Gen.Template.

Definition key := (rule * bytes)%type.
Definition mem := list key.                         (* the keys currently set to true *)

Definition mem_has (m : mem) (k : key) : bool := existsb (key_eqb k) m.

(* Err(): `if GeneratorMemory[key] { return "" }; GeneratorMemory[key] = true; return <declaration>` *)
Definition test_and_set (m : mem) (k : key) : mem * bool :=
  if mem_has m k then (m, false) else (k :: m, true).

(* template execution for one struct: which of its validators emit their declaration *)
Fixpoint run_errs (m : mem) (ks : list key) : mem * list bool :=
  match ks with
  | [] => (m, [])
  | k :: r => let '(m1, e) := test_and_set m k in
              let '(m2, es) := run_errs m1 r in (m2, e :: es)
  end.

(* one struct: ResetGeneratorMemory(), then the template *)
Definition run_struct (m : mem) (ks : list key) : mem * list bool := run_errs [] ks.

(* one package (holds GeneratorMu for the whole pass): its structs in order *)
Fixpoint run_pkg (m : mem) (structs : list (list key)) : mem * list (list bool) :=
  match structs with
  | [] => (m, [])
  | ks :: r => let '(m1, e) := run_struct m ks in
               let '(m2, es) := run_pkg m1 r in (m2, e :: es)
  end.

(* one invocation: the packages in the order in which they obtain the mutex *)
Fixpoint run_all (m : mem) (pkgs : list (list (list key))) : list (list (list bool)) :=
  match pkgs with
  | [] => []
  | p :: r => let '(m1, out) := run_pkg m p in out :: run_all m1 r
  end.

Definition alone (ks : list key) : list bool := snd (run_errs [] ks).

Lemma run_pkg_isolated m structs : snd (run_pkg m structs) = map alone structs.
Proof.
  revert m. induction structs as [|ks r IH]; intro m; [reflexivity|].
  cbn [run_pkg map]. unfold run_struct.
  destruct (run_errs [] ks) as [m1 e] eqn:E.
  specialize (IH m1). destruct (run_pkg m1 r) as [m2 es]. cbn [snd] in *.
  unfold alone at 1. rewrite E. cbn [snd]. f_equal. exact IH.
Qed.

(* whatever was generated before (other structs, packages, earlier state), every struct's
   declarations are those it gets when generated alone *)
Theorem run_all_isolated m pkgs : run_all m pkgs = map (map alone) pkgs.
Proof.
  revert m. induction pkgs as [|p r IH]; intro m; [reflexivity|].
  cbn [run_all map]. pose proof (run_pkg_isolated m p) as H.
  destruct (run_pkg m p) as [m1 out]. cbn [snd] in H. rewrite H, IH. reflexivity.
Qed.

(* hence the result does not depend on the order in which packages obtain the mutex *)
Theorem run_all_order_insensitive m m' pkgs pkgs' (p : list (list key)) :
  In p pkgs -> In p pkgs' ->
  forall out, In (p, out) (combine pkgs (run_all m pkgs)) -> In (p, out) (combine pkgs' (run_all m' pkgs')).
Proof.
  intros _ H' out H. rewrite run_all_isolated in *.
  assert (E : forall l, combine l (map (map alone) l) = map (fun q => (q, map alone q)) l).
  { induction l as [|q l IHl]; [reflexivity|]. cbn. rewrite IHl. reflexivity. }
  rewrite E in *. apply in_map_iff in H as (q & Hq & _). injection Hq as -> <-.
  apply in_map_iff. exists p. split; [reflexivity|exact H'].
Qed.

(* the per-struct memory agrees with the generator model: err_decls starts from an empty memory *)
Theorem gen_file_uses_fresh_memory tab d f :
  gen_file tab d = Some f ->
  exists mds, analyze tab d = mds /\
              f_decls f = DAssert (bs "govalid.Validator") (sd_name d) :: DNil (bs "ErrNil" ++ sd_name d)
                          :: err_decls (all_validators mds) [].
Proof.
  unfold gen_file. destruct (analyze tab d) as [|md mds] eqn:A; [discriminate|].
  intro H. injection H as <-. eexists. split; reflexivity.
Qed.
