(* Well-typedness of the emitted conditions: when the parameters of a field's markers are in the documented
   language (a decidable predicate on the declaration), the condition the factory emits evaluates, on every
   well-typed field value, to a boolean or a panic - never to "ill-typed" (CStuck: the Go compiler would
   reject the file).  This removes the "or does not type-check" alternative from the report-exactness theorem. *)
From GV Require Import Base.Bytes Base.Utf8 Base.StrOps Base.GoFloat GoLite.Syntax GoLite.Sem Gen.Decl Gen.Rules Gen.Template Gen.Spec Gen.GenProofs1.

Definition num_lit (tab : numtab) (a : bytes) : bool := match num_of tab a with Some _ => true | None => false end.
Definition int_lit (tab : numtab) (a : bytes) : bool :=
  match num_of tab a with Some n => match nl_int n with Some _ => true | None => false end | None => false end.

Definition is_int_type (t : gtype) : bool := match underlying t with TBasic (BInt _) => true | _ => false end.
Definition is_float_type (t : gtype) : bool := match underlying t with TBasic BF32 | TBasic BF64 => true | _ => false end.

(* the documented parameter language of one marker on a field of type t *)
Definition rule_params_ok (tab : numtab) (r : rule) (arg : option bytes) (t : gtype) : bool :=
  match r with
  | RGt | RGte | RLt | RLte =>
      if is_numeric_type t then
        match arg with
        | Some a => (is_int_type t && int_lit tab a) || (is_float_type t && num_lit tab a)   (* not complex; an integer bound for integers *)
        | None => true
        end
      else true
  | RMinlength | RMaxlength | RLength =>
      if is_string_type t then match arg with Some a => int_lit tab a | None => true end else true
  | RMinitems | RMaxitems =>
      if is_collection_type t then match arg with Some a => int_lit tab a | None => true end else true
  | REnum =>
      match arg with
      | None => true
      | Some a =>
          match enum_kind_of t with
          | None | Some EString => true
          | Some ECustom => false                                  (* enum on a non-basic type compares it with a string *)
          | Some ENumeric => forallb (fun it => if is_int_type t then int_lit tab it else num_lit tab it) (enum_items a)
          end
      end
  | RCel => match arg with Some a => is_empty (trim_space a) | None => true end   (* CEL conditions are the subject of C10 *)
  | _ => true
  end.

(* all markers of one field / of a declaration *)
Definition marker_params_ok (tab : numtab) (t : gtype) (m : marker) : bool :=
  match rule_of_id (mk_id m) with Some r => rule_params_ok tab r (mk_arg m) t | None => true end.
Definition ms_params_ok (tab : numtab) (ms : list marker) (t : gtype) : bool := forallb (marker_params_ok tab t) ms.

Fixpoint field_params_ok (tab : numtab) (tms : list marker) (fd : field) : bool :=
  match fd with
  | FPlain _ doc t => ms_params_ok tab (tms ++ sorted_markers doc) t
  | FNested _ _ fs => (fix go (l : list field) : bool := match l with [] => true | g :: r => field_params_ok tab tms g && go r end) fs
  end.

(* the decidable hypothesis of the stuck-free theorems: every marker parameter of the declaration is documented *)
Definition params_ok (tab : numtab) (d : sdecl) : bool :=
  forallb (field_params_ok tab (sorted_markers (sd_doc d))) (sd_fields d).

Section Typed.
  Variable ipc : bytes -> ipclass.
  Variable tab : numtab.
  Notation ev := (eval_cond ipc).

  Lemma has_type_int v t : is_int_type t = true -> has_type v t = true -> exists z, v = VInt z.
  Proof.
    unfold is_int_type, has_type. destruct (underlying t) as [bk|u| | | | |n| | |]; try discriminate.
    destruct bk; try discriminate. intros _. destruct v; try discriminate. eauto.
  Qed.

  Lemma has_type_float v t : is_float_type t = true -> has_type v t = true -> (exists x, v = VF32 x) \/ (exists x, v = VF64 x).
  Proof.
    unfold is_float_type, has_type. destruct (underlying t) as [bk|u| | | | |n| | |]; try discriminate.
    destruct bk; try discriminate; intros _; destruct v; try discriminate; eauto.
  Qed.

  Lemma cmp_field_num_typed cur f v op n :
    get_field cur f = Some v ->
    (match v with VInt _ => nl_int n <> None | VF32 _ | VF64 _ => True | _ => False end) ->
    ev (VStruct cur) (CCmp op (OField f) (ONum n)) <> CStuck.
  Proof.
    intros Hf Hv. rewrite (eval_cmp_field_num ipc cur f v op n Hf).
    destruct v; try contradiction; cbn [num_rel]; try discriminate.
    destruct (nl_int n); [discriminate|congruence].
  Qed.

  Lemma not_typed cur c : ev cur c <> CStuck -> ev cur (CNot c) <> CStuck.
  Proof. rewrite eval_not. destruct (ev cur c); congruence. Qed.

  Lemma conj_typed cur cs c : Forall (fun x => ev cur x <> CStuck) cs -> conj cs = Some c -> ev cur c <> CStuck.
  Proof.
    revert c. induction cs as [|x r IH]; intros c F H; [discriminate|]. inversion F as [|? ? Hx Fr]; subst.
    cbn [conj] in H. destruct r as [|y r'].
    - injection H as <-. exact Hx.
    - destruct (conj (y :: r')) as [d|] eqn:D.
      + injection H as <-. specialize (IH d Fr eq_refl). cbn [eval_cond].
        destruct (ev cur x) as [[|]| |]; destruct (ev cur d) as [[|]| |]; congruence.
      + injection H as <-. exact Hx.
  Qed.

  Theorem cond_typed r f t arg c cur v :
    rule_params_ok tab r arg t = true ->
    make_cond tab r f t arg = WithCond c -> get_field cur f = Some v -> has_type v t = true ->
    ev (VStruct cur) c <> CStuck.
  Proof.
    intros Hp Hm Hf Ht.
    assert (Hhelper : forall h, is_string_type t = true -> ev (VStruct cur) (CNot (CHelper h f)) <> CStuck).
    { intros h S. destruct (has_type_string _ _ S Ht) as [s ->]. apply not_typed. cbn [eval_cond]. rewrite get_path1, Hf.
      destruct (helper_model h s); discriminate. }
    assert (Hip : forall b, is_string_type t = true -> ev (VStruct cur) (CIp b f) <> CStuck).
    { intros b S. destruct (has_type_string _ _ S Ht) as [s ->]. cbn [eval_cond]. rewrite get_path1, Hf. discriminate. }
    assert (Hnum : forall op a, is_numeric_type t = true ->
                   (is_int_type t && int_lit tab a) || (is_float_type t && num_lit tab a) = true ->
                   ev (VStruct cur) (num_cmp tab true op (OField f) a) <> CStuck).
    { intros op a _ H. unfold num_cmp. apply orb_true_iff in H as [H|H]; apply andb_true_iff in H as [T L].
      - unfold int_lit in L. destruct (num_of tab a) as [n|]; [|discriminate]. destruct (nl_int n) as [zz|] eqn:I; [|discriminate].
        destruct (has_type_int _ _ T Ht) as [z ->]. apply not_typed. apply (cmp_field_num_typed cur f (VInt z) op n Hf). congruence.
      - unfold num_lit in L. destruct (num_of tab a) as [n|]; [|discriminate].
        apply not_typed. destruct (has_type_float _ _ T Ht) as [[x ->]|[x ->]]; apply (cmp_field_num_typed cur f _ op n Hf); exact I. }
    assert (Hlen : forall op a, is_string_type t = true -> int_lit tab a = true ->
                   ev (VStruct cur) (num_cmp tab false op (ORuneCount f) a) <> CStuck).
    { intros op a S L. unfold num_cmp, int_lit in *. destruct (num_of tab a) as [n|]; [|discriminate]. destruct (nl_int n) as [zz|] eqn:I; [|discriminate].
      destruct (has_type_string _ _ S Ht) as [s ->]. rewrite (eval_cmp_runecount ipc cur f s op n Hf), I. cbv iota. discriminate. }
    assert (Hitems : forall op a, is_collection_type t = true -> int_lit tab a = true ->
                     ev (VStruct cur) (num_cmp tab false op (OLen f) a) <> CStuck).
    { intros op a S L. unfold num_cmp, int_lit in *. destruct (num_of tab a) as [n|]; [|discriminate]. destruct (nl_int n) as [zz|] eqn:I; [|discriminate].
      destruct (has_type_coll _ _ S Ht) as [k Hk]. rewrite (eval_cmp_len ipc cur f v k op n Hf Hk), I. cbv iota. discriminate. }
    destruct r; cbn [make_cond rule_params_ok] in Hm, Hp;
      try (destruct (is_string_type t) eqn:S; [|discriminate Hm]; injection Hm as <-; first [apply Hhelper; first [exact S|reflexivity] | apply Hip; first [exact S|reflexivity]]).
    - (* cel *)
      destruct arg as [a|]; cbv beta iota in Hm, Hp; [|discriminate Hm]. rewrite Hp in Hm. discriminate Hm.
    - (* enum *)
      destruct arg as [a|]; cbv beta iota in Hm, Hp; [|discriminate Hm]. destruct (enum_kind_of t) as [[| |]|] eqn:K; try discriminate.
      + (* strings *)
        destruct (conj _) as [c'|] eqn:C in Hm; [|discriminate Hm]. injection Hm as <-.
        assert (S : is_string_type t = true).
        { unfold enum_kind_of in K. unfold is_string_type. destruct (underlying t) as [bk|u| | | | |n| | |]; try discriminate K.
          destruct bk as [|k| | | | | |]; try discriminate K; [destruct k; discriminate K|reflexivity]. }
        destruct (has_type_string _ _ S Ht) as [s ->].
        eapply conj_typed; [|exact C]. apply Forall_forall. intros x Hx. apply in_map_iff in Hx as [it [<- _]].
        cbn [eval_cond eval_operand]. rewrite get_path1, Hf. cbn. discriminate.
      + (* numbers *)
        destruct (conj _) as [c'|] eqn:C in Hm; [|discriminate Hm]. injection Hm as <-.
        eapply conj_typed; [|exact C]. apply Forall_forall. intros x Hx. apply in_map_iff in Hx as [it [<- Hit]].
        rewrite forallb_forall in Hp. specialize (Hp it Hit).
        assert (N : is_int_type t = true \/ is_float_type t = true).
        { unfold enum_kind_of in K. unfold is_int_type, is_float_type. destruct (underlying t) as [bk|u| | | | |n| | |]; try discriminate K.
          destruct bk as [|k| | | | | |]; try discriminate K; auto. }
        destruct (is_int_type t) eqn:TI.
        * unfold int_lit in Hp. destruct (num_of tab it) as [n|]; [|discriminate]. destruct (nl_int n) as [zz|] eqn:I; [|discriminate].
          destruct (has_type_int _ _ TI Ht) as [z ->]. apply (cmp_field_num_typed cur f (VInt z) OpNe n Hf). congruence.
        * destruct N as [N|N]; [discriminate|]. unfold num_lit in Hp. destruct (num_of tab it) as [n|]; [|discriminate].
          destruct (has_type_float _ _ N Ht) as [[x ->]|[x ->]]; apply (cmp_field_num_typed cur f _ OpNe n Hf); exact I.
    - (* gt *)  destruct (is_numeric_type t) eqn:N; [|discriminate Hm]. destruct arg as [a|]; cbv beta iota in Hm, Hp; [|discriminate Hm]. injection Hm as <-. apply Hnum; first [assumption|reflexivity].
    - (* gte *) destruct (is_numeric_type t) eqn:N; [|discriminate Hm]. destruct arg as [a|]; cbv beta iota in Hm, Hp; [|discriminate Hm]. injection Hm as <-. apply Hnum; first [assumption|reflexivity].
    - (* length *) destruct (is_string_type t) eqn:S; [|discriminate Hm]. destruct arg as [a|]; cbv beta iota in Hm, Hp; [|discriminate Hm]. injection Hm as <-. apply Hlen; first [assumption|reflexivity].
    - (* lt *)  destruct (is_numeric_type t) eqn:N; [|discriminate Hm]. destruct arg as [a|]; cbv beta iota in Hm, Hp; [|discriminate Hm]. injection Hm as <-. apply Hnum; first [assumption|reflexivity].
    - (* lte *) destruct (is_numeric_type t) eqn:N; [|discriminate Hm]. destruct arg as [a|]; cbv beta iota in Hm, Hp; [|discriminate Hm]. injection Hm as <-. apply Hnum; first [assumption|reflexivity].
    - (* maxitems *) destruct (is_collection_type t) eqn:S; [|discriminate Hm]. destruct arg as [a|]; cbv beta iota in Hm, Hp; [|discriminate Hm]. injection Hm as <-. apply Hitems; first [assumption|reflexivity].
    - (* maxlength *) destruct (is_string_type t) eqn:S; [|discriminate Hm]. destruct arg as [a|]; cbv beta iota in Hm, Hp; [|discriminate Hm]. injection Hm as <-. apply Hlen; first [assumption|reflexivity].
    - (* minitems *) destruct (is_collection_type t) eqn:S; [|discriminate Hm]. destruct arg as [a|]; cbv beta iota in Hm, Hp; [|discriminate Hm]. injection Hm as <-. apply Hitems; first [assumption|reflexivity].
    - (* minlength *) destruct (is_string_type t) eqn:S; [|discriminate Hm]. destruct arg as [a|]; cbv beta iota in Hm, Hp; [|discriminate Hm]. injection Hm as <-. apply Hlen; first [assumption|reflexivity].
    - (* required *)
      destruct (required_cond f t) as [c'|] eqn:Rq; [|discriminate Hm]. injection Hm as <-.
      unfold required_cond in Rq. clear Hhelper Hip Hnum Hlen Hitems Hp.
      destruct t as [b|u| | | | |n| | |];
        [destruct b as [|k| | | | | |] | destruct u as [b|u'| | | | |n| | |]; [destruct b as [|k| | | | | |]|..] |..];
        cbn in Rq; try discriminate Rq; injection Rq as <-; unfold has_type in Ht; cbn in Ht;
        destruct v; try discriminate Ht; cbn [eval_cond eval_operand]; rewrite get_path1, Hf; cbn; discriminate.
  Qed.
End Typed.
