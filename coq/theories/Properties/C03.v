(* C03 — string length markers count Unicode code points, not bytes. *)
From GV Require Import Base.Bytes Base.Utf8 Base.Utf8Spec Base.GoFloat GoLite.Syntax GoLite.Sem Gen.Decl Gen.Rules Gen.Spec Gen.GenProofs1.

(* what is counted: the greedy reading of an arbitrary byte string in which every RFC 3629 encoding of a scalar
   value is one code point and every byte that starts no valid sequence counts as one (cpcount) - and
   utf8.RuneCountInString (rune_count) computes exactly that number, which is unique *)
Theorem C03_count_is_code_points : forall s : bytes, cpcount s (rune_count s).
Proof. exact cpcount_rune_count. Qed.
Print Assumptions C03_count_is_code_points.

Theorem C03_count_unique : forall (s : bytes) n, cpcount s n -> n = rune_count s.
Proof. exact cpcount_unique. Qed.
Print Assumptions C03_count_unique.

Theorem C03_valid_text : forall cs : list N, Forall scalar cs -> rune_count (concat (map utf8_encode cs)) = length cs.
Proof. exact rune_count_valid_text. Qed.
Print Assumptions C03_valid_text.

Theorem C03_decoder_inverts_encoder : forall c r, scalar c -> decode_rune (utf8_encode c ++ r) = (c, length (utf8_encode c)).
Proof. exact decode_encode. Qed.
Print Assumptions C03_decoder_inverts_encoder.

(* the three markers compare that count with N *)
Theorem C03_meaning : forall ipc tab a t s z n,
  is_string_type t = true -> num_of tab a = Some n -> nl_int n = Some z ->
  violated ipc tab RMinlength (Some a) t (VStr s) = Some (Z.ltb (Z.of_nat (rune_count s)) z) /\
  violated ipc tab RMaxlength (Some a) t (VStr s) = Some (Z.ltb z (Z.of_nat (rune_count s))) /\
  violated ipc tab RLength (Some a) t (VStr s) = Some (negb (Z.eqb (Z.of_nat (rune_count s)) z)).
Proof. intros. unfold violated. rewrite H, H0, H1. cbn. auto. Qed.

(* and the emitted condition decides that verdict (all rules: rule_condition_exact in C0456.v) *)
Theorem C03_condition_exact : forall ipc tab r f t arg c cur v b,
  make_cond tab r f t arg = WithCond c -> get_field cur f = Some v -> has_type v t = true ->
  eval_cond ipc (VStruct cur) c = CB b -> violated ipc tab r arg t v = Some b.
Proof. exact cond_sound. Qed.

Example C03_bytes_vs_code_points : rune_count (utf8_encode 233 ++ utf8_encode 8364 ++ utf8_encode 128512) = 3 /\
                                   length (utf8_encode 233 ++ utf8_encode 8364 ++ utf8_encode 128512) = 9.
Proof. vm_compute. split; reflexivity. Qed.
Example C03_stray_bytes : rune_count [x80; xff; xe2; x82] = 4.
Proof. vm_compute. reflexivity. Qed.
