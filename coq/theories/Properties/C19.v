(* C19 — validating a valid value reaches no allocation site. Partial: what the Go compiler's escape analysis and the
   standard library do is measured (testing.AllocsPerRun), not modelled. *)
From GV Require Import Base.Bytes GoLite.Syntax GoLite.Sem.
From GV Require Import Gen.Decl Gen.Rules Gen.Template Gen.Spec Gen.Guard Gen.Typed Gen.GenProofs3 Gen.GenExact.

(* the only allocation sites of the emitted code are `err.Value = t.F` (boxing) and `errs = append(errs, err)`;
   both are inside a check's body, so a run in which no rule fails executes none *)
Theorem C19_valid_path_alloc_free : forall ipc tab d f root,
  in_guard tab d = true -> gen_file tab d = Some f -> wt_struct d root ->
  expected ipc tab d root = [] ->
  let o := exec_file ipc background f (Some root) in
  o_res o = RStuck \/ (o_res o = RNil /\ s_allocs (o_st o) = 0).
Proof.
  intros ipc tab d f root G Hf W E. cbn zeta.
  destruct (gen_exact ipc tab d f root G Hf W) as [H|(_ & Hn & _ & Ha)]; [left; exact H|].
  right. split; [apply Hn; exact E|]. rewrite Ha, E. reflexivity.
Qed.
Print Assumptions C19_valid_path_alloc_free.

(* without the "ill-typed" alternative: for declarations whose marker parameters are in the documented language *)
Theorem C19_valid_path_alloc_free_typed : forall ipc tab d f root,
  in_guard tab d = true -> params_ok tab d = true -> gen_file tab d = Some f -> wt_struct d root ->
  expected ipc tab d root = [] ->
  let o := exec_file ipc background f (Some root) in
  o_res o = RNil /\ s_allocs (o_st o) = 0.
Proof.
  intros ipc tab d f root G P Hf W E. cbn zeta.
  destruct (gen_exact_typed ipc tab d f root G P Hf W) as (_ & _ & Hn & _ & Ha).
  split; [apply Hn; exact E|]. rewrite Ha, E. reflexivity.
Qed.
Print Assumptions C19_valid_path_alloc_free_typed.
