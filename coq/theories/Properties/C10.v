(* C10 — CEL markers: the generated Go agrees with reference CEL semantics.
   Only statements here; proofs live in Cel/Sound.v and Cel/Harness.v. *)
From GV Require Import Base.Bytes Base.GoFloat Cel.Syntax Cel.CelSem Cel.GoSem Cel.Translate Cel.Env Cel.Typing Cel.SoundBase Cel.Sound Cel.Harness.
Local Open Scope Z_scope.

(* The generator model (cel_condition: pre-filter, cel-go's AST, convertASTToGo) against the reference semantics
   (ceval: cel-go's interpreter), for every expression of the proved fragment, every struct value of the declared
   field types, and any behaviour of the shared standard-library oracles: the emitted condition evaluates to a
   boolean (it neither panics nor is ill-typed) and, whenever cel-go yields a boolean b, the condition is (negb b):
   the CEL error is reported iff the expression is false. *)
Theorem C10_translation_sound :
  forall re_match parse_float fmt_g parse_dur re_ok fts fname rho src e cond,
  (forall p, re_ok p = true -> forall s, re_match p s <> None) ->
  (forall s z, parse_dur s = Some z -> in_i64 z = true) ->
  struct_ok fts rho = true ->
  proved_fragment re_ok fts fname e = true ->
  cel_condition fname re_ok src (Some e) = Some cond ->
  exists r, geval re_match parse_float fmt_g parse_dur (go_fields rho) [] cond = GV (GBool r) /\
            (forall b, ceval re_match parse_float fmt_g parse_dur (cel_env fname rho) e = Some (CV (VBool b)) -> r = negb b).
Proof. exact cel_condition_sound. Qed.
Print Assumptions C10_translation_sound.

(* The same about the code govalid actually emitted, for a corpus expression whose certificate the kernel accepted *)
Theorem C10_emitted_condition_sound :
  forall (c : celcase) re_match parse_float fmt_g parse_dur,
  (forall p, case_re_ok c p = true -> forall s, re_match p s <> None) ->
  (forall s z, parse_dur s = Some z -> in_i64 z = true) ->
  cr_cert (check_case c) = true -> cr_fragment (check_case c) = true ->
  exists e cond, cc_ast c = Some e /\ cc_real c = Some cond /\
    forall rho, struct_ok (cc_fields c) rho = true ->
    exists r, geval re_match parse_float fmt_g parse_dur (go_fields rho) [] cond = GV (GBool r) /\
              (forall b, ceval re_match parse_float fmt_g parse_dur (cel_env (cc_fname c) rho) e = Some (CV (VBool b)) -> r = negb b).
Proof. exact case_sound. Qed.
Print Assumptions C10_emitted_condition_sound.

(* "An expression the translator cannot render faithfully must fail loudly": the model stops generation
   (no condition at all) for has(), unknown functions and methods, other call shapes, expressions the
   pre-filter or cel-go rejects, and invalid constant patterns; it never substitutes a constant. *)
Theorem C10_unrenderable_stops_generation :
  forall fname re_ok,
  (forall o f, tr fname re_ok (ESelect o f true) = None) /\
  (forall name a, tr fname re_ok (ECall1 (FOther name) a) = None) /\
  (forall name a b, tr fname re_ok (ECall2 (FOther name) a b) = None) /\
  (forall fn t, tr fname re_ok (EMeth0 fn t) = None) /\
  (forall name t a, tr fname re_ok (EMeth1 (FOther name) t a) = None) /\
  tr fname re_ok EOther = None /\
  (forall src, cel_condition fname re_ok src None = None) /\
  (forall src e, prefilter_rejects src = true -> cel_condition fname re_ok src (Some e) = None) /\
  (forall s p, re_ok p = false -> tr fname re_ok (EMeth1 FMatches s (EConst (KString p))) = None).
Proof.
  intros fname re_ok. repeat split; intros; cbn [tr cel_condition bin_of]; try reflexivity;
    try (unfold cel_condition; rewrite H; reflexivity);
    repeat match goal with |- context [tr ?f ?r ?x] => destruct (tr f r x) end; cbn [obind omap pattern_ok]; rewrite ?H; try reflexivity.
  unfold cel_condition. destruct (prefilter_rejects src); reflexivity.
Qed.
Print Assumptions C10_unrenderable_stops_generation.

(* ---------- non-vacuity: the fragment is inhabited and the hypotheses are satisfiable ---------- *)
Definition V := bs "V".
Definition ex_fields : list (ident * fty) := [(V, TInt IInt); (bs "A", TInt IInt); (bs "Tags", TStrs)].
Definition ex_rho (v a : Z) : struct_val := [(V, XInt IInt v); (bs "A", XInt IInt a); (bs "Tags", XStrs [bs "a"; bs "b"])].
(* value * (this.A + 1) > 10 && !(value in [1, 2, 3]) *)
Definition ex_expr : cexpr :=
  ECall2 FAnd
    (ECall2 FGt (ECall2 FMul (EIdent s_value) (ECall2 FAdd (ESelect (EIdent s_this) (bs "A") false) (EConst (KInt 1)))) (EConst (KInt 10)))
    (ECall1 FNot (ECall2 FIn (EIdent s_value) (EList [EConst (KInt 1); EConst (KInt 2); EConst (KInt 3)]))).
Definition the (o : option gexpr) : gexpr := match o with Some g => g | None => GUnknown end.
Definition ex_cond : gexpr := Eval vm_compute in the (cel_condition V (fun _ => true) [] (Some ex_expr)).
Example C10_fragment_inhabited :
  proved_fragment (fun _ => true) ex_fields V ex_expr = true /\ struct_ok ex_fields (ex_rho 4 2) = true /\
  ceval no_re no_pf no_fg (dur_of []) (cel_env V (ex_rho 4 2)) ex_expr = Some (CV (VBool true)) /\
  cel_condition V (fun _ => true) [] (Some ex_expr) = Some ex_cond /\
  geval no_re no_pf no_fg (dur_of []) (go_fields (ex_rho 4 2)) [] ex_cond = GV (GBool false).
Proof. repeat split; vm_compute; reflexivity. Qed.

(* ---------- the open findings, exhibited on the models (each replayed on the implementation by bin/check C10) ---------- *)
Definition refutes (fts : list (ident * fty)) (rho : struct_val) (e : cexpr) : Prop :=
  let cond := the (cel_condition V (fun _ => true) [] (Some e)) in
  struct_ok fts rho = true /\ cel_condition V (fun _ => true) [] (Some e) = Some cond /\
  ceval no_re no_pf no_fg (dur_of []) (cel_env V rho) e = Some (CV (VBool true)) /\
  geval no_re no_pf no_fg (dur_of []) (go_fields rho) [] cond = GV (GBool true).

(* D14: size(value) == 1 on "é": cel-go says true (one code point), the emitted len(t.V) == 1 is false: the error is reported *)
Theorem C10_size_counts_bytes_refuted :
  refutes [(V, TStr)] [(V, XStr [xc3; xa9])] (ECall2 FEq (ECall1 FSize (EIdent s_value)) (EConst (KInt 1))).
Proof. repeat split; vm_compute; reflexivity. Qed.
Print Assumptions C10_size_counts_bytes_refuted.

(* D15: value * 2 > 100 on an int8 field holding 100: cel-go computes 200 > 100, Go wraps to -56 *)
Theorem C10_narrow_int_wrap_refuted :
  refutes [(V, TInt I8)] [(V, XInt I8 100)] (ECall2 FGt (ECall2 FMul (EIdent s_value) (EConst (KInt 2))) (EConst (KInt 100))).
Proof. repeat split; vm_compute; reflexivity. Qed.
Print Assumptions C10_narrow_int_wrap_refuted.

(* D23: value.all(k, k != 0) on map[string]int {"a": 0}: CEL iterates the keys, the emitted range binds the values *)
Definition all_macro (x : ident) (range body : cexpr) : cexpr :=
  ECompr x range (bs "@result") (EConst (KBool true)) (ECall1 FNotStrictlyFalse (EIdent (bs "@result")))
         (ECall2 FAnd (EIdent (bs "@result")) body) (EIdent (bs "@result")).
Theorem C10_map_iterates_values_refuted :
  refutes [(V, TMapSI IInt)] [(V, XMapSI IInt [(bs "a", 0)])]
          (all_macro (bs "k") (EIdent s_value) (ECall2 FNe (EIdent (bs "k")) (EConst (KInt 0)))).
Proof. repeat split; vm_compute; reflexivity. Qed.
Print Assumptions C10_map_iterates_values_refuted.

(* D16 (C17): value / this.A > 1 with A = 0: the emitted condition panics *)
Theorem C10_division_by_field_panics :
  let e := ECall2 FGt (ECall2 FDiv (EIdent s_value) (ESelect (EIdent s_this) (bs "A") false)) (EConst (KInt 1)) in
  let rho := [(V, XInt IInt 5); (bs "A", XInt IInt 0)] in
  struct_ok [(V, TInt IInt); (bs "A", TInt IInt)] rho = true /\
  geval no_re no_pf no_fg (dur_of []) (go_fields rho) [] (the (cel_condition V (fun _ => true) [] (Some e))) = GPanic.
Proof. repeat split; vm_compute; reflexivity. Qed.
Print Assumptions C10_division_by_field_panics.
