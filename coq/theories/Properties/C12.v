(* C12 — URL recognizer accepts exactly the documented scheme/host shape.
   Only statements here; proofs live in Helpers/UrlProofs.v. *)
From GV Require Import Base.Bytes Helpers.Url Helpers.UrlSpec Helpers.UrlProofs.

Theorem C12_exact : forall s : bytes, IsValidURL s = Ok true <-> url_spec s.
Proof. exact IsValidURL_exact. Qed.
Print Assumptions C12_exact.

(* never panics; being a Gallina function of its argument, it is deterministic *)
Theorem C12_total : forall s : bytes, exists b, IsValidURL s = Ok b.
Proof. exact IsValidURL_total. Qed.
Print Assumptions C12_total.

(* the code's scheme tables are exactly the specification's lists *)
Theorem C12_tables : forall x : bytes,
  (In x validSchemes <-> In x (host_schemes ++ opaque_schemes)) /\
  (In x schemesNotRequiringHost <-> In x opaque_schemes).
Proof. intro x. split; [apply tables_valid | apply tables_nohost]. Qed.
Print Assumptions C12_tables.

Example C12_member_host : IsValidURL (bs "https://example.com/a?b=c") = Ok true.
Proof. vm_compute. reflexivity. Qed.
Example C12_member_ipv6 : IsValidURL (bs "http://[::1]:80/") = Ok true.
Proof. vm_compute. reflexivity. Qed.
Example C12_member_opaque : IsValidURL (bs "mailto:a@b.c") = Ok true.
Proof. vm_compute. reflexivity. Qed.
Example C12_nonmember_case : IsValidURL (bs "HTTP://example.com") = Ok false.
Proof. vm_compute. reflexivity. Qed.
Example C12_nonmember_space : IsValidURL (bs "http://exa mple.com") = Ok false.
Proof. vm_compute. reflexivity. Qed.
Example C12_nonmember_empty_opaque : IsValidURL (bs "mailto:") = Ok false.
Proof. vm_compute. reflexivity. Qed.
