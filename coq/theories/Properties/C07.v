(* C07 — the validation report is exact. Only statements; proofs in Gen/GenProofs*.v, Gen/GenExact.v. *)
From GV Require Import Base.Bytes Base.GoFloat GoLite.Syntax GoLite.Sem.
From GV Require Import Gen.Decl Gen.Rules Gen.Template Gen.Spec Gen.Guard Gen.GenProofs1 Gen.Typed Gen.GenProofs2 Gen.GenProofs3 Gen.GenExact Gen.Harness.

(* For every declaration outside the known-finding classes (in_guard, a decidable predicate that is evaluated
   on every corpus declaration at run time) and every well-typed receiver value: the generated
   Validate<T>Context, run with a context that is never done, either is ill-typed (RStuck: a marker parameter
   outside the documented language, e.g. gt=abc; such a file does not compile) or returns nil exactly when no
   rule is violated and otherwise a report with exactly one entry per violated rule - none missing, none
   duplicated, in declaration order - carrying the dotted Path, the marker name as Type and the field's
   current value. *)
Theorem C07_report_exact : forall ipc tab d f root,
  in_guard tab d = true -> gen_file tab d = Some f -> wt_struct d root ->
  let o := exec_file ipc background f (Some root) in
  o_res o = RStuck \/
  (report_of (o_res o) = Some (map projw (expected ipc tab d root)) /\
   (o_res o = RNil <-> expected ipc tab d root = []) /\
   s_gw (o_st o) = [] /\ s_allocs (o_st o) = 2 * length (expected ipc tab d root)).
Proof. exact gen_exact. Qed.
Print Assumptions C07_report_exact.

(* The same without the "ill-typed" alternative: when, in addition, every marker parameter of the declaration is in the
   documented language (params_ok: a decidable predicate - numeric rules carry a numeric literal that is an integer for
   integer fields, not on complex fields; length and item rules carry an integer literal; enum items of numeric fields are
   numeric literals; no enum on non-basic types; CEL rules are the subject of C10), the generated code is well-typed and
   returns exactly the expected report. *)
Theorem C07_report_exact_typed : forall ipc tab d f root,
  in_guard tab d = true -> params_ok tab d = true -> gen_file tab d = Some f -> wt_struct d root ->
  let o := exec_file ipc background f (Some root) in
  o_res o <> RStuck /\
  report_of (o_res o) = Some (map projw (expected ipc tab d root)) /\
  (o_res o = RNil <-> expected ipc tab d root = []) /\
  s_gw (o_st o) = [] /\ s_allocs (o_st o) = 2 * length (expected ipc tab d root).
Proof. exact gen_exact_typed. Qed.
Print Assumptions C07_report_exact_typed.

Theorem C07_nil_receiver : forall ipc tab d f ctx, gen_file tab d = Some f ->
  o_res (exec_file ipc ctx f None) = RErr (bs "ErrNil" ++ sd_name d) /\ s_calls (o_st (exec_file ipc ctx f None)) = 0.
Proof. exact gen_nil_receiver. Qed.
Print Assumptions C07_nil_receiver.

(* every check of a generated file finds its own sentinel (right Path and Type) under its error variable *)
Theorem C07_sentinels : forall vs, names_ok vs -> forall vd, In vd vs -> v_cond vd <> None ->
  lookup_sentinel (sentinel_table (err_decls vs [])) (v_errvar vd) = Some (v_path vd, v_rulename vd).
Proof. exact lookup_exact. Qed.
Print Assumptions C07_sentinels.

(* errors.Is(err, S): ValidationErrors.Is -> ValidationError.Is compares Path, Type and Reason and ignores Value;
   wrapping with %w only adds links to the Unwrap chain that errors.Is walks *)
Theorem C07_errors_is : forall (es : list (bytes * bytes * bool)) path ty,
  errors_is es path ty = true <-> exists v, In (path, ty, v) es.
Proof.
  intros es path ty. unfold errors_is. rewrite existsb_exists. split.
  - intros [[[p t] v] [Hin H]]. apply andb_true_iff in H as [A B]. apply bytes_eqb_eq in A, B. subst. eauto.
  - intros [v Hin]. exists (path, ty, v). split; [exact Hin|]. rewrite !bytes_eqb_refl. reflexivity.
Qed.
Print Assumptions C07_errors_is.

(* what the guard excludes is refuted by computation on the faithful model: witnesses of D7 and D10 *)
Definition d7_decl : sdecl :=
  {| sd_name := bs "T"; sd_doc := [];
     sd_fields := [FNested [bs "Outer"] [bs "//govalid:required"] [FPlain [bs "Inner"] [] (TBasic BString)]] |}.
Definition d7_value : value := VStruct [(bs "Outer", VStruct [(bs "Inner", VStr [])])].

Theorem C07_nested_marker_refuted :
  in_guard [] d7_decl = false /\
  exists f, gen_file [] d7_decl = Some f /\
            report_of (o_res (exec_file (fun _ => NotIP) background f (Some d7_value))) = Some [(bs "T.Inner", bs "required", Some (VStr []))].
Proof. split; [reflexivity|]. eexists. split; [reflexivity|]. vm_compute. reflexivity. Qed.

Definition d10_decl : sdecl :=
  {| sd_name := bs "J"; sd_doc := [];
     sd_fields := [FNested [bs "A"] [] [FPlain [bs "BC"] [bs "//govalid:required"] (TBasic BString)];
                   FNested [bs "AB"] [] [FPlain [bs "C"] [bs "//govalid:required"] (TBasic BString)]] |}.
Definition d10_value : value := VStruct [(bs "A", VStruct [(bs "BC", VStr (bs "x"))]); (bs "AB", VStruct [(bs "C", VStr [])])].

Theorem C07_shared_variable_refuted :
  in_guard [] d10_decl = false /\
  map projw (expected (fun _ => NotIP) [] d10_decl d10_value) = [(bs "J.AB.C", bs "required", Some (VStr []))] /\
  exists f, gen_file [] d10_decl = Some f /\
            report_of (o_res (exec_file (fun _ => NotIP) background f (Some d10_value))) = Some [(bs "J.A.BC", bs "required", Some (VStr []))].
Proof. split; [reflexivity|]. split; [reflexivity|]. eexists. split; [reflexivity|]. vm_compute. reflexivity. Qed.

(* non-vacuity: a declaration inside the guard, with a well-typed value that violates two of three rules *)
Definition ex_decl : sdecl :=
  {| sd_name := bs "User"; sd_doc := [];
     sd_fields := [FPlain [bs "Name"; bs "Nick"] [bs "//govalid:required"; bs "//govalid:maxlength=3"] (TBasic BString);
                   FNested [bs "Addr"] [] [FPlain [bs "Zip"] [bs "//govalid:numeric"] (TBasic BString)]] |}.
Definition ex_tab : numtab := [(bs "3", {| nl_int := Some 3%Z; nl_f32 := 1077936128%Z; nl_f64 := 4613937818241073152%Z |})].
Definition ex_value : value :=
  VStruct [(bs "Name", VStr []); (bs "Nick", VStr (bs "toolong")); (bs "Addr", VStruct [(bs "Zip", VStr (bs "123"))])].

Example C07_guard_inhabited : in_guard ex_tab ex_decl = true /\ params_ok ex_tab ex_decl = true.
Proof. vm_compute. auto. Qed.
Example C07_example :
  map projw (expected (fun _ => NotIP) ex_tab ex_decl ex_value) =
  [(bs "User.Name", bs "required", Some (VStr [])); (bs "User.Nick", bs "maxlength", Some (VStr (bs "toolong")))].
Proof. vm_compute. reflexivity. Qed.
