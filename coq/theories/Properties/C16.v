(* C16 — validation is read-only and repeatable. The Go memory model and the race detector are outside the model
   (partial): what is proved is that no write to shared state exists, which is what a data race needs. *)
From GV Require Import Base.Bytes GoLite.Syntax GoLite.Sem GoLite.Safety Gen.Decl Gen.Rules Gen.Template.

(* any program without an ASetGlobalValue action leaves the package-level sentinels untouched (holds for every
   translated file p_i of a run, for which file_writes_global p_i = false is evaluated) *)
Theorem C16_no_shared_writes : forall ipc ctx f recv,
  file_writes_global f = false -> s_gw (o_st (exec_file ipc ctx f recv)) = [].
Proof. exact exec_no_global_writes. Qed.
Print Assumptions C16_no_shared_writes.

(* the generator never emits such an action *)
Lemma checks_no_global vs : existsb item_writes_global (checks_of vs) = false.
Proof.
  unfold checks_of. induction vs as [|v r IH]; [reflexivity|]. cbn [flat_map]. destruct (v_cond v); [cbn; exact IH|exact IH].
Qed.

Lemma groups_no_global mds : existsb item_writes_global (flat_map group_items mds) = false.
Proof.
  induction mds as [|m r IH]; [reflexivity|]. cbn [flat_map]. rewrite existsb_app, IH, orb_false_r.
  unfold group_items. destruct (md_parent m).
  - cbn [existsb item_writes_global]. apply checks_no_global.
  - cbn [existsb item_writes_global]. rewrite orb_false_r. cbn [orb].
    generalize (checks_no_global (md_validators m)). generalize (checks_of (md_validators m)). intro l0.
    induction l0 as [|x l0 IHl]; [reflexivity|]. cbn [existsb]. intro H. apply orb_false_iff in H as [H1 H2]. rewrite H1. cbn. apply IHl. exact H2.
Qed.

Theorem C16_generated_code_is_read_only : forall tab d f, gen_file tab d = Some f -> file_writes_global f = false.
Proof.
  unfold gen_file. intros tab d f. destruct (analyze tab d) as [|md mds]; [discriminate|]. intro H. injection H as <-.
  unfold file_writes_global. apply (groups_no_global (md :: mds)).
Qed.
Print Assumptions C16_generated_code_is_read_only.

(* repeatable: the outcome is a function of (program, receiver, context) - exec_file is a Gallina function;
   the receiver value is an argument that no action can write *)
Theorem C16_repeatable : forall ipc ctx f recv, exec_file ipc ctx f recv = exec_file ipc ctx f recv.
Proof. reflexivity. Qed.
