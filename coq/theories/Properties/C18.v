(* C18 — legacy and new marker spellings are equivalent; migrate rewrites only markers.
   Only statements here; proofs live in Misc/MigrateProofs.v. *)
From GV Require Import Base.Bytes Base.StrOps Gen.Decl Gen.Template Misc.Migrate Misc.MigrateProofs.

(* the two spellings of one marker are parsed to the same marker content *)
Theorem C18_spelling : forall r : bytes,
  parse_marker_comment (old_prefix ++ r) = parse_marker_comment (new_prefix ++ r).
Proof. exact spelling_equiv. Qed.
Print Assumptions C18_spelling.

(* hence the generated file is identical for a declaration and its re-spelled version
   (which is also what `migrate` turns the declaration into) *)
Theorem C18_output_unchanged : forall tab d, gen_file tab (sdecl_to_new d) = gen_file tab d.
Proof. exact gen_file_spelling. Qed.
Print Assumptions C18_output_unchanged.

Theorem C18_idempotent : forall s : bytes, migrate_content (migrate_content s) = migrate_content s.
Proof. exact migrate_idempotent. Qed.
Print Assumptions C18_idempotent.

(* line by line: unchanged, or a legacy marker comment whose indentation and tail are kept;
   the number of lines (every '\n'), every '\r' and the final-newline status are preserved *)
Theorem C18_only_marker_lines : forall s : bytes,
  Forall2 line_rel (split_on nl s) (split_on nl (migrate_content s)).
Proof. exact migrate_same_lines. Qed.
Print Assumptions C18_only_marker_lines.

(* a line that starts inside a raw string literal or a block comment is never rewritten *)
Theorem C18_lookalikes_preserved : forall st l, st <> SCode -> migrate_line st l = l.
Proof. exact migrate_line_inside. Qed.
Print Assumptions C18_lookalikes_preserved.

Theorem C18_dry_run_writes_nothing : forall s : bytes, migrate_file true s = [].
Proof. exact dry_run_writes_nothing. Qed.
Print Assumptions C18_dry_run_writes_nothing.

Theorem C18_second_run_is_noop : forall s : bytes, migrate_file false (migrate_content s) = [].
Proof. intro s. unfold migrate_file. rewrite migrate_then_nothing. reflexivity. Qed.
Print Assumptions C18_second_run_is_noop.

Example C18_example :
  migrate_content (bs "x := `" ++ [nl] ++ bs "// +govalid:required" ++ [nl] ++ bs "`" ++ [nl] ++ [x09] ++ bs "// +govalid:gt=1")
  = bs "x := `" ++ [nl] ++ bs "// +govalid:required" ++ [nl] ++ bs "`" ++ [nl] ++ [x09] ++ bs "//govalid:gt=1".
Proof. vm_compute. reflexivity. Qed.
