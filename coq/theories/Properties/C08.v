(* C08 — generated code compiles: the part of "type-checks with no missing or duplicate declarations" that is
   a property of the generator's naming scheme.  Only statements; proofs in Gen/Names.v.  What the Go
   compiler decides beyond this (imports, gofmt, the full type checker) is decided by the compiler on
   every corpus package, see DESIGN.md section 5 C08. *)
From GV Require Import Base.Bytes Base.StrOps GoLite.Syntax GoLite.Sem.
From GV Require Import Gen.Decl Gen.Rules Gen.Template Gen.Spec Gen.Guard Gen.GenProofs1 Gen.Typed Gen.GenProofs3 Gen.GenExact Gen.Names Gen.Harness.

(* no missing declaration: every error variable that a check of the emitted function copies, and the
   nil-receiver sentinel, is declared by the file's var block — for EVERY declaration (any nesting, any marker
   mix, struct-level markers, known-finding shapes included) *)
Theorem C08_no_missing_declaration : forall tab d f,
  gen_file tab d = Some f -> uses_declared_b f = true.
Proof. exact gen_uses_declared. Qed.
Print Assumptions C08_no_missing_declaration.

(* no duplicate declaration, flat structs: for every struct without inline nested structs whose field names
   do not differ by a trailing "Min"/"Max" (finding D20), whatever markers (field- and struct-level, repeated,
   inapplicable) it carries, the declared names of the emitted var block are pairwise distinct *)
Theorem C08_no_duplicate_declaration_flat : forall tab d f,
  flat d = true -> no_clash (field_names d) = true -> gen_file tab d = Some f ->
  nodup_b (declared_names f) = true.
Proof. exact flat_names_distinct. Qed.
Print Assumptions C08_no_duplicate_declaration_flat.

(* the emitted file is the validator of the struct it was generated for: it carries the interface assertion,
   the nil guard on the ErrNil<T> sentinel, the standard tail and the three delegating wrappers *)
Theorem C08_file_shape : forall tab d f,
  gen_file tab d = Some f ->
  f_type f = sd_name d /\ In (DAssert (bs "govalid.Validator") (sd_name d)) (f_decls f) /\
  f_nilguard f = Some (bs "ErrNil" ++ sd_name d) /\ f_tail_ok f = true /\ f_wrappers_ok f = true.
Proof.
  intros tab d f. unfold gen_file. destruct (analyze tab d); [discriminate|]. intro H. injection H as <-.
  cbn. repeat split; auto.
Qed.
Print Assumptions C08_file_shape.

(* generation is a total function of the declaration: a file is produced iff some marker applies to some field *)
Theorem C08_generation_total : forall tab d,
  (exists f, gen_file tab d = Some f) <-> analyze tab d <> [].
Proof.
  intros tab d. unfold gen_file. destruct (analyze tab d); split.
  - intros [f H]. discriminate.
  - intro H. congruence.
  - discriminate.
  - intros _. eexists. reflexivity.
Qed.
Print Assumptions C08_generation_total.

(* the same about the file govalid actually emitted, once the kernel has accepted the run's certificate *)
Theorem C08_emitted_file : forall tab d (p : option file) f,
  opt_file_eqb p (gen_file tab d) = true -> p = Some f ->
  uses_declared_b f = true /\
  (flat d = true -> no_clash (field_names d) = true -> nodup_b (declared_names f) = true).
Proof.
  intros tab d p f C ->. unfold opt_file_eqb in C. destruct (gen_file tab d) as [g|] eqn:G; [|discriminate].
  apply file_eqb_eq in C. subst g. split.
  - apply (gen_uses_declared tab d). exact G.
  - intros F N. apply (flat_names_distinct tab d); assumption.
Qed.
Print Assumptions C08_emitted_file.

(* ---------- what the hypotheses exclude is refuted on the faithful model (open findings D20, D9) ---------- *)
Definition tab5 : numtab := [(bs "5", {| nl_int := Some 5%Z; nl_f32 := 1084227584%Z; nl_f64 := 4617315517961601024%Z |})].
(* XMin //length=5 next to X //minlength=5: both declare Err<T>XMinLengthValidation *)
Definition d20_decl : sdecl :=
  {| sd_name := bs "T"; sd_doc := [];
     sd_fields := [FPlain [bs "XMin"] [bs "//govalid:length=5"] (TBasic BString);
                   FPlain [bs "X"] [bs "//govalid:minlength=5"] (TBasic BString)] |}.
Theorem C08_min_max_clash_refuted :
  flat d20_decl = true /\ no_clash (field_names d20_decl) = false /\ kf_duplicate_names tab5 d20_decl = true.
Proof. vm_compute. auto. Qed.

(* the same field name in two inline nested structs: the legacy aliases collide *)
Definition d9_decl : sdecl :=
  {| sd_name := bs "T"; sd_doc := [];
     sd_fields := [FNested [bs "A"] [] [FPlain [bs "Name"] [bs "//govalid:required"] (TBasic BString)];
                   FNested [bs "B"] [] [FPlain [bs "Name"] [bs "//govalid:required"] (TBasic BString)]] |}.
Theorem C08_nested_alias_clash_refuted :
  flat d9_decl = false /\ kf_duplicate_names [] d9_decl = true.
Proof. vm_compute. auto. Qed.

(* the checks are well-typed: for a declaration whose marker parameters are in the documented language (params_ok) no
   emitted condition is ill-typed on any value of the declared field types (in the model: RStuck, "the Go compiler would
   reject the comparison") *)
Theorem C08_documented_parameters_are_well_typed : forall ipc tab d f root,
  in_guard tab d = true -> params_ok tab d = true -> gen_file tab d = Some f -> wt_struct d root ->
  o_res (exec_file ipc background f (Some root)) <> RStuck.
Proof. intros ipc tab d f root G P Hf W. exact (proj1 (gen_exact_typed ipc tab d f root G P Hf W)). Qed.
Print Assumptions C08_documented_parameters_are_well_typed.

(* each condition on its own: the factory's output for a documented parameter evaluates to a boolean or panics, never "ill-typed" *)
Theorem C08_condition_well_typed : forall ipc tab r f t arg c cur v,
  rule_params_ok tab r arg t = true ->
  make_cond tab r f t arg = WithCond c -> get_field cur f = Some v -> has_type v t = true ->
  eval_cond ipc (VStruct cur) c <> CStuck.
Proof. exact cond_typed. Qed.
Print Assumptions C08_condition_well_typed.

(* an undocumented parameter is refuted on the model: gt=abc has no value, the comparison is ill-typed *)
Theorem C08_undocumented_parameter_refuted :
  let d := {| sd_name := bs "T"; sd_doc := []; sd_fields := [FPlain [bs "A"] [bs "//govalid:gt=abc"] (TBasic (BInt IInt))] |} in
  params_ok [] d = false /\
  exists f, gen_file [] d = Some f /\ o_res (exec_file (fun _ => NotIP) background f (Some (VStruct [(bs "A", VInt 1%Z)]))) = RStuck.
Proof. split; [reflexivity|]. eexists. split; [reflexivity|]. vm_compute. reflexivity. Qed.

(* output files: the structs of one source file are written to pairwise different files exactly when their lower-cased
   names are pairwise different (for any lower-casing function; the generator uses strings.ToLower) *)
Theorem C08_output_files_distinct : forall lower src (Ts : list ident),
  NoDup (map lower Ts) <-> NoDup (map (out_file lower src) Ts).
Proof. exact out_files_distinct. Qed.
Print Assumptions C08_output_files_distinct.

(* open finding D36: type User and type user in one source file share x_user_validator.go *)
Theorem C08_case_collision_refuted :
  bs "User" <> bs "user" /\ out_file ascii_lower (bs "x") (bs "User") = out_file ascii_lower (bs "x") (bs "user").
Proof. split; [discriminate|vm_compute; reflexivity]. Qed.

(* ---------- non-vacuity ---------- *)
Definition ex_decl : sdecl :=
  {| sd_name := bs "User"; sd_doc := [bs "//govalid:required"];
     sd_fields := [FPlain [bs "Name"; bs "Nick"] [bs "//govalid:required"; bs "//govalid:maxlength=5"; bs "//govalid:minlength=5"; bs "//govalid:length=5"] (TBasic BString);
                   FPlain [bs "Age"] [bs "//govalid:gt=5"; bs "//govalid:lte=5"] (TBasic (BInt I8));
                   FPlain [bs "Tags"] [bs "//govalid:maxitems=5"] TSlice] |}.
Example C08_hypotheses_inhabited :
  flat ex_decl = true /\ no_clash (field_names ex_decl) = true /\
  (exists f, gen_file tab5 ex_decl = Some f /\ length (declared_names f) = 14).
Proof. split; [reflexivity|]. split; [reflexivity|]. eexists. split; [reflexivity|]. vm_compute. reflexivity. Qed.
