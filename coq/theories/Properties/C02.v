(* C02 — required rejects exactly the zero value of the field's type. *)
From GV Require Import Base.Bytes Base.StrOps Base.GoFloat GoLite.Syntax GoLite.Sem Gen.Decl Gen.Rules Gen.Spec Gen.GenProofs1.

(* the emitted condition, on a value of the field's type, is true exactly when the value is the type's zero value *)
Theorem C02_exact : forall ipc f t c cur v b,
  required_cond f t = Some c -> get_field cur f = Some v -> has_type v t = true ->
  eval_cond ipc (VStruct cur) c = CB b -> is_zero_value v = Some b.
Proof. exact required_sound. Qed.
Print Assumptions C02_exact.

(* required emits a condition for every type that has a zero literal or is a collection; the types without one
   (struct types) are exactly those for which the specification has no verdict *)
Theorem C02_no_condition_no_verdict : forall f t v, required_cond f t = None -> has_type v t = true -> is_zero_value v = None.
Proof. exact required_none. Qed.
Print Assumptions C02_no_condition_no_verdict.

(* nil versus empty: a non-nil collection is accepted whatever its length; a named type behaves like its underlying type *)
Theorem C02_nil_vs_empty : forall n, is_zero_value (VColl true 0) = Some true /\ is_zero_value (VColl false n) = Some false.
Proof. intro n. split; reflexivity. Qed.

Theorem C02_named : forall f u, required_cond f (TNamed u) = required_cond f u \/ (exists u', u = TNamed u').
Proof.
  intros f u. destruct u; try (left; reflexivity). right. eauto.
Qed.

Example C02_negative_zero : is_zero_value (VF64 9223372036854775808) = Some true.    (* -0.0 *)
Proof. vm_compute. reflexivity. Qed.
Example C02_nan_not_zero : is_zero_value (VF64 9221120237041090560) = Some false.
Proof. vm_compute. reflexivity. Qed.
Example C02_array : is_zero_value (VArr 3) = Some false /\ is_zero_value (VArr 0) = Some true.
Proof. split; reflexivity. Qed.
