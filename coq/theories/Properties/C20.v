(* C20 — the HTTP middleware lets a request through iff its body validates.
   Only statements here; proofs live in Misc/Middleware.v. *)
From GV Require Import Base.Bytes Misc.Middleware.

Theorem C20_next_iff : forall (T : Type) (decode : bytes -> option T) (next_body : bytes) (validate : T -> verr) (b : bytes),
  next_called (ValidateRequest T decode next_body validate b) = true <-> exists x, decode b = Some x /\ validate x = VOk.
Proof. exact next_iff. Qed.
Print Assumptions C20_next_iff.

Theorem C20_next_iff_ctx : forall (T : Type) (decode : bytes -> option T) (next_body : bytes) (validate_ctx : T -> verr) (b : bytes),
  next_called (ValidateRequestContext T decode next_body validate_ctx b) = true <-> exists x, decode b = Some x /\ validate_ctx x = VOk.
Proof. exact next_iff_ctx. Qed.
Print Assumptions C20_next_iff_ctx.

Theorem C20_rejected : forall (T : Type) (decode : bytes -> option T) (next_body : bytes) (validate : T -> verr) (b : bytes),
  next_called (ValidateRequest T decode next_body validate b) = false ->
  status (ValidateRequest T decode next_body validate b) = 400 /\
  (decode b = None /\ body (ValidateRequest T decode next_body validate b) = invalid_json \/
   exists x msg c, decode b = Some x /\ validate x = VFail msg c /\
                   body (ValidateRequest T decode next_body validate b) = validation_error msg).
Proof. exact rejected. Qed.
Print Assumptions C20_rejected.

Theorem C20_rejected_ctx : forall (T : Type) (decode : bytes -> option T) (next_body : bytes) (validate_ctx : T -> verr) (b : bytes),
  next_called (ValidateRequestContext T decode next_body validate_ctx b) = false ->
  (decode b = None /\ status (ValidateRequestContext T decode next_body validate_ctx b) = 400 /\
   body (ValidateRequestContext T decode next_body validate_ctx b) = invalid_json) \/
  exists x msg c, decode b = Some x /\ validate_ctx x = VFail msg c /\
                  status (ValidateRequestContext T decode next_body validate_ctx b) = (if c then 408 else 400) /\
                  body (ValidateRequestContext T decode next_body validate_ctx b) = validation_error msg.
Proof. exact rejected_ctx. Qed.
Print Assumptions C20_rejected_ctx.

Theorem C20_cancelled_gives_408 : forall (T : Type) (decode : bytes -> option T) (next_body : bytes) (validate_ctx : T -> verr) b x msg,
  decode b = Some x -> validate_ctx x = VFail msg true ->
  status (ValidateRequestContext T decode next_body validate_ctx b) = 408 /\
  next_called (ValidateRequestContext T decode next_body validate_ctx b) = false.
Proof. exact cancelled_gives_408. Qed.
Print Assumptions C20_cancelled_gives_408.

Theorem C20_never_both : forall (T : Type) (decode : bytes -> option T) (next_body : bytes) (validate_ctx : T -> verr) (b : bytes),
  next_called (ValidateRequestContext T decode next_body validate_ctx b) = true ->
  status (ValidateRequestContext T decode next_body validate_ctx b) = 200.
Proof. exact never_both. Qed.
Print Assumptions C20_never_both.
