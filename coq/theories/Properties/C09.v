(* C09 — every field governed by a marker is checked. *)
From GV Require Import Base.Bytes Base.GoFloat GoLite.Syntax GoLite.Sem.
From GV Require Import Gen.Decl Gen.Rules Gen.Template Gen.Spec Gen.Guard Gen.GenProofs1 Gen.Typed Gen.GenProofs2 Gen.GenProofs3 Gen.GenExact.

(* no silent gap: if any written rule (every name of every field, nested structs included, struct-level
   markers pushed down to the fields they apply to) is violated, the generated validator does not return nil *)
Theorem C09_no_gap : forall ipc tab d f root w,
  in_guard tab d = true -> gen_file tab d = Some f -> wt_struct d root ->
  In w (expected ipc tab d root) ->
  o_res (exec_file ipc background f (Some root)) <> RNil.
Proof.
  intros ipc tab d f root w G Hf W Hin.
  destruct (gen_exact ipc tab d f root G Hf W) as [H|(_ & Hn & _)]; [rewrite H; discriminate|].
  intro X. apply Hn in X. rewrite X in Hin. contradiction.
Qed.
Print Assumptions C09_no_gap.

(* a marker on the struct declaration has the effect of the same marker on each field: in the specification the
   rules of a field are the struct's markers followed by the field's own *)
Theorem C09_struct_level_is_per_field : forall tms doc, rules_of tms doc = tms ++ sorted_markers doc.
Proof. reflexivity. Qed.

(* a rule that does not apply to a field's type constrains nothing and emits nothing *)
Theorem C09_inapplicable_harmless : forall ipc tab r f t arg v,
  make_cond tab r f t arg = NoValidator -> has_type v t = true -> violated ipc tab r arg t v = None.
Proof. intros. apply (cond_absent ipc tab r f t arg v); [intro c; congruence|assumption]. Qed.
Print Assumptions C09_inapplicable_harmless.

(* and for documented parameters the violated rule itself is in the report, with its Path, Type and Value *)
Theorem C09_violated_rule_is_reported : forall ipc tab d f root w,
  in_guard tab d = true -> params_ok tab d = true -> gen_file tab d = Some f -> wt_struct d root ->
  In w (expected ipc tab d root) ->
  exists es, report_of (o_res (exec_file ipc background f (Some root))) = Some es /\ In (projw w) es.
Proof.
  intros ipc tab d f root w G P Hf W Hin.
  destruct (gen_exact_typed ipc tab d f root G P Hf W) as (_ & Hr & _).
  eexists. split; [exact Hr|]. apply in_map. exact Hin.
Qed.
Print Assumptions C09_violated_rule_is_reported.
