(* C03, C04, C05, C06 — the emitted condition of every rule decides the rule's verdict in the specification
   (one theorem, instantiated per marker family below). Proof: Gen/GenProofs1.v. *)
From GV Require Import Base.Bytes Base.Utf8 Base.StrOps Base.GoFloat GoLite.Syntax GoLite.Sem Gen.Decl Gen.Rules Gen.Spec Gen.GenProofs1.
From GV Require Import Helpers.Alnum Helpers.AlnumProofs Base.TrimSpec.

Theorem rule_condition_exact : forall ipc tab r f t arg c cur v b,
  make_cond tab r f t arg = WithCond c -> get_field cur f = Some v -> has_type v t = true ->
  eval_cond ipc (VStruct cur) c = CB b -> violated ipc tab r arg t v = Some b.
Proof. exact cond_sound. Qed.
Print Assumptions rule_condition_exact.

Theorem rule_absent_no_verdict : forall ipc tab r f t arg v,
  (forall c, make_cond tab r f t arg <> WithCond c) -> has_type v t = true -> violated ipc tab r arg t v = None.
Proof. exact cond_absent. Qed.
Print Assumptions rule_absent_no_verdict.

(* C03: the verdict of the length markers is a comparison of the code-point count (Base/Utf8.v rune_count) *)
Theorem C03_meaning : forall ipc tab a t s z n,
  is_string_type t = true -> num_of tab a = Some n -> nl_int n = Some z ->
  violated ipc tab RMinlength (Some a) t (VStr s) = Some (Z.ltb (Z.of_nat (rune_count s)) z) /\
  violated ipc tab RMaxlength (Some a) t (VStr s) = Some (Z.ltb z (Z.of_nat (rune_count s))) /\
  violated ipc tab RLength (Some a) t (VStr s) = Some (negb (Z.eqb (Z.of_nat (rune_count s)) z)).
Proof. intros. unfold violated. rewrite H, H0, H1. cbn. auto. Qed.

(* C04: the verdict of the item markers is a comparison of len(): nil has length 0, an array its declared size *)
Theorem C04_meaning : forall ipc tab a t v c z n,
  is_collection_type t = true -> coll_len v = Some c -> num_of tab a = Some n -> nl_int n = Some z ->
  violated ipc tab RMinitems (Some a) t v = Some (Z.ltb c z) /\
  violated ipc tab RMaxitems (Some a) t v = Some (Z.ltb z c).
Proof. intros. unfold violated. rewrite H, H0, H1, H2. auto. Qed.

Example C04_nil_has_length_zero : coll_len (VColl true 0) = Some 0%Z. Proof. reflexivity. Qed.
Example C04_array_declared_size : coll_len (VArr 3) = Some 3%Z. Proof. reflexivity. Qed.

(* C05: a string enum accepts exactly the trimmed items, compared byte for byte *)
Theorem C05_string : forall ipc tab a t s, enum_kind_of t = Some EString ->
  violated ipc tab REnum (Some a) t (VStr s) = Some (negb (existsb (bytes_eqb s) (map trim_space (split_on ","%byte a)))).
Proof. intros. unfold violated. rewrite H. reflexivity. Qed.

Example C05_trim : enum_items (bs " admin , user,guest ") = [bs "admin"; bs "user"; bs "guest"].
Proof. vm_compute. reflexivity. Qed.

(* "items are trimmed of surrounding blanks": every item is a comma-separated piece of the list minus a run of blank runes
   (unicode.IsSpace, as strings.TrimSpace removes them) at each end, and it neither starts nor ends with a blank rune *)
Theorem C05_items_trimmed : forall a it, In it (enum_items a) ->
  exists raw l r, In raw (split_on ","%byte a) /\ raw = l ++ it ++ r /\ blanks l /\ blanks r /\
                  ~ starts_blank it /\ ~ ends_blank it.
Proof.
  intros a it H. unfold enum_items in H. apply in_map_iff in H. destruct H as (raw & E & Hin). subst it.
  destruct (trim_space_spec raw) as (l & r & E & Bl & Br & N1 & N2). exists raw, l, r. repeat split; assumption.
Qed.
Print Assumptions C05_items_trimmed.

(* ... and that piece is unique: the blank runes form a prefix-free code whose non-initial bytes start no rune, so any
   decomposition raw = blanks ++ m ++ blanks with m free of blanks at both ends has m = the item *)
Theorem C05_item_is_the_trimmed_piece : forall raw l m r, raw = l ++ m ++ r -> blanks l -> blanks r ->
  ~ starts_blank m -> ~ ends_blank m -> m = trim_space raw.
Proof. exact trim_space_unique. Qed.
Print Assumptions C05_item_is_the_trimmed_piece.

Theorem C05_item_without_blanks_kept : forall s, ~ starts_blank s -> ~ ends_blank s -> trim_space s = s.
Proof. exact trim_space_fix. Qed.

(* U+00A0, U+3000 and the vertical tab next to a comma are blanks; a blank inside an item stays *)
Example C05_trim_unicode :
  enum_items (flat_map (fun n => match Byte.of_N n with Some b => [b] | None => [] end)
                       [114; 101; 100; 44; 194; 160; 103; 32; 110; 227; 128; 128; 44; 98; 11]%N) = [bs "red"; bs "g n"; bs "b"].
Proof. vm_compute. reflexivity. Qed.

(* C06: alpha = only ASCII letters (empty allowed); numeric = one or more ASCII digits *)
Theorem C06_alpha : forall s, IsValidAlpha s = true <-> Forall ascii_letter s.
Proof. exact IsValidAlpha_exact. Qed.
Print Assumptions C06_alpha.
Theorem C06_numeric : forall s, IsNumeric s = true <-> (s <> [] /\ Forall ascii_digit s).
Proof. exact IsNumeric_exact. Qed.
Print Assumptions C06_numeric.

(* ipv4 / ipv6 are defined by the standard library's classification (oracle ip_class) *)
Theorem C06_ip : forall ipc tab t s, is_string_type t = true ->
  violated ipc tab RIpv4 None t (VStr s) = Some (match ipc s with IsV4 => false | _ => true end) /\
  violated ipc tab RIpv6 None t (VStr s) = Some (match ipc s with IsV6 => false | _ => true end).
Proof. intros. unfold violated. rewrite H. auto. Qed.
