(* C01 — numeric bound markers decide exactly the stated order relation.  (More theorems are added
   to this file as Gen/GenProofs.v grows; see DESIGN.md §5 C01 for what is proved where.) *)
From Coq Require Import ZArith Reals.
From Flocq Require Import IEEE754.Binary IEEE754.Bits.
From GV Require Import Base.Bytes Base.GoFloat GoLite.Syntax GoLite.Sem Gen.Decl Gen.Rules Gen.Spec.

(* integers: Go's typed comparison of two in-range values is the comparison of the integers *)
Theorem C01_int : forall (op : cmpop) (v n : Z),
  zcmp op v n = true <->
  match op with
  | OpEq => v = n | OpNe => v <> n
  | OpLt => (v < n)%Z | OpLe => (v <= n)%Z | OpGt => (v > n)%Z | OpGe => (v >= n)%Z
  end.
Proof.
  intros op v n. destruct op; cbn [zcmp].
  - apply Z.eqb_eq.
  - rewrite Bool.negb_true_iff. apply Z.eqb_neq.
  - apply Z.ltb_lt.
  - apply Z.leb_le.
  - rewrite Z.ltb_lt. lia.
  - rewrite Z.leb_le. lia.
Qed.
Print Assumptions C01_int.

(* floats: the operator holds iff neither operand is NaN and the relation holds between the
   extended reals they denote; NaN fails everything except != ; infinities compare as +-infinity *)
Theorem C01_float64 : forall (op : cmpop) (x n : Z),
  fcmp64 op x n = true <-> go_float_rel 53 1024 op (f64 x) (f64 n).
Proof. intros. unfold fcmp64. apply (of_cmp_meaning 53 1024). Qed.
Print Assumptions C01_float64.

Theorem C01_float32 : forall (op : cmpop) (x n : Z),
  fcmp32 op x n = true <-> go_float_rel 24 128 op (f32 x) (f32 n).
Proof. intros. unfold fcmp32. apply (of_cmp_meaning 24 128). Qed.
Print Assumptions C01_float32.

(* NaN therefore fails gt, gte, lt and lte alike *)
Theorem C01_nan_fails_all : forall (op : cmpop) (x n : Z),
  is_nan64 x = true -> op <> OpNe -> fcmp64 op x n = false.
Proof.
  intros op x n H Hop. unfold fcmp64, is_nan64 in *.
  destruct (f64 x); try discriminate. destruct op; try reflexivity. congruence.
Qed.
Print Assumptions C01_nan_fails_all.

(* the rule's verdict in the specification is the negated relation on the field value *)
Theorem C01_rule_meaning : forall ipc tab r a t v n,
  (r = RGt \/ r = RGte \/ r = RLt \/ r = RLte) -> is_numeric_type t = true -> num_of tab a = Some n ->
  violated ipc tab r (Some a) t v =
  option_map negb (num_rel (match r with RGt => OpGt | RGte => OpGe | RLt => OpLt | _ => OpLe end) v n).
Proof.
  intros ipc tab r a t v n Hr Ht Hn. unfold violated.
  destruct Hr as [->|[->|[->| ->]]]; rewrite Ht, Hn; reflexivity.
Qed.
Print Assumptions C01_rule_meaning.

Example C01_ex_nan : fcmp64 OpGt 9221120237041090560 0 = false /\ fcmp64 OpLe 9221120237041090560 0 = false.
Proof. vm_compute. split; reflexivity. Qed.
Example C01_ex_inf : fcmp64 OpGt 9218868437227405312 4607182418800017408 = true.   (* +Inf > 1.0 *)
Proof. vm_compute. reflexivity. Qed.
Example C01_ex_negzero : fcmp64 OpGe 9223372036854775808 0 = true /\ fcmp64 OpGt 9223372036854775808 0 = false.  (* -0.0 vs 0 *)
Proof. vm_compute. split; reflexivity. Qed.
