(* C13 — UUID recognizer accepts exactly RFC 4122 textual UUIDs, case-insensitively.
   Only statements here; proofs live in Helpers/UuidProofs.v. *)
From GV Require Import Base.Bytes Helpers.Uuid Helpers.UuidSpec Helpers.UuidProofs.

Theorem C13_exact : forall s : bytes, IsValidUUID s = Ok true <-> uuid_spec s.
Proof. exact IsValidUUID_exact. Qed.
Print Assumptions C13_exact.

Theorem C13_total : forall s : bytes, exists b, IsValidUUID s = Ok b.
Proof. exact IsValidUUID_total. Qed.
Print Assumptions C13_total.

Theorem C13_case_insensitive : forall s s' : bytes,
  same_upto_hex_case s s' -> IsValidUUID s = IsValidUUID s'.
Proof. exact IsValidUUID_case_insensitive. Qed.
Print Assumptions C13_case_insensitive.

(* non-vacuity: the specification has members of each kind, and non-members *)
Example C13_member_v4 : IsValidUUID (bs "550e8400-e29b-41d4-a716-446655440000") = Ok true.
Proof. vm_compute. reflexivity. Qed.
Example C13_member_nil : IsValidUUID nil_uuid = Ok true.
Proof. vm_compute. reflexivity. Qed.
Example C13_member_max_upper : IsValidUUID (bs "FFFFFFFF-FFFF-FFFF-FFFF-FFFFFFFFFFFF") = Ok true.
Proof. vm_compute. reflexivity. Qed.
Example C13_nonmember_v6 : IsValidUUID (bs "550e8400-e29b-61d4-a716-446655440000") = Ok false.
Proof. vm_compute. reflexivity. Qed.
Example C13_case_pair :
  same_upto_hex_case (bs "550e8400-e29b-41d4-a716-446655440000") (bs "550E8400-E29B-41D4-A716-446655440000").
Proof. vm_compute. repeat constructor. Qed.
