(* C17 — validation never panics. *)
From GV Require Import Base.Bytes GoLite.Syntax GoLite.Sem GoLite.Safety Gen.Decl Gen.Rules Gen.Template.
From GV Require Import Helpers.Email Helpers.Url Helpers.Uuid Helpers.EmailProofs Helpers.UrlProofs Helpers.UuidProofs.

(* any program that has the nil guard - every translated file of a run is checked for it - returns normally
   for every receiver (nil included), every field value and every context. CEL conditions are opaque here
   (known finding D16: integer division by a zero field panics). *)
Theorem C17_no_panic : forall ipc ctx f recv, f_nilguard f <> None -> o_res (exec_file ipc ctx f recv) <> RPanic.
Proof. exact exec_no_panic. Qed.
Print Assumptions C17_no_panic.

Theorem C17_generated_has_nil_guard : forall tab d f, gen_file tab d = Some f -> f_nilguard f <> None.
Proof. unfold gen_file. intros tab d f. destruct (analyze tab d); [discriminate|]. intro H. injection H as <-. discriminate. Qed.

Theorem C17_helpers_total : forall s : bytes,
  (exists b, IsValidEmail s = Ok b) /\ (exists b, IsValidURL s = Ok b) /\ (exists b, IsValidUUID s = Ok b).
Proof. intro s. split; [apply IsValidEmail_total|split; [apply IsValidURL_total|apply IsValidUUID_total]]. Qed.
Print Assumptions C17_helpers_total.
