(* C11 — Email recognizer accepts exactly the documented address grammar.
   Only statements here; proofs live in Helpers/EmailProofs.v. *)
From GV Require Import Base.Bytes Helpers.Email Helpers.EmailSpec Helpers.EmailProofs.

Theorem C11_exact : forall s : bytes, IsValidEmail s = Ok true <-> email_spec s.
Proof. exact IsValidEmail_exact. Qed.
Print Assumptions C11_exact.

Theorem C11_total : forall s : bytes, exists b, IsValidEmail s = Ok b.
Proof. exact IsValidEmail_total. Qed.
Print Assumptions C11_total.

Theorem C11_non_ascii_rejected : forall (s : bytes) (c : byte),
  In c s -> (128 <= b2n c)%N -> IsValidEmail s = Ok false.
Proof. exact IsValidEmail_non_ascii. Qed.
Print Assumptions C11_non_ascii_rejected.

(* non-vacuity *)
Example C11_member : IsValidEmail (bs "first.last+tag@sub-1.example.org") = Ok true.
Proof. vm_compute. reflexivity. Qed.
Example C11_member_min : IsValidEmail (bs "a@b.c") = Ok true.
Proof. vm_compute. reflexivity. Qed.
Example C11_nonmember_dots : IsValidEmail (bs "a..b@c.de") = Ok false.
Proof. vm_compute. reflexivity. Qed.
Example C11_nonmember_hyphen : IsValidEmail (bs "ab@c-.de") = Ok false.
Proof. vm_compute. reflexivity. Qed.
Example C11_spec_inhabited : email_spec (bs "a@b.c").
Proof. apply C11_exact. vm_compute. reflexivity. Qed.
