(* C14 — generation is deterministic and isolated from other packages and runs.
   Only statements here; proofs live in Gen/Memory.v. The Go scheduler, GOMAXPROCS and the race
   detector are outside the model: the mutex is modelled as "one package at a time, in any order". *)
From GV Require Import Base.Bytes GoLite.Syntax Gen.Decl Gen.Rules Gen.Template Gen.Memory.

(* whatever memory is left by earlier structs, packages or runs, and in whatever order the packages
   are processed, each struct's emitted declarations are those of generating it alone *)
Theorem C14_isolated : forall (m : mem) (pkgs : list (list (list key))),
  run_all m pkgs = map (map alone) pkgs.
Proof. exact run_all_isolated. Qed.
Print Assumptions C14_isolated.

Theorem C14_order_insensitive : forall m m' pkgs pkgs' (p : list (list key)),
  In p pkgs -> In p pkgs' ->
  forall out, In (p, out) (combine pkgs (run_all m pkgs)) -> In (p, out) (combine pkgs' (run_all m' pkgs')).
Proof. exact run_all_order_insensitive. Qed.
Print Assumptions C14_order_insensitive.

(* the generated file is a function of the declaration alone (gen_file takes no state) and its
   var block is computed from an empty memory *)
Theorem C14_pure : forall tab d f, gen_file tab d = Some f ->
  exists mds, analyze tab d = mds /\
              f_decls f = DAssert (bs "govalid.Validator") (sd_name d) :: DNil (bs "ErrNil" ++ sd_name d)
                          :: err_decls (all_validators mds) [].
Proof. exact gen_file_uses_fresh_memory. Qed.
Print Assumptions C14_pure.

(* non-vacuity: with a stale memory and no reset, the second of two identical structs would lose its declaration *)
Example C14_stale_memory_matters :
  snd (run_errs [(RGt, bs "UserAge")] [(RGt, bs "UserAge")]) = [false] /\ alone [(RGt, bs "UserAge")] = [true].
Proof. vm_compute. split; reflexivity. Qed.
