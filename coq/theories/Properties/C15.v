(* C15 — the context contract. The main theorem holds for EVERY GoLite program, hence for every translated
   generated file of a run without going through the generator model. *)
From GV Require Import Base.Bytes GoLite.Syntax GoLite.Sem GoLite.CtxProofs Gen.Decl Gen.Rules Gen.Template.

Theorem C15_contract : forall ipc ctx f recv,
  let o := exec_file ipc ctx f recv in
  let b := exec_file ipc background f recv in
  (exists k, o_res o = RCtx (ctx (S k)) /\ ctx k <> None /\ s_calls (o_st o) = S (S k)) \/
  (o = b /\ forall j, j < s_calls (o_st b) -> ctx j = None) \/
  (o = b /\ (o_res b = RStuck \/ o_res b = RPanic)).
Proof. exact ctx_contract. Qed.
Print Assumptions C15_contract.

(* with a context.Context honouring its contract (once done, Err() keeps returning the same error) the first
   disjunct is "returns exactly ctx.Err()" *)
Definition monotone (ctx : nat -> option ctxerr) : Prop := forall k e, ctx k = Some e -> forall j, k <= j -> ctx j = Some e.

Theorem C15_done_exact : forall ipc ctx f recv k,
  monotone ctx -> o_res (exec_file ipc ctx f recv) = RCtx (ctx (S k)) -> ctx k <> None -> ctx (S k) = ctx k.
Proof.
  intros ipc ctx f recv k M _ N. destruct (ctx k) as [e|] eqn:E; [|congruence]. apply (M k e E). lia.
Qed.

(* a cancellation point precedes every validated field: each group of the generated body starts with a poll *)
Definition starts_with_poll (l : list item) : Prop :=
  match l with
  | IPoll :: _ => True
  | [IBlock (IPoll :: _)] => True
  | _ => False
  end.

Theorem C15_poll_precedes_every_group : forall m, starts_with_poll (group_items m).
Proof. intro m. unfold group_items. destruct (md_parent m); exact I. Qed.

Theorem C15_wrappers_and_shape : forall tab d f, gen_file tab d = Some f ->
  f_wrappers_ok f = true /\ f_tail_ok f = true /\ f_items f = flat_map group_items (analyze tab d).
Proof.
  unfold gen_file. intros tab d f. destruct (analyze tab d); [discriminate|]. intro H. injection H as <-. auto.
Qed.
