(* Reference semantics of CEL expressions: what cel-go's interpreter computes (v0.26, standard
   library, variables of type dyn).  Errors are values and are absorbed by && and || exactly as the
   interpreter does.  Library functions whose definition lives in Go's standard library on BOTH sides
   (regexp, strconv float parsing/printing, time.ParseDuration) are oracles. *)
From GV Require Import Base.Bytes Base.Utf8 Base.StrOps Base.GoFloat Cel.Syntax.
From Flocq Require Import IEEE754.Binary IEEE754.Bits.
From Flocq Require IEEE754.BinarySingleNaN.
Notation mode_NE := BinarySingleNaN.mode_NE.
Local Open Scope Z_scope.

Inductive cval :=
| VBool (b : bool) | VInt (z : Z) | VUint (z : Z) | VDouble (bits : Z)
| VString (s : bytes) | VBytes (s : bytes)
| VList (l : list cval) | VMap (kvs : list (cval * cval)) | VDur (ns : Z) | VNull.

Inductive cres := CV (v : cval) | CErr.

Definition min_i64 : Z := - 2 ^ 63.
Definition max_i64 : Z := 2 ^ 63 - 1.
Definition max_u64 : Z := 2 ^ 64 - 1.
Definition in_i64 (z : Z) : bool := (min_i64 <=? z) && (z <=? max_i64).
Definition in_u64 (z : Z) : bool := (0 <=? z) && (z <=? max_u64).
Definition chk_i (z : Z) : cres := if in_i64 z then CV (VInt z) else CErr.
Definition chk_u (z : Z) : cres := if in_u64 z then CV (VUint z) else CErr.
Definition chk_d (z : Z) : cres := if in_i64 z then CV (VDur z) else CErr.

(* ---------- float64 arithmetic on bit patterns (Flocq) ---------- *)
Definition bits64 (x : binary64) : Z := bits_of_b64 x.
Inductive farith := FAddOp | FSubOp | FMulOp | FDivOp.
Definition fop (o : farith) (x y : Z) : Z :=
  bits64 (match o with
          | FAddOp => b64_plus mode_NE (f64 x) (f64 y)
          | FSubOp => b64_minus mode_NE (f64 x) (f64 y)
          | FMulOp => b64_mult mode_NE (f64 x) (f64 y)
          | FDivOp => b64_div mode_NE (f64 x) (f64 y)
          end).
Definition fneg (x : Z) : Z := bits64 (b64_opp (f64 x)).
(* float64(z) for an integer z: round to nearest even *)
Definition z2f (z : Z) : Z :=
  bits64 (binary_normalize 53 1024 (eq_refl _) (eq_refl _) mode_NE z 0 false).
Definition fcompare (x y : Z) : option comparison := Bcompare 53 1024 (f64 x) (f64 y).

(* ---------- strings ---------- *)
Definition has_suffix (p s : bytes) : bool := has_prefix (rev p) (rev s).
Fixpoint contains_sub (p s : bytes) : bool :=
  has_prefix p s || match s with [] => false | _ :: r => contains_sub p r end.

Definition bytes_cmp (a b : bytes) : comparison :=
  if bytes_eqb a b then Eq else if bytes_ltb a b then Lt else Gt.

(* decimal rendering of integers (strconv.FormatInt(z, 10)) and its inverse (strconv.ParseInt(s, 10, 64)) *)
Definition digit_byte (d : Z) : byte :=
  match Byte.of_N (Z.to_N (48 + d)) with Some b => b | None => c_0 end.
Fixpoint fmt_pos (fuel : nat) (z : Z) (acc : bytes) : bytes :=
  match fuel with
  | O => acc
  | S f => let acc' := digit_byte (z mod 10) :: acc in
           if z <? 10 then acc' else fmt_pos f (z / 10) acc'
  end.
Definition fmt_int (z : Z) : bytes :=
  if z <? 0 then c_hyphen :: fmt_pos 25%nat (- z) [] else fmt_pos 25%nat z [].

Fixpoint parse_digits (s : bytes) (acc : Z) : option Z :=
  match s with
  | [] => Some acc
  | c :: r => if is_digit c then parse_digits r (10 * acc + (Z.of_N (b2n c) - 48)) else None
  end.
Definition parse_int (s : bytes) : option Z :=
  let body neg r :=
    match r with
    | [] => None
    | _ => match parse_digits r 0 with
           | Some z => let v := if neg : bool then - z else z in if in_i64 v then Some v else None
           | None => None
           end
    end in
  match s with
  | [] => None
  | c :: r => if beq c c_plus then body false r else if beq c c_hyphen then body true r else body false s
  end.

Definition of_cmp3 (op : cmpop) (c : comparison) : bool := of_cmp op (Some c).

Section Sem.
  (* oracles: Go standard-library functions that cel-go AND the generated code both call *)
  Variable re_match : bytes -> bytes -> option bool.   (* regexp: pattern, subject; None = pattern does not compile *)
  Variable parse_float : bytes -> option Z.            (* strconv.ParseFloat(s, 64) -> bits *)
  Variable fmt_g : Z -> bytes.                         (* strconv.FormatFloat(f, 'g', -1, 64) *)
  Variable parse_dur : bytes -> option Z.              (* time.ParseDuration -> ns *)

  (* ---------- equality: types.Equal (total) ---------- *)
  Definition num_cmp (a b : cval) : option (option comparison) :=
    (* Some (Some c): comparable numerics, ordered c; Some None: a NaN is involved; None: not both numeric *)
    match a, b with
    | VInt x, VInt y | VUint x, VUint y | VInt x, VUint y | VUint x, VInt y => Some (Some (Z.compare x y))
    | VDouble x, VDouble y => Some (fcompare x y)
    | VInt x, VDouble y | VUint x, VDouble y => Some (fcompare (z2f x) y)
    | VDouble x, VInt y | VDouble x, VUint y => Some (fcompare x (z2f y))
    | _, _ => None
    end.

  Fixpoint cequal (a b : cval) : bool :=
    match num_cmp a b with
    | Some (Some Eq) => true
    | Some _ => false
    | None =>
        match a, b with
        | VBool x, VBool y => Bool.eqb x y
        | VString x, VString y | VBytes x, VBytes y => bytes_eqb x y
        | VDur x, VDur y => Z.eqb x y
        | VNull, VNull => true
        | VList x, VList y =>
            (fix go (x y : list cval) : bool :=
               match x, y with
               | [], [] => true
               | i :: x', j :: y' => cequal i j && go x' y'
               | _, _ => false
               end) x y
        | _, _ => false          (* maps: not modelled (never compared in the corpora) *)
        end
    end.

  (* ---------- ordering: traits.Comparer ---------- *)
  Definition ccompare (a b : cval) : option comparison :=
    match num_cmp a b with
    | Some r => r                                   (* NaN: "NaN values cannot be ordered" *)
    | None =>
        match a, b with
        | VBool x, VBool y => Some (match x, y with false, true => Lt | true, false => Gt | _, _ => Eq end)
        | VString x, VString y | VBytes x, VBytes y => Some (bytes_cmp x y)
        | VDur x, VDur y => Some (Z.compare x y)
        | _, _ => None
        end
    end.

  Definition ccmp (op : cmpop) (a b : cres) : cres :=
    match a, b with
    | CV x, CV y =>
        match op with
        | OpEq => CV (VBool (cequal x y))
        | OpNe => CV (VBool (negb (cequal x y)))
        | _ => match ccompare x y with Some c => CV (VBool (of_cmp3 op c)) | None => CErr end
        end
    | _, _ => CErr
    end.

  (* ---------- arithmetic ---------- *)
  Definition cadd (a b : cval) : cres :=
    match a, b with
    | VInt x, VInt y => chk_i (x + y)
    | VUint x, VUint y => chk_u (x + y)
    | VDouble x, VDouble y => CV (VDouble (fop FAddOp x y))
    | VString x, VString y => CV (VString (x ++ y))
    | VBytes x, VBytes y => CV (VBytes (x ++ y))
    | VList x, VList y => CV (VList (x ++ y))
    | VDur x, VDur y => chk_d (x + y)
    | _, _ => CErr
    end.
  Definition csub (a b : cval) : cres :=
    match a, b with
    | VInt x, VInt y => chk_i (x - y)
    | VUint x, VUint y => chk_u (x - y)
    | VDouble x, VDouble y => CV (VDouble (fop FSubOp x y))
    | VDur x, VDur y => chk_d (x - y)
    | _, _ => CErr
    end.
  Definition cmul (a b : cval) : cres :=
    match a, b with
    | VInt x, VInt y => chk_i (x * y)
    | VUint x, VUint y => chk_u (x * y)
    | VDouble x, VDouble y => CV (VDouble (fop FMulOp x y))
    | _, _ => CErr
    end.
  Definition cdiv (a b : cval) : cres :=
    match a, b with
    | VInt x, VInt y => if y =? 0 then CErr else chk_i (Z.quot x y)
    | VUint x, VUint y => if y =? 0 then CErr else chk_u (Z.quot x y)
    | VDouble x, VDouble y => CV (VDouble (fop FDivOp x y))
    | _, _ => CErr
    end.
  Definition cmod (a b : cval) : cres :=
    match a, b with
    | VInt x, VInt y => if y =? 0 then CErr else if (x =? min_i64) && (y =? -1) then CErr else CV (VInt (Z.rem x y))
    | VUint x, VUint y => if y =? 0 then CErr else CV (VUint (Z.rem x y))
    | _, _ => CErr
    end.
  Definition cneg (a : cval) : cres :=
    match a with
    | VInt x => chk_i (- x)
    | VDouble x => CV (VDouble (fneg x))
    | _ => CErr
    end.

  Definition lift2 (f : cval -> cval -> cres) (a b : cres) : cres :=
    match a, b with CV x, CV y => f x y | _, _ => CErr end.

  (* evalAnd / evalOr: commutative, a false (true) operand wins over an error *)
  Definition cand (a b : cres) : cres :=
    match a, b with
    | CV (VBool false), _ | _, CV (VBool false) => CV (VBool false)
    | CV (VBool true), CV (VBool true) => CV (VBool true)
    | _, _ => CErr
    end.
  Definition cor (a b : cres) : cres :=
    match a, b with
    | CV (VBool true), _ | _, CV (VBool true) => CV (VBool true)
    | CV (VBool false), CV (VBool false) => CV (VBool false)
    | _, _ => CErr
    end.
  Definition cnot (a : cres) : cres :=
    match a with CV (VBool b) => CV (VBool (negb b)) | _ => CErr end.
  Definition cnsf (a : cres) : cres :=                  (* @not_strictly_false *)
    match a with CV (VBool false) => CV (VBool false) | _ => CV (VBool true) end.

  Definition csize (a : cval) : cres :=
    match a with
    | VString s => CV (VInt (Z.of_nat (rune_count s)))
    | VBytes s => CV (VInt (Z.of_nat (length s)))
    | VList l => CV (VInt (Z.of_nat (length l)))
    | VMap m => CV (VInt (Z.of_nat (length m)))
    | _ => CErr
    end.

  Definition cstrfn (f : cfun) (a b : cval) : cres :=
    match a, b with
    | VString s, VString p =>
        match f with
        | FContains => CV (VBool (contains_sub p s))
        | FStartsWith => CV (VBool (has_prefix p s))
        | FEndsWith => CV (VBool (has_suffix p s))
        | FMatches => match re_match p s with Some r => CV (VBool r) | None => CErr end
        | _ => CErr
        end
    | _, _ => CErr
    end.

  Fixpoint map_find (m : list (cval * cval)) (k : cval) : option cval :=
    match m with
    | [] => None
    | (k', v) :: r => if cequal k' k then Some v else map_find r k
    end.

  Definition cin (x c : cval) : cres :=
    match c with
    | VList l => CV (VBool (existsb (fun y => cequal x y) l))
    | VMap m => CV (VBool (match map_find m x with Some _ => true | None => false end))
    | _ => CErr
    end.

  Definition cindex (c i : cval) : cres :=
    match c, i with
    | VList l, VInt z => if z <? 0 then CErr else match nth_error l (Z.to_nat z) with Some v => CV v | None => CErr end
    | VMap m, k => match map_find m k with Some v => CV v | None => CErr end
    | _, _ => CErr
    end.

  Definition cselect (c : cval) (f : ident) (test_only : bool) : cres :=
    match c with
    | VMap m => match map_find m (VString f) with
                | Some v => if test_only then CV (VBool true) else CV v
                | None => if test_only then CV (VBool false) else CErr
                end
    | _ => CErr
    end.

  (* truncation of a double to int64 with range check: Double.ConvertToType(IntType) *)
  Definition dbl_to_int (bits : Z) : cres :=
    match f64 bits with
    | B754_zero _ _ _ => CV (VInt 0)
    | B754_finite _ _ s m e _ =>
        let mag := if (0 <=? e) then Z.pos m * 2 ^ e else Z.pos m / 2 ^ (- e) in
        let v := if s then - mag else mag in
        (* cel-go rejects values >= 2^63 and <= -2^63 *)
        if (min_i64 <? v) && (v <=? max_i64) then CV (VInt v) else CErr
    | _ => CErr
    end.

  Definition cconv_int (a : cval) : cres :=
    match a with
    | VInt z => CV (VInt z)
    | VUint z => chk_i z
    | VDouble b => dbl_to_int b
    | VString s => match parse_int s with Some z => CV (VInt z) | None => CErr end
    | VDur z => CV (VInt z)
    | _ => CErr
    end.
  Definition cconv_string (a : cval) : option cres :=    (* None: not modelled (duration, bytes, timestamps) *)
    match a with
    | VString s => Some (CV (VString s))
    | VInt z | VUint z => Some (CV (VString (fmt_int z)))
    | VDouble b => Some (CV (VString (fmt_g b)))
    | VBool b => Some (CV (VString (if b then bs "true" else bs "false")))
    | VList _ | VMap _ | VNull => Some CErr
    | _ => None
    end.
  Definition cconv_double (a : cval) : cres :=
    match a with
    | VDouble b => CV (VDouble b)
    | VInt z | VUint z => CV (VDouble (z2f z))
    | VString s => match parse_float s with Some b => CV (VDouble b) | None => CErr end
    | _ => CErr
    end.
  Definition cconv_dur (a : cval) : cres :=
    match a with
    | VDur z => CV (VDur z)
    | VString s => match parse_dur s with Some z => CV (VDur z) | None => CErr end
    | _ => CErr
    end.

  Definition const_val (k : cconst) : cval :=
    match k with
    | KBool b => VBool b | KInt z => VInt z | KUint z => VUint z | KDouble b => VDouble b
    | KString s => VString s | KBytes s => VBytes s | KNull => VNull
    end.

  Definition cenv := list (ident * cres).
  Fixpoint clookup (env : cenv) (x : ident) : cres :=
    match env with
    | [] => CErr
    | (y, v) :: r => if bytes_eqb y x then v else clookup r x
    end.

  Definition iter_elems (v : cval) : option (list cval) :=
    match v with
    | VList l => Some l
    | VMap m => Some (map fst m)          (* a map is iterated by its KEYS *)
    | _ => None
    end.

  Definition on1 (f : cval -> cres) (a : cres) : cres := match a with CV x => f x | CErr => CErr end.

  (* [None] = the expression uses a construct whose reference semantics is not modelled here *)
  Fixpoint ceval (env : cenv) (e : cexpr) : option cres :=
    let ev1 f a := match ceval env a with Some x => Some (f x) | None => None end in
    let ev2 f a b := match ceval env a, ceval env b with Some x, Some y => Some (f x y) | _, _ => None end in
    match e with
    | EIdent x => Some (clookup env x)
    | ESelect o f t => ev1 (on1 (fun v => cselect v f t)) o
    | EConst k => Some (CV (const_val k))
    | ECall1 fn a =>
        match fn with
        | FNot => ev1 cnot a
        | FNeg => ev1 (on1 cneg) a
        | FNotStrictlyFalse => ev1 cnsf a
        | FSize => ev1 (on1 csize) a
        | FInt => ev1 (on1 cconv_int) a
        | FDouble => ev1 (on1 cconv_double) a
        | FDuration => ev1 (on1 cconv_dur) a
        | FString => match ceval env a with
                     | Some (CV v) => cconv_string v
                     | r => r
                     end
        | _ => None
        end
    | ECall2 fn a b =>
        match fn with
        | FAnd => ev2 cand a b
        | FOr => ev2 cor a b
        | FAdd => ev2 (lift2 cadd) a b
        | FSub => ev2 (lift2 csub) a b
        | FMul => ev2 (lift2 cmul) a b
        | FDiv => ev2 (lift2 cdiv) a b
        | FMod => ev2 (lift2 cmod) a b
        | FEq => ev2 (ccmp OpEq) a b
        | FNe => ev2 (ccmp OpNe) a b
        | FLt => ev2 (ccmp OpLt) a b
        | FLe => ev2 (ccmp OpLe) a b
        | FGt => ev2 (ccmp OpGt) a b
        | FGe => ev2 (ccmp OpGe) a b
        | FIn => ev2 (lift2 cin) a b
        | FIndex => ev2 (lift2 cindex) a b
        | FMatches => ev2 (lift2 (cstrfn FMatches)) a b
        | _ => None
        end
    | ECall3 fn c a b =>
        match fn with
        | FTernary =>
            match ceval env c with
            | Some (CV (VBool true)) => ceval env a
            | Some (CV (VBool false)) => ceval env b
            | Some _ => match ceval env a, ceval env b with Some _, Some _ => Some CErr | _, _ => None end
            | None => None
            end
        | _ => None
        end
    | EMeth0 fn t =>
        match fn with
        | FSize => ev1 (on1 csize) t
        | _ => None
        end
    | EMeth1 fn t a =>
        match fn with
        | FContains | FStartsWith | FEndsWith | FMatches => ev2 (lift2 (cstrfn fn)) t a
        | _ => None
        end
    | EList es =>
        (fix go (es : list cexpr) (acc : list cval) (err : bool) : option cres :=
           match es with
           | [] => Some (if err then CErr else CV (VList (rev acc)))
           | x :: r => match ceval env x with
                       | Some (CV v) => go r (v :: acc) err
                       | Some CErr => go r acc true
                       | None => None
                       end
           end) es [] false
    | ECompr x r acc init cond step res =>
        match ceval env r with
        | None => None
        | Some CErr => Some CErr
        | Some (CV rv) =>
            match iter_elems rv with
            | None => Some CErr
            | Some els =>
                match ceval env init with
                | None => None
                | Some a0 =>
                    let aN :=
                      (fix loop (els : list cval) (a : cres) : option cres :=
                         match els with
                         | [] => Some a
                         | v :: rest =>
                             let env' := (x, CV v) :: (acc, a) :: env in
                             match ceval env' cond with
                             | None => None
                             | Some (CV (VBool false)) => Some a
                             | Some _ => match ceval env' step with
                                         | Some a' => loop rest a'
                                         | None => None
                                         end
                             end
                         end) els a0 in
                    match aN with
                    | Some a => ceval ((acc, a) :: env) res
                    | None => None
                    end
                end
            end
        end
    | EStruct | EOther => None
    end.
End Sem.
