(* The relation between CEL values and the Go values of the translation, and the operator-level
   agreement lemmas used by Cel/Sound.v. *)
From GV Require Import Base.Bytes Base.StrOps Base.GoFloat Cel.Syntax Cel.CelSem Cel.GoSem Cel.Translate Cel.Env Cel.Typing.
From Coq Require Import ZifyBool.
Local Open Scope Z_scope.

(* ---------- value relation, indexed by the static type of the fragment ---------- *)
Fixpoint vrel (t : sty) (v : cval) (w : gval) : Prop :=
  match t with
  | SInt k => exists z, v = cint k z /\ w = GInt k z /\ in_kind k z = true
  | SF64 => exists b, v = VDouble b /\ w = GF64 b
  | SStr => exists s, v = VString s /\ w = GStr s
  | SKStr s => v = VString s /\ w = GStr s
  | SBool => exists b, v = VBool b /\ w = GBool b
  | SKInt u z => v = (if u then VUint z else VInt z) /\ w = GUInt z
  | SKDbl b => v = VDouble b /\ (w = GUFloat b \/ exists z, w = GUInt z /\ z2f z = b)
  | SList te => exists vs ws, v = VList vs /\ w = GSlice ws /\ Forall2 (vrel te) vs ws /\ in_i64 (Z.of_nat (length ws)) = true
  | SIfaces => exists vs ws, v = VList vs /\ w = GIface ws /\ length vs = length ws /\ in_i64 (Z.of_nat (length ws)) = true
  | SMapSI => exists m gm, v = VMap m /\ w = GMap gm /\ length m = length gm /\ in_i64 (Z.of_nat (length gm)) = true
  end.

(* the Go side always produces a value of the right type; the CEL side produces the related value or an error *)
Definition R (t : sty) (oc : option cres) (g : gres) : Prop :=
  exists v0 w, g = GV w /\ vrel t v0 w /\ (oc = Some (CV v0) \/ oc = Some CErr).

Lemma R_intro t v w : vrel t v w -> R t (Some (CV v)) (GV w).
Proof. intro H. exists v, w. auto. Qed.

(* ---------- ranges and wrap-around ---------- *)
Lemma in_i64_spec z : in_i64 z = true <-> -9223372036854775808 <= z <= 9223372036854775807.
Proof. unfold in_i64, min_i64, max_i64. change (2 ^ 63) with 9223372036854775808. lia. Qed.
Lemma in_u64_spec z : in_u64 z = true <-> 0 <= z <= 18446744073709551615.
Proof. unfold in_u64, max_u64. change (2 ^ 64) with 18446744073709551616. lia. Qed.

Lemma in_kind_spec k z : in_kind k z = true <-> k_min k <= z <= k_max k.
Proof. unfold in_kind. lia. Qed.

Lemma is64_signed_range k : is64 k = true -> k_signed k = true -> k_min k = -9223372036854775808 /\ k_max k = 9223372036854775807.
Proof. destruct k; cbn; try discriminate; intros _ _; split; reflexivity. Qed.
Lemma is64_unsigned_range k : is64 k = true -> k_signed k = false -> k_min k = 0 /\ k_max k = 18446744073709551615.
Proof. destruct k; cbn; try discriminate; intros _ _; split; reflexivity. Qed.

Lemma wrap_id k z : in_kind k z = true -> wrap k z = z.
Proof.
  rewrite in_kind_spec. unfold wrap, k_min, k_max.
  destruct k; cbn [k_signed k_bits]; intro H;
    repeat match goal with |- context [2 ^ ?n] => let v := eval compute in (2 ^ n) in change (2 ^ n) with v end;
    repeat match type of H with context [2 ^ ?n] => let v := eval compute in (2 ^ n) in change (2 ^ n) with v in H end;
    cbn in H |- *.
  all: try (rewrite Z.mod_small by lia; lia).
Qed.

(* cel-go's checked arithmetic succeeds exactly when the exact result is representable; then Go's wrapped result is exact *)
Lemma chk_signed k z : is64 k = true -> k_signed k = true -> in_i64 z = true -> wrap k z = z.
Proof.
  intros H6 Hs Hz. apply wrap_id. apply in_kind_spec. destruct (is64_signed_range k H6 Hs) as [-> ->].
  apply in_i64_spec in Hz. lia.
Qed.
Lemma chk_unsigned k z : is64 k = true -> k_signed k = false -> in_u64 z = true -> wrap k z = z.
Proof.
  intros H6 Hs Hz. apply wrap_id. apply in_kind_spec. destruct (is64_unsigned_range k H6 Hs) as [-> ->].
  apply in_u64_spec in Hz. lia.
Qed.

Lemma cint_signed k z : k_signed k = true -> not_dur k = true -> cint k z = VInt z.
Proof. destruct k; cbn; congruence. Qed.
Lemma cint_unsigned k z : k_signed k = false -> cint k z = VUint z.
Proof. destruct k; cbn; congruence. Qed.

Lemma ikind_eqb_eq a b : ikind_eqb a b = true -> a = b.
Proof. destruct a, b; cbn; congruence. Qed.
Lemma ikind_eqb_refl a : ikind_eqb a a = true.
Proof. destruct a; reflexivity. Qed.

(* ---------- comparison ---------- *)
Lemma zcmp_compare op x y : zcmp op x y = of_cmp3 op (Z.compare x y).
Proof.
  unfold of_cmp3. destruct op; cbn [zcmp of_cmp]; destruct (Z.compare_spec x y); subst; cbn; lia.
Qed.

Lemma bytes_cmp_eq x y : (match bytes_cmp x y with Eq => true | _ => false end) = bytes_eqb x y.
Proof. unfold bytes_cmp. destruct (bytes_eqb x y); [reflexivity|]. destruct (bytes_ltb x y); reflexivity. Qed.

Definition gop_of (op : cmpop) : gbin :=
  match op with OpEq => BEq | OpNe => BNe | OpLt => BLt | OpLe => BLe | OpGt => BGt | OpGe => BGe end.

Lemma cmp_of_gop op : cmp_of (gop_of op) = Some op.
Proof. destruct op; reflexivity. Qed.

(* result of comparing two integers whatever their CEL signedness *)
Lemma ccmp_ints op (a b : cval) x y :
  (a = VInt x \/ a = VUint x) -> (b = VInt y \/ b = VUint y) ->
  ccmp op (CV a) (CV b) = CV (VBool (zcmp op x y)).
Proof.
  intros [-> | ->] [-> | ->]; unfold ccmp, cequal, ccompare, num_cmp; rewrite zcmp_compare;
    destruct op; cbn [of_cmp3 of_cmp]; destruct (Z.compare x y); reflexivity.
Qed.

Lemma cint_cases k z : not_dur k = true -> cint k z = VInt z \/ cint k z = VUint z.
Proof. destruct k; cbn; auto; discriminate. Qed.

Lemma ccmp_floats op x y :
  ccmp op (CV (VDouble x)) (CV (VDouble y)) = CErr \/
  ccmp op (CV (VDouble x)) (CV (VDouble y)) = CV (VBool (fcmp64 op x y)).
Proof.
  unfold ccmp, cequal, ccompare, num_cmp, fcmp64, fcompare.
  destruct (Flocq.IEEE754.Binary.Bcompare 53 1024 (f64 x) (f64 y)) as [[]|]; destruct op; cbn; auto.
Qed.

Lemma ccmp_float_int op x (b : cval) z :
  (b = VInt z \/ b = VUint z) ->
  ccmp op (CV (VDouble x)) (CV b) = CErr \/ ccmp op (CV (VDouble x)) (CV b) = CV (VBool (fcmp64 op x (z2f z))).
Proof.
  intros [-> | ->]; unfold ccmp, cequal, ccompare, num_cmp, fcmp64, fcompare;
  destruct (Flocq.IEEE754.Binary.Bcompare 53 1024 (f64 x) (f64 (z2f z))) as [[]|]; destruct op; cbn; auto.
Qed.
Lemma ccmp_int_float op (a : cval) z y :
  (a = VInt z \/ a = VUint z) ->
  ccmp op (CV a) (CV (VDouble y)) = CErr \/ ccmp op (CV a) (CV (VDouble y)) = CV (VBool (fcmp64 op (z2f z) y)).
Proof.
  intros [-> | ->]; unfold ccmp, cequal, ccompare, num_cmp, fcmp64, fcompare;
  destruct (Flocq.IEEE754.Binary.Bcompare 53 1024 (f64 (z2f z)) (f64 y)) as [[]|]; destruct op; cbn; auto.
Qed.

Lemma ccmp_strings op x y :
  ccmp op (CV (VString x)) (CV (VString y)) = CV (VBool (of_cmp3 op (bytes_cmp x y))).
Proof.
  unfold ccmp, cequal, ccompare, num_cmp. destruct op; cbn [of_cmp3 of_cmp]; try reflexivity.
  - rewrite <- bytes_cmp_eq. destruct (bytes_cmp x y); reflexivity.
  - rewrite <- bytes_cmp_eq. destruct (bytes_cmp x y); reflexivity.
Qed.

Lemma ccmp_bools op x y : is_eqne op = true ->
  ccmp op (CV (VBool x)) (CV (VBool y)) = CV (VBool (match op with OpEq => Bool.eqb x y | _ => negb (Bool.eqb x y) end)).
Proof. destruct op; cbn; try discriminate; reflexivity. Qed.

Lemma strlike_vrel t v w : is_strlike t = true -> vrel t v w -> exists s, v = VString s /\ w = GStr s.
Proof. destruct t; cbn; try discriminate; intros _ H; [exact H | destruct H; eauto]. Qed.

(* the Go comparison yields a boolean, and whenever cel-go yields a value it is that boolean *)
Lemma cmp_sound op ta tb va vb wa wb :
  cmp_ok op ta tb = true -> vrel ta va wa -> vrel tb vb wb ->
  exists b, gbinop (gop_of op) wa wb = GV (GBool b) /\
            (ccmp op (CV va) (CV vb) = CErr \/ ccmp op (CV va) (CV vb) = CV (VBool b)).
Proof.
  intros Hok Ha Hb.
  destruct ta, tb; cbn [cmp_ok is_strlike andb] in Hok; try discriminate; cbn [vrel] in Ha, Hb.
  - (* SInt, SInt *)
    destruct Ha as [x [-> [-> _]]], Hb as [y [-> [-> _]]]. apply ikind_eqb_eq in Hok. subst k0.
    exists (zcmp op x y). split.
    + unfold gbinop, unify. rewrite ikind_eqb_refl. destruct op; reflexivity.
    + right. destruct k; cbn [cint k_signed];
        try solve [apply ccmp_ints; auto].
      (* durations *)
      unfold ccmp, cequal, ccompare, num_cmp. rewrite zcmp_compare.
      destruct op; cbn [of_cmp3 of_cmp]; destruct (Z.compare_spec x y); subst; cbn; rewrite ?Z.eqb_refl; try reflexivity;
        try (replace (x =? y) with false by lia; reflexivity).
  - (* SInt, SKInt *)
    destruct Ha as [x [-> [-> _]]], Hb as [-> ->]. apply andb_true_iff in Hok as [Hd Hk].
    exists (zcmp op x z). split.
    + unfold gbinop, unify. rewrite Hk. destruct op; reflexivity.
    + right. apply ccmp_ints; [apply cint_cases; exact Hd | destruct unsigned; auto].
  - (* SF64, SF64 *)
    destruct Ha as [x [-> ->]], Hb as [y [-> ->]]. exists (fcmp64 op x y). split.
    + unfold gbinop, unify. destruct op; reflexivity.
    + apply ccmp_floats.
  - (* SF64, SKInt *)
    destruct Ha as [x [-> ->]], Hb as [-> ->]. exists (fcmp64 op x (z2f z)). split.
    + unfold gbinop, unify. destruct op; reflexivity.
    + apply ccmp_float_int. destruct unsigned; auto.
  - (* SF64, SKDbl *)
    destruct Ha as [x [-> ->]], Hb as [-> Hw]. exists (fcmp64 op x bits). split.
    + destruct Hw as [-> | [z [-> Hz]]]; unfold gbinop, unify; rewrite ?Hz; destruct op; reflexivity.
    + apply ccmp_floats.
  - (* SStr, SStr *)
    destruct Ha as [x [-> ->]], Hb as [y [-> ->]]. exists (of_cmp3 op (bytes_cmp x y)). split.
    + unfold gbinop, unify. destruct op; reflexivity.
    + right. apply ccmp_strings.
  - (* SStr, SKStr *)
    destruct Ha as [x [-> ->]], Hb as [-> ->]. exists (of_cmp3 op (bytes_cmp x s)). split.
    + unfold gbinop, unify. destruct op; reflexivity.
    + right. apply ccmp_strings.
  - (* SBool, SBool *)
    destruct Ha as [x [-> ->]], Hb as [y [-> ->]].
    exists (match op with OpEq => Bool.eqb x y | _ => negb (Bool.eqb x y) end). split.
    + unfold gbinop, unify. destruct op; cbn in Hok; try discriminate; reflexivity.
    + right. apply ccmp_bools. exact Hok.
  - (* SKInt, SInt *)
    destruct Ha as [-> ->], Hb as [y [-> [-> _]]]. apply andb_true_iff in Hok as [Hd Hk].
    exists (zcmp op z y). split.
    + unfold gbinop, unify. rewrite Hk. destruct op; reflexivity.
    + right. apply ccmp_ints; [destruct unsigned; auto | apply cint_cases; exact Hd].
  - (* SKInt, SF64 *)
    destruct Ha as [-> ->], Hb as [y [-> ->]]. exists (fcmp64 op (z2f z) y). split.
    + unfold gbinop, unify. destruct op; reflexivity.
    + apply ccmp_int_float. destruct unsigned; auto.
  - (* SKInt, SKInt *)
    destruct Ha as [-> ->], Hb as [-> ->]. exists (zcmp op z z0). split.
    + unfold gbinop, unify. destruct op; reflexivity.
    + right. apply ccmp_ints; [destruct unsigned | destruct unsigned0]; auto.
  - (* SKDbl, SF64 *)
    destruct Ha as [-> Hw], Hb as [y [-> ->]]. exists (fcmp64 op bits y). split.
    + destruct Hw as [-> | [z [-> Hz]]]; unfold gbinop, unify; rewrite ?Hz; destruct op; reflexivity.
    + apply ccmp_floats.
  - (* SKStr, SStr *)
    destruct Ha as [-> ->], Hb as [y [-> ->]]. exists (of_cmp3 op (bytes_cmp s y)). split.
    + unfold gbinop, unify. destruct op; reflexivity.
    + right. apply ccmp_strings.
  - (* SKStr, SKStr *)
    destruct Ha as [-> ->], Hb as [-> ->]. exists (of_cmp3 op (bytes_cmp s s0)). split.
    + unfold gbinop, unify. destruct op; reflexivity.
    + right. apply ccmp_strings.
Qed.

(* ---------- arithmetic ---------- *)
Definition carith (o : arith) : cval -> cval -> cres :=
  match o with AAdd => cadd | ASub => csub | AMul => cmul | ADiv => cdiv | AMod => cmod end.
Definition garith (o : arith) : gbin :=
  match o with AAdd => BAdd | ASub => BSub | AMul => BMul | ADiv => BDiv | AMod => BRem end.

Lemma wrap_in_kind k z : in_kind k (wrap k z) = true.
Proof.
  apply in_kind_spec. unfold wrap, k_min, k_max.
  destruct k; cbn [k_signed k_bits];
    repeat match goal with |- context [2 ^ ?n] => let v := eval compute in (2 ^ n) in change (2 ^ n) with v end;
    match goal with |- context [?a mod ?m] => pose proof (Z.mod_pos_bound a m ltac:(lia)) end; lia.
Qed.

Lemma vrel_int_intro k z : in_kind k z = true -> vrel (SInt k) (cint k z) (GInt k z).
Proof. intro H. exists z. auto. Qed.

Lemma is64_not_dur k : is64 k = true -> not_dur k = true.
Proof. destruct k; cbn; congruence. Qed.

(* Go integer operation on operands of kind k *)
Definition gint_op (o : arith) (k : ikind) (x y : Z) : gres :=
  match o with
  | ADiv => if y =? 0 then GPanic else GV (GInt k (wrap k (Z.quot x y)))
  | AMod => if y =? 0 then GPanic else GV (GInt k (wrap k (Z.rem x y)))
  | _ => GV (GInt k (wrap k (zarith o x y)))
  end.

Lemma gbinop_ints o k x y : gbinop (garith o) (GInt k x) (GInt k y) = gint_op o k x y.
Proof. unfold gbinop, unify. rewrite ikind_eqb_refl. destruct o; reflexivity. Qed.
Lemma gbinop_int_const o k x z : in_kind k z = true -> gbinop (garith o) (GInt k x) (GUInt z) = gint_op o k x z.
Proof. intro H. unfold gbinop, unify. rewrite H. destruct o; reflexivity. Qed.
Lemma gbinop_const_int o k z y : in_kind k z = true -> gbinop (garith o) (GUInt z) (GInt k y) = gint_op o k z y.
Proof. intro H. unfold gbinop, unify. rewrite H. destruct o; reflexivity. Qed.

(* the 64-bit integer core: Go's wrapped result against cel-go's checked result *)
Lemma int64_arith o k x y :
  is64 k = true -> in_kind k x = true -> in_kind k y = true ->
  (match o with ADiv | AMod => y <> 0 | _ => True end) ->
  exists z, gint_op o k x y = GV (GInt k z) /\ in_kind k z = true /\
            (carith o (cint k x) (cint k y) = CErr \/ carith o (cint k x) (cint k y) = CV (cint k z)).
Proof.
  intros H6 Hx Hy Hnz.
  destruct (k_signed k) eqn:Hs.
  - pose proof (is64_signed_range k H6 Hs) as [Hmin Hmax].
    rewrite !(cint_signed k) by (auto using is64_not_dur).
    apply in_kind_spec in Hx, Hy. rewrite Hmin, Hmax in Hx, Hy.
    destruct o; cbn [gint_op carith zarith cadd csub cmul cdiv cmod].
    + exists (wrap k (x + y)). split; [reflexivity|]. split; [apply wrap_in_kind|].
      rewrite ?(cint_signed k) by (auto using is64_not_dur). unfold chk_i. destruct (in_i64 (x + y)) eqn:E; [right; rewrite (chk_signed k) by auto; reflexivity | left; reflexivity].
    + exists (wrap k (x - y)). split; [reflexivity|]. split; [apply wrap_in_kind|].
      rewrite ?(cint_signed k) by (auto using is64_not_dur). unfold chk_i. destruct (in_i64 (x - y)) eqn:E; [right; rewrite (chk_signed k) by auto; reflexivity | left; reflexivity].
    + exists (wrap k (x * y)). split; [reflexivity|]. split; [apply wrap_in_kind|].
      rewrite ?(cint_signed k) by (auto using is64_not_dur). unfold chk_i. destruct (in_i64 (x * y)) eqn:E; [right; rewrite (chk_signed k) by auto; reflexivity | left; reflexivity].
    + replace (y =? 0) with false by lia.
      exists (wrap k (Z.quot x y)). split; [reflexivity|]. split; [apply wrap_in_kind|].
      rewrite ?(cint_signed k) by (auto using is64_not_dur). unfold chk_i. destruct (in_i64 (Z.quot x y)) eqn:E; [right; rewrite (chk_signed k) by auto; reflexivity | left; reflexivity].
    + replace (y =? 0) with false by lia.
      exists (wrap k (Z.rem x y)). split; [reflexivity|]. split; [apply wrap_in_kind|].
      rewrite ?(cint_signed k) by (auto using is64_not_dur).
      destruct ((x =? min_i64) && (y =? -1)); [left; reflexivity|right].
      rewrite (chk_signed k); auto. apply in_i64_spec.
      pose proof (Z.rem_bound_abs x y Hnz). lia.
  - pose proof (is64_unsigned_range k H6 Hs) as [Hmin Hmax].
    rewrite !(cint_unsigned k) by auto.
    apply in_kind_spec in Hx, Hy. rewrite Hmin, Hmax in Hx, Hy.
    destruct o; cbn [gint_op carith zarith cadd csub cmul cdiv cmod].
    + exists (wrap k (x + y)). split; [reflexivity|]. split; [apply wrap_in_kind|].
      rewrite ?(cint_unsigned k) by auto. unfold chk_u. destruct (in_u64 (x + y)) eqn:E; [right; rewrite (chk_unsigned k) by auto; reflexivity | left; reflexivity].
    + exists (wrap k (x - y)). split; [reflexivity|]. split; [apply wrap_in_kind|].
      rewrite ?(cint_unsigned k) by auto. unfold chk_u. destruct (in_u64 (x - y)) eqn:E; [right; rewrite (chk_unsigned k) by auto; reflexivity | left; reflexivity].
    + exists (wrap k (x * y)). split; [reflexivity|]. split; [apply wrap_in_kind|].
      rewrite ?(cint_unsigned k) by auto. unfold chk_u. destruct (in_u64 (x * y)) eqn:E; [right; rewrite (chk_unsigned k) by auto; reflexivity | left; reflexivity].
    + replace (y =? 0) with false by lia.
      exists (wrap k (Z.quot x y)). split; [reflexivity|]. split; [apply wrap_in_kind|].
      rewrite ?(cint_unsigned k) by auto. unfold chk_u. destruct (in_u64 (Z.quot x y)) eqn:E; [right; rewrite (chk_unsigned k) by auto; reflexivity | left; reflexivity].
    + replace (y =? 0) with false by lia.
      exists (wrap k (Z.rem x y)). split; [reflexivity|]. split; [apply wrap_in_kind|]. right.
      rewrite ?(cint_unsigned k) by auto. rewrite (chk_unsigned k); auto. apply in_u64_spec.
      pose proof (Z.rem_bound_pos x y ltac:(lia) ltac:(lia)). lia.
Qed.

Lemma const_as_cint k (u : bool) z : is64 k = true -> Bool.eqb u (unsigned_k k) = true ->
  (if u then VUint z else VInt z) = cint k z.
Proof. destruct k, u; cbn; congruence. Qed.

Definition farith_of (o : arith) : option farith :=
  match o with AAdd => Some FAddOp | ASub => Some FSubOp | AMul => Some FMulOp | ADiv => Some FDivOp | AMod => None end.

Lemma float_arith o f x y : farith_of o = Some f ->
  gbinop (garith o) (GF64 x) (GF64 y) = GV (GF64 (fop f x y)) /\ carith o (VDouble x) (VDouble y) = CV (VDouble (fop f x y)).
Proof. destruct o; cbn; intro H; inversion H; subst; split; reflexivity. Qed.

Lemma dbl_const_go o (w : gval) b x :
  (w = GUFloat b \/ exists z, w = GUInt z /\ z2f z = b) ->
  gbinop (garith o) (GF64 x) w = gbinop (garith o) (GF64 x) (GF64 b) /\
  gbinop (garith o) w (GF64 x) = gbinop (garith o) (GF64 b) (GF64 x).
Proof.
  intros [-> | [z [-> Hz]]]; unfold gbinop, unify; rewrite ?Hz; split; reflexivity.
Qed.

Lemma arith_sound o ta tb t va vb wa wb :
  arith_ty o ta tb = Some t -> vrel ta va wa -> vrel tb vb wb ->
  exists v0 w, gbinop (garith o) wa wb = GV w /\ vrel t v0 w /\ (carith o va vb = CErr \/ carith o va vb = CV v0).
Proof.
  intros Hty Ha Hb.
  destruct ta, tb; cbn [arith_ty is_strlike andb] in Hty; try discriminate; try (destruct o; discriminate); cbn [vrel] in Ha, Hb.
  - (* SInt, SInt *)
    destruct (ikind_eqb k k0 && is64 k && negb match o with ADiv | AMod => true | _ => false end) eqn:E; [|discriminate].
    inversion Hty; subst t; clear Hty.
    apply andb_true_iff in E as [E Hnd]. apply andb_true_iff in E as [Ek H6]. apply ikind_eqb_eq in Ek. subst k0.
    destruct Ha as [x [-> [-> Hx]]], Hb as [y [-> [-> Hy]]].
    rewrite gbinop_ints.
    destruct (int64_arith o k x y H6 Hx Hy) as [z [Hg [Hz Hc]]]; [destruct o; cbn in Hnd; try discriminate; exact I|].
    exists (cint k z), (GInt k z). split; [exact Hg|]. split; [apply vrel_int_intro; exact Hz|exact Hc].
  - (* SInt, SKInt *)
    match type of Hty with (if ?c then _ else _) = _ => destruct c eqn:E; [|discriminate] end.
    inversion Hty; subst t; clear Hty.
    repeat (apply andb_true_iff in E as [E ?]).
    destruct Ha as [x [-> [-> Hx]]], Hb as [-> ->].
    rewrite (const_as_cint k) by assumption. rewrite gbinop_int_const by assumption.
    destruct (int64_arith o k x z) as [r [Hg [Hr Hc]]]; try assumption.
    { destruct o; try exact I; cbn in *; lia. }
    exists (cint k r), (GInt k r). split; [exact Hg|]. split; [apply vrel_int_intro; exact Hr|exact Hc].
  - (* SF64, SF64 *)
    destruct (farith_of o) as [f|] eqn:Ef; [|destruct o; discriminate].
    assert (t = SF64) by (destruct o; cbn in Hty; congruence). subst t.
    destruct Ha as [x [-> ->]], Hb as [y [-> ->]].
    destruct (float_arith o f x y Ef) as [Hg Hc].
    exists (VDouble (fop f x y)), (GF64 (fop f x y)). split; [exact Hg|]. split; [cbn; eauto|right; exact Hc].
  - (* SF64, SKDbl *)
    destruct (farith_of o) as [f|] eqn:Ef; [|destruct o; discriminate].
    assert (t = SF64) by (destruct o; cbn in Hty; congruence). subst t.
    destruct Ha as [x [-> ->]], Hb as [-> Hw].
    destruct (float_arith o f x bits Ef) as [Hg Hc].
    exists (VDouble (fop f x bits)), (GF64 (fop f x bits)).
    split; [rewrite (proj1 (dbl_const_go o wb bits x Hw)); exact Hg|]. split; [cbn; eauto|right; exact Hc].
  - (* SStr, SStr *)
    destruct o; try discriminate. inversion Hty; subst t.
    destruct Ha as [x [-> ->]], Hb as [y [-> ->]].
    exists (VString (x ++ y)), (GStr (x ++ y)). split; [reflexivity|]. split; [cbn; eauto|right; reflexivity].
  - (* SStr, SKStr *)
    destruct o; try discriminate. inversion Hty; subst t.
    destruct Ha as [x [-> ->]], Hb as [-> ->].
    exists (VString (x ++ s)), (GStr (x ++ s)). split; [reflexivity|]. split; [cbn; eauto|right; reflexivity].
  - (* SKInt, SInt *)
    match type of Hty with (if ?c then _ else _) = _ => destruct c eqn:E; [|discriminate] end.
    inversion Hty; subst t; clear Hty.
    repeat (apply andb_true_iff in E as [E ?]).
    destruct Ha as [-> ->], Hb as [y [-> [-> Hy]]].
    rewrite (const_as_cint k) by assumption. rewrite gbinop_const_int by assumption.
    destruct (int64_arith o k z y) as [r [Hg [Hr Hc]]]; try assumption.
    { destruct o; try exact I; cbn in *; discriminate. }
    exists (cint k r), (GInt k r). split; [exact Hg|]. split; [apply vrel_int_intro; exact Hr|exact Hc].
  - (* SKInt, SKInt *)
    match type of Hty with (if ?c then _ else _) = _ => destruct c eqn:E; [|discriminate] end.
    inversion Hty; subst t; clear Hty.
    repeat (apply andb_true_iff in E as [E ?]).
    destruct Ha as [-> ->], Hb as [-> ->].
    apply Bool.eqb_prop in E. subst unsigned0.
    exists (if unsigned then VUint (zarith o z z0) else VInt (zarith o z z0)), (GUInt (zarith o z z0)).
    split; [|split; [cbn; auto|]].
    + unfold gbinop, unify. destruct o; cbn [garith zarith]; try reflexivity;
        (replace (z0 =? 0) with false by (cbn in *; lia)); reflexivity.
    + right. destruct unsigned; cbn [in_cel] in *.
      * destruct o; cbn [carith zarith cadd csub cmul cdiv cmod] in *; unfold chk_u;
          try (replace (z0 =? 0) with false by lia);
          repeat match goal with H : in_u64 ?e = true |- context [in_u64 ?e] => rewrite H end; try reflexivity.
      * destruct o; cbn [carith zarith cadd csub cmul cdiv cmod] in *; unfold chk_i;
          try (replace (z0 =? 0) with false by lia);
          repeat match goal with H : in_i64 ?e = true |- context [in_i64 ?e] => rewrite H end; try reflexivity.
        match goal with H : negb (negb false && _ && _) = true |- _ => cbn [negb andb] in H; apply negb_true_iff in H; rewrite H end.
        reflexivity.
  - (* SKDbl, SF64 *)
    destruct (farith_of o) as [f|] eqn:Ef; [|destruct o; discriminate].
    assert (t = SF64) by (destruct o; cbn in Hty; congruence). subst t.
    destruct Ha as [-> Hw], Hb as [y [-> ->]].
    destruct (float_arith o f bits y Ef) as [Hg Hc].
    exists (VDouble (fop f bits y)), (GF64 (fop f bits y)).
    split; [rewrite (proj2 (dbl_const_go o wa bits y Hw)); exact Hg|]. split; [cbn; eauto|right; exact Hc].
  - (* SKStr, SStr *)
    destruct o; try discriminate. inversion Hty; subst t.
    destruct Ha as [-> ->], Hb as [y [-> ->]].
    exists (VString (s ++ y)), (GStr (s ++ y)). split; [reflexivity|]. split; [cbn; eauto|right; reflexivity].
  - (* SKStr, SKStr *)
    destruct o; try discriminate. inversion Hty; subst t.
    destruct Ha as [-> ->], Hb as [-> ->].
    exists (VString (s ++ s0)), (GStr (s ++ s0)). split; [reflexivity|]. split; [cbn; eauto|right; reflexivity].
Qed.
