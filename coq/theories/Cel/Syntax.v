(* CEL expressions as cel-go's parser/checker delivers them (after macro expansion), and the
   fragment of Go expressions that internal/validator/rules/cel.go emits for them.
   The harness dumps cel-go's AST of every corpus expression into [cexpr] terms and go/parser's AST
   of every emitted condition into [gexpr] terms. *)
From GV Require Import Base.Bytes Base.GoFloat.

Definition ident := bytes.

(* ---------- CEL ---------- *)
Inductive cfun :=
| FAnd | FOr | FNot | FNeg | FAdd | FSub | FMul | FDiv | FMod
| FEq | FNe | FLt | FLe | FGt | FGe
| FTernary | FIn | FIndex | FNotStrictlyFalse
| FSize | FContains | FMatches | FStartsWith | FEndsWith
| FInt | FString | FDouble | FTimestamp | FDuration
| FOther (name : bytes).

Inductive cconst :=
| KBool (b : bool) | KInt (z : Z) | KUint (z : Z) | KDouble (bits : Z)
| KString (s : bytes) | KBytes (s : bytes) | KNull.

Inductive cexpr :=
| EIdent (x : ident)
| ESelect (e : cexpr) (f : ident) (test_only : bool)        (* e.f ; has(e.f) when test_only *)
| EConst (k : cconst)
| ECall1 (fn : cfun) (a : cexpr)                              (* !_  -_  size(x)  int(x) ... *)
| ECall2 (fn : cfun) (a b : cexpr)                            (* binary operators, @in, _[_], matches(s, re) *)
| ECall3 (fn : cfun) (a b c : cexpr)                          (* _?_:_ *)
| EMeth0 (fn : cfun) (target : cexpr)                         (* x.size() *)
| EMeth1 (fn : cfun) (target a : cexpr)                       (* x.startsWith(y) ... *)
| EList (es : list cexpr)
| EStruct                                                     (* map / message literal: not modelled *)
| ECompr (iter_var : ident) (range : cexpr) (accu_var : ident) (init cond step result : cexpr)
| EOther.                                                     (* any other call shape *)

(* ---------- Go ---------- *)
Inductive ikind := I8 | I16 | I32 | I64 | IInt | U8 | U16 | U32 | U64 | UInt | IDur.

Inductive gbin := BAnd | BOr | BEq | BNe | BLt | BLe | BGt | BGe | BAdd | BSub | BMul | BDiv | BRem.

Inductive strfn := SContains | SHasPrefix | SHasSuffix.

Inductive gexpr :=
| GT                                            (* t *)
| GVar (x : ident)
| GSel (e : gexpr) (f : ident)                  (* e.f *)
| GLitInt (z : Z) | GLitFloat (bits : Z) | GLitStr (s : bytes) | GLitBool (b : bool) | GLitNil
| GParen (e : gexpr)
| GNot (e : gexpr) | GNeg (e : gexpr)
| GBin (op : gbin) (a b : gexpr)
| GLen (e : gexpr)
| GStrFn (f : strfn) (a b : gexpr)              (* strings.Contains(a, b) ... *)
| GMatch (pat s : gexpr)                        (* regexp.MustCompile(pat).MatchString(s) *)
| GMatchSafe (pat s : gexpr)                    (* func() bool { re, err := regexp.Compile(pat); if err != nil { return false }; return re.MatchString(s) }() *)
| GSprintV (e : gexpr)                          (* fmt.Sprintf("%v", e) *)
| GSlicesContains (l x : gexpr)
| GStrList (es : list gexpr)                    (* []string{...} *)
| GIfaceList (es : list gexpr)                  (* []interface{}{...} *)
| GAll (x : ident) (r c : gexpr)                (* func() bool { for _, x := range r { if !(c) { return false } }; return true }() *)
| GExists (x : ident) (r c : gexpr)             (* func() bool { for _, x := range r { if c { return true } }; return false }() *)
| GExistsOne (x : ident) (r c : gexpr)
| GFilter (x : ident) (r c : gexpr)             (* func() []interface{} { ... if c { result = append(result, x) } ... }() *)
| GMapC (x : ident) (r t : gexpr)
| GTern (c a b : gexpr)                         (* func() int { if c { return a }; return b }() *)
| GAtoi (e : gexpr)                             (* func() int { v, err := strconv.Atoi(e); if err != nil { return 0 }; return v }() *)
| GParseFloat (e : gexpr)                       (* ... strconv.ParseFloat(e, 64) ... *)
| GParseDur (e : gexpr)
| GParseTime (e : gexpr)
| GUnknown.                                     (* anything the translator of the harness does not recognise *)

(* ---------- decidable equality on gexpr: the validator of the per-run certificates ---------- *)
Definition gbin_eqb (a b : gbin) : bool :=
  match a, b with
  | BAnd, BAnd | BOr, BOr | BEq, BEq | BNe, BNe | BLt, BLt | BLe, BLe | BGt, BGt | BGe, BGe
  | BAdd, BAdd | BSub, BSub | BMul, BMul | BDiv, BDiv | BRem, BRem => true
  | _, _ => false
  end.

Definition strfn_eqb (a b : strfn) : bool :=
  match a, b with
  | SContains, SContains | SHasPrefix, SHasPrefix | SHasSuffix, SHasSuffix => true
  | _, _ => false
  end.

Fixpoint gexpr_eqb (a b : gexpr) : bool :=
  let fix list_eqb (x y : list gexpr) : bool :=
    match x, y with
    | [], [] => true
    | i :: x', j :: y' => gexpr_eqb i j && list_eqb x' y'
    | _, _ => false
    end in
  match a, b with
  | GT, GT | GLitNil, GLitNil => true
  | GVar x, GVar y => bytes_eqb x y
  | GSel e f, GSel e' f' => gexpr_eqb e e' && bytes_eqb f f'
  | GLitInt x, GLitInt y | GLitFloat x, GLitFloat y => Z.eqb x y
  | GLitStr x, GLitStr y => bytes_eqb x y
  | GLitBool x, GLitBool y => Bool.eqb x y
  | GParen x, GParen y | GNot x, GNot y | GNeg x, GNeg y | GLen x, GLen y | GSprintV x, GSprintV y
  | GAtoi x, GAtoi y | GParseFloat x, GParseFloat y | GParseDur x, GParseDur y | GParseTime x, GParseTime y => gexpr_eqb x y
  | GBin o x y, GBin o' x' y' => gbin_eqb o o' && gexpr_eqb x x' && gexpr_eqb y y'
  | GStrFn f x y, GStrFn f' x' y' => strfn_eqb f f' && gexpr_eqb x x' && gexpr_eqb y y'
  | GMatch x y, GMatch x' y' | GMatchSafe x y, GMatchSafe x' y' | GSlicesContains x y, GSlicesContains x' y' => gexpr_eqb x x' && gexpr_eqb y y'
  | GStrList x, GStrList y | GIfaceList x, GIfaceList y => list_eqb x y
  | GAll v r c, GAll v' r' c' | GExists v r c, GExists v' r' c' | GExistsOne v r c, GExistsOne v' r' c'
  | GFilter v r c, GFilter v' r' c' | GMapC v r c, GMapC v' r' c' =>
      bytes_eqb v v' && gexpr_eqb r r' && gexpr_eqb c c'
  | GTern c x y, GTern c' x' y' => gexpr_eqb c c' && gexpr_eqb x x' && gexpr_eqb y y'
  | _, _ => false                                (* GUnknown equals nothing, not even itself *)
  end.

Definition opt_gexpr_eqb (a b : option gexpr) : bool :=
  match a, b with Some x, Some y => gexpr_eqb x y | _, _ => false end.

Fixpoint gexpr_eqb_eq (a : gexpr) : forall b, gexpr_eqb a b = true -> a = b.
Proof.
  assert (L : forall x y : list gexpr,
    (fix list_eqb (x y : list gexpr) : bool :=
       match x, y with
       | [], [] => true
       | i :: x', j :: y' => gexpr_eqb i j && list_eqb x' y'
       | _, _ => false
       end) x y = true -> x = y).
  { induction x as [|i x IH]; intros [|j y] H; try discriminate; [reflexivity|].
    apply andb_true_iff in H as [H1 H2]. f_equal; [apply gexpr_eqb_eq; exact H1 | apply IH; exact H2]. }
  destruct a; intros [] H; cbn in H; try discriminate; try reflexivity;
    repeat match goal with
           | H : _ && _ = true |- _ => apply andb_true_iff in H; destruct H
           end;
    repeat match goal with
           | H : bytes_eqb _ _ = true |- _ => apply bytes_eqb_eq in H
           | H : Z.eqb _ _ = true |- _ => apply Z.eqb_eq in H
           | H : Bool.eqb _ _ = true |- _ => apply Bool.eqb_prop in H
           | H : gexpr_eqb _ _ = true |- _ => apply gexpr_eqb_eq in H
           | H : gbin_eqb ?a ?b = true |- _ => assert (a = b) by (destruct a, b; cbn in H; congruence); clear H
           | H : strfn_eqb ?a ?b = true |- _ => assert (a = b) by (destruct a, b; cbn in H; congruence); clear H
           end; try congruence.
  - f_equal. apply L. exact H.
  - f_equal. apply L. exact H.
Qed.
