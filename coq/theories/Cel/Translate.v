(* Model of internal/validator/rules/cel.go: convertASTToGo and its helpers, at the level of syntax
   trees.  The Go code glues text; here every place where it writes parentheses yields a GParen node and
   every place where it relies on Go's precedence yields a bare node, so that the tree go/parser builds
   from the emitted text can be compared with this output node for node (per-run certificates).
   [None] = the conversion fails and generation stops (celValidator.unsupported / convertCELToGo error). *)
From GV Require Import Base.Bytes Base.StrOps Base.GoFloat Cel.Syntax Cel.CelSem Cel.GoSem.
Local Open Scope Z_scope.

Definition go_prec (fn : cfun) : nat :=
  match fn with
  | FMul | FDiv | FMod => 5
  | FAdd | FSub => 4
  | FGt | FGe | FLt | FLe | FEq | FNe | FTernary => 3
  | _ => 0
  end%nat.

(* fmt.Sprintf("%g", d) read back by the Go parser: an integer literal when d is integral and |d| < 1e6 *)
Definition dbl_lit (bits : Z) : gexpr :=
  match dbl_int bits with
  | Some z => if Z.abs z <? 1000000 then GLitInt z else GLitFloat bits
  | None => GLitFloat bits
  end.

Definition tr_const (k : cconst) : gexpr :=
  match k with
  | KBool b => GLitBool b
  | KInt z | KUint z => GLitInt z
  | KDouble b => dbl_lit b
  | KString s | KBytes s => GLitStr s
  | KNull => GLitNil
  end.

Definition is_numeric_const (e : cexpr) : bool :=
  match e with EConst (KInt _) | EConst (KUint _) | EConst (KDouble _) => true | _ => false end.

(* does the rendering contain a double quote?  (optimizeStringSliceContains) *)
Fixpoint has_quote (g : gexpr) : bool :=
  let fix any (l : list gexpr) : bool := match l with [] => false | x :: r => has_quote x || any r end in
  match g with
  | GLitStr _ | GSprintV _ | GParseFloat _ => true
  | GSel x _ | GParen x | GNot x | GNeg x | GLen x | GAtoi x | GParseDur x | GParseTime x => has_quote x
  | GBin _ a b | GStrFn _ a b | GMatch a b | GMatchSafe a b | GSlicesContains a b => has_quote a || has_quote b
  | GStrList l | GIfaceList l => any l
  | GAll _ r c | GExists _ r c | GExistsOne _ r c | GFilter _ r c | GMapC _ r c => has_quote r || has_quote c
  | GTern c a b => has_quote c || has_quote a || has_quote b
  | _ => false
  end.

(* does the rendering start with "t." ? *)
Fixpoint starts_with_t (g : gexpr) : bool :=
  match g with
  | GSel GT _ => true
  | GSel x _ => starts_with_t x
  | GBin _ a _ => starts_with_t a
  | _ => false
  end.

(* does the rendering start and end with a double quote? *)
Fixpoint starts_quote (g : gexpr) : bool :=
  match g with GLitStr _ => true | GBin _ a _ => starts_quote a | _ => false end.
Fixpoint ends_quote (g : gexpr) : bool :=
  match g with GLitStr _ => true | GBin _ _ b => ends_quote b | _ => false end.

(* does the rendering contain "func() int { if" (a ternary closure) / "[]interface{}" ? *)
Fixpoint has_tern (g : gexpr) : bool :=
  let fix any (l : list gexpr) : bool := match l with [] => false | x :: r => has_tern x || any r end in
  match g with
  | GTern _ _ _ => true
  | GSel x _ | GParen x | GNot x | GNeg x | GLen x | GAtoi x | GParseDur x | GParseTime x | GSprintV x | GParseFloat x => has_tern x
  | GBin _ a b | GStrFn _ a b | GMatch a b | GMatchSafe a b | GSlicesContains a b => has_tern a || has_tern b
  | GStrList l | GIfaceList l => any l
  | GAll _ r c | GExists _ r c | GExistsOne _ r c | GFilter _ r c | GMapC _ r c => has_tern r || has_tern c
  | _ => false
  end.
Fixpoint has_iface (g : gexpr) : bool :=
  let fix any (l : list gexpr) : bool := match l with [] => false | x :: r => has_iface x || any r end in
  match g with
  | GIfaceList _ | GFilter _ _ _ | GMapC _ _ _ => true
  | GSel x _ | GParen x | GNot x | GNeg x | GLen x | GAtoi x | GParseDur x | GParseTime x | GSprintV x | GParseFloat x => has_iface x
  | GBin _ a b | GStrFn _ a b | GMatch a b | GMatchSafe a b | GSlicesContains a b => has_iface a || has_iface b
  | GStrList l => any l
  | GAll _ r c | GExists _ r c | GExistsOne _ r c => has_iface r || has_iface c
  | GTern c a b => has_iface c || has_iface a || has_iface b
  | _ => false
  end.

(* gofmt prints ((x)) as (x) *)
Definition paren (g : gexpr) : gexpr := match g with GParen _ => g | _ => GParen g end.

(* strings.Contains(<rendering of g>, n), for the identifier-like names the translator looks for *)
Fixpoint text_has (n : bytes) (g : gexpr) : bool :=
  let fix any (l : list gexpr) : bool := match l with [] => false | x :: r => text_has n x || any r end in
  match g with
  | GVar x => contains_sub n x
  | GSel e f => text_has n e || contains_sub n f
  | GLitStr s => contains_sub n s
  | GParen x | GNot x | GNeg x | GLen x | GAtoi x | GParseDur x | GParseTime x | GSprintV x | GParseFloat x => text_has n x
  | GBin _ a b | GStrFn _ a b | GMatch a b | GMatchSafe a b | GSlicesContains a b => text_has n a || text_has n b
  | GStrList l | GIfaceList l => any l
  | GAll x r c | GExists x r c | GExistsOne x r c | GFilter x r c | GMapC x r c => contains_sub n x || text_has n r || text_has n c
  | GTern c a b => text_has n c || text_has n a || text_has n b
  | _ => false
  end.

(* the loop variable of the generic membership test: "item", prefixed with "_" until it occurs in neither operand *)
Fixpoint fresh_var (fuel : nat) (n : bytes) (el coll : gexpr) : bytes :=
  match fuel with
  | O => n
  | S f => if text_has n el || text_has n coll then fresh_var f (x5f :: n) el coll else n
  end.

Definition bin_of (fn : cfun) : option gbin :=
  match fn with
  | FGt => Some BGt | FGe => Some BGe | FLt => Some BLt | FLe => Some BLe | FEq => Some BEq | FNe => Some BNe
  | FAdd => Some BAdd | FSub => Some BSub | FMul => Some BMul | FDiv => Some BDiv | FMod => Some BRem
  | _ => None
  end.

Definition call_fn (e : cexpr) : option cfun :=     (* arg.GetCallExpr() with Target == nil *)
  match e with ECall1 f _ | ECall2 f _ _ | ECall3 f _ _ _ => Some f | _ => None end.

Definition omap {A B} (f : A -> B) (o : option A) : option B := match o with Some x => Some (f x) | None => None end.
Definition obind {A B} (o : option A) (f : A -> option B) : option B := match o with Some x => f x | None => None end.

Definition s_value := bs "value".
Definition s_this := bs "this".
Definition s_item := bs "item".

(* convertOperand: parenthesise an operand whose own operator binds less tightly (or equally, on the right);
   a double literal next to an arithmetic operator keeps its decimal point *)
Definition operand_of (parent : cfun) (arg : cexpr) (right : bool) (conv : gexpr) : gexpr :=
  let pp := go_prec parent in
  if (pp =? 0)%nat then conv else
  match arg with
  | EConst (KDouble b) => if (3 <? pp)%nat then GLitFloat b else conv
  | _ =>
      match call_fn arg with
      | Some f => let p := go_prec f in
                  if negb (p =? 0)%nat && ((p <? pp)%nat || (right && (p =? pp)%nat)) then paren conv else conv
      | None => conv
      end
  end.

(* convertInOperator, given the converted element and collection *)
Definition tr_in (b : cexpr) (el coll : gexpr) : option gexpr :=
  let v := fresh_var 64 s_item el coll in
  let generic := GExists v coll (GBin BEq (GVar v) el) in
  let after_opt :=
    match b with
    | EList (x :: r) =>
        if forallb is_numeric_const (x :: r) then
          (* (el == c1 || el == c2 || ...) *)
          match coll with
          | GIfaceList (c1 :: cs) =>
              Some (paren (fold_left (fun acc c => GBin BOr acc (GBin BEq el c)) cs (GBin BEq el c1)))
          | _ => None
          end
        else None
    | _ => None
    end in
  match coll with
  | GIfaceList es =>
      if existsb has_quote es then Some (GSlicesContains (GStrList es) el)
      else match after_opt with Some g => Some g | None => Some generic end
  | _ =>
      match after_opt with
      | Some g => Some g
      | None => if starts_with_t coll && starts_quote el && ends_quote el then Some (GSlicesContains coll el)
                else Some generic
      end
  end.

(* generateComprehensionGo: the comprehension is classified by the rendering of its accumulator initialiser and of
   its loop step; [sub] is the conversion of the part of the step that is copied into the output *)
Definition tr_compr (x : ident) (step : cexpr) (gr gi gs : gexpr) (sub : option gexpr) : option gexpr :=
  match gi with
  | GLitBool true =>
      match step with
      | ECall2 FAnd _ _ => omap (GAll x gr) sub
      | _ => Some (GAll x gr gs)
      end
  | GLitBool false =>
      match step with
      | ECall2 FOr _ _ => omap (GExists x gr) sub
      | _ => Some (GExists x gr gs)
      end
  | _ =>
      if has_iface gi then
        if has_tern gs then
          match step with
          | ECall3 FTernary _ _ _ => omap (GFilter x gr) sub
          | _ => Some GUnknown
          end
        else
          match step with
          | ECall2 FAdd _ (EList (_ :: _)) => omap (GMapC x gr) sub
          | _ => Some GUnknown
          end
      else
        match step with
        | ECall3 FTernary _ _ _ => omap (GExistsOne x gr) sub
        | _ => Some (GExistsOne x gr (GBin BNe (GVar x) GLitNil))
        end
  end.

Section Tr.
  Variable fname : ident.         (* the field carrying the marker *)
  Variable re_ok : bytes -> bool. (* regexp.Compile succeeds on a constant pattern (evaluated at generation time) *)

  Definition pattern_ok (e : cexpr) : bool :=
    match e with EConst (KString p) => re_ok p | _ => true end.

  (* matchesExpr: a constant pattern (checked at generation time) is compiled with MustCompile, any other
     pattern with regexp.Compile inside a closure that returns false when the pattern is invalid *)
  Definition match_node (pe : cexpr) (p s : gexpr) : gexpr :=
    match pe with EConst _ => GMatch p s | _ => GMatchSafe p s end.

  Fixpoint tr (e : cexpr) : option gexpr :=
    match e with
    | EIdent x => Some (if bytes_eqb x s_value then GSel GT fname else if bytes_eqb x s_this then GT else GVar x)
    | ESelect o f test_only => if test_only then obind (tr o) (fun _ => None) else omap (fun g => GSel g f) (tr o)
    | EConst k => Some (tr_const k)
    | ECall1 fn a =>
        match fn with
        | FNot => omap (fun g => GNot (paren g)) (tr a)
        | FNeg => omap (fun g => GNeg (paren g)) (tr a)
        | FSize => omap GLen (tr a)
        | FInt => omap GAtoi (tr a)
        | FString => omap GSprintV (tr a)
        | FDouble => omap (fun g => GParseFloat (GSprintV g)) (tr a)
        | FTimestamp => omap GParseTime (tr a)
        | FDuration => omap GParseDur (tr a)
        | _ => None
        end
    | ECall2 fn a b =>
        match fn with
        | FIn => obind (tr a) (fun el => obind (tr b) (fun coll => tr_in b el coll))
        | FAnd => obind (tr a) (fun l => omap (fun r => GBin BAnd (paren l) (paren r)) (tr b))
        | FOr => obind (tr a) (fun l => omap (fun r => GBin BOr (paren l) (paren r)) (tr b))
        | FContains => obind (tr a) (fun s => omap (fun p => GStrFn SContains s p) (tr b))
        | FStartsWith => obind (tr a) (fun s => omap (fun p => GStrFn SHasPrefix s p) (tr b))
        | FEndsWith => obind (tr a) (fun s => omap (fun p => GStrFn SHasSuffix s p) (tr b))
        | FMatches => obind (tr a) (fun s => obind (tr b) (fun p => if pattern_ok b then Some (match_node b p s) else None))
        | _ =>
            match bin_of fn with
            | Some op => obind (tr a) (fun l => omap (fun r => GBin op (operand_of fn a false l) (operand_of fn b true r)) (tr b))
            | None => obind (tr a) (fun _ => obind (tr b) (fun _ => None))
            end
        end
    | ECall3 fn c a b =>
        match fn with
        | FTernary => obind (tr c) (fun gc => obind (tr a) (fun ga => omap (fun gb => GBin BGt (GTern gc ga gb) (GLitInt 0)) (tr b)))
        | _ => None
        end
    | EMeth0 _ t => obind (tr t) (fun _ => None)
    | EMeth1 fn t a =>
        obind (tr t) (fun s =>
          match fn with
          | FStartsWith => omap (fun p => GStrFn SHasPrefix s p) (tr a)
          | FEndsWith => omap (fun p => GStrFn SHasSuffix s p) (tr a)
          | FContains => omap (fun p => GStrFn SContains s p) (tr a)
          | FMatches => obind (tr a) (fun p => if pattern_ok a then Some (match_node a p s) else None)
          | _ => None
          end)
    | EList es =>
        omap GIfaceList
          ((fix go (es : list cexpr) : option (list gexpr) :=
              match es with
              | [] => Some []
              | x :: r => obind (tr x) (fun g => omap (cons g) (go r))
              end) es)
    | EStruct => Some GUnknown                       (* "struct{}{}" placeholder: never compiles in a boolean position *)
    | ECompr x r acc init cond step res =>
        (* the part of the loop step that ends up in the output, converted *)
        let sub := match step with
                   | ECall2 FAnd _ c | ECall2 FOr _ c | ECall3 FTernary c _ _ => tr c
                   | ECall2 FAdd _ (EList (t :: _)) => tr t
                   | _ => None
                   end in
        obind (tr r) (fun gr => obind (tr init) (fun gi => obind (tr step) (fun gs => tr_compr x step gr gi gs sub)))
    | EOther => None
    end.
End Tr.

(* ---------- the textual pre-filter (validateStandardCEL), on the marker's source text ---------- *)
Definition nonstandard_patterns : list bytes :=
  map bs [".split("; ".trim("; ".replace("; ".substring("; ".toLowerCase("; ".toUpperCase(";
          "math.abs("; "math.min("; "math.max("; "math.floor("; "math.ceil(";
          "?."; "?:"; "try("; ".."; "range(";
          ".reverse("; ".sort("; ".unique("; ".keys("; ".values("; "${"]%string.

Definition prefilter_rejects (src : bytes) : bool := existsb (fun p => contains_sub p src) nonstandard_patterns.

(* celValidator.Validate: the condition of the emitted if statement, or None when generation stops
   ([ast] = cel-go's result for [src]: None when cel-go rejects the expression) *)
Definition cel_condition (fname : ident) (re_ok : bytes -> bool) (src : bytes) (ast : option cexpr) : option gexpr :=
  if prefilter_rejects src then None
  else match ast with
       | Some e => omap (fun g => GNot (paren g)) (tr fname re_ok e)
       | None => None
       end.
