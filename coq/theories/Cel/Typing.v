(* The fragment of CEL for which the translation is PROVED faithful (Cel/Sound.v): a decidable, syntactic
   judgment [cty] assigning to an expression the static type of its Go translation.  Constants carry
   their value (Go converts and folds them at compile time).  Everything the judgment rejects is
   outside the theorem and is covered by the behavioural differential only; the known-finding classes
   (size of strings, narrow integer arithmetic, division by a field, comprehensions over maps) are
   rejected here by construction. *)
From GV Require Import Base.Bytes Base.GoFloat Cel.Syntax Cel.CelSem Cel.GoSem Cel.Translate Cel.Env.
Local Open Scope Z_scope.

Inductive sty :=
| SInt (k : ikind)
| SF64 | SStr | SBool
| SKInt (unsigned : bool) (z : Z)     (* integer literal (5 / 5u) or a folded constant expression *)
| SKDbl (bits : Z)                    (* a double literal *)
| SKStr (s : bytes)                   (* a string literal *)
| SList (elem : sty)                  (* []string, []int fields *)
| SIfaces                             (* result of filter / map: only len() applies *)
| SMapSI.                             (* map[string]<int> fields: only size() applies (iteration and membership are open findings) *)

Definition sty_of_fty (t : fty) : option sty :=
  match t with
  | TInt k => Some (SInt k)
  | TF64 => Some SF64
  | TStr => Some SStr
  | TBool => Some SBool
  | TStrs => Some (SList SStr)
  | TInts k => Some (SList (SInt k))
  | TMapSI _ => Some SMapSI
  end.

Definition is64 (k : ikind) : bool :=
  match k with I64 | IInt | U64 | UInt => true | _ => false end.
Definition unsigned_k (k : ikind) : bool := negb (k_signed k).
Definition not_dur (k : ikind) : bool := match k with IDur => false | _ => true end.

(* %g prints an integral double below 1e6 as an integer literal: converting it back must give the same double *)
Definition dbl_lit_ok (b : Z) : bool :=
  match dbl_lit b with GLitInt z => Z.eqb (z2f z) b | _ => true end.

Definition is_strlike (t : sty) : bool := match t with SStr | SKStr _ => true | _ => false end.

Definition cmp_fn (fn : cfun) : option cmpop :=
  match fn with
  | FEq => Some OpEq | FNe => Some OpNe | FLt => Some OpLt | FLe => Some OpLe | FGt => Some OpGt | FGe => Some OpGe
  | _ => None
  end.
Definition is_eqne (op : cmpop) : bool := match op with OpEq | OpNe => true | _ => false end.

(* operand types a comparison operator accepts *)
Definition cmp_ok (op : cmpop) (a b : sty) : bool :=
  match a, b with
  | SInt k, SInt k' => ikind_eqb k k'
  | SInt k, SKInt _ z | SKInt _ z, SInt k => not_dur k && in_kind k z
  | SKInt _ _, SKInt _ _ => true
  | SF64, SF64 => true
  | SF64, SKDbl d | SKDbl d, SF64 => dbl_lit_ok d
  | SF64, SKInt _ _ | SKInt _ _, SF64 => true
  | SBool, SBool => is_eqne op
  | _, _ => is_strlike a && is_strlike b
  end.

Inductive arith := AAdd | ASub | AMul | ADiv | AMod.
Definition arith_fn (fn : cfun) : option arith :=
  match fn with FAdd => Some AAdd | FSub => Some ASub | FMul => Some AMul | FDiv => Some ADiv | FMod => Some AMod | _ => None end.

Definition zarith (o : arith) (x y : Z) : Z :=
  match o with AAdd => x + y | ASub => x - y | AMul => x * y | ADiv => Z.quot x y | AMod => Z.rem x y end.

Definition in_cel (u : bool) (z : Z) : bool := if u then in_u64 z else in_i64 z.

(* result type of an arithmetic operator; None = outside the fragment *)
Definition arith_ty (o : arith) (a b : sty) : option sty :=
  let divlike := match o with ADiv | AMod => true | _ => false end in
  match a, b with
  | SInt k, SInt k' =>
      if ikind_eqb k k' && is64 k && negb divlike then Some (SInt k) else None
  | SInt k, SKInt u z =>
      if is64 k && Bool.eqb u (unsigned_k k) && in_kind k z && in_cel u z && negb (divlike && (z =? 0)) then Some (SInt k) else None
  | SKInt u z, SInt k =>
      if is64 k && Bool.eqb u (unsigned_k k) && in_kind k z && in_cel u z && negb divlike then Some (SInt k) else None
  | SKInt u x, SKInt u' y =>
      if Bool.eqb u u' && in_cel u x && in_cel u y && negb (divlike && (y =? 0)) && in_cel u (zarith o x y)
         && negb (match o with AMod => negb u && (x =? min_i64) && (y =? -1) | _ => false end)
      then Some (SKInt u (zarith o x y)) else None
  | SF64, SF64 | SF64, SKDbl _ | SKDbl _, SF64 =>
      match o with AMod => None | _ => Some SF64 end
  | _, _ =>
      match o with
      | AAdd => if is_strlike a && is_strlike b then Some SStr else None
      | _ => None
      end
  end.

(* free occurrence of an identifier (comprehension variables are the only binders) *)
Fixpoint mentions (x : ident) (e : cexpr) : bool :=
  let fix any (l : list cexpr) : bool := match l with [] => false | y :: r => mentions x y || any r end in
  match e with
  | EIdent y => bytes_eqb x y
  | ESelect o _ _ => mentions x o
  | EConst _ | EStruct | EOther => false
  | ECall1 _ a | EMeth0 _ a => mentions x a
  | ECall2 _ a b | EMeth1 _ a b => mentions x a || mentions x b
  | ECall3 _ a b c => mentions x a || mentions x b || mentions x c
  | EList l => any l
  | ECompr v r acc i c s res => mentions x r || mentions x i || mentions x c || mentions x s || mentions x res
  end.

Definition s_t := bs "t".

(* "item", "_item", "__item", ...: the names the generic membership loop may pick *)
Fixpoint item_like (x : bytes) : bool :=
  bytes_eqb x s_item || match x with c :: r => Byte.eqb c x5f && item_like r | [] => false end.

(* element and collection types of `x in <list-valued expression>` *)
Definition in_elem_ok (ta tb : sty) : bool :=
  (is_strlike ta && is_strlike tb) ||
  match ta, tb with
  | SInt k, SInt k' => ikind_eqb k k'
  | SKInt _ z, SInt k => not_dur k && in_kind k z
  | _, _ => false
  end.

Record tenv := { te_fields : list (ident * fty); te_fname : ident; te_vars : list (ident * sty) }.

Definition bind_var (G : tenv) (x : ident) (t : sty) : tenv :=
  {| te_fields := te_fields G; te_fname := te_fname G; te_vars := (x, t) :: te_vars G |}.

Definition field_sty (G : tenv) (f : ident) : option sty :=
  match glookup (te_fields G) f with Some t => sty_of_fty t | None => None end.

Definition sty_eqb_simple (a b : sty) : bool :=
  match a, b with
  | SInt k, SInt k' => ikind_eqb k k'
  | SStr, SStr => true
  | _, _ => false
  end.

(* the comprehension macros, recognised by their expansion *)
Inductive macro := MAll | MExists | MExistsOne | MFilter | MMap.

Definition macro_of (x acc : ident) (init cond step res : cexpr) : option macro :=
  let is_acc e := match e with EIdent y => bytes_eqb y acc | _ => false end in
  match init, cond, step, res with
  | EConst (KBool true), ECall1 FNotStrictlyFalse c, ECall2 FAnd a _, r =>
      if is_acc c && is_acc a && is_acc r then Some MAll else None
  | EConst (KBool false), ECall1 FNotStrictlyFalse (ECall1 FNot c), ECall2 FOr a _, r =>
      if is_acc c && is_acc a && is_acc r then Some MExists else None
  | EConst (KInt 0), EConst (KBool true), ECall3 FTernary _ (ECall2 FAdd a (EConst (KInt 1))) a', ECall2 FEq r (EConst (KInt 1)) =>
      if is_acc a && is_acc a' && is_acc r then Some MExistsOne else None
  | EList [], EConst (KBool true), ECall3 FTernary _ (ECall2 FAdd a (EList [EIdent y])) a', r =>
      if is_acc a && is_acc a' && is_acc r && bytes_eqb y x then Some MFilter else None
  | EList [], EConst (KBool true), ECall2 FAdd a (EList [_]), r =>
      if is_acc a && is_acc r then Some MMap else None
  | _, _, _, _ => None
  end.

Definition const_sty (k : cconst) : option sty :=
  match k with
  | KBool _ => Some SBool
  | KInt z => if in_i64 z then Some (SKInt false z) else None
  | KUint z => if in_u64 z then Some (SKInt true z) else None
  | KDouble b => if dbl_lit_ok b then Some (SKDbl b) else None
  | KString s => Some (SKStr s)
  | _ => None
  end.

(* a numeric literal that Go can compare with an operand of type ta *)
Definition lit_ok_for (ta : sty) (c : cexpr) : bool :=
  match c with
  | EConst k => is_numeric_const c && match const_sty k with Some tc => cmp_ok OpEq ta tc | None => false end
  | _ => false
  end.

Fixpoint cty (G : tenv) (e : cexpr) : option sty :=
  match e with
  | EIdent x =>
      if bytes_eqb x s_value then field_sty G (te_fname G)
      else if bytes_eqb x s_this then None
      else glookup (te_vars G) x
  | ESelect (EIdent x) f false => if bytes_eqb x s_this && negb (existsb (fun v => bytes_eqb (fst v) s_this) (te_vars G)) then field_sty G f else None
  | ESelect _ _ _ => None
  | EConst k => const_sty k
  | ECall1 fn a =>
      match fn, cty G a with
      | FNot, Some SBool => Some SBool
      | FNeg, Some (SInt k) => if is64 k && k_signed k then Some (SInt k) else None
      | FNeg, Some SF64 => Some SF64
      | FNeg, Some (SKInt false z) => if in_i64 (- z) then Some (SKInt false (- z)) else None
      | FSize, Some (SList _) | FSize, Some SIfaces | FSize, Some SMapSI => Some (SInt IInt)
      | FInt, Some t => if is_strlike t then Some (SInt IInt) else None
      | FString, Some (SInt k) => if not_dur k then Some SStr else None
      | FString, Some SF64 => Some SStr
      | FString, Some t => if is_strlike t then Some SStr else None
      | FDouble, Some t => if is_strlike t then Some SF64 else None
      | FDuration, Some t => if is_strlike t then Some (SInt IDur) else None
      | _, _ => None
      end
  | ECall2 fn a b =>
      match fn with
      | FAnd | FOr => match cty G a, cty G b with Some SBool, Some SBool => Some SBool | _, _ => None end
      | FIn =>
          match cty G a, b with
          | Some ta, EList (x :: r) =>
              (* membership in a list of literals *)
              if is_strlike ta then
                if forallb (fun c => match c with EConst (KString _) => true | _ => false end) (x :: r) then Some SBool else None
              else match ta with
                   | SInt _ | SF64 => if forallb (lit_ok_for ta) (x :: r) then Some SBool else None
                   | _ => None
                   end
          | Some ta, _ =>
              (* membership in a list-valued expression: the emitted loop declares a fresh variable item/_item/...;
                 no variable in scope may carry such a name *)
              if mentions s_item a || existsb (fun xv => item_like (fst xv)) (te_vars G) then None else
              match cty G b with
              | Some (SList tb) => if in_elem_ok ta tb then Some SBool else None
              | _ => None
              end
          | None, _ => None
          end
      | FMatches => match cty G a, b with
                    | Some ta, EConst (KString _) => if is_strlike ta then Some SBool else None     (* a constant pattern: checked at generation time *)
                    | Some ta, EConst _ => None
                    | Some ta, _ =>                                                                 (* any other pattern: compiled at run time, guarded *)
                        match cty G b with Some tb => if is_strlike ta && is_strlike tb then Some SBool else None | None => None end
                    | _, _ => None
                    end
      | _ =>
          match cty G a, cty G b with
          | Some ta, Some tb =>
              match cmp_fn fn, arith_fn fn with
              | Some op, _ => if cmp_ok op ta tb then Some SBool else None
              | None, Some o => arith_ty o ta tb
              | None, None => None
              end
          | _, _ => None
          end
      end
  | EMeth1 fn t a =>
      match fn with
      | FContains | FStartsWith | FEndsWith =>
          match cty G t, cty G a with Some tg, Some ta => if is_strlike tg && is_strlike ta then Some SBool else None | _, _ => None end
      | FMatches =>
          match cty G t, a with
          | Some tg, EConst (KString _) => if is_strlike tg then Some SBool else None
          | Some tg, EConst _ => None
          | Some tg, _ => match cty G a with Some ta => if is_strlike tg && is_strlike ta then Some SBool else None | None => None end
          | _, _ => None
          end
      | _ => None
      end
  | ECompr x r acc init cond step res =>
      if bytes_eqb x s_t || bytes_eqb x acc || bytes_eqb x s_value || bytes_eqb x s_this
         || bytes_eqb acc s_value || bytes_eqb acc s_this || match glookup (te_vars G) acc with Some _ => true | None => false end then None else
      match cty G r, macro_of x acc init cond step res with
      | Some (SList te), Some m =>
          if mentions acc r then None else
          let G' := bind_var G x te in
          match m, step with
          | MAll, ECall2 FAnd _ body | MExists, ECall2 FOr _ body | MExistsOne, ECall3 FTernary body _ _ =>
              (* the body cannot refer to the accumulator: it is not a typed variable; a nested macro binds its own *)
              match cty G' body with Some SBool => Some SBool | _ => None end
          | MFilter, ECall3 FTernary body _ _ =>
              match cty G' body with Some SBool => Some SIfaces | _ => None end
          | MMap, ECall2 FAdd _ (EList [t]) =>
              match cty G' t with
              | Some (SInt _ | SF64 | SStr | SBool | SKStr _) => Some SIfaces
              | Some (SKInt _ z) => if in_kind IInt z then Some SIfaces else None
              | _ => None
              end
          | _, _ => None
          end
      | _, _ => None
      end
  | _ => None
  end.

Definition in_fragment (fields : list (ident * fty)) (fname : ident) (e : cexpr) : bool :=
  match cty {| te_fields := fields; te_fname := fname; te_vars := [] |} e with
  | Some SBool => true
  | _ => false
  end.
