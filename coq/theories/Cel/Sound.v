(* Soundness of the CEL -> Go translation on the typed fragment (Cel/Typing.v):
   whenever cel-go yields a boolean, the emitted Go condition evaluates to the same boolean; and it never
   panics and is never ill-typed. *)
From GV Require Import Base.Bytes Base.StrOps Base.GoFloat Cel.Syntax Cel.CelSem Cel.GoSem Cel.Translate Cel.Env Cel.Typing Cel.SoundBase.
From Coq Require Import ZifyBool.
Local Open Scope Z_scope.

(* ---------- structure of expressions ---------- *)
Fixpoint csize (e : cexpr) : nat :=
  let fix sum (l : list cexpr) : nat := match l with [] => O | x :: r => (csize x + sum r)%nat end in
  match e with
  | EIdent _ | EConst _ | EStruct | EOther => 1%nat
  | ESelect a _ _ | ECall1 _ a | EMeth0 _ a => S (csize a)
  | ECall2 _ a b | EMeth1 _ a b => S (csize a + csize b)
  | ECall3 _ a b c => S (csize a + csize b + csize c)
  | EList l => S (sum l)
  | ECompr _ r _ i c s res => S (csize r + csize i + csize c + csize s + csize res)
  end.

Lemma csize_compr x r acc i c s res :
  (csize r < csize (ECompr x r acc i c s res) /\ csize s < csize (ECompr x r acc i c s res))%nat.
Proof. cbn [csize]. lia. Qed.
Lemma csize_call2 fn a b : (csize a < csize (ECall2 fn a b) /\ csize b < csize (ECall2 fn a b))%nat.
Proof. cbn [csize]. lia. Qed.
Lemma csize_call3 fn c a b : (csize c < csize (ECall3 fn c a b))%nat.
Proof. cbn [csize]. lia. Qed.
Lemma csize_list1 t : (csize t < csize (EList [t]))%nat.
Proof. cbn. lia. Qed.

Lemma cequal_int m k : cequal (VInt m) (VInt k) = (m =? k).
Proof. unfold cequal, num_cmp. destruct (Z.compare_spec m k); subst; rewrite ?Z.eqb_refl; try reflexivity; symmetry; apply Z.eqb_neq; lia. Qed.

Lemma lt_chain (a b c n : nat) : (a < b -> b < c -> c < S n -> a < n)%nat.
Proof. lia. Qed.
Lemma lt_chain4 (a b c d n : nat) : (a < b -> b < c -> c < d -> d < S n -> a < n)%nat.
Proof. lia. Qed.

Lemma paren_eval rm pf fg pd fs vars g : geval rm pf fg pd fs vars (paren g) = geval rm pf fg pd fs vars g.
Proof. destruct g; reflexivity. Qed.

Lemma s_this_not_value : bytes_eqb s_this s_value = false.
Proof. reflexivity. Qed.

Lemma glookup_map {A B} (f : A -> B) (l : list (ident * A)) x :
  glookup (map (fun nv => (fst nv, f (snd nv))) l) x = option_map f (glookup l x).
Proof.
  induction l as [|[n v] l IH]; [reflexivity|]. cbn [map glookup fst snd].
  destruct (bytes_eqb n x); [reflexivity|exact IH].
Qed.

Lemma F2_length {A B} (P : A -> B -> Prop) l l' : Forall2 P l l' -> length l = length l'.
Proof. induction 1; cbn; congruence. Qed.

Lemma in_kind_IInt z : in_kind IInt z = in_i64 z.
Proof. reflexivity. Qed.

Lemma parse_int_range s z : parse_int s = Some z -> in_i64 z = true.
Proof.
  unfold parse_int.
  assert (B : forall neg r, match r with
                            | [] => None
                            | _ :: _ => match parse_digits r 0 with
                                        | Some z0 => let v := if neg : bool then - z0 else z0 in if in_i64 v then Some v else None
                                        | None => None
                                        end
                            end = Some z -> in_i64 z = true).
  { intros neg r. destruct r; [discriminate|]. destruct (parse_digits (b :: r) 0); [|discriminate].
    cbv zeta. destruct (in_i64 (if neg then - z0 else z0)) eqn:E; [|discriminate]. intro H. inversion H. subst. exact E. }
  destruct s as [|c r]; [discriminate|].
  destruct (beq c c_plus); [exact (B false r)|]. destruct (beq c c_hyphen); [exact (B true r)|exact (B false (c :: r))].
Qed.

Section Sound.
  Variable re_match : bytes -> bytes -> option bool.
  Variable parse_float : bytes -> option Z.
  Variable fmt_g : Z -> bytes.
  Variable parse_dur : bytes -> option Z.
  Variable re_ok : bytes -> bool.
  (* assumptions on the oracles (Go's standard library): a pattern accepted by regexp.Compile matches without
     failing; time.ParseDuration returns an int64 *)
  Hypothesis re_ok_total : forall p, re_ok p = true -> forall s, re_match p s <> None.
  Hypothesis parse_dur_range : forall s z, parse_dur s = Some z -> in_i64 z = true.

  Variable fts : list (ident * fty).
  Variable fname : ident.
  Variable rho : struct_val.
  Hypothesis Hrho : struct_ok fts rho = true.

  Notation CE := (ceval re_match parse_float fmt_g parse_dur).
  Notation GE := (geval re_match parse_float fmt_g parse_dur (go_fields rho)).
  Notation TR := (tr fname re_ok).

(* stage of the proof: which constructs of the typed fragment are covered *)
  Fixpoint simple (e : cexpr) : bool :=
  match e with
  | EIdent _ | EConst _ => true
  | ESelect a _ _ | ECall1 _ a => simple a
  | ECall2 FIn a b => simple a && match b with EList _ => true | _ => simple b end
  | ECall2 _ a b | EMeth1 _ a b => simple a && simple b
  | ECompr _ r _ _ _ step _ =>
      simple r && match step with
                  | ECall2 FAnd _ c | ECall2 FOr _ c | ECall3 FTernary c _ _ => simple c
                  | ECall2 FAdd _ (EList [t]) =>
                      (* a ternary inside a map transform would make the translator classify the macro as a filter *)
                      simple t && match TR t with Some gt => negb (has_tern gt) | None => false end
                  | _ => false
                  end
  | _ => false
  end.


  Ltac inv H := inversion H; subst; clear H.

  Definition this_map : cval := VMap (map (fun nv => (VString (fst nv), cval_of (snd nv))) rho).

  Definition env_ok (G : tenv) (cenv : cenv) (gvars : list (ident * gval)) : Prop :=
    te_fields G = fts /\ te_fname G = fname /\
    clookup cenv s_value = (match glookup rho fname with Some v => CV (cval_of v) | None => CErr end) /\
    (existsb (fun v => bytes_eqb (fst v) s_this) (te_vars G) = false -> clookup cenv s_this = CV this_map) /\
    (forall x t, bytes_eqb x s_value = false -> glookup (te_vars G) x = Some t ->
                 exists v w, clookup cenv x = CV v /\ glookup gvars x = Some w /\ vrel t v w).

  (* ---------- fields ---------- *)
  Lemma field_lookup ts r f ft : struct_ok ts r = true -> glookup ts f = Some ft ->
    exists v, glookup r f = Some v /\ has_fty ft v = true.
  Proof.
    revert r. induction ts as [|[n t] ts IH]; intros [|[m v] r] H Hf; cbn in *; try discriminate.
    apply andb_true_iff in H as [H Hr]. apply andb_true_iff in H as [Hn Ht].
    apply bytes_eqb_eq in Hn. subst m.
    destruct (bytes_eqb n f); [inversion Hf; subst; eauto|]. apply IH; assumption.
  Qed.

  Lemma Forall2_map_same {A B C} (P : B -> C -> Prop) (f : A -> B) (g : A -> C) l :
    (forall x, In x l -> P (f x) (g x)) -> Forall2 P (map f l) (map g l).
  Proof. induction l; cbn; intro H; constructor; auto. Qed.

  Lemma fval_vrel ft v t : has_fty ft v = true -> sty_of_fty ft = Some t -> vrel t (cval_of v) (gval_of v).
  Proof.
    destruct ft, v; cbn [has_fty sty_of_fty]; intros H Ht; try discriminate; inversion Ht; subst; cbn [vrel cval_of gval_of].
    - apply andb_true_iff in H as [Hk Hz]. apply ikind_eqb_eq in Hk. subst. eauto.
    - eauto.
    - eauto.
    - eauto.
    - exists (map VString l), (map GStr l). split; [reflexivity|]. split; [reflexivity|]. split.
      + apply Forall2_map_same. intros x _. cbn. eauto.
      + rewrite map_length. exact H.
    - apply andb_true_iff in H as [H Hl]. apply andb_true_iff in H as [Hk Hz]. apply ikind_eqb_eq in Hk. subst k0.
      exists (map (cint k) l), (map (GInt k) l). split; [reflexivity|]. split; [reflexivity|]. split.
      + apply Forall2_map_same. intros x Hx. cbn. exists x. rewrite forallb_forall in Hz. auto.
      + rewrite map_length. exact Hl.
    - apply andb_true_iff in H as [_ Hl]. eexists _, _. split; [reflexivity|]. split; [reflexivity|].
      rewrite !map_length. split; [reflexivity|exact Hl].
  Qed.

  Lemma go_field f v : glookup rho f = Some v -> GE [] (GSel GT f) = GV (gval_of v).
  Proof.
    intro H. cbn [geval gbind]. unfold go_fields. rewrite (glookup_map gval_of). rewrite H. reflexivity.
  Qed.

  Lemma go_field_vars vars f : GE vars (GSel GT f) = GE [] (GSel GT f).
  Proof. reflexivity. Qed.

  Lemma this_find r f : map_find (map (fun nv => (VString (fst nv), cval_of (snd nv))) r) (VString f) = option_map cval_of (glookup r f).
  Proof.
    induction r as [|[n v] r IH]; [reflexivity|]. cbn [map map_find glookup fst snd].
    change (cequal (VString n) (VString f)) with (bytes_eqb n f).
    destruct (bytes_eqb n f); [reflexivity|exact IH].
  Qed.

  Lemma field_R G f t : te_fields G = fts -> field_sty G f = Some t ->
    exists v, glookup rho f = Some v /\ vrel t (cval_of v) (gval_of v).
  Proof.
    unfold field_sty. intros -> H. destruct (glookup fts f) as [ft|] eqn:E; [|discriminate].
    destruct (field_lookup _ _ _ _ Hrho E) as [v [Hv Ht]]. exists v. split; [exact Hv|]. eapply fval_vrel; eassumption.
  Qed.

  (* ---------- small inversion helpers ---------- *)
  Lemma R_bool oc g : R SBool oc g -> exists b, g = GV (GBool b) /\ (oc = Some (CV (VBool b)) \/ oc = Some CErr).
  Proof. intros [v0 [w [-> [[b [-> ->]] H]]]]. eauto. Qed.

  Lemma R_bool_intro b oc : (oc = Some (CV (VBool b)) \/ oc = Some CErr) -> R SBool oc (GV (GBool b)).
  Proof. intro H. exists (VBool b), (GBool b). split; [reflexivity|]. split; [cbn; eauto|exact H]. Qed.

  Lemma R_str t oc g : is_strlike t = true -> R t oc g -> exists s, g = GV (GStr s) /\ (oc = Some (CV (VString s)) \/ oc = Some CErr).
  Proof.
    intros Ht [v0 [w [-> [Hv H]]]]. destruct (strlike_vrel _ _ _ Ht Hv) as [s [-> ->]]. eauto.
  Qed.

  (* a binary operator whose operands evaluate (in the model of Go) to values *)
  Lemma gbin_values vars op a b x y : op <> BAnd -> op <> BOr -> GE vars a = GV x -> GE vars b = GV y ->
    GE vars (GBin op a b) = gbinop op x y.
  Proof. intros H1 H2 Ha Hb. destruct op; try congruence; cbn [geval]; rewrite Ha, Hb; reflexivity. Qed.

  Lemma operand_R G cenv vars parent arg right t conv :
    cty G arg = Some t -> TR arg = Some conv -> R t (CE cenv arg) (GE vars conv) ->
    R t (CE cenv arg) (GE vars (operand_of parent arg right conv)).
  Proof.
    intros Hty Htr HR. unfold operand_of.
    destruct (go_prec parent =? 0)%nat; [exact HR|].
    destruct arg; try exact HR;
      try (cbn [call_fn]; match goal with |- context [if ?c then _ else _] => destruct c end; rewrite ?paren_eval; exact HR).
    destruct k; try exact HR.
    destruct (3 <? go_prec parent)%nat; [|exact HR].
    cbn [cty const_sty] in Hty. destruct (dbl_lit_ok bits); [|discriminate]. inversion Hty; subst t.
    exists (VDouble bits), (GUFloat bits). split; [reflexivity|]. split; [cbn; auto|left; reflexivity].
  Qed.

  (* ---------- membership in a list of literals ---------- *)
  Lemma const_list_eval cenv (l : list cexpr) :
    forallb (fun c => match c with EConst _ => true | _ => false end) l = true ->
    CE cenv (EList l) = Some (CV (VList (map (fun c => match c with EConst k => const_val k | _ => VNull end) l))).
  Proof.
    intro H. cbn [ceval].
    assert (E : forall acc,
      (fix go (es : list cexpr) (acc : list cval) (err : bool) {struct es} : option cres :=
         match es with
         | [] => Some (if err then CErr else CV (VList (rev acc)))
         | x :: r => match CE cenv x with
                     | Some (CV v) => go r (v :: acc) err
                     | Some CErr => go r acc true
                     | None => None
                     end
         end) l acc false = Some (CV (VList (rev acc ++ map (fun c => match c with EConst k => const_val k | _ => VNull end) l)))).
    { induction l as [|x l IH]; intro acc; cbn [map].
      - rewrite app_nil_r. reflexivity.
      - cbn [forallb] in H. apply andb_true_iff in H as [Hx Hl]. destruct x; try discriminate.
        cbn [ceval]. rewrite (IH Hl). cbn [rev]. rewrite <- app_assoc. reflexivity. }
    rewrite (E []). reflexivity.
  Qed.

  Lemma tr_const_list (l : list cexpr) :
    forallb (fun c => match c with EConst _ => true | _ => false end) l = true ->
    TR (EList l) = Some (GIfaceList (map (fun c => match c with EConst k => tr_const k | _ => GUnknown end) l)).
  Proof.
    intro H. cbn [tr].
    assert (E : (fix go (es : list cexpr) : option (list gexpr) :=
                   match es with
                   | [] => Some []
                   | x :: r => obind (TR x) (fun g => omap (cons g) (go r))
                   end) l = Some (map (fun c => match c with EConst k => tr_const k | _ => GUnknown end) l)).
    { induction l as [|x l IH]; [reflexivity|]. cbn [forallb] in H. apply andb_true_iff in H as [Hx Hl].
      destruct x; try discriminate. cbn [tr obind]. rewrite (IH Hl). reflexivity. }
    rewrite E. reflexivity.
  Qed.

  (* ---------- constants ---------- *)
  Lemma const_R G cenv vars k t : cty G (EConst k) = Some t -> R t (CE cenv (EConst k)) (GE vars (tr_const k)).
  Proof.
    destruct k; cbn [cty const_sty]; intro H; try discriminate.
    - inversion H; subst. apply R_intro. cbn. eauto.
    - destruct (in_i64 z); [|discriminate]. inversion H; subst. apply R_intro. cbn. auto.
    - destruct (in_u64 z); [|discriminate]. inversion H; subst. apply R_intro. cbn. auto.
    - destruct (dbl_lit_ok bits) eqn:E; [|discriminate]. inversion H; subst.
      cbn [tr_const ceval const_val]. unfold dbl_lit_ok in E. unfold dbl_lit in *.
      destruct (dbl_int bits) as [z|]; [destruct (Z.abs z <? 1000000)|]; apply R_intro; cbn; auto.
      split; [reflexivity|]. right. exists z. split; [reflexivity|lia].
    - inversion H; subst. apply R_intro. cbn. auto.
  Qed.

  Lemma ccmp_eq_total va vb : ccmp OpEq (CV va) (CV vb) = CV (VBool (cequal va vb)).
  Proof. reflexivity. Qed.

  Definition cv_of (c : cexpr) : cval := match c with EConst k => const_val k | _ => VNull end.
  Definition gc_of (c : cexpr) : gexpr := match c with EConst k => tr_const k | _ => GUnknown end.

  (* el == c1 || el == c2 || ... *)
  Lemma in_chain G vars ta va wa el (cs : list cexpr) :
    GE vars el = GV wa -> vrel ta va wa ->
    Forall (fun c => exists k tc, c = EConst k /\ cty G c = Some tc /\ cmp_ok OpEq ta tc = true) cs ->
    forall init b0, GE vars init = GV (GBool b0) ->
    GE vars (fold_left (fun acc c => GBin BOr acc (GBin BEq el c)) (map gc_of cs) init)
      = GV (GBool (b0 || existsb (fun c => cequal va (cv_of c)) cs)).
  Proof.
    intros Hel Hva Hcs. induction Hcs as [|c cs [k [tc [-> [Hty Hok]]]] _ IH]; intros init b0 Hinit.
    - cbn. rewrite orb_false_r. exact Hinit.
    - cbn [map fold_left existsb gc_of cv_of]. 
      destruct (const_R G [] vars k tc Hty) as [v0 [w [Hg [Hv Hc]]]].
      assert (v0 = const_val k) by (cbn [ceval] in Hc; destruct Hc as [Hc|Hc]; congruence). subst v0.
      destruct (cmp_sound OpEq ta tc va (const_val k) wa w Hok Hva Hv) as [b [Hb Hcb]].
      rewrite ccmp_eq_total in Hcb. assert (b = cequal va (const_val k)) by (destruct Hcb; congruence). subst b.
      rewrite (IH (GBin BOr init (GBin BEq el (tr_const k))) (b0 || cequal va (const_val k))).
      + rewrite orb_assoc. reflexivity.
      + cbn [geval]. rewrite Hinit.
        rewrite Hel, Hg. cbn [gop_of] in Hb. rewrite Hb. destruct b0; reflexivity.
  Qed.

  (* slices.Contains([]string{...}, el) *)
  Definition str_of (c : cexpr) : bytes := match c with EConst (KString s) => s | _ => [] end.

  Lemma bytes_eqb_sym a b : bytes_eqb a b = bytes_eqb b a.
  Proof.
    destruct (bytes_eqb a b) eqn:E.
    - apply bytes_eqb_eq in E. subst. symmetry. apply bytes_eqb_refl.
    - symmetry. apply bytes_eqb_neq. apply bytes_eqb_neq in E. congruence.
  Qed.

  Lemma gbinop_str_eq x s : gbinop BEq (GStr x) (GStr s) = GV (GBool (bytes_eqb x s)).
  Proof. cbn. unfold of_cmp3. cbn. rewrite <- bytes_cmp_eq. destruct (bytes_cmp x s); reflexivity. Qed.

  Lemma str_list_eval vars (l : list cexpr) :
    forallb (fun c => match c with EConst (KString _) => true | _ => false end) l = true ->
    GE vars (GStrList (map gc_of l)) = GV (GSlice (map GStr (map str_of l))).
  Proof.
    intro H. cbn [geval].
    assert (E : forall acc,
      (fix go (es : list gexpr) (acc : list gval) {struct es} : gres :=
         match es with
         | [] => GV (GSlice (rev acc))
         | x :: r => match GE vars x with
                     | GV (GStr s) => go r (GStr s :: acc)
                     | GPanic => GPanic
                     | _ => GStuck
                     end
         end) (map gc_of l) acc = GV (GSlice (rev acc ++ map GStr (map str_of l)))).
    { induction l as [|x l IH]; intro acc; cbn [map].
      - rewrite app_nil_r. reflexivity.
      - cbn [forallb] in H. apply andb_true_iff in H as [Hx Hl]. destruct x; try discriminate. destruct k; try discriminate.
        cbn [gc_of tr_const geval str_of]. rewrite (IH Hl). cbn [rev]. rewrite <- app_assoc. reflexivity. }
    rewrite (E []). reflexivity.
  Qed.

  Lemma slices_contains_strs strs s :
    (fix go (els : list gval) : gres :=
       match els with
       | [] => GV (GBool false)
       | y :: r => match gbinop BEq y (GStr s) with
                   | GV (GBool true) => match go r with GStuck => GStuck | _ => GV (GBool true) end
                   | GV (GBool false) => go r
                   | _ => GStuck
                   end
       end) (map GStr strs) = GV (GBool (existsb (fun x => bytes_eqb x s) strs)).
  Proof.
    induction strs as [|x strs IH]; [reflexivity|]. cbn [map existsb]. rewrite gbinop_str_eq.
    destruct (bytes_eqb x s); [rewrite IH; reflexivity | exact IH].
  Qed.

  Lemma slices_contains_eval vars l x els v : GE vars l = GV (GSlice els) -> GE vars x = GV v ->
    GE vars (GSlicesContains l x) =
    (fix go (els : list gval) : gres :=
       match els with
       | [] => GV (GBool false)
       | y :: r => match gbinop BEq y v with
                   | GV (GBool true) => match go r with GStuck => GStuck | _ => GV (GBool true) end
                   | GV (GBool false) => go r
                   | _ => GStuck
                   end
       end) els.
  Proof. intros Hl Hx. cbn [geval]. rewrite Hl, Hx. reflexivity. Qed.

  Lemma has_quote_strs (l : list cexpr) x :
    forallb (fun c => match c with EConst (KString _) => true | _ => false end) (x :: l) = true ->
    existsb has_quote (map gc_of (x :: l)) = true.
  Proof. cbn [forallb map existsb]. destruct x; try discriminate. destruct k; try discriminate. reflexivity. Qed.

  Lemma no_quote_nums (l : list cexpr) :
    forallb is_numeric_const l = true -> existsb has_quote (map gc_of l) = false.
  Proof.
    induction l as [|x l IH]; [reflexivity|]. cbn [forallb map existsb]. intro H. apply andb_true_iff in H as [Hx Hl].
    rewrite (IH Hl), orb_false_r. destruct x; try discriminate. destruct k; try discriminate; cbn [gc_of tr_const]; try reflexivity.
    unfold dbl_lit. destruct (dbl_int bits); [destruct (Z.abs z <? 1000000)|]; reflexivity.
  Qed.

  Lemma cin_strs s (l : list cexpr) :
    forallb (fun c => match c with EConst (KString _) => true | _ => false end) l = true ->
    existsb (fun y => cequal (VString s) y) (map cv_of l) = existsb (fun x => bytes_eqb x s) (map str_of l).
  Proof.
    induction l as [|x l IH]; [reflexivity|]. cbn [forallb map existsb]. intro H. apply andb_true_iff in H as [Hx Hl].
    rewrite (IH Hl). destruct x; try discriminate. destruct k; try discriminate. cbn [cv_of const_val str_of].
    change (cequal (VString s) (VString s0)) with (bytes_eqb s s0). rewrite bytes_eqb_sym. reflexivity.
  Qed.

  Lemma existsb_map {A B} (f : B -> bool) (g : A -> B) l : existsb f (map g l) = existsb (fun x => f (g x)) l.
  Proof. induction l; cbn; congruence. Qed.

  Lemma lit_ok_forall G ta (l : list cexpr) :
    forallb (lit_ok_for ta) l = true ->
    Forall (fun c => exists k tc, c = EConst k /\ cty G c = Some tc /\ cmp_ok OpEq ta tc = true) l /\
    forallb is_numeric_const l = true /\ forallb (fun c => match c with EConst _ => true | _ => false end) l = true.
  Proof.
    induction l as [|x l IH]; [cbn; auto|]. cbn [forallb]. intro H. apply andb_true_iff in H as [Hx Hl].
    destruct (IH Hl) as [F [N C]]. unfold lit_ok_for in Hx. destruct x; try discriminate.
    apply andb_true_iff in Hx as [Hn Hc]. destruct (const_sty k) as [tc|] eqn:Ek; [|discriminate].
    split; [constructor; [exists k, tc; auto|exact F]|]. split; [rewrite Hn; exact N | exact C].
  Qed.

  (* x in [lit, ...] *)
  Lemma in_literal_case G cenv vars a el ta x r g :
    cty G (ECall2 FIn a (EList (x :: r))) = Some SBool -> cty G a = Some ta ->
    TR a = Some el -> TR (ECall2 FIn a (EList (x :: r))) = Some g ->
    R ta (CE cenv a) (GE vars el) ->
    R SBool (CE cenv (ECall2 FIn a (EList (x :: r)))) (GE vars g).
  Proof.
    intros Hty Hta Hel Htr [va [wa [Hgel [Hva Hca]]]].
    cbn [cty] in Hty. rewrite Hta in Hty.
    assert (Hce : forall l, forallb (fun c => match c with EConst _ => true | _ => false end) l = true ->
                  CE cenv (ECall2 FIn a (EList l)) = match CE cenv a with
                                                       | Some ca => Some (lift2 cin ca (CV (VList (map cv_of l))))
                                                       | None => None end).
    { intros l Hl.
      change (CE cenv (ECall2 FIn a (EList l))) with
        (match CE cenv a, CE cenv (EList l) with Some x, Some y => Some (lift2 cin x y) | _, _ => None end).
      rewrite (const_list_eval cenv l Hl). destruct (CE cenv a); reflexivity. }
    destruct (is_strlike ta) eqn:Es.
    - (* strings: slices.Contains([]string{...}, el) *)
      destruct (forallb (fun c => match c with EConst (KString _) => true | _ => false end) (x :: r)) eqn:Hl; [|discriminate].
      assert (Hc : forallb (fun c => match c with EConst _ => true | _ => false end) (x :: r) = true).
      { clear -Hl. induction (x :: r) as [|y l IH]; [reflexivity|]. cbn [forallb] in *. apply andb_true_iff in Hl as [Hy Hl].
        rewrite (IH Hl), andb_true_r. destruct y; try discriminate. reflexivity. }
      change (TR (ECall2 FIn a (EList (x :: r)))) with (obind (TR a) (fun el => obind (TR (EList (x :: r))) (fun coll => tr_in (EList (x :: r)) el coll))) in Htr.
      rewrite Hel, (tr_const_list _ Hc) in Htr. cbn [obind] in Htr.
      change (map (fun c => match c with EConst k => tr_const k | _ => GUnknown end) (x :: r)) with (map gc_of (x :: r)) in Htr.
      unfold tr_in in Htr. rewrite (has_quote_strs r x Hl) in Htr. inv Htr.
      destruct (strlike_vrel _ _ _ Es Hva) as [s [-> ->]].
      change (gc_of x :: map gc_of r) with (map gc_of (x :: r)).
      rewrite (slices_contains_eval vars _ _ _ _ (str_list_eval vars _ Hl) Hgel), slices_contains_strs.
      apply R_bool_intro. rewrite (Hce _ Hc).
      destruct Hca as [-> | ->]; [left|right; reflexivity]. cbn [lift2 cin]. rewrite (cin_strs s _ Hl). reflexivity.
    - (* numbers: (el == c1 || el == c2 || ...) *)
      assert (Hlit : forallb (lit_ok_for ta) (x :: r) = true) by (destruct ta; try discriminate; destruct (forallb (lit_ok_for _) (x :: r)); congruence).
      destruct (lit_ok_forall G ta _ Hlit) as [F [N Hc]].
      change (TR (ECall2 FIn a (EList (x :: r)))) with (obind (TR a) (fun el => obind (TR (EList (x :: r))) (fun coll => tr_in (EList (x :: r)) el coll))) in Htr.
      rewrite Hel, (tr_const_list _ Hc) in Htr. cbn [obind] in Htr.
      change (map (fun c => match c with EConst k => tr_const k | _ => GUnknown end) (x :: r)) with (map gc_of (x :: r)) in Htr.
      unfold tr_in in Htr. rewrite (no_quote_nums _ N), N in Htr. cbn [map] in Htr. inv Htr.
      rewrite paren_eval.
      inversion F as [|c cs [k [tc [-> [Hk Hok]]]] Fr]; subst.
      destruct (const_R G [] vars k tc Hk) as [v0 [w [Hg [Hv Hc0]]]].
      assert (v0 = const_val k) by (cbn [ceval] in Hc0; destruct Hc0 as [Hc0|Hc0]; congruence). subst v0.
      destruct (cmp_sound OpEq ta tc va (const_val k) wa w Hok Hva Hv) as [b [Hb Hcb]].
      rewrite ccmp_eq_total in Hcb. assert (b = cequal va (const_val k)) by (destruct Hcb; congruence). subst b.
      rewrite (in_chain G vars ta va wa el r Hgel Hva Fr (GBin BEq el (gc_of (EConst k))) (cequal va (const_val k))).
      + apply R_bool_intro. rewrite (Hce _ Hc).
        destruct Hca as [-> | ->]; [left|right; reflexivity]. cbn [lift2 cin map existsb cv_of]. rewrite existsb_map. reflexivity.
      + cbn [geval gc_of]. rewrite Hgel, Hg. exact Hb.
  Qed.


  Lemma cmp_case cenv vars fn op a b ta tb la rb :
    cmp_fn fn = Some op -> cmp_ok op ta tb = true ->
    R ta (CE cenv a) (GE vars la) -> R tb (CE cenv b) (GE vars rb) ->
    R SBool (CE cenv (ECall2 fn a b)) (GE vars (GBin (gop_of op) la rb)).
  Proof.
    intros Hfn Hok [va [wa [Hga [Hva Hca]]]] [vb [wb [Hgb [Hvb Hcb]]]].
    destruct (cmp_sound op ta tb va vb wa wb Hok Hva Hvb) as [r [Hr Hc]].
    rewrite (gbin_values vars (gop_of op) la rb wa wb) by (destruct op; cbn; congruence || assumption).
    rewrite Hr. apply R_bool_intro.
    assert (E : CE cenv (ECall2 fn a b) = match CE cenv a, CE cenv b with Some x, Some y => Some (ccmp op x y) | _, _ => None end).
    { destruct fn; try discriminate; cbn in Hfn; inv Hfn; reflexivity. }
    rewrite E. destruct Hca as [-> | ->], Hcb as [-> | ->]; try (right; reflexivity).
    destruct Hc as [-> | ->]; auto.
  Qed.

  Lemma arith_case cenv vars fn o a b ta tb t la rb :
    arith_fn fn = Some o -> arith_ty o ta tb = Some t ->
    R ta (CE cenv a) (GE vars la) -> R tb (CE cenv b) (GE vars rb) ->
    R t (CE cenv (ECall2 fn a b)) (GE vars (GBin (garith o) la rb)).
  Proof.
    intros Hfn Hty [va [wa [Hga [Hva Hca]]]] [vb [wb [Hgb [Hvb Hcb]]]].
    destruct (arith_sound o ta tb t va vb wa wb Hty Hva Hvb) as [v0 [w [Hg [Hv Hc]]]].
    rewrite (gbin_values vars (garith o) la rb wa wb) by (destruct o; cbn; congruence || assumption).
    exists v0, w. split; [exact Hg|]. split; [exact Hv|].
    assert (E : CE cenv (ECall2 fn a b) = match CE cenv a, CE cenv b with Some x, Some y => Some (lift2 (carith o) x y) | _, _ => None end).
    { destruct fn; try discriminate; cbn in Hfn; inv Hfn; reflexivity. }
    rewrite E. destruct Hca as [-> | ->], Hcb as [-> | ->]; try (right; reflexivity).
    cbn [lift2]. destruct Hc as [-> | ->]; auto.
  Qed.

  Lemma logic_case cenv vars (is_and : bool) a b la rb :
    R SBool (CE cenv a) (GE vars la) -> R SBool (CE cenv b) (GE vars rb) ->
    R SBool (CE cenv (ECall2 (if is_and then FAnd else FOr) a b)) (GE vars (GBin (if is_and then BAnd else BOr) (paren la) (paren rb))).
  Proof.
    intros Ha Hb. destruct (R_bool _ _ Ha) as [x [Hga Hca]], (R_bool _ _ Hb) as [y [Hgb Hcb]].
    destruct is_and; cbn [geval ceval]; rewrite !paren_eval, Hga, Hgb.
    - destruct x, y; cbn [gand]; apply R_bool_intro; destruct Hca as [-> | ->], Hcb as [-> | ->]; cbn; auto.
    - destruct x, y; cbn [gor]; apply R_bool_intro; destruct Hca as [-> | ->], Hcb as [-> | ->]; cbn; auto.
  Qed.

  Lemma strfn_case cenv vars fn f s p gs gp ts tp :
    match fn, f with FContains, SContains | FStartsWith, SHasPrefix | FEndsWith, SHasSuffix => True | _, _ => False end ->
    is_strlike ts = true -> is_strlike tp = true ->
    R ts (CE cenv s) (GE vars gs) -> R tp (CE cenv p) (GE vars gp) ->
    R SBool (CE cenv (EMeth1 fn s p)) (GE vars (GStrFn f gs gp)).
  Proof.
    intros Hf Hs Hp Ra Rb. destruct (R_str _ _ _ Hs Ra) as [x [Hga Hca]], (R_str _ _ _ Hp Rb) as [y [Hgb Hcb]].
    cbn [geval]. rewrite Hga, Hgb.
    destruct fn, f; try contradiction; cbn [ceval];
      match goal with |- R SBool _ (GV (GBool ?r)) => apply (R_bool_intro r) end;
      destruct Hca as [-> | ->], Hcb as [-> | ->]; cbn; auto.
  Qed.

  Lemma matches_case cenv vars (meth : bool) s p gs ts :
    re_ok p = true -> is_strlike ts = true ->
    R ts (CE cenv s) (GE vars gs) ->
    R SBool (CE cenv (if meth then EMeth1 FMatches s (EConst (KString p)) else ECall2 FMatches s (EConst (KString p))))
            (GE vars (GMatch (GLitStr p) gs)).
  Proof.
    intros Hp Hs Ra. destruct (R_str _ _ _ Hs Ra) as [x [Hga Hca]].
    cbn [geval]. rewrite Hga. pose proof (re_ok_total p Hp x) as Hm.
    destruct (re_match p x) as [r|] eqn:Er; [|congruence].
    apply (R_bool_intro r). destruct meth; cbn [ceval const_val]; destruct Hca as [-> | ->]; cbn; rewrite ?Er; auto.
  Qed.

  (* the typing of the pattern operand of matches(): a string constant, or a string-like non-constant expression *)
  Lemma matches_pattern_inv G ta (b : cexpr) (otb : option sty) t :
    match b with
    | EConst (KString _) => if is_strlike ta then Some SBool else None
    | EConst _ => None
    | _ => match otb with Some tb => if is_strlike ta && is_strlike tb then Some SBool else None | None => None end
    end = Some t ->
    otb = cty G b ->
    t = SBool /\ is_strlike ta = true /\
    ((exists p, b = EConst (KString p)) \/
     ((forall k, b <> EConst k) /\ exists tb, cty G b = Some tb /\ is_strlike tb = true)).
  Proof.
    intros H E.
    destruct b; try (destruct k; try discriminate);
      try (destruct (is_strlike ta) eqn:Es; [|discriminate]; inv H; repeat split; auto; left; eauto; fail);
      (destruct otb as [tb|]; [|discriminate];
       destruct (is_strlike ta) eqn:Es; [|discriminate]; destruct (is_strlike tb) eqn:Et; [|discriminate]; cbn in H; inv H;
       repeat split; auto; right; split; [intros k0 X; discriminate X | eauto]).
  Qed.

  (* a pattern that is not a constant: compiled at run time inside a guarded closure; when it is invalid the
     closure yields false and cel-go yields an error, so nothing is claimed *)
  Lemma matches_safe_case cenv vars (meth : bool) s p gs gp ts tp :
    is_strlike ts = true -> is_strlike tp = true ->
    R ts (CE cenv s) (GE vars gs) -> R tp (CE cenv p) (GE vars gp) ->
    R SBool (CE cenv (if meth then EMeth1 FMatches s p else ECall2 FMatches s p)) (GE vars (GMatchSafe gp gs)).
  Proof.
    intros Hs Hp Ra Rb. destruct (R_str _ _ _ Hs Ra) as [x [Hga Hca]], (R_str _ _ _ Hp Rb) as [y [Hgb Hcb]].
    cbn [geval]. rewrite Hga, Hgb.
    destruct (re_match y x) as [r|] eqn:Er;
      [apply (R_bool_intro r) | apply (R_bool_intro false)];
      destruct meth; cbn [ceval]; destruct Hca as [-> | ->], Hcb as [-> | ->]; cbn; rewrite ?Er; auto.
  Qed.

  Lemma binop_case G cenv vars fn a b t g :
    (cmp_fn fn <> None \/ arith_fn fn <> None) ->
    (forall ta ga, cty G a = Some ta -> TR a = Some ga -> R ta (CE cenv a) (GE vars ga)) ->
    (forall tb gb, cty G b = Some tb -> TR b = Some gb -> R tb (CE cenv b) (GE vars gb)) ->
    cty G (ECall2 fn a b) = Some t -> TR (ECall2 fn a b) = Some g ->
    R t (CE cenv (ECall2 fn a b)) (GE vars g).
  Proof.
    intros Hfn IHa IHb Hty Htr.
    assert (Hty' : exists ta tb, cty G a = Some ta /\ cty G b = Some tb /\
                   match cmp_fn fn, arith_fn fn with
                   | Some op, _ => cmp_ok op ta tb = true /\ t = SBool
                   | None, Some o => arith_ty o ta tb = Some t
                   | None, None => False
                   end).
    { destruct fn; cbn [cmp_fn arith_fn] in Hfn; try (destruct Hfn; congruence);
        cbn [cty cmp_fn arith_fn] in Hty; destruct (cty G a) as [ta|]; try discriminate; destruct (cty G b) as [tb|]; try discriminate;
        exists ta, tb; (split; [reflexivity|]); (split; [reflexivity|]); cbn [cmp_fn arith_fn];
        try exact Hty;
        match type of Hty with (if ?c then _ else _) = _ => destruct c eqn:Ec; [|discriminate] end; inv Hty; split; reflexivity. }
    destruct Hty' as [ta [tb [Ha [Hb Hop]]]].
    assert (Htr' : exists la rb op, TR a = Some la /\ TR b = Some rb /\ bin_of fn = Some op /\
                   g = GBin op (operand_of fn a false la) (operand_of fn b true rb)).
    { destruct fn; cbn [cmp_fn arith_fn] in Hfn; try (destruct Hfn; congruence);
        cbn [tr bin_of] in Htr; destruct (TR a) as [la|]; try discriminate; destruct (TR b) as [rb|]; try discriminate;
        cbn [obind omap] in Htr; inv Htr; do 3 eexists; repeat split; reflexivity. }
    destruct Htr' as [la [rb [op [Hla [Hrb [Hop' ->]]]]]].
    pose proof (operand_R G cenv vars fn a false ta la Ha Hla (IHa ta la Ha Hla)) as Ra.
    pose proof (operand_R G cenv vars fn b true tb rb Hb Hrb (IHb tb rb Hb Hrb)) as Rb.
    destruct (cmp_fn fn) as [cop|] eqn:Ec.
    - destruct Hop as [Hok ->].
      assert (op = gop_of cop) by (destruct fn; cbn in Ec, Hop'; try discriminate; inv Ec; inv Hop'; reflexivity). subst op.
      eapply cmp_case; eassumption.
    - destruct (arith_fn fn) as [o|] eqn:Eo; [|contradiction].
      assert (op = garith o) by (destruct fn; cbn in Eo, Hop'; try discriminate; inv Eo; inv Hop'; reflexivity). subst op.
      eapply arith_case; eassumption.
  Qed.

  (* ---------- comprehensions ---------- *)
  Fixpoint go_all (body : gval -> gres) (els : list gval) : gres :=
    match els with
    | [] => GV (GBool true)
    | v :: rest => match body v with
                   | GV (GBool true) => go_all body rest
                   | GV (GBool false) => match go_all body rest with GStuck => GStuck | _ => GV (GBool false) end
                   | GPanic => GPanic
                   | _ => GStuck
                   end
    end.
  Fixpoint go_exists (body : gval -> gres) (els : list gval) : gres :=
    match els with
    | [] => GV (GBool false)
    | v :: rest => match body v with
                   | GV (GBool false) => go_exists body rest
                   | GV (GBool true) => match go_exists body rest with GStuck => GStuck | _ => GV (GBool true) end
                   | GPanic => GPanic
                   | _ => GStuck
                   end
    end.
  Fixpoint go_exists_one (body : gval -> gres) (els : list gval) (count : Z) : gres :=
    match els with
    | [] => GV (GBool (count =? 1))
    | v :: rest => match body v with
                   | GV (GBool false) => go_exists_one body rest count
                   | GV (GBool true) => go_exists_one body rest (count + 1)
                   | GPanic => GPanic
                   | _ => GStuck
                   end
    end.
  Fixpoint go_filter (body : gval -> gres) (els : list gval) (acc : list gval) : gres :=
    match els with
    | [] => GV (GIface (rev acc))
    | v :: rest => match body v with
                   | GV (GBool false) => go_filter body rest acc
                   | GV (GBool true) => go_filter body rest (match v with GBoxed w => w | w => w end :: acc)
                   | GPanic => GPanic
                   | _ => GStuck
                   end
    end.
  Fixpoint go_map (body : gval -> gres) (els : list gval) (acc : list gval) : gres :=
    match els with
    | [] => GV (GIface (rev acc))
    | v :: rest => match body v with
                   | GV w => match default_type w with
                             | GNilV => GStuck
                             | w' => go_map body rest (match w' with GBoxed u => u | u => u end :: acc)
                             end
                   | o => o
                   end
    end.

  Lemma gall_eval vars x gr gb ws : GE vars gr = GV (GSlice ws) ->
    GE vars (GAll x gr gb) = go_all (fun v => GE ((x, v) :: vars) gb) ws.
  Proof.
    intro H. cbn [geval]. rewrite H. cbn [gbind range_elems]. clear H.
    induction ws as [|w ws IH]; [reflexivity|]. cbn [go_all].
    destruct (GE ((x, w) :: vars) gb) as [[]| |]; try reflexivity. destruct b; [exact IH | rewrite IH; reflexivity].
  Qed.
  Lemma gexists_eval vars x gr gb ws : GE vars gr = GV (GSlice ws) ->
    GE vars (GExists x gr gb) = go_exists (fun v => GE ((x, v) :: vars) gb) ws.
  Proof.
    intro H. cbn [geval]. rewrite H. cbn [gbind range_elems]. clear H.
    induction ws as [|w ws IH]; [reflexivity|]. cbn [go_exists].
    destruct (GE ((x, w) :: vars) gb) as [[]| |]; try reflexivity. destruct b; [rewrite IH; reflexivity | exact IH].
  Qed.
  Lemma gexists_one_eval vars x gr gb ws : GE vars gr = GV (GSlice ws) ->
    GE vars (GExistsOne x gr gb) = go_exists_one (fun v => GE ((x, v) :: vars) gb) ws 0.
  Proof.
    intro H. cbn [geval]. rewrite H. cbn [gbind range_elems]. clear H. generalize 0.
    induction ws as [|w ws IH]; intro c; [reflexivity|]. cbn [go_exists_one].
    destruct (GE ((x, w) :: vars) gb) as [[]| |]; try reflexivity. destruct b; apply IH.
  Qed.
  Lemma gfilter_eval vars x gr gb ws : GE vars gr = GV (GSlice ws) ->
    GE vars (GFilter x gr gb) = go_filter (fun v => GE ((x, v) :: vars) gb) ws [].
  Proof.
    intro H. cbn [geval]. rewrite H. cbn [gbind range_elems]. clear H. generalize (@nil gval).
    induction ws as [|w ws IH]; intro c; [reflexivity|]. cbn [go_filter].
    destruct (GE ((x, w) :: vars) gb) as [[]| |]; try reflexivity. destruct b; apply IH.
  Qed.
  Lemma gmap_eval vars x gr gb ws : GE vars gr = GV (GSlice ws) ->
    GE vars (GMapC x gr gb) = go_map (fun v => GE ((x, v) :: vars) gb) ws [].
  Proof.
    intro H. cbn [geval]. rewrite H. cbn [gbind range_elems]. clear H. generalize (@nil gval).
    induction ws as [|w ws IH]; intro c; [reflexivity|]. cbn [go_map].
    destruct (GE ((x, w) :: vars) gb) as [v| |]; try reflexivity. destruct (default_type v); try reflexivity; apply IH.
  Qed.

  (* cel-go's evalFold *)
  Fixpoint cel_fold (cenv : cenv) (x acc : ident) (cond step : cexpr) (els : list cval) (a : cres) : option cres :=
    match els with
    | [] => Some a
    | v :: rest =>
        let env' := (x, CV v) :: (acc, a) :: cenv in
        match CE env' cond with
        | None => None
        | Some (CV (VBool false)) => Some a
        | Some _ => match CE env' step with
                    | Some a' => cel_fold cenv x acc cond step rest a'
                    | None => None
                    end
        end
    end.

  (* ---------- membership in a list-valued expression ---------- *)
  Definition scalar (v : cval) : Prop := match v with VInt _ | VUint _ | VDur _ | VString _ => True | _ => False end.

  Lemma cequal_sym_scalar a b : scalar a -> scalar b -> cequal a b = cequal b a.
  Proof.
    destruct a, b; cbn [scalar]; try contradiction; intros _ _; cbn [cequal num_cmp];
      try reflexivity; try (rewrite (Z.compare_antisym z z0); destruct (z ?= z0); reflexivity).
    - apply bytes_eqb_sym.
    - apply Z.eqb_sym.
  Qed.

  Lemma in_elem_cmp_ok ta tb : in_elem_ok ta tb = true -> cmp_ok OpEq tb ta = true.
  Proof.
    unfold in_elem_ok. destruct ta, tb; cbn [is_strlike andb orb cmp_ok is_eqne]; try discriminate; try reflexivity; intro H.
    - destruct k, k0; cbn in *; congruence.
    - exact H.
  Qed.

  Lemma in_elem_scalar ta tb va wa v w : in_elem_ok ta tb = true -> vrel ta va wa -> vrel tb v w -> scalar va /\ scalar v.
  Proof.
    unfold in_elem_ok. destruct ta, tb; cbn [is_strlike andb orb]; try discriminate; cbn [vrel]; intros _ Ha Hb;
      repeat match goal with
             | H : exists _, _ |- _ => destruct H
             | H : _ /\ _ |- _ => destruct H
             end; subst; split; cbn [scalar]; try exact I;
      unfold cint; repeat match goal with |- context [match ?k with _ => _ end] => destruct k end; cbn; try exact I;
      match goal with |- context [if ?c then _ else _] => destruct c end; exact I.
  Qed.

  (* the element tests of a membership loop: element == el, for every element of the list *)
  Lemma member_tests ta tb va wa vs ws :
    in_elem_ok ta tb = true -> vrel ta va wa -> Forall2 (vrel tb) vs ws ->
    Forall2 (fun v w => gbinop BEq w wa = GV (GBool (cequal va v))) vs ws.
  Proof.
    intros Hok Ha F. induction F as [|v w vs ws Hvw _ IH]; constructor; [|exact IH].
    destruct (cmp_sound OpEq tb ta v va w wa (in_elem_cmp_ok _ _ Hok) Hvw Ha) as [b [Hb Hc]].
    rewrite ccmp_eq_total in Hc. assert (b = cequal v va) by (destruct Hc; congruence). subst b.
    destruct (in_elem_scalar _ _ _ _ _ _ Hok Ha Hvw) as [Sa Sv].
    rewrite (cequal_sym_scalar va v Sa Sv). exact Hb.
  Qed.

  Lemma go_exists_tests (f : gval -> gres) (p : cval -> bool) vs ws :
    Forall2 (fun v w => f w = GV (GBool (p v))) vs ws -> go_exists f ws = GV (GBool (existsb p vs)).
  Proof.
    induction 1 as [|v w vs ws Hvw _ IH]; [reflexivity|]. cbn [go_exists existsb]. rewrite Hvw.
    destruct (p v); [rewrite IH; reflexivity | exact IH].
  Qed.

  Lemma contains_tests wa (p : cval -> bool) vs ws :
    Forall2 (fun v w => gbinop BEq w wa = GV (GBool (p v))) vs ws ->
    (fix go (els : list gval) : gres :=
       match els with
       | [] => GV (GBool false)
       | y :: r => match gbinop BEq y wa with
                   | GV (GBool true) => match go r with GStuck => GStuck | _ => GV (GBool true) end
                   | GV (GBool false) => go r
                   | _ => GStuck
                   end
       end) ws = GV (GBool (existsb p vs)).
  Proof.
    induction 1 as [|v w vs ws Hvw _ IH]; [reflexivity|]. cbn [existsb]. rewrite Hvw.
    destruct (p v); [rewrite IH; reflexivity | exact IH].
  Qed.

  Lemma item_like_fresh fuel n el coll : item_like n = true -> item_like (fresh_var fuel n el coll) = true.
  Proof.
    revert n. induction fuel as [|f IH]; intros n H; cbn [fresh_var]; [exact H|].
    destruct (text_has n el || text_has n coll); [|exact H]. apply IH. cbn [item_like]. rewrite H.
    change (Byte.eqb x5f x5f) with true. apply orb_true_r.
  Qed.

  Lemma not_in_scope G x : existsb (fun xv => item_like (fst xv)) (te_vars G) = false -> item_like x = true ->
    glookup (te_vars G) x = None.
  Proof.
    intros H Hx. induction (te_vars G) as [|[y t] l IH]; [reflexivity|]. cbn [existsb fst] in H. apply orb_false_iff in H as [Hy Hl].
    cbn [glookup]. destruct (bytes_eqb y x) eqn:E; [apply bytes_eqb_eq in E; subst y; congruence|]. apply IH. exact Hl.
  Qed.

  (* a Go variable that no CEL variable in scope is named after can be bound without disturbing the environment *)
  Lemma env_ok_extra G cenv gvars x w : env_ok G cenv gvars -> glookup (te_vars G) x = None -> env_ok G cenv ((x, w) :: gvars).
  Proof.
    intros [Hf [Hn [Hval [Hthis Hvars]]]] Hx. repeat split; try assumption.
    intros y t Hy Hg. destruct (Hvars y t Hy Hg) as [v [w0 [Hc [Hgl Hr]]]]. exists v, w0. split; [exact Hc|]. split; [|exact Hr].
    cbn [glookup]. destruct (bytes_eqb x y) eqn:E; [apply bytes_eqb_eq in E; subst y; congruence|exact Hgl].
  Qed.

  Lemma go_exists_bool (f : gval -> gres) ws :
    Forall (fun w => exists b, f w = GV (GBool b)) ws -> exists r, go_exists f ws = GV (GBool r).
  Proof.
    induction 1 as [|w ws [b Hb] _ [r IH]]; [exists false; reflexivity|]. cbn [go_exists]. rewrite Hb, IH.
    destruct b; eauto.
  Qed.

  Lemma contains_bool wa ws :
    Forall (fun w => exists b, gbinop BEq w wa = GV (GBool b)) ws ->
    exists r, (fix go (els : list gval) : gres :=
       match els with
       | [] => GV (GBool false)
       | y :: r => match gbinop BEq y wa with
                   | GV (GBool true) => match go r with GStuck => GStuck | _ => GV (GBool true) end
                   | GV (GBool false) => go r
                   | _ => GStuck
                   end
       end) ws = GV (GBool r).
  Proof.
    induction 1 as [|w ws [b Hb] _ [r IH]]; [exists false; reflexivity|]. rewrite Hb, IH. destruct b; eauto.
  Qed.

  Lemma tests_bool (p : cval -> bool) (f : gval -> gres) vs ws :
    Forall2 (fun v w => f w = GV (GBool (p v))) vs ws -> Forall (fun w => exists b, f w = GV (GBool b)) ws.
  Proof. induction 1; constructor; eauto. Qed.

  Lemma iface_list_not_slice vars es ws : GE vars (GIfaceList es) = GV (GSlice ws) -> False.
  Proof.
    cbn [geval]. generalize (@nil gval). induction es as [|x es IH]; intros acc H; [discriminate H|].
    destruct (GE vars x) as [v| |]; try discriminate H. destruct (default_type v); try discriminate H; apply (IH _ H).
  Qed.

  Lemma in_list_case G cenv vars a b ta tb el coll g :
    (match b with EList _ => False | _ => True end) ->
    in_elem_ok ta tb = true ->
    existsb (fun xv => item_like (fst xv)) (te_vars G) = false ->
    env_ok G cenv vars ->
    tr_in b el coll = Some g ->
    (forall vars', env_ok G cenv vars' -> R ta (CE cenv a) (GE vars' el)) ->
    R (SList tb) (CE cenv b) (GE vars coll) ->
    R SBool (CE cenv (ECall2 FIn a b)) (GE vars g).
  Proof.
    intros Hb Hok Hsc Henv Htr Ra [vl [wl [Hgc [Hvl Hcl]]]].
    destruct Hvl as [vs [ws [-> [-> [F _]]]]].
    assert (Hce : CE cenv (ECall2 FIn a b) = match CE cenv a, CE cenv b with Some x, Some y => Some (lift2 cin x y) | _, _ => None end) by reflexivity.
    assert (Hval : forall va, CE cenv a = Some (CV va) ->
                   R SBool (CE cenv (ECall2 FIn a b)) (GV (GBool (existsb (fun y => cequal va y) vs)))).
    { intros va Hca. apply R_bool_intro. rewrite Hce, Hca. destruct Hcl as [-> | ->]; cbn [lift2 cin]; auto. }
    assert (Herr : CE cenv a = Some CErr -> forall r, R SBool (CE cenv (ECall2 FIn a b)) (GV (GBool r))).
    { intros Hca r. apply R_bool_intro. right. rewrite Hce, Hca. destruct Hcl as [-> | ->]; reflexivity. }
    destruct (Ra vars Henv) as [va [wa [Hge [Hva Hca]]]].
    assert (Hgeneric : forall v, item_like v = true ->
              R SBool (CE cenv (ECall2 FIn a b)) (GE vars (GExists v coll (GBin BEq (GVar v) el)))).
    { intros v Hv. rewrite (gexists_eval vars v coll _ ws Hgc).
      pose proof (not_in_scope G v Hsc Hv) as Hfree.
      assert (Hstep : forall v0 w, vrel tb v0 w ->
                exists va' wa', vrel ta va' wa' /\ (CE cenv a = Some (CV va') \/ CE cenv a = Some CErr) /\
                  GE ((v, w) :: vars) (GBin BEq (GVar v) el) = GV (GBool (cequal va' v0))).
      { intros v0 w Hvw.
        destruct (Ra ((v, w) :: vars) (env_ok_extra G cenv vars v w Henv Hfree)) as [va' [wa' [Hg' [Hva' Hca']]]].
        exists va', wa'. split; [exact Hva'|]. split; [exact Hca'|].
        rewrite (gbin_values ((v, w) :: vars) BEq (GVar v) el w wa'); [|discriminate|discriminate| |exact Hg'].
        - pose proof (member_tests ta tb va' wa' [v0] [w] Hok Hva' (Forall2_cons _ _ Hvw (Forall2_nil _))) as X.
          inversion X; subst. assumption.
        - cbn [geval glookup]. rewrite bytes_eqb_refl. reflexivity. }
      destruct Hca as [Hca|Hca].
      - assert (T : Forall2 (fun v0 w => GE ((v, w) :: vars) (GBin BEq (GVar v) el) = GV (GBool (cequal va v0))) vs ws).
        { clear Hgc Hcl Hval. induction F as [|v0 w vs ws Hvw F IH]; constructor; [|exact IH].
          destruct (Hstep v0 w Hvw) as [va' [wa' [_ [Hca' Hg']]]].
          assert (va' = va) by (destruct Hca' as [Hca'|Hca']; congruence). subst va'. exact Hg'. }
        pose proof (go_exists_tests (fun w => GE ((v, w) :: vars) (GBin BEq (GVar v) el)) (fun y => cequal va y) vs ws T) as E.
        match goal with |- R _ _ ?g => replace g with (GV (GBool (existsb (fun y => cequal va y) vs))) by (symmetry; exact E) end.
        apply Hval. exact Hca.
      - assert (B : Forall (fun w => exists b0, GE ((v, w) :: vars) (GBin BEq (GVar v) el) = GV (GBool b0)) ws).
        { clear Hgc Hcl Hval. induction F as [|v0 w vs ws Hvw F IH]; constructor; [|exact IH].
          destruct (Hstep v0 w Hvw) as [va' [wa' [_ [_ Hg']]]]. eauto. }
        destruct (go_exists_bool _ ws B) as [r Hr].
        match goal with |- R _ _ ?g => replace g with (GV (GBool r)) by (symmetry; exact Hr) end.
        apply Herr. exact Hca. }
    assert (Hcontains : R SBool (CE cenv (ECall2 FIn a b)) (GE vars (GSlicesContains coll el))).
    { rewrite (slices_contains_eval vars _ _ _ _ Hgc Hge).
      pose proof (member_tests ta tb va wa vs ws Hok Hva F) as T.
      destruct Hca as [Hca|Hca].
      - rewrite (contains_tests wa (fun y => cequal va y) vs ws T). apply Hval. exact Hca.
      - destruct (contains_bool wa ws (tests_bool _ _ _ _ T)) as [r Hr]. rewrite Hr. apply Herr. exact Hca. }
    unfold tr_in in Htr. cbv zeta in Htr.
    remember (fresh_var 64 s_item el coll) as fv eqn:Efv.
    assert (Hfv : item_like fv = true) by (subst fv; apply item_like_fresh; reflexivity). clear Efv.
    destruct b; try contradiction;
      (destruct coll;
       try (exfalso; exact (iface_list_not_slice vars _ _ Hgc));
       try (match type of Htr with context [if ?c then _ else _] => destruct c end);
       inv Htr; first [exact Hcontains | apply Hgeneric; exact Hfv]).
  Qed.

  Lemma compr_eval cenv x r acc init cond step res vs a0 :
    CE cenv r = Some (CV (VList vs)) -> CE cenv init = Some a0 ->
    CE cenv (ECompr x r acc init cond step res) =
    match cel_fold cenv x acc cond step vs a0 with
    | Some a => CE ((acc, a) :: cenv) res
    | None => None
    end.
  Proof.
    intros Hr Hi. cbn [ceval]. rewrite Hr. cbn [iter_elems]. rewrite Hi.
    match goal with |- match ?f vs a0 with _ => _ end = _ =>
      assert (E : forall els a, f els a = cel_fold cenv x acc cond step els a)
    end.
    { induction els as [|v els IH]; intro a; [reflexivity|]. cbn [cel_fold].
      destruct (CE ((x, CV v) :: (acc, a) :: cenv) cond) as [[[[]| | | | | | | | |]|]|]; try reflexivity;
        destruct (CE ((x, CV v) :: (acc, a) :: cenv) step); try reflexivity; apply IH. }
    rewrite E. reflexivity.
  Qed.

  Inductive tri := TT | TF | TE.
  Definition tri_res (t : tri) : cres := match t with TT => CV (VBool true) | TF => CV (VBool false) | TE => CErr end.

  Section Loops.
    Variables (x acc : ident) (body : cexpr) (gb : gexpr) (te : sty) (cenv : cenv) (gvars : list (ident * gval)).
    Hypothesis Hxa : bytes_eqb x acc = false.
    Hypothesis Hbody : forall v w a, vrel te v w ->
      R SBool (CE ((x, CV v) :: (acc, a) :: cenv) body) (GE ((x, w) :: gvars) gb).

    Lemma acc_lookup v a : clookup ((x, CV v) :: (acc, a) :: cenv) acc = a.
    Proof. cbn [clookup]. rewrite Hxa, bytes_eqb_refl. reflexivity. Qed.

    Let gbody := fun w => GE ((x, w) :: gvars) gb.

    (* all: @result starts true; loop while @not_strictly_false(@result); step @result && body *)
    Lemma all_loop vs ws : Forall2 (vrel te) vs ws -> forall t,
      exists r aN, go_all gbody ws = GV (GBool r) /\
        cel_fold cenv x acc (ECall1 FNotStrictlyFalse (EIdent acc)) (ECall2 FAnd (EIdent acc) body) vs (tri_res t) = Some aN /\
        match t with
        | TT => aN = CErr \/ aN = CV (VBool r)
        | TF => aN = CV (VBool false)
        | TE => aN = CErr \/ (aN = CV (VBool false) /\ r = false)
        end.
    Proof.
      induction 1 as [|v w vs ws Hvw _ IH]; intro t.
      - exists true, (tri_res t). split; [reflexivity|]. split; [reflexivity|]. destruct t; cbn; auto.
      - cbn [go_all cel_fold]. unfold gbody at 1.
        destruct (R_bool _ _ (Hbody v w (tri_res t) Hvw)) as [b [Hg Hc]]. rewrite Hg.
        cbn [ceval]. rewrite acc_lookup.
        destruct t; cbn [tri_res cnsf] in Hc |- *.
        + (* accumulator true *)
          destruct b, Hc as [Hc | Hc]; rewrite Hc; cbn [cand].
          * destruct (IH TT) as [r [aN [Hr [Hf Hm]]]]. cbn [tri_res] in Hf. rewrite Hf, Hr. exists r, aN. auto.
          * destruct (IH TE) as [r [aN [Hr [Hf Hm]]]]. cbn [tri_res] in Hf. rewrite Hf, Hr. exists r, aN. split; [reflexivity|]. split; [reflexivity|].
            destruct Hm as [Hm | [Hm ->]]; auto.
          * destruct (IH TF) as [r [aN [Hr [Hf Hm]]]]. cbn [tri_res] in Hf. rewrite Hf, Hr. exists false, aN. subst aN. auto.
          * destruct (IH TE) as [r [aN [Hr [Hf Hm]]]]. cbn [tri_res] in Hf. rewrite Hf, Hr. exists false, aN. split; [reflexivity|]. split; [reflexivity|].
            destruct Hm as [Hm | [Hm _]]; auto.
        + (* accumulator false: the loop stops *)
          destruct (IH TF) as [r [aN [Hr _]]]. rewrite Hr.
          exists (if b then r else false), (CV (VBool false)). split; [destruct b; reflexivity|]. auto.
        + (* accumulator is an error *)
          destruct b, Hc as [Hc | Hc]; rewrite Hc; cbn [cand].
          * destruct (IH TE) as [r [aN [Hr [Hf Hm]]]]. cbn [tri_res] in Hf. rewrite Hf, Hr. exists r, aN. auto.
          * destruct (IH TE) as [r [aN [Hr [Hf Hm]]]]. cbn [tri_res] in Hf. rewrite Hf, Hr. exists r, aN. auto.
          * destruct (IH TF) as [r [aN [Hr [Hf Hm]]]]. cbn [tri_res] in Hf. rewrite Hf, Hr. exists false, aN. subst aN. auto.
          * destruct (IH TE) as [r [aN [Hr [Hf Hm]]]]. cbn [tri_res] in Hf. rewrite Hf, Hr. exists false, aN. split; [reflexivity|]. split; [reflexivity|].
            destruct Hm as [Hm | [Hm _]]; auto.
    Qed.

    (* exists: @result starts false; loop while @not_strictly_false(!@result); step @result || body *)
    Lemma exists_loop vs ws : Forall2 (vrel te) vs ws -> forall t,
      exists r aN, go_exists gbody ws = GV (GBool r) /\
        cel_fold cenv x acc (ECall1 FNotStrictlyFalse (ECall1 FNot (EIdent acc))) (ECall2 FOr (EIdent acc) body) vs (tri_res t) = Some aN /\
        match t with
        | TF => aN = CErr \/ aN = CV (VBool r)
        | TT => aN = CV (VBool true)
        | TE => aN = CErr \/ (aN = CV (VBool true) /\ r = true)
        end.
    Proof.
      induction 1 as [|v w vs ws Hvw _ IH]; intro t.
      - exists false, (tri_res t). split; [reflexivity|]. split; [reflexivity|]. destruct t; cbn; auto.
      - cbn [go_exists cel_fold]. unfold gbody at 1.
        destruct (R_bool _ _ (Hbody v w (tri_res t) Hvw)) as [b [Hg Hc]]. rewrite Hg.
        cbn [ceval]. rewrite acc_lookup.
        destruct t; cbn [tri_res cnsf cnot negb] in Hc |- *.
        + (* accumulator true: the loop stops *)
          destruct (IH TT) as [r [aN [Hr _]]]. rewrite Hr.
          exists (if b then true else r), (CV (VBool true)). split; [destruct b; reflexivity|]. auto.
        + (* accumulator false *)
          destruct b, Hc as [Hc | Hc]; rewrite Hc; cbn [cor].
          * destruct (IH TT) as [r [aN [Hr [Hf Hm]]]]. cbn [tri_res] in Hf. rewrite Hf, Hr. exists true, aN. subst aN. auto.
          * destruct (IH TE) as [r [aN [Hr [Hf Hm]]]]. cbn [tri_res] in Hf. rewrite Hf, Hr. exists true, aN. split; [reflexivity|]. split; [reflexivity|].
            destruct Hm as [Hm | [Hm _]]; auto.
          * destruct (IH TF) as [r [aN [Hr [Hf Hm]]]]. cbn [tri_res] in Hf. rewrite Hf, Hr. exists r, aN. auto.
          * destruct (IH TE) as [r [aN [Hr [Hf Hm]]]]. cbn [tri_res] in Hf. rewrite Hf, Hr. exists r, aN. split; [reflexivity|]. split; [reflexivity|].
            destruct Hm as [Hm | [Hm ->]]; auto.
        + (* accumulator is an error *)
          destruct b, Hc as [Hc | Hc]; rewrite Hc; cbn [cor].
          * destruct (IH TT) as [r [aN [Hr [Hf Hm]]]]. cbn [tri_res] in Hf. rewrite Hf, Hr. exists true, aN. subst aN. auto.
          * destruct (IH TE) as [r [aN [Hr [Hf Hm]]]]. cbn [tri_res] in Hf. rewrite Hf, Hr. exists true, aN. split; [reflexivity|]. split; [reflexivity|].
            destruct Hm as [Hm | [Hm _]]; auto.
          * destruct (IH TE) as [r [aN [Hr [Hf Hm]]]]. cbn [tri_res] in Hf. rewrite Hf, Hr. exists r, aN. auto.
          * destruct (IH TE) as [r [aN [Hr [Hf Hm]]]]. cbn [tri_res] in Hf. rewrite Hf, Hr. exists r, aN. auto.
    Qed.

    (* exists_one: @result starts 0; step body ? @result + 1 : @result; result @result == 1.
       The accumulator is a count, or an error from the first failing body on. *)
    Lemma exists_one_loop vs ws : Forall2 (vrel te) vs ws -> forall (n : Z) (a : cres), (a = CV (VInt n) \/ a = CErr) ->
      exists r aN, go_exists_one gbody ws n = GV (GBool r) /\
        cel_fold cenv x acc (EConst (KBool true))
          (ECall3 FTernary body (ECall2 FAdd (EIdent acc) (EConst (KInt 1))) (EIdent acc)) vs a = Some aN /\
        (aN = CErr \/ exists m, aN = CV (VInt m) /\ r = (m =? 1)).
    Proof.
      induction 1 as [|v w vs ws Hvw _ IH]; intros n a Ha.
      - exists (n =? 1), a. split; [reflexivity|]. split; [reflexivity|]. destruct Ha as [-> | ->]; eauto.
      - cbn [go_exists_one cel_fold]. unfold gbody at 1.
        destruct (R_bool _ _ (Hbody v w a Hvw)) as [b [Hg Hc]]. rewrite Hg.
        cbn [ceval const_val]. rewrite acc_lookup.
        destruct Hc as [Hc | Hc]; rewrite Hc.
        + destruct b.
          * (* body true: @result + 1 *)
            destruct Ha as [-> | ->]; cbn [lift2 cadd].
            -- unfold chk_i. destruct (in_i64 (n + 1)).
               ++ destruct (IH (n + 1) (CV (VInt (n + 1))) (or_introl eq_refl)) as [r [aN [Hr [Hf Hm]]]]. rewrite Hf, Hr. eauto.
               ++ destruct (IH (n + 1) CErr (or_intror eq_refl)) as [r [aN [Hr [Hf Hm]]]]. rewrite Hf, Hr. exists r, aN.
                  split; [reflexivity|]. split; [reflexivity|]. left.
                  (* once the accumulator is an error it stays one *)
                  clear -Hf Hbody Hxa. revert Hf. generalize dependent aN. 
                  assert (E : forall vs', forall aN', cel_fold cenv x acc (EConst (KBool true))
                             (ECall3 FTernary body (ECall2 FAdd (EIdent acc) (EConst (KInt 1))) (EIdent acc)) vs' CErr = Some aN' -> aN' = CErr).
                  { induction vs' as [|v' vs' IHv]; intros aN' H; [cbn in H; congruence|].
                    cbn [cel_fold ceval const_val] in H. rewrite acc_lookup in H.
                    destruct (CE ((x, CV v') :: (acc, CErr) :: cenv) body) as [[[[]| | | | | | | | |]|]|]; cbn [lift2] in H; try discriminate; apply IHv; exact H. }
                  intros aN Hf. eapply E; eassumption.
            -- destruct (IH (n + 1) CErr (or_intror eq_refl)) as [r [aN [Hr [Hf Hm]]]]. rewrite Hf, Hr. exists r, aN.
               split; [reflexivity|]. split; [reflexivity|]. left.
               assert (E : forall vs', forall aN', cel_fold cenv x acc (EConst (KBool true))
                          (ECall3 FTernary body (ECall2 FAdd (EIdent acc) (EConst (KInt 1))) (EIdent acc)) vs' CErr = Some aN' -> aN' = CErr).
               { induction vs' as [|v' vs' IHv]; intros aN' H; [cbn in H; congruence|].
                 cbn [cel_fold ceval const_val] in H. rewrite acc_lookup in H.
                 destruct (CE ((x, CV v') :: (acc, CErr) :: cenv) body) as [[[[]| | | | | | | | |]|]|]; cbn [lift2] in H; try discriminate; apply IHv; exact H. }
               eapply E; eassumption.
          * (* body false: @result unchanged *)
            destruct (IH n a Ha) as [r [aN [Hr [Hf Hm]]]]. rewrite Hf, Hr. eauto.
        + (* the body is an error: so is the step *)
          assert (E : forall vs', forall aN', cel_fold cenv x acc (EConst (KBool true))
                     (ECall3 FTernary body (ECall2 FAdd (EIdent acc) (EConst (KInt 1))) (EIdent acc)) vs' CErr = Some aN' -> aN' = CErr).
          { induction vs' as [|v' vs' IHv]; intros aN' H; [cbn in H; congruence|].
            cbn [cel_fold ceval const_val] in H. rewrite acc_lookup in H.
            destruct (CE ((x, CV v') :: (acc, CErr) :: cenv) body) as [[[[]| | | | | | | | |]|]|]; cbn [lift2] in H; try discriminate; apply IHv; exact H. }
          destruct (IH (if b then n + 1 else n) CErr (or_intror eq_refl)) as [r [aN [Hr [Hf Hm]]]]. rewrite Hf.
          exists r, aN. split; [destruct b; exact Hr|]. split; [reflexivity|]. left. eapply E; eassumption.
    Qed.

    Lemma list1_eval v a : CE ((x, CV v) :: (acc, a) :: cenv) (EList [EIdent x]) = Some (CV (VList [v])).
    Proof. cbn [ceval clookup]. rewrite bytes_eqb_refl. reflexivity. Qed.

    (* filter: @result starts []; step body ? @result + [x] : @result *)
    Lemma filter_loop vs ws : Forall2 (vrel te) vs ws -> forall (gacc : list gval) (a : cres),
      ((exists l, a = CV (VList l) /\ length l = length gacc) \/ a = CErr) ->
      exists ws' aN, go_filter gbody ws gacc = GV (GIface ws') /\
        cel_fold cenv x acc (EConst (KBool true))
          (ECall3 FTernary body (ECall2 FAdd (EIdent acc) (EList [EIdent x])) (EIdent acc)) vs a = Some aN /\
        (aN = CErr \/ exists l', aN = CV (VList l') /\ length l' = length ws') /\
        (length ws' <= length gacc + length ws)%nat.
    Proof.
      induction 1 as [|v w vs ws Hvw _ IH]; intros gacc a Ha.
      - exists (rev gacc), a. split; [reflexivity|]. split; [reflexivity|]. rewrite rev_length. split; [|cbn; lia].
        destruct Ha as [[l [-> Hl]] | ->]; eauto.
      - cbn [go_filter cel_fold]. unfold gbody at 1.
        destruct (R_bool _ _ (Hbody v w a Hvw)) as [b [Hg Hc]]. rewrite Hg.
        change (CE ((x, CV v) :: (acc, a) :: cenv) (EConst (KBool true))) with (Some (CV (VBool true))). cbv iota.
        change (CE ((x, CV v) :: (acc, a) :: cenv) (ECall3 FTernary body (ECall2 FAdd (EIdent acc) (EList [EIdent x])) (EIdent acc)))
          with (match CE ((x, CV v) :: (acc, a) :: cenv) body with
                | Some (CV (VBool true)) => CE ((x, CV v) :: (acc, a) :: cenv) (ECall2 FAdd (EIdent acc) (EList [EIdent x]))
                | Some (CV (VBool false)) => CE ((x, CV v) :: (acc, a) :: cenv) (EIdent acc)
                | Some _ => match CE ((x, CV v) :: (acc, a) :: cenv) (ECall2 FAdd (EIdent acc) (EList [EIdent x])),
                                  CE ((x, CV v) :: (acc, a) :: cenv) (EIdent acc) with Some _, Some _ => Some CErr | _, _ => None end
                | None => None
                end).
        change (CE ((x, CV v) :: (acc, a) :: cenv) (ECall2 FAdd (EIdent acc) (EList [EIdent x])))
          with (match CE ((x, CV v) :: (acc, a) :: cenv) (EIdent acc), CE ((x, CV v) :: (acc, a) :: cenv) (EList [EIdent x]) with
                | Some p, Some q => Some (lift2 cadd p q) | _, _ => None end).
        rewrite list1_eval. change (CE ((x, CV v) :: (acc, a) :: cenv) (EIdent acc)) with (Some (clookup ((x, CV v) :: (acc, a) :: cenv) acc)).
        rewrite acc_lookup.
        destruct Hc as [Hc | Hc]; rewrite Hc.
        + destruct b.
          * destruct Ha as [[l [-> Hl]] | ->]; cbn [lift2 cadd].
            -- destruct (IH (match w with GBoxed u => u | u => u end :: gacc) (CV (VList (l ++ [v])))) as [ws' [aN [Hr [Hf [Hm Hn]]]]].
               { left. exists (l ++ [v]). split; [reflexivity|]. rewrite app_length. cbn. lia. }
               rewrite Hf, Hr. exists ws', aN. repeat split; auto. cbn [length] in *. lia.
            -- destruct (IH (match w with GBoxed u => u | u => u end :: gacc) CErr (or_intror eq_refl)) as [ws' [aN [Hr [Hf [Hm Hn]]]]].
               rewrite Hf, Hr. exists ws', aN. repeat split; auto. cbn [length] in *. lia.
          * destruct (IH gacc a Ha) as [ws' [aN [Hr [Hf [Hm Hn]]]]]. rewrite Hf, Hr. exists ws', aN. repeat split; auto. cbn [length]. lia.
        + (* the body is an error: the accumulator becomes an error and stays one *)
          assert (E : forall vs' aN', cel_fold cenv x acc (EConst (KBool true))
                     (ECall3 FTernary body (ECall2 FAdd (EIdent acc) (EList [EIdent x])) (EIdent acc)) vs' CErr = Some aN' -> aN' = CErr).
          { induction vs' as [|v' vs' IHv]; intros aN' H; [cbn in H; congruence|].
            cbn [cel_fold] in H.
            change (CE ((x, CV v') :: (acc, CErr) :: cenv) (EConst (KBool true))) with (Some (CV (VBool true))) in H. cbv iota in H.
            change (CE ((x, CV v') :: (acc, CErr) :: cenv) (ECall3 FTernary body (ECall2 FAdd (EIdent acc) (EList [EIdent x])) (EIdent acc)))
              with (match CE ((x, CV v') :: (acc, CErr) :: cenv) body with
                    | Some (CV (VBool true)) => CE ((x, CV v') :: (acc, CErr) :: cenv) (ECall2 FAdd (EIdent acc) (EList [EIdent x]))
                    | Some (CV (VBool false)) => CE ((x, CV v') :: (acc, CErr) :: cenv) (EIdent acc)
                    | Some _ => match CE ((x, CV v') :: (acc, CErr) :: cenv) (ECall2 FAdd (EIdent acc) (EList [EIdent x])),
                                      CE ((x, CV v') :: (acc, CErr) :: cenv) (EIdent acc) with Some _, Some _ => Some CErr | _, _ => None end
                    | None => None
                    end) in H.
            change (CE ((x, CV v') :: (acc, CErr) :: cenv) (ECall2 FAdd (EIdent acc) (EList [EIdent x])))
              with (match CE ((x, CV v') :: (acc, CErr) :: cenv) (EIdent acc), CE ((x, CV v') :: (acc, CErr) :: cenv) (EList [EIdent x]) with
                    | Some p, Some q => Some (lift2 cadd p q) | _, _ => None end) in H.
            rewrite list1_eval in H. change (CE ((x, CV v') :: (acc, CErr) :: cenv) (EIdent acc)) with (Some (clookup ((x, CV v') :: (acc, CErr) :: cenv) acc)) in H.
            rewrite acc_lookup in H. cbn [lift2] in H.
            destruct (CE ((x, CV v') :: (acc, CErr) :: cenv) body) as [[[[]| | | | | | | | |]|]|]; try discriminate; apply IHv; exact H. }
          destruct (IH (if b then match w with GBoxed u => u | u => u end :: gacc else gacc) CErr (or_intror eq_refl)) as [ws' [aN [Hr [Hf [Hm Hn]]]]].
          cbn [lift2]. rewrite Hf. exists ws', aN. split; [destruct b; exact Hr|]. split; [reflexivity|]. split; [left; eapply E; eassumption|].
          destruct b; cbn [length] in *; lia.
    Qed.
  End Loops.

  Definition boxable (t : sty) : bool :=
    match t with
    | SInt _ | SF64 | SStr | SBool | SKStr _ => true
    | SKInt _ z => in_kind IInt z
    | _ => false
    end.

  Lemma boxable_default t v w : boxable t = true -> vrel t v w -> default_type w <> GNilV.
  Proof.
    destruct t; cbn [boxable vrel]; try discriminate; intros Hb Hv.
    - destruct Hv as [z [_ [-> _]]]. discriminate.
    - destruct Hv as [b [_ ->]]. discriminate.
    - destruct Hv as [s [_ ->]]. discriminate.
    - destruct Hv as [b [_ ->]]. discriminate.
    - destruct Hv as [_ ->]. cbn [default_type]. rewrite Hb. discriminate.
    - destruct Hv as [_ ->]. discriminate.
  Qed.

  Section MapLoop.
    Variables (x acc : ident) (tx : cexpr) (gt : gexpr) (te tt : sty) (cenv : cenv) (gvars : list (ident * gval)).
    Hypothesis Hxa : bytes_eqb x acc = false.
    Hypothesis Htt : boxable tt = true.
    Hypothesis Hbody : forall v w a, vrel te v w ->
      R tt (CE ((x, CV v) :: (acc, a) :: cenv) tx) (GE ((x, w) :: gvars) gt).

    (* map: @result starts []; step @result + [t] *)
    Lemma map_loop vs ws : Forall2 (vrel te) vs ws -> forall (gacc : list gval) (a : cres),
      ((exists l, a = CV (VList l) /\ length l = length gacc) \/ a = CErr) ->
      exists ws' aN, go_map (fun w => GE ((x, w) :: gvars) gt) ws gacc = GV (GIface ws') /\
        cel_fold cenv x acc (EConst (KBool true)) (ECall2 FAdd (EIdent acc) (EList [tx])) vs a = Some aN /\
        (aN = CErr \/ exists l', aN = CV (VList l') /\ length l' = length ws') /\
        (length ws' <= length gacc + length ws)%nat.
    Proof.
      induction 1 as [|v w vs ws Hvw _ IH]; intros gacc a Ha.
      - exists (rev gacc), a. split; [reflexivity|]. split; [reflexivity|]. rewrite rev_length. split; [|cbn; lia].
        destruct Ha as [[l [-> Hl]] | ->]; eauto.
      - cbn [go_map cel_fold].
        destruct (Hbody v w a Hvw) as [v0 [wv [Hg [Hv Hc]]]]. rewrite Hg.
        pose proof (boxable_default tt v0 wv Htt Hv) as Hd.
        change (CE ((x, CV v) :: (acc, a) :: cenv) (EConst (KBool true))) with (Some (CV (VBool true))). cbv iota.
        change (CE ((x, CV v) :: (acc, a) :: cenv) (ECall2 FAdd (EIdent acc) (EList [tx])))
          with (match CE ((x, CV v) :: (acc, a) :: cenv) (EIdent acc), CE ((x, CV v) :: (acc, a) :: cenv) (EList [tx]) with
                | Some p, Some q => Some (lift2 cadd p q) | _, _ => None end).
        change (CE ((x, CV v) :: (acc, a) :: cenv) (EIdent acc)) with (Some (clookup ((x, CV v) :: (acc, a) :: cenv) acc)).
        cbn [clookup]. rewrite Hxa, bytes_eqb_refl.
        assert (El : CE ((x, CV v) :: (acc, a) :: cenv) (EList [tx]) =
                     match CE ((x, CV v) :: (acc, a) :: cenv) tx with
                     | Some (CV u) => Some (CV (VList [u])) | Some CErr => Some CErr | None => None end).
        { cbn [ceval]. destruct (CE ((x, CV v) :: (acc, a) :: cenv) tx) as [[u|]|]; reflexivity. }
        rewrite El.
        set (w' := match default_type wv with GBoxed u => u | u => u end).
        assert (Hgo : forall rest, match default_type wv with
                                   | GNilV => GStuck
                                   | w'0 => go_map (fun w0 => GE ((x, w0) :: gvars) gt) rest (match w'0 with GBoxed u => u | u => u end :: gacc)
                                   end = go_map (fun w0 => GE ((x, w0) :: gvars) gt) rest (w' :: gacc)).
        { intro rest. unfold w'. destruct (default_type wv); try reflexivity. congruence. }
        rewrite Hgo.
        destruct Hc as [Hc | Hc]; rewrite Hc.
        + destruct Ha as [[l [-> Hl]] | ->]; cbn [lift2 cadd].
          * destruct (IH (w' :: gacc) (CV (VList (l ++ [v0])))) as [ws' [aN [Hr [Hf [Hm Hn]]]]].
            { left. exists (l ++ [v0]). split; [reflexivity|]. rewrite app_length. cbn. lia. }
            rewrite Hf, Hr. exists ws', aN. repeat split; auto. cbn [length] in *. lia.
          * destruct (IH (w' :: gacc) CErr (or_intror eq_refl)) as [ws' [aN [Hr [Hf [Hm Hn]]]]].
            rewrite Hf, Hr. exists ws', aN. repeat split; auto. cbn [length] in *. lia.
        + assert (E : forall vs' aN', cel_fold cenv x acc (EConst (KBool true)) (ECall2 FAdd (EIdent acc) (EList [tx])) vs' CErr = Some aN' -> aN' = CErr).
          { induction vs' as [|v' vs' IHv]; intros aN' H; [cbn in H; congruence|].
            cbn [cel_fold] in H.
            change (CE ((x, CV v') :: (acc, CErr) :: cenv) (EConst (KBool true))) with (Some (CV (VBool true))) in H. cbv iota in H.
            change (CE ((x, CV v') :: (acc, CErr) :: cenv) (ECall2 FAdd (EIdent acc) (EList [tx])))
              with (match CE ((x, CV v') :: (acc, CErr) :: cenv) (EIdent acc), CE ((x, CV v') :: (acc, CErr) :: cenv) (EList [tx]) with
                    | Some p, Some q => Some (lift2 cadd p q) | _, _ => None end) in H.
            change (CE ((x, CV v') :: (acc, CErr) :: cenv) (EIdent acc)) with (Some (clookup ((x, CV v') :: (acc, CErr) :: cenv) acc)) in H.
            cbn [clookup] in H. rewrite Hxa, bytes_eqb_refl in H. cbn [lift2] in H.
            destruct (CE ((x, CV v') :: (acc, CErr) :: cenv) (EList [tx])); [|discriminate]. apply IHv; exact H. }
          assert (Hst : match a with CV _ | CErr => lift2 cadd a CErr end = CErr) by (destruct a; reflexivity).
          assert (Hst' : lift2 cadd a CErr = CErr) by (destruct a; reflexivity). rewrite Hst'.
          destruct (IH (w' :: gacc) CErr (or_intror eq_refl)) as [ws' [aN [Hr [Hf [Hm Hn]]]]].
          rewrite Hf, Hr. exists ws', aN. split; [reflexivity|]. split; [reflexivity|]. split; [left; eapply E; eassumption|].
          cbn [length] in *; lia.
    Qed.
  End MapLoop.

  Lemma env_ok_bind G cenv gvars x acc te v w a :
    env_ok G cenv gvars -> vrel te v w ->
    bytes_eqb x acc = false -> bytes_eqb x s_value = false -> bytes_eqb x s_this = false ->
    bytes_eqb acc s_value = false -> bytes_eqb acc s_this = false -> glookup (te_vars G) acc = None ->
    env_ok (bind_var G x te) ((x, CV v) :: (acc, a) :: cenv) ((x, w) :: gvars).
  Proof.
    intros [Hf [Hn [Hval [Hthis Hvars]]]] Hvw Hxa Hxv Hxt Hav Hat Hacc.
    assert (Sym : forall p q, bytes_eqb p q = false -> bytes_eqb q p = false) by (intros p q H; rewrite bytes_eqb_sym; exact H).
    unfold env_ok, bind_var. cbn [te_fields te_fname te_vars]. repeat split; try assumption.
    - cbn [clookup]. rewrite Hxv, Hav. exact Hval.
    - cbn [existsb fst]. intro H. apply orb_false_iff in H as [_ H]. cbn [clookup]. rewrite Hxt, Hat. apply Hthis. exact H.
    - intros y t Hy Hg. cbn [glookup] in Hg. cbn [clookup glookup]. destruct (bytes_eqb x y) eqn:Exy.
      + inversion Hg; subst t. eauto.
      + destruct (bytes_eqb acc y) eqn:Eay.
        * apply bytes_eqb_eq in Eay. subst y. congruence.
        * apply Hvars; assumption.
  Qed.

  Lemma macro_of_spec x acc init cond step res m :
    macro_of x acc init cond step res = Some m ->
    res = (match m with MExistsOne => ECall2 FEq (EIdent acc) (EConst (KInt 1)) | _ => EIdent acc end) /\
    match m with
    | MAll => init = EConst (KBool true) /\ cond = ECall1 FNotStrictlyFalse (EIdent acc) /\ exists body, step = ECall2 FAnd (EIdent acc) body
    | MExists => init = EConst (KBool false) /\ cond = ECall1 FNotStrictlyFalse (ECall1 FNot (EIdent acc)) /\ exists body, step = ECall2 FOr (EIdent acc) body
    | MExistsOne => init = EConst (KInt 0) /\ cond = EConst (KBool true) /\
                    exists body, step = ECall3 FTernary body (ECall2 FAdd (EIdent acc) (EConst (KInt 1))) (EIdent acc)
    | MFilter => init = EList [] /\ cond = EConst (KBool true) /\
                 exists body, step = ECall3 FTernary body (ECall2 FAdd (EIdent acc) (EList [EIdent x])) (EIdent acc)
    | MMap => init = EList [] /\ cond = EConst (KBool true) /\ exists t, step = ECall2 FAdd (EIdent acc) (EList [t])
    end.
  Proof.
    assert (A : forall e, match e with EIdent y => bytes_eqb y acc | _ => false end = true -> e = EIdent acc).
    { intros e H. destruct e; try discriminate. apply bytes_eqb_eq in H. subst. reflexivity. }
    unfold macro_of. intro H.
    destruct init; try discriminate.
    - (* constants *)
      destruct k; try discriminate.
      + destruct b.
        * destruct cond; try discriminate. destruct fn; try discriminate. destruct step; try discriminate. destruct fn; try discriminate.
          match type of H with (if ?c then _ else _) = _ => destruct c eqn:E; [|discriminate] end. inversion H; subst m.
          apply andb_true_iff in E as [E E3]. apply andb_true_iff in E as [E1 E2].
          apply A in E1, E2, E3. subst. repeat split; eauto.
        * destruct cond; try discriminate. destruct fn; try discriminate. destruct cond; try discriminate. destruct fn; try discriminate.
          destruct step; try discriminate. destruct fn; try discriminate.
          match type of H with (if ?c then _ else _) = _ => destruct c eqn:E; [|discriminate] end. inversion H; subst m.
          apply andb_true_iff in E as [E E3]. apply andb_true_iff in E as [E1 E2].
          apply A in E1, E2, E3. subst. repeat split; eauto.
      + destruct z; try discriminate. destruct cond; try discriminate. destruct k; try discriminate. destruct b; try discriminate.
        destruct step; try discriminate. destruct fn; try discriminate. destruct step2; try discriminate. destruct fn; try discriminate.
        destruct step2_2; try discriminate. destruct k; try discriminate. destruct z; try discriminate. destruct p; try discriminate.
        destruct res; try discriminate. destruct fn; try discriminate. destruct res2; try discriminate. destruct k; try discriminate.
        destruct z; try discriminate. destruct p; try discriminate.
        match type of H with (if ?c then _ else _) = _ => destruct c eqn:E; [|discriminate] end. inversion H; subst m.
        apply andb_true_iff in E as [E E3]. apply andb_true_iff in E as [E1 E2].
        apply A in E1, E2, E3. subst. repeat split; eauto.
    - (* [] *)
      destruct es; try discriminate. destruct cond; try discriminate. destruct k; try discriminate. destruct b; try discriminate.
      destruct step; try discriminate.
      + (* map: acc + [t] *)
        destruct fn; try discriminate. destruct step2; try discriminate. destruct es as [|t0 [|]]; try discriminate.
        match type of H with (if ?c then _ else _) = _ => destruct c eqn:E; [|discriminate] end. inversion H; subst m.
        apply andb_true_iff in E as [E1 E2]. apply A in E1, E2. subst. repeat split; eauto.
      + (* filter *)
        destruct fn; try discriminate. destruct step2; try discriminate. destruct fn; try discriminate.
        destruct step2_2; try discriminate. destruct es as [|y0 [|? ?]]; try discriminate; try (destruct y0; discriminate). destruct y0; try discriminate.
        match type of H with (if ?c then _ else _) = _ => destruct c eqn:E; [|discriminate] end. inversion H; subst m.
        apply andb_true_iff in E as [E E4]. apply andb_true_iff in E as [E E3]. apply andb_true_iff in E as [E1 E2].
        apply A in E1, E2, E3. apply bytes_eqb_eq in E4. subst. repeat split; eauto.
  Qed.

  Lemma sound_aux : forall n e, (csize e < n)%nat -> forall G t g cenv gvars,
     simple e = true -> cty G e = Some t -> TR e = Some g -> env_ok G cenv gvars -> R t (CE cenv e) (GE gvars g).
  Proof.
    induction n as [|n IH]; [intros; lia|].
    intros e Hsz G t g cenv gvars Hs Hty Htr Henv.
    destruct Henv as [Hf [Hn [Hval [Hthis Hvars]]]].
    assert (Henv : env_ok G cenv gvars) by (repeat split; assumption).
    destruct e; cbn [simple] in Hs; try discriminate.
    - (* EIdent *)
      cbn [cty] in Hty. cbn [tr] in Htr. cbn [ceval].
      destruct (bytes_eqb x s_value) eqn:Ev.
      + inv Htr. rewrite Hn in Hty. destruct (field_R G fname t Hf Hty) as [v [Hv Hr]].
        apply bytes_eqb_eq in Ev. subst x. rewrite Hval, Hv. rewrite go_field_vars, (go_field _ _ Hv).
        apply R_intro. exact Hr.
      + destruct (bytes_eqb x s_this); [discriminate|]. inv Htr.
        destruct (Hvars x t Ev Hty) as [v [w [Hc [Hg Hr]]]]. rewrite Hc. cbn [geval]. rewrite Hg. apply R_intro. exact Hr.
    - (* ESelect *)
      cbn [cty] in Hty. destruct e; try discriminate. destruct test_only; try discriminate.
      destruct (bytes_eqb x s_this) eqn:Et; [|discriminate]. cbn [andb] in Hty.
      destruct (existsb (fun v => bytes_eqb (fst v) s_this) (te_vars G)) eqn:Esh; [discriminate|]. cbn [negb] in Hty.
      apply bytes_eqb_eq in Et. subst x.
      cbn [tr] in Htr. rewrite s_this_not_value, bytes_eqb_refl in Htr. cbn [omap] in Htr. inv Htr.
      destruct (field_R G f t Hf Hty) as [v [Hv Hr]].
      cbn [ceval]. rewrite (Hthis eq_refl). cbn [on1 cselect this_map]. rewrite this_find, Hv. cbn [option_map].
      rewrite go_field_vars, (go_field _ _ Hv). apply R_intro. exact Hr.
    - (* EConst *)
      cbn [tr] in Htr. inv Htr. apply (const_R G). exact Hty.
    - (* ECall1 *)
      cbn [cty] in Hty. destruct (cty G e) as [ta|] eqn:Ea; [|destruct fn; discriminate].
      cbn [tr] in Htr.
      assert (IHa : forall ga, TR e = Some ga -> R ta (CE cenv e) (GE gvars ga)).
      { intros ga Hga. apply (IH e) with (G := G); try assumption. cbn [csize] in Hsz. lia. }
      destruct (TR e) as [ga|] eqn:Eg; [|destruct fn; discriminate].
      specialize (IHa ga eq_refl).
      destruct fn; try discriminate; cbn [omap] in Htr; inv Htr; cbn [ceval].
      + (* FNot *)
        destruct ta; try discriminate. inv Hty.
        destruct (R_bool _ _ IHa) as [b [Hg Hc]].
        cbn [geval]. rewrite paren_eval, Hg. cbn [gbind]. apply (R_bool_intro (negb b)).
        destruct Hc as [-> | ->]; cbn; auto.
      + (* FNeg *)
        destruct IHa as [v0 [w [Hg [Hv Hc]]]]. cbn [geval]. rewrite paren_eval, Hg. cbn [gbind].
        destruct ta; try discriminate.
        * destruct (is64 k && k_signed k) eqn:Ek; [|discriminate]. inv Hty. apply andb_true_iff in Ek as [H6 Hsg].
          destruct Hv as [z [-> [-> Hz]]].
          exists (cint k (wrap k (- z))), (GInt k (wrap k (- z))). split; [reflexivity|]. split; [apply vrel_int_intro, wrap_in_kind|].
          destruct Hc as [-> | ->]; [|right; reflexivity]. cbn [on1]. rewrite !(cint_signed k) by (auto using is64_not_dur). cbn [cneg]. unfold chk_i.
          destruct (in_i64 (- z)) eqn:E; [left; rewrite (chk_signed k) by auto; reflexivity | right; reflexivity].
        * inv Hty. destruct Hv as [b [-> ->]]. exists (VDouble (fneg b)), (GF64 (fneg b)). split; [reflexivity|]. split; [cbn; eauto|].
          destruct Hc as [-> | ->]; [left|right]; reflexivity.
        * destruct unsigned; try discriminate. destruct (in_i64 (- z)) eqn:E; [|discriminate]. inv Hty. destruct Hv as [-> ->].
          exists (VInt (- z)), (GUInt (- z)). split; [reflexivity|]. split; [cbn; auto|].
          destruct Hc as [-> | ->]; [left|right]; cbn; unfold chk_i; rewrite ?E; reflexivity.
      + (* FSize *)
        destruct IHa as [v0 [w [Hg [Hv Hc]]]]. cbn [geval]. rewrite Hg. cbn [gbind].
        destruct ta; try discriminate; inv Hty.
        * destruct Hv as [vs [ws [-> [-> [Hall Hlen]]]]]. cbn [glen].
          exists (VInt (Z.of_nat (length ws))), (GInt IInt (Z.of_nat (length ws))). split; [reflexivity|].
          split; [exists (Z.of_nat (length ws)); auto|].
          pose proof (F2_length _ _ _ Hall) as Hl.
          destruct Hc as [-> | ->]; [left|right]; cbn; rewrite ?Hl; reflexivity.
        * destruct Hv as [vs [ws [-> [-> [Hall Hlen]]]]]. cbn [glen].
          exists (VInt (Z.of_nat (length ws))), (GInt IInt (Z.of_nat (length ws))). split; [reflexivity|].
          split; [exists (Z.of_nat (length ws)); auto|].
          destruct Hc as [-> | ->]; [left|right]; cbn; rewrite ?Hall; reflexivity.
        * destruct Hv as [m [gm [-> [-> [Hall Hlen]]]]]. cbn [glen].
          exists (VInt (Z.of_nat (length gm))), (GInt IInt (Z.of_nat (length gm))). split; [reflexivity|].
          split; [exists (Z.of_nat (length gm)); auto|].
          destruct Hc as [-> | ->]; [left|right]; cbn; rewrite ?Hall; reflexivity.
      + (* FInt *)
        destruct (is_strlike ta) eqn:Es; [|discriminate]. inv Hty.
        destruct (R_str _ _ _ Es IHa) as [s [Hg Hc]]. cbn [geval]. rewrite Hg. cbn [gbind].
        destruct (parse_int s) as [z|] eqn:Ep.
        * exists (VInt z), (GInt IInt z). split; [reflexivity|]. split; [exists z; split; [reflexivity|]; split; [reflexivity|]; rewrite in_kind_IInt; eapply parse_int_range; eassumption|].
          destruct Hc as [-> | ->]; [left|right]; cbn; rewrite ?Ep; reflexivity.
        * exists (VInt 0), (GInt IInt 0). split; [reflexivity|]. split; [exists 0; auto|].
          right. destruct Hc as [-> | ->]; cbn; rewrite ?Ep; reflexivity.
      + (* FString *)
        destruct IHa as [v0 [w [Hg [Hv Hc]]]]. cbn [geval]. rewrite Hg. cbn [gbind].
        destruct ta; try discriminate.
        * destruct (not_dur k) eqn:Ed; [|discriminate]. inv Hty. destruct Hv as [z [-> [-> Hz]]].
          exists (VString (fmt_int z)), (GStr (fmt_int z)). split; [destruct k; try discriminate; reflexivity|]. split; [cbn; eauto|].
          destruct Hc as [-> | ->]; [left|right; reflexivity].
          destruct (cint_cases k z Ed) as [-> | ->]; reflexivity.
        * inv Hty. destruct Hv as [b [-> ->]]. exists (VString (fmt_g b)), (GStr (fmt_g b)). split; [reflexivity|]. split; [cbn; eauto|].
          destruct Hc as [-> | ->]; [left|right]; reflexivity.
        * inv Hty. destruct Hv as [s [-> ->]]. exists (VString s), (GStr s). split; [reflexivity|]. split; [cbn; eauto|].
          destruct Hc as [-> | ->]; [left|right]; reflexivity.
        * inv Hty. destruct Hv as [-> ->]. exists (VString s), (GStr s). split; [reflexivity|]. split; [cbn; eauto|].
          destruct Hc as [-> | ->]; [left|right]; reflexivity.
      + (* FDouble *)
        destruct (is_strlike ta) eqn:Es; [|discriminate]. inv Hty.
        destruct (R_str _ _ _ Es IHa) as [s [Hg Hc]]. cbn [geval]. rewrite Hg. cbn [gbind gsprint].
        destruct (parse_float s) as [b|] eqn:Ep.
        * exists (VDouble b), (GF64 b). split; [reflexivity|]. split; [cbn; eauto|].
          destruct Hc as [-> | ->]; [left|right]; cbn; rewrite ?Ep; reflexivity.
        * exists (VDouble 0), (GF64 0). split; [reflexivity|]. split; [cbn; eauto|].
          right. destruct Hc as [-> | ->]; cbn; rewrite ?Ep; reflexivity.
      + (* FDuration *)
        destruct (is_strlike ta) eqn:Es; [|discriminate]. inv Hty.
        destruct (R_str _ _ _ Es IHa) as [s [Hg Hc]]. cbn [geval]. rewrite Hg. cbn [gbind].
        destruct (parse_dur s) as [z|] eqn:Ep.
        * exists (VDur z), (GInt IDur z). split; [reflexivity|]. split; [exists z; split; [reflexivity|]; split; [reflexivity|]; exact (parse_dur_range _ _ Ep)|].
          destruct Hc as [-> | ->]; [left|right]; cbn; rewrite ?Ep; reflexivity.
        * exists (VDur 0), (GInt IDur 0). split; [reflexivity|]. split; [exists 0; auto|].
          right. destruct Hc as [-> | ->]; cbn; rewrite ?Ep; reflexivity.
    - (* ECall2 *)
      assert (IHa : forall ta ga, simple e1 = true -> cty G e1 = Some ta -> TR e1 = Some ga -> R ta (CE cenv e1) (GE gvars ga)).
      { intros. apply (IH e1) with (G := G); try assumption. cbn [csize] in Hsz. lia. }
      assert (IHb : forall tb gb, simple e2 = true -> cty G e2 = Some tb -> TR e2 = Some gb -> R tb (CE cenv e2) (GE gvars gb)).
      { intros. apply (IH e2) with (G := G); try assumption. cbn [csize] in Hsz. lia. }
      destruct fn; cbn [simple] in Hs; apply andb_true_iff in Hs as [Hsa Hsb];
        try (match goal with |- R _ (CE _ (ECall2 ?f _ _)) _ =>
               apply (binop_case G cenv gvars f e1 e2 t g);
               [cbn; ((left; discriminate) || (right; discriminate)) | intros; apply IHa; assumption | intros; apply IHb; assumption | assumption | assumption]
             end);
        try (cbn [cty cmp_fn arith_fn] in Hty; destruct (cty G e1); try discriminate; destruct (cty G e2); discriminate).
      + (* FAnd *)
        cbn [cty] in Hty. destruct (cty G e1) as [ta|] eqn:Ea; [|discriminate]. destruct ta; try discriminate.
        destruct (cty G e2) as [tb|] eqn:Eb; [|discriminate]. destruct tb; try discriminate. inv Hty.
        cbn [tr] in Htr. destruct (TR e1) as [la|] eqn:El; [|discriminate]. destruct (TR e2) as [rb|] eqn:Er; [|discriminate].
        cbn [obind omap] in Htr. inv Htr.
        apply (logic_case cenv gvars true); [apply IHa | apply IHb]; auto.
      + (* FOr *)
        cbn [cty] in Hty. destruct (cty G e1) as [ta|] eqn:Ea; [|discriminate]. destruct ta; try discriminate.
        destruct (cty G e2) as [tb|] eqn:Eb; [|discriminate]. destruct tb; try discriminate. inv Hty.
        cbn [tr] in Htr. destruct (TR e1) as [la|] eqn:El; [|discriminate]. destruct (TR e2) as [rb|] eqn:Er; [|discriminate].
        cbn [obind omap] in Htr. inv Htr.
        apply (logic_case cenv gvars false); [apply IHa | apply IHb]; auto.
      + (* FIn *)
        assert (Hta : exists ta, cty G e1 = Some ta) by (cbn [cty] in Hty; destruct (cty G e1); [eauto|discriminate]).
        destruct Hta as [ta Hta].
        assert (Htr_eq : TR (ECall2 FIn e1 e2) = obind (TR e1) (fun el => obind (TR e2) (fun coll => tr_in e2 el coll))) by reflexivity.
        assert (Hel : exists el, TR e1 = Some el) by (rewrite Htr_eq in Htr; destruct (TR e1); [eauto|discriminate]).
        destruct Hel as [el Hel].
        destruct (match e2 with EList _ => true | _ => false end) eqn:Elist.
        * (* a literal list *)
          destruct e2; try discriminate.
          match type of Hty with cty G (ECall2 FIn e1 (EList ?l)) = _ => destruct l as [|x r] end;
            [cbn [cty] in Hty; rewrite Hta in Hty; destruct (mentions s_item e1 || _); discriminate|].
          assert (t = SBool).
          { cbn [cty] in Hty. rewrite Hta in Hty. destruct (is_strlike ta); [destruct (forallb _ (x :: r)); congruence|].
            destruct ta; try discriminate; destruct (forallb _ (x :: r)); congruence. }
          subst t.
          eapply in_literal_case; try eassumption. apply IHa; assumption.
        * (* a list-valued expression: slices.Contains or the generic loop *)
          assert (Hnl : match e2 with EList _ => False | _ => True end) by (destruct e2; try exact I; discriminate).
          assert (Hsb' : simple e2 = true) by (destruct e2; try exact Hsb; discriminate).
          rewrite Htr_eq, Hel in Htr. cbn [obind] in Htr. destruct (TR e2) as [coll|] eqn:Ec; [|discriminate]. cbn [obind] in Htr.
          cbn [cty] in Hty. rewrite Hta in Hty. remember (cty G e2) as otb eqn:Eo in Hty.
          assert (Hinv : exists tb, otb = Some (SList tb) /\ in_elem_ok ta tb = true /\ t = SBool /\
                                    existsb (fun xv => item_like (fst xv)) (te_vars G) = false).
          { destruct e2; try discriminate Elist;
              (destruct (mentions s_item e1 || existsb (fun xv => item_like (fst xv)) (te_vars G)) eqn:Eg; [discriminate Hty|];
               apply orb_false_iff in Eg as [_ Esc];
               destruct otb as [[]|]; try discriminate Hty;
               match type of Hty with (if in_elem_ok ta ?tb then _ else _) = _ => destruct (in_elem_ok ta tb) eqn:Eok; [|discriminate Hty]; exists tb end;
               inv Hty; auto). }
          destruct Hinv as [tb [-> [Hok [-> Hsc]]]].
          apply (in_list_case G cenv gvars e1 e2 ta tb el coll g Hnl Hok Hsc Henv Htr).
          -- intros vars' He'. apply (IH e1) with (G := G); try assumption. cbn [csize] in Hsz. lia.
          -- apply IHb; auto.
      + (* FMatches *)
        cbn [cty] in Hty. destruct (cty G e1) as [ta|] eqn:Ea; [|discriminate].
        remember (cty G e2) as otb eqn:Eo.
        destruct (matches_pattern_inv G ta e2 otb t Hty Eo) as (-> & Es & [[p ->] | [Hnc (tb & Eb & Et)]]).
        * cbn [tr tr_const pattern_ok match_node] in Htr. destruct (TR e1) as [gs|] eqn:El; [|discriminate]. cbn [obind] in Htr.
          destruct (re_ok p) eqn:Ep; [|discriminate]. inv Htr.
          apply (matches_case cenv gvars false e1 p gs ta Ep Es). apply IHa; auto.
        * cbn [tr] in Htr. destruct (TR e1) as [gs|] eqn:El; [|discriminate]. cbn [obind] in Htr.
          destruct (TR e2) as [gp|] eqn:Er; [|discriminate]. cbn [obind] in Htr.
          destruct (pattern_ok re_ok e2); [|discriminate]. inv Htr.
          replace (match_node e2 gp gs) with (GMatchSafe gp gs) by (destruct e2; try reflexivity; exfalso; eapply Hnc; reflexivity).
          apply (matches_safe_case cenv gvars false e1 e2 gs gp ta tb Es Et); [apply IHa; auto|apply IHb; auto].
    - (* EMeth1 *)
      apply andb_true_iff in Hs as [Hsa Hsb].
      assert (IHa : forall ta ga, cty G e1 = Some ta -> TR e1 = Some ga -> R ta (CE cenv e1) (GE gvars ga)).
      { intros. apply (IH e1) with (G := G); try assumption. cbn [csize] in Hsz. lia. }
      assert (IHb : forall tb gb, cty G e2 = Some tb -> TR e2 = Some gb -> R tb (CE cenv e2) (GE gvars gb)).
      { intros. apply (IH e2) with (G := G); try assumption. cbn [csize] in Hsz. lia. }
      cbn [cty] in Hty. cbn [tr] in Htr.
      destruct (TR e1) as [gs|] eqn:El; [|discriminate]. cbn [obind] in Htr.
      destruct fn; try discriminate.
      + destruct (cty G e1) as [ts|] eqn:Ea; [|discriminate]. destruct (cty G e2) as [tp|] eqn:Eb; [|discriminate].
        destruct (is_strlike ts && is_strlike tp) eqn:Es; [|discriminate]. apply andb_true_iff in Es as [Es Ep]. inv Hty.
        destruct (TR e2) as [gp|] eqn:Er; [|discriminate]. cbn [omap] in Htr. inv Htr.
        apply (strfn_case cenv gvars FContains SContains e1 e2 gs gp ts tp I Es Ep); auto.
      + destruct (cty G e1) as [ts|] eqn:Ea; [|discriminate].
        remember (cty G e2) as otb eqn:Eo.
        destruct (matches_pattern_inv G ts e2 otb t Hty Eo) as (-> & Es & [[p ->] | [Hnc (tb & Eb & Et)]]).
        * cbn [tr tr_const pattern_ok obind match_node] in Htr. destruct (re_ok p) eqn:Ep; [|discriminate]. inv Htr.
          apply (matches_case cenv gvars true e1 p gs ts Ep Es). auto.
        * destruct (TR e2) as [gp|] eqn:Er; [|discriminate]. cbn [obind] in Htr.
          destruct (pattern_ok re_ok e2); [|discriminate]. inv Htr.
          replace (match_node e2 gp gs) with (GMatchSafe gp gs) by (destruct e2; try reflexivity; exfalso; eapply Hnc; reflexivity).
          apply (matches_safe_case cenv gvars true e1 e2 gs gp ts tb Es Et); auto.
      + destruct (cty G e1) as [ts|] eqn:Ea; [|discriminate]. destruct (cty G e2) as [tp|] eqn:Eb; [|discriminate].
        destruct (is_strlike ts && is_strlike tp) eqn:Es; [|discriminate]. apply andb_true_iff in Es as [Es Ep]. inv Hty.
        destruct (TR e2) as [gp|] eqn:Er; [|discriminate]. cbn [omap] in Htr. inv Htr.
        apply (strfn_case cenv gvars FStartsWith SHasPrefix e1 e2 gs gp ts tp I Es Ep); auto.
      + destruct (cty G e1) as [ts|] eqn:Ea; [|discriminate]. destruct (cty G e2) as [tp|] eqn:Eb; [|discriminate].
        destruct (is_strlike ts && is_strlike tp) eqn:Es; [|discriminate]. apply andb_true_iff in Es as [Es Ep]. inv Hty.
        destruct (TR e2) as [gp|] eqn:Er; [|discriminate]. cbn [omap] in Htr. inv Htr.
        apply (strfn_case cenv gvars FEndsWith SHasSuffix e1 e2 gs gp ts tp I Es Ep); auto.
    - (* ECompr *)
      rename e1 into r, e2 into init, e3 into cond, e4 into step, e5 into res.
      apply andb_true_iff in Hs as [Hsr Hsb].
      cbn [cty] in Hty.
      match type of Hty with (if ?c then _ else _) = _ => destruct c eqn:En; [discriminate|] end.
      repeat (apply orb_false_iff in En as [En ?]).
      assert (Hacc : glookup (te_vars G) accu_var = None) by (destruct (glookup (te_vars G) accu_var); [discriminate|reflexivity]).
      destruct (cty G r) as [tr0|] eqn:Er; [|discriminate]. destruct tr0; try discriminate.
      rename tr0 into te.
      destruct (macro_of iter_var accu_var init cond step res) as [m|] eqn:Em; [|discriminate].
      destruct (mentions accu_var r); [discriminate|].
      destruct (macro_of_spec _ _ _ _ _ _ _ Em) as [Hres Hshape].
      assert (IHr : forall gr, TR r = Some gr -> R (SList te) (CE cenv r) (GE gvars gr)).
      { intros. apply (IH r) with (G := G); try assumption.
        exact (Nat.lt_le_trans _ _ _ (proj1 (csize_compr iter_var r accu_var init cond step res)) (proj1 (Nat.lt_succ_r _ _) Hsz)). }
      assert (Hxa : bytes_eqb iter_var accu_var = false) by assumption.
      assert (Hacc_tr : TR (EIdent accu_var) = Some (GVar accu_var)).
      { cbn [tr]. match goal with H : bytes_eqb accu_var s_value = false |- _ => rewrite H end.
        match goal with H : bytes_eqb accu_var s_this = false |- _ => rewrite H end. reflexivity. }
      (* the translation: range, and the part of the step that is kept *)
      change (TR (ECompr iter_var r accu_var init cond step res)) with
        (obind (TR r) (fun gr => obind (TR init) (fun gi => obind (TR step) (fun gs =>
           tr_compr iter_var step gr gi gs
             (match step with
              | ECall2 FAnd _ c | ECall2 FOr _ c | ECall3 FTernary c _ _ => TR c
              | ECall2 FAdd _ (EList (t :: _)) => TR t
              | _ => None
              end))))) in Htr.
      destruct (TR r) as [gr|] eqn:Egr; [|discriminate]. cbn [obind] in Htr.
      destruct (IHr gr eq_refl) as [v0 [wr [Hgr [[vs [ws [-> [-> [Hall Hlen]]]]] Hcr]]]].
      (* body lemma: under one more binding *)
      assert (Hb : forall body tb gb, (csize body < n)%nat -> simple body = true ->
                   cty (bind_var G iter_var te) body = Some tb -> TR body = Some gb ->
                   forall v w a, vrel te v w ->
                   R tb (CE ((iter_var, CV v) :: (accu_var, a) :: cenv) body) (GE ((iter_var, w) :: gvars) gb)).
      { intros body tb gb Hsize Hsb' Htb Hgb v w a Hvw.
        apply (IH body Hsize) with (G := bind_var G iter_var te); try assumption.
        apply env_ok_bind; assumption. }
      destruct m; destruct Hshape as [-> [-> [body ->]]]; subst res; cbn [simple] in Hsb.
      + (* all *)
        assert (Hbsz : (csize body < n)%nat)
          by exact (lt_chain _ _ _ _ (proj2 (csize_call2 FAnd (EIdent accu_var) body)) (proj2 (csize_compr _ _ _ _ _ _ _)) Hsz).
        destruct (cty (bind_var G iter_var te) body) as [tb|] eqn:Etb; [|discriminate]. destruct tb; try discriminate. inv Hty.
        cbn [tr tr_const obind] in Htr.
        repeat match goal with H : bytes_eqb accu_var _ = false |- _ => rewrite H in Htr end. cbn [obind] in Htr.
        destruct (TR body) as [gb|] eqn:Egb; [|discriminate]. cbn [obind omap tr_compr] in Htr. inv Htr.
        assert (Hbody := Hb body SBool gb Hbsz Hsb Etb Egb).
        destruct (all_loop iter_var accu_var body gb te cenv gvars Hxa Hbody vs ws Hall TT) as [rb [aN [Hgo [Hfold Hm]]]].
        rewrite (gall_eval gvars iter_var gr gb ws Hgr), Hgo. apply R_bool_intro.
        destruct Hcr as [Hcr | Hcr].
        * rewrite (compr_eval cenv iter_var r accu_var (EConst (KBool true)) _ _ _ vs (CV (VBool true)) Hcr eq_refl). cbn [tri_res] in Hfold. rewrite Hfold.
          cbn [ceval clookup]. rewrite bytes_eqb_refl. destruct Hm as [-> | ->]; auto.
        * right. cbn [ceval]. rewrite Hcr. reflexivity.
      + (* exists *)
        assert (Hbsz : (csize body < n)%nat)
          by exact (lt_chain _ _ _ _ (proj2 (csize_call2 FOr (EIdent accu_var) body)) (proj2 (csize_compr _ _ _ _ _ _ _)) Hsz).
        destruct (cty (bind_var G iter_var te) body) as [tb|] eqn:Etb; [|discriminate]. destruct tb; try discriminate. inv Hty.
        cbn [tr tr_const obind] in Htr.
        repeat match goal with H : bytes_eqb accu_var _ = false |- _ => rewrite H in Htr end. cbn [obind] in Htr.
        destruct (TR body) as [gb|] eqn:Egb; [|discriminate]. cbn [obind omap tr_compr] in Htr. inv Htr.
        assert (Hbody := Hb body SBool gb Hbsz Hsb Etb Egb).
        destruct (exists_loop iter_var accu_var body gb te cenv gvars Hxa Hbody vs ws Hall TF) as [rb [aN [Hgo [Hfold Hm]]]].
        rewrite (gexists_eval gvars iter_var gr gb ws Hgr), Hgo. apply R_bool_intro.
        destruct Hcr as [Hcr | Hcr].
        * rewrite (compr_eval cenv iter_var r accu_var (EConst (KBool false)) _ _ _ vs (CV (VBool false)) Hcr eq_refl). cbn [tri_res] in Hfold. rewrite Hfold.
          cbn [ceval clookup]. rewrite bytes_eqb_refl. destruct Hm as [-> | ->]; auto.
        * right. cbn [ceval]. rewrite Hcr. reflexivity.
      + (* exists_one *)
        assert (Hbsz : (csize body < n)%nat)
          by exact (lt_chain _ _ _ _ (csize_call3 FTernary body _ _) (proj2 (csize_compr _ _ _ _ _ _ _)) Hsz).
        destruct (cty (bind_var G iter_var te) body) as [tb|] eqn:Etb; [|discriminate]. destruct tb; try discriminate. inv Hty.
        cbn [tr tr_const obind bin_of] in Htr.
        repeat match goal with H : bytes_eqb accu_var _ = false |- _ => rewrite H in Htr end. cbn [obind omap] in Htr.
        destruct (TR body) as [gb|] eqn:Egb; [|discriminate]. cbn [obind omap tr_compr has_iface] in Htr. inv Htr.
        assert (Hbody := Hb body SBool gb Hbsz Hsb Etb Egb).
        destruct (exists_one_loop iter_var accu_var body gb te cenv gvars Hxa Hbody vs ws Hall 0 (CV (VInt 0)) (or_introl eq_refl)) as [rb [aN [Hgo [Hfold Hm]]]].
        rewrite (gexists_one_eval gvars iter_var gr gb ws Hgr), Hgo. apply R_bool_intro.
        destruct Hcr as [Hcr | Hcr].
        * rewrite (compr_eval cenv iter_var r accu_var (EConst (KInt 0)) _ _ _ vs (CV (VInt 0)) Hcr eq_refl). rewrite Hfold.
          cbn [ceval clookup const_val]. rewrite bytes_eqb_refl.
          destruct Hm as [-> | [m [-> ->]]]; [right; reflexivity|left].
          unfold ccmp. rewrite cequal_int. reflexivity.
        * right. cbn [ceval]. rewrite Hcr. reflexivity.
      + (* filter *)
        assert (Hbsz : (csize body < n)%nat)
          by exact (lt_chain _ _ _ _ (csize_call3 FTernary body _ _) (proj2 (csize_compr _ _ _ _ _ _ _)) Hsz).
        destruct (cty (bind_var G iter_var te) body) as [tb|] eqn:Etb; [|discriminate]. destruct tb; try discriminate. inv Hty.
        cbn [tr tr_const obind bin_of] in Htr.
        repeat match goal with H : bytes_eqb accu_var _ = false |- _ => rewrite H in Htr end.
        repeat match goal with H : bytes_eqb iter_var _ = false |- _ => rewrite H in Htr end. cbn [obind omap] in Htr.
        destruct (TR body) as [gb|] eqn:Egb; [|discriminate]. cbn [obind omap tr_compr has_iface has_tern orb] in Htr. inv Htr.
        assert (Hbody := Hb body SBool gb Hbsz Hsb Etb Egb).
        destruct (filter_loop iter_var accu_var body gb te cenv gvars Hxa Hbody vs ws Hall [] (CV (VList [])))
          as [ws' [aN [Hgo [Hfold [Hm Hnn]]]]]; [left; exists []; auto|].
        rewrite (gfilter_eval gvars iter_var gr gb ws Hgr), Hgo.
        assert (Hb64 : in_i64 (Z.of_nat (length ws')) = true).
        { clear -Hlen Hnn. apply in_i64_spec. apply in_i64_spec in Hlen. cbn [length] in Hnn. lia. }
        destruct Hcr as [Hcr | Hcr].
        * rewrite (compr_eval cenv iter_var r accu_var (EList []) _ _ _ vs (CV (VList [])) Hcr eq_refl). rewrite Hfold.
          cbn [ceval clookup]. rewrite bytes_eqb_refl.
          destruct Hm as [-> | [l' [-> Hl']]].
          -- exists (VList (map (fun _ => VNull) ws')), (GIface ws'). split; [reflexivity|]. split; [|right; reflexivity].
             exists (map (fun _ => VNull) ws'), ws'. rewrite map_length. auto.
          -- exists (VList l'), (GIface ws'). split; [reflexivity|]. split; [|left; reflexivity]. exists l', ws'. auto.
        * exists (VList (map (fun _ => VNull) ws')), (GIface ws'). split; [reflexivity|]. split.
          -- exists (map (fun _ => VNull) ws'), ws'. rewrite map_length. auto.
          -- right. cbn [ceval]. rewrite Hcr. reflexivity.
      + (* map *)
        assert (Hbsz : (csize body < n)%nat)
          by exact (lt_chain4 _ _ _ _ _ (csize_list1 body) (proj2 (csize_call2 FAdd (EIdent accu_var) (EList [body]))) (proj2 (csize_compr _ _ _ _ _ _ _)) Hsz).
        apply andb_true_iff in Hsb as [Hsb Hnt].
        destruct (cty (bind_var G iter_var te) body) as [tb|] eqn:Etb; [|discriminate].
        assert (Hbox : boxable tb = true /\ t = SIfaces).
        { destruct tb; try discriminate; try (inv Hty; split; reflexivity).
          destruct (in_kind IInt z) eqn:Ez; [|discriminate]. inv Hty. split; [exact Ez|reflexivity]. }
        destruct Hbox as [Hbox ->]. clear Hty.
        destruct (TR body) as [gb|] eqn:Egb; [|discriminate].
        cbn [tr tr_const obind bin_of] in Htr.
        repeat match goal with H : bytes_eqb accu_var _ = false |- _ => rewrite H in Htr end. rewrite Egb in Htr. cbn [obind omap] in Htr.
        unfold operand_of in Htr. cbn [go_prec call_fn Nat.eqb] in Htr. cbn [tr_compr has_iface has_tern orb] in Htr.
        destruct (has_tern gb) eqn:Eht; [discriminate|]. cbn [orb omap] in Htr. inv Htr.
        assert (Hbody := Hb body tb gb Hbsz Hsb Etb Egb).
        destruct (map_loop iter_var accu_var body gb te tb cenv gvars Hxa Hbox Hbody vs ws Hall [] (CV (VList [])))
          as [ws' [aN [Hgo [Hfold [Hm Hnn]]]]]; [left; exists []; auto|].
        rewrite (gmap_eval gvars iter_var gr gb ws Hgr), Hgo.
        assert (Hb64 : in_i64 (Z.of_nat (length ws')) = true).
        { clear -Hlen Hnn. apply in_i64_spec. apply in_i64_spec in Hlen. cbn [length] in Hnn. lia. }
        destruct Hcr as [Hcr | Hcr].
        * rewrite (compr_eval cenv iter_var r accu_var (EList []) _ _ _ vs (CV (VList [])) Hcr eq_refl). rewrite Hfold.
          cbn [ceval clookup]. rewrite bytes_eqb_refl.
          destruct Hm as [-> | [l' [-> Hl']]].
          -- exists (VList (map (fun _ => VNull) ws')), (GIface ws'). split; [reflexivity|]. split; [|right; reflexivity].
             exists (map (fun _ => VNull) ws'), ws'. rewrite map_length. auto.
          -- exists (VList l'), (GIface ws'). split; [reflexivity|]. split; [|left; reflexivity]. exists l', ws'. auto.
        * exists (VList (map (fun _ => VNull) ws')), (GIface ws'). split; [reflexivity|]. split.
          -- exists (map (fun _ => VNull) ws'), ws'. rewrite map_length. auto.
          -- right. cbn [ceval]. rewrite Hcr. reflexivity.
  Qed.

  Definition G0 : tenv := {| te_fields := fts; te_fname := fname; te_vars := [] |}.

  Lemma env0_ok : env_ok G0 (cel_env fname rho) [].
  Proof.
    unfold env_ok, G0, cel_env. cbn [te_fields te_fname te_vars clookup].
    rewrite bytes_eqb_refl. change (bytes_eqb s_value s_this) with false. rewrite bytes_eqb_refl.
    repeat split; try reflexivity. intros x t _ H. discriminate.
  Qed.

  (* the fragment covered by the proof so far *)
  Definition proved_fragment (e : cexpr) : bool := in_fragment fts fname e && simple e.

  (* For every struct value of the declared field types: the emitted condition `!(g)` evaluates to a boolean
     (no panic, no type error), and whenever cel-go yields a boolean b it is the negation of b: the CEL error is
     reported iff the expression is false. *)
  Theorem translation_sound e g :
    proved_fragment e = true -> TR e = Some g ->
    exists r, GE [] (GNot (paren g)) = GV (GBool r) /\
              (forall b, CE (cel_env fname rho) e = Some (CV (VBool b)) -> r = negb b).
  Proof.
    intros Hf Htr. apply andb_true_iff in Hf as [Hf Hs]. unfold in_fragment in Hf.
    destruct (cty {| te_fields := fts; te_fname := fname; te_vars := [] |} e) as [t|] eqn:Ht; [|discriminate].
    destruct t; try discriminate.
    pose proof (sound_aux (S (csize e)) e (Nat.lt_succ_diag_r _) G0 SBool g (cel_env fname rho) [] Hs Ht Htr env0_ok) as HR.
    destruct (R_bool _ _ HR) as [x [Hg Hc]].
    exists (negb x). split.
    - cbn [geval]. rewrite paren_eval, Hg. reflexivity.
    - intros b Hb. destruct Hc as [Hc | Hc]; rewrite Hc in Hb; [inv Hb; reflexivity | discriminate].
  Qed.
End Sound.

(* the statement about the generator's output: the condition emitted for a cel marker *)
Theorem cel_condition_sound re_match parse_float fmt_g parse_dur re_ok fts fname rho src e cond :
  (forall p, re_ok p = true -> forall s, re_match p s <> None) ->
  (forall s z, parse_dur s = Some z -> in_i64 z = true) ->
  struct_ok fts rho = true ->
  proved_fragment re_ok fts fname e = true ->
  cel_condition fname re_ok src (Some e) = Some cond ->
  exists r, geval re_match parse_float fmt_g parse_dur (go_fields rho) [] cond = GV (GBool r) /\
            (forall b, ceval re_match parse_float fmt_g parse_dur (cel_env fname rho) e = Some (CV (VBool b)) -> r = negb b).
Proof.
  intros Hre Hdur Hrho Hf Hc. unfold cel_condition in Hc.
  destruct (prefilter_rejects src); [discriminate|].
  destruct (tr fname re_ok e) as [g|] eqn:Htr; [|discriminate]. cbn [omap] in Hc. inversion Hc; subst cond.
  eapply translation_sound; eassumption.
Qed.
