(* Struct values of the corpus, and their two views: what cel-go is given (value, this) and what the
   generated Go code reads (the receiver t). *)
From GV Require Import Base.Bytes Base.GoFloat Cel.Syntax Cel.CelSem Cel.GoSem Cel.Translate.
Local Open Scope Z_scope.

Inductive fty := TInt (k : ikind) | TF64 | TStr | TBool | TStrs | TInts (k : ikind) | TMapSI (k : ikind).

Inductive fval :=
| XInt (k : ikind) (z : Z) | XF64 (bits : Z) | XStr (s : bytes) | XBool (b : bool)
| XStrs (l : list bytes) | XInts (k : ikind) (l : list Z) | XMapSI (k : ikind) (kvs : list (bytes * Z)).

Definition cint (k : ikind) (z : Z) : cval :=
  match k with IDur => VDur z | _ => if k_signed k then VInt z else VUint z end.

Definition cval_of (v : fval) : cval :=
  match v with
  | XInt k z => cint k z
  | XF64 b => VDouble b
  | XStr s => VString s
  | XBool b => VBool b
  | XStrs l => VList (map VString l)
  | XInts k l => VList (map (cint k) l)
  | XMapSI k kvs => VMap (map (fun kv => (VString (fst kv), cint k (snd kv))) kvs)
  end.

Definition gval_of (v : fval) : gval :=
  match v with
  | XInt k z => GInt k z
  | XF64 b => GF64 b
  | XStr s => GStr s
  | XBool b => GBool b
  | XStrs l => GSlice (map GStr l)
  | XInts k l => GSlice (map (GInt k) l)
  | XMapSI k kvs => GMap (map (fun kv => (GStr (fst kv), GInt k (snd kv))) kvs)
  end.

Definition has_fty (t : fty) (v : fval) : bool :=
  match t, v with
  | TInt k, XInt k' z => ikind_eqb k k' && in_kind k z
  | TF64, XF64 _ | TStr, XStr _ | TBool, XBool _ => true
  | TStrs, XStrs l => in_i64 (Z.of_nat (length l))
  | TInts k, XInts k' l => ikind_eqb k k' && forallb (in_kind k) l && in_i64 (Z.of_nat (length l))
  | TMapSI k, XMapSI k' kvs => ikind_eqb k k' && forallb (fun kv => in_kind k (snd kv)) kvs && in_i64 (Z.of_nat (length kvs))
  | _, _ => false
  end.

Definition struct_val := list (ident * fval).

Fixpoint struct_ok (ts : list (ident * fty)) (rho : struct_val) : bool :=
  match ts, rho with
  | [], [] => true
  | (n, t) :: ts', (m, v) :: rho' => bytes_eqb n m && has_fty t v && struct_ok ts' rho'
  | _, _ => false
  end.

(* the bindings of the reference evaluation: value = the marked field, this = the struct *)
Definition cel_env (fname : ident) (rho : struct_val) : cenv :=
  let this := VMap (map (fun nv => (VString (fst nv), cval_of (snd nv))) rho) in
  [(s_value, match glookup rho fname with Some v => CV (cval_of v) | None => CErr end); (s_this, CV this)].

Definition go_fields (rho : struct_val) : list (ident * gval) := map (fun nv => (fst nv, gval_of (snd nv))) rho.
