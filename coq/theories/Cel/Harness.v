(* What the per-run files of C10 evaluate: one [celcase] per corpus expression, written by
   `genharness celcoq` from cel-go's AST, the emitted Go condition and the observations of the compiled
   validator and of cel-go on every binding. *)
From GV Require Import Base.Bytes Base.StrOps Base.GoFloat Cel.Syntax Cel.CelSem Cel.GoSem Cel.Translate Cel.Env Cel.Typing Cel.SoundBase Cel.Sound.
Local Open Scope Z_scope.

Inductive gobs := GoPass | GoFail | GoPanic | GoOther.
Inductive cobs := CelTrue | CelFalse | CelErr | CelNonBool | CelNoCompile.

Record celcase := {
  cc_src : bytes;                               (* the marker's expression text *)
  cc_fname : ident;
  cc_fields : list (ident * fty);
  cc_ast : option cexpr;                        (* cel-go's AST; None: cel-go rejects the expression *)
  cc_generated : bool;                          (* govalid wrote a validator file *)
  cc_real : option gexpr;                       (* go/parser's view of the emitted condition *)
  cc_durs : list (bytes * option Z);            (* time.ParseDuration on the string constants *)
  cc_res : list (bytes * bool);                 (* regexp.Compile succeeds, on the string constants *)
  cc_rows : list (struct_val * gobs * cobs)     (* binding, compiled validator, cel-go *)
}.

(* executable stand-ins for the oracles: regexps and float text are not evaluated in Coq *)
Definition no_re (_ _ : bytes) : option bool := None.
Definition no_pf (_ : bytes) : option Z := None.
Definition no_fg (_ : Z) : bytes := [].
Definition dur_of (tab : list (bytes * option Z)) (s : bytes) : option Z :=
  match glookup tab s with Some r => r | None => None end.

(* does evaluating the expression consult an oracle that has no executable stand-in? *)
Fixpoint uses_text_oracle (e : cexpr) : bool :=
  let fix any (l : list cexpr) : bool := match l with [] => false | y :: r => uses_text_oracle y || any r end in
  match e with
  | ECall1 (FDouble | FString) a => true
  | ECall2 FMatches _ _ | EMeth1 FMatches _ _ => true
  | EIdent _ | EConst _ | EStruct | EOther => false
  | ESelect a _ _ | ECall1 _ a | EMeth0 _ a => uses_text_oracle a
  | ECall2 _ a b | EMeth1 _ a b => uses_text_oracle a || uses_text_oracle b
  | ECall3 _ a b c => uses_text_oracle a || uses_text_oracle b || uses_text_oracle c
  | EList l => any l
  | ECompr _ r _ i c s res => uses_text_oracle r || uses_text_oracle i || uses_text_oracle c || uses_text_oracle s || uses_text_oracle res
  end.
(* string(int) and string(string) are evaluated exactly; only string(double) needs the float printer *)
Fixpoint uses_float_text (G : tenv) (e : cexpr) : bool :=
  let fix any (l : list cexpr) : bool := match l with [] => false | y :: r => uses_float_text G y || any r end in
  match e with
  | ECall1 FDouble _ => true
  | ECall1 FString a => match cty G a with Some (SInt _) | Some SStr | Some (SKStr _) => uses_float_text G a | _ => true end
  | ECall2 FMatches _ _ | EMeth1 FMatches _ _ => true
  | EIdent _ | EConst _ | EStruct | EOther => false
  | ESelect a _ _ | ECall1 _ a | EMeth0 _ a => uses_float_text G a
  | ECall2 _ a b | EMeth1 _ a b => uses_float_text G a || uses_float_text G b
  | ECall3 _ a b c => uses_float_text G a || uses_float_text G b || uses_float_text G c
  | EList l => any l
  | ECompr _ r _ i c s res => uses_float_text G r || uses_float_text G i || uses_float_text G c || uses_float_text G s || uses_float_text G res
  end.

Definition cel_model (c : celcase) (rho : struct_val) : option cobs :=
  match cc_ast c with
  | None => Some CelNoCompile
  | Some e =>
      match ceval no_re no_pf no_fg (dur_of (cc_durs c)) (cel_env (cc_fname c) rho) e with
      | Some (CV (VBool true)) => Some CelTrue
      | Some (CV (VBool false)) => Some CelFalse
      | Some (CV _) => Some CelNonBool
      | Some CErr => Some CelErr
      | None => None
      end
  end.

Definition go_model (c : celcase) (g : gexpr) (rho : struct_val) : option gobs :=
  match geval no_re no_pf no_fg (dur_of (cc_durs c)) (go_fields rho) [] g with
  | GV (GBool true) => Some GoFail             (* the condition of the if statement holds: the CEL error is reported *)
  | GV (GBool false) => Some GoPass
  | GPanic => Some GoPanic
  | _ => None
  end.

Definition gobs_eqb (a b : gobs) : bool :=
  match a, b with GoPass, GoPass | GoFail, GoFail | GoPanic, GoPanic | GoOther, GoOther => true | _, _ => false end.
Definition cobs_eqb (a b : cobs) : bool :=
  match a, b with
  | CelTrue, CelTrue | CelFalse, CelFalse | CelErr, CelErr | CelNonBool, CelNonBool | CelNoCompile, CelNoCompile => true
  | _, _ => false
  end.

Fixpoint indices_where {A} (f : A -> bool) (l : list A) (i : nat) : list nat :=
  match l with
  | [] => []
  | x :: r => if f x then i :: indices_where f r (S i) else indices_where f r (S i)
  end.

Record celreport := {
  cr_model_generates : bool;        (* the generator model produces a condition *)
  cr_cert : bool;                   (* emitted condition = model's condition *)
  cr_fragment : bool;               (* the expression is in the proved fragment *)
  cr_structs_ok : bool;             (* every binding is a well-typed struct value *)
  cr_cel_evaluated : nat;           (* bindings on which the reference model was compared with cel-go *)
  cr_cel_mismatch : list nat;
  cr_go_evaluated : nat;
  cr_go_mismatch : list nat;
  cr_spec_violation : list nat      (* cel-go yields a boolean and the compiled validator disagrees *)
}.

Definition check_case (c : celcase) : celreport :=
  let re_ok p := match glookup (cc_res c) p with Some b => b | None => true end in
  let model := cel_condition (cc_fname c) re_ok (cc_src c) (cc_ast c) in
  let G := {| te_fields := cc_fields c; te_fname := cc_fname c; te_vars := [] |} in
  let exec_ok := match cc_ast c with Some e => negb (uses_float_text G e) | None => true end in
  let celm := indices_where (fun row => match row with (rho, _, co) =>
                 match cel_model c rho with Some m => negb (cobs_eqb m co) | None => false end end) (cc_rows c) 0 in
  let celn := length (filter (fun row => match row with (rho, _, _) =>
                 match cel_model c rho with Some _ => true | None => false end end) (cc_rows c)) in
  let gom := match cc_real c with
             | Some g => indices_where (fun row => match row with (rho, go, _) =>
                 match go_model c g rho with Some m => negb (gobs_eqb m go) | None => false end end) (cc_rows c) 0
             | None => []
             end in
  let gon := match cc_real c with
             | Some g => length (filter (fun row => match row with (rho, _, _) =>
                 match go_model c g rho with Some _ => true | None => false end end) (cc_rows c))
             | None => O
             end in
  {| cr_model_generates := match model with Some _ => true | None => false end;
     cr_cert := opt_gexpr_eqb (cc_real c) model;
     cr_fragment := match cc_ast c with Some e => proved_fragment re_ok (cc_fields c) (cc_fname c) e | None => false end;
     cr_structs_ok := forallb (fun row => match row with (rho, _, _) => struct_ok (cc_fields c) rho end) (cc_rows c);
     cr_cel_evaluated := if exec_ok then celn else O;
     cr_cel_mismatch := if exec_ok then celm else [];
     cr_go_evaluated := if exec_ok then gon else O;
     cr_go_mismatch := if exec_ok then gom else [];
     cr_spec_violation := indices_where (fun row => match row with (_, go, co) =>
                 match co, go with
                 | CelTrue, GoPass | CelFalse, GoFail => false
                 | CelTrue, _ | CelFalse, _ => true
                 | _, _ => false
                 end end) (cc_rows c) 0 |}.

Definition b2n' (b : bool) : nat := if b then 1%nat else 0%nat.
(* flat, easily parsed rendering *)
Definition report_row (i : nat) (r : celreport) :=
  (i, [b2n' (cr_model_generates r); b2n' (cr_cert r); b2n' (cr_fragment r); b2n' (cr_structs_ok r); cr_cel_evaluated r; cr_go_evaluated r],
   cr_cel_mismatch r, cr_go_mismatch r, cr_spec_violation r).

(* ---------- the theorem about the code that was actually emitted ---------- *)
Definition case_re_ok (c : celcase) (p : bytes) : bool := match glookup (cc_res c) p with Some b => b | None => true end.

(* If the kernel accepts the certificate of a corpus expression (emitted condition = model's condition) and the
   expression lies in the proved fragment, then for EVERY struct value of the declared field types the emitted
   condition evaluates to a boolean, and it is the negation of cel-go's verdict whenever cel-go yields one. *)
Theorem case_sound (c : celcase) re_match parse_float fmt_g parse_dur :
  (forall p, case_re_ok c p = true -> forall s, re_match p s <> None) ->
  (forall s z, parse_dur s = Some z -> in_i64 z = true) ->
  cr_cert (check_case c) = true -> cr_fragment (check_case c) = true ->
  exists e cond, cc_ast c = Some e /\ cc_real c = Some cond /\
    forall rho, struct_ok (cc_fields c) rho = true ->
    exists r, geval re_match parse_float fmt_g parse_dur (go_fields rho) [] cond = GV (GBool r) /\
              (forall b, ceval re_match parse_float fmt_g parse_dur (cel_env (cc_fname c) rho) e = Some (CV (VBool b)) -> r = negb b).
Proof.
  intros Hre Hdur Hcert Hfrag. unfold check_case in Hcert, Hfrag. cbv zeta in Hcert, Hfrag. cbn [cr_cert cr_fragment] in Hcert, Hfrag.
  destruct (cc_ast c) as [e|] eqn:Ea; [|discriminate Hfrag].
  unfold opt_gexpr_eqb in Hcert. destruct (cc_real c) as [cond|] eqn:Er; [|cbn in Hcert; discriminate Hcert].
  change (match cel_condition (cc_fname c) (case_re_ok c) (cc_src c) (Some e) with Some y => gexpr_eqb cond y | None => false end = true) in Hcert.
  change (proved_fragment (case_re_ok c) (cc_fields c) (cc_fname c) e = true) in Hfrag.
  destruct (cel_condition (cc_fname c) (case_re_ok c) (cc_src c) (Some e)) as [m|] eqn:Em; [|cbn in Hcert; discriminate Hcert].
  apply gexpr_eqb_eq in Hcert. subst m.
  exists e, cond. split; [reflexivity|]. split; [reflexivity|]. intros rho Hrho.
  eapply cel_condition_sound; eassumption.
Qed.
