(* Semantics of the Go expressions emitted for CEL markers.  Values carry their Go type (integer kind),
   integer arithmetic wraps at the width of the kind, untyped constants convert to the type of the
   other operand (not representable = the file does not compile = GStuck), division by zero panics. *)
From GV Require Import Base.Bytes Base.Utf8 Base.StrOps Base.GoFloat Cel.Syntax Cel.CelSem.
Local Open Scope Z_scope.

Inductive gval :=
| GInt (k : ikind) (z : Z)
| GF64 (bits : Z)
| GStr (s : bytes)
| GBool (b : bool)
| GUInt (z : Z)                     (* untyped integer constant *)
| GUFloat (bits : Z)                (* untyped floating-point constant (its float64 value) *)
| GSlice (l : list gval)            (* []T, T not an interface *)
| GIface (l : list gval)            (* []interface{}: elements are boxed values *)
| GBoxed (v : gval)                 (* a value of type interface{} *)
| GMap (kvs : list (gval * gval))
| GStructV (fs : list (ident * gval))
| GNilV.

Inductive gres := GV (v : gval) | GPanic | GStuck.

Definition k_bits (k : ikind) : Z :=
  match k with I8 | U8 => 8 | I16 | U16 => 16 | I32 | U32 => 32 | _ => 64 end.
Definition k_signed (k : ikind) : bool :=
  match k with I8 | I16 | I32 | I64 | IInt | IDur => true | _ => false end.
Definition k_min (k : ikind) : Z := if k_signed k then - 2 ^ (k_bits k - 1) else 0.
Definition k_max (k : ikind) : Z := if k_signed k then 2 ^ (k_bits k - 1) - 1 else 2 ^ k_bits k - 1.
Definition in_kind (k : ikind) (z : Z) : bool := (k_min k <=? z) && (z <=? k_max k).
Definition wrap (k : ikind) (z : Z) : Z :=
  if k_signed k then (z + 2 ^ (k_bits k - 1)) mod 2 ^ k_bits k - 2 ^ (k_bits k - 1)
  else z mod 2 ^ k_bits k.

Definition ikind_eqb (a b : ikind) : bool :=
  match a, b with
  | I8, I8 | I16, I16 | I32, I32 | I64, I64 | IInt, IInt | U8, U8 | U16, U16 | U32, U32 | U64, U64 | UInt, UInt | IDur, IDur => true
  | _, _ => false
  end.

(* integral value of a float64, if it has one *)
Definition dbl_int (bits : Z) : option Z :=
  match f64 bits with
  | Flocq.IEEE754.Binary.B754_zero _ _ _ => Some 0
  | Flocq.IEEE754.Binary.B754_finite _ _ s m e _ =>
      let mag := if 0 <=? e then Some (Z.pos m * 2 ^ e)
                 else if (Z.pos m mod 2 ^ (- e)) =? 0 then Some (Z.pos m / 2 ^ (- e)) else None in
      match mag with Some v => Some (if s then - v else v) | None => None end
  | _ => None
  end.

(* the default type of an untyped constant (assignment to interface{}, := ) *)
Definition default_type (v : gval) : gval :=
  match v with GUInt z => if in_kind IInt z then GInt IInt z else GNilV | GUFloat b => GF64 b | _ => v end.

(* operands of a binary operator after the implicit conversion of untyped constants *)
Inductive pair_ty :=
| PInts (k : ikind) (x y : Z) | PFloats (x y : Z) | PStrs (x y : bytes) | PBools (x y : bool)
| PConsts (x y : Z) | PBad.

Definition unify (a b : gval) : pair_ty :=
  match a, b with
  | GInt k x, GInt k' y => if ikind_eqb k k' then PInts k x y else PBad
  | GInt k x, GUInt z => if in_kind k z then PInts k x z else PBad
  | GUInt z, GInt k y => if in_kind k z then PInts k z y else PBad
  | GInt k x, GUFloat f => match dbl_int f with Some z => if in_kind k z then PInts k x z else PBad | None => PBad end
  | GUFloat f, GInt k y => match dbl_int f with Some z => if in_kind k z then PInts k z y else PBad | None => PBad end
  | GF64 x, GF64 y => PFloats x y
  | GF64 x, GUInt z => PFloats x (z2f z)
  | GUInt z, GF64 y => PFloats (z2f z) y
  | GF64 x, GUFloat y => PFloats x y
  | GUFloat x, GF64 y => PFloats x y
  | GStr x, GStr y => PStrs x y
  | GBool x, GBool y => PBools x y
  | GUInt x, GUInt y => PConsts x y
  | _, _ => PBad
  end.

Definition cmp_of (op : gbin) : option cmpop :=
  match op with
  | BEq => Some OpEq | BNe => Some OpNe | BLt => Some OpLt | BLe => Some OpLe | BGt => Some OpGt | BGe => Some OpGe
  | _ => None
  end.

(* == between an interface value and a concrete one, or two concrete ones *)
Definition same_dyn (a b : gval) : option bool :=
  match a, b with
  | GInt k x, GInt k' y => Some (ikind_eqb k k' && (x =? y))
  | GF64 x, GF64 y => Some (fcmp64 OpEq x y)
  | GStr x, GStr y => Some (bytes_eqb x y)
  | GBool x, GBool y => Some (Bool.eqb x y)
  | GInt _ _, _ | GF64 _, _ | GStr _, _ | GBool _, _ =>
      match b with GInt _ _ | GF64 _ | GStr _ | GBool _ => Some false | _ => None end
  | _, _ => None
  end.

Definition gbinop (op : gbin) (a b : gval) : gres :=
  match a, b with
  | GBoxed x, GBoxed y =>
      match op, same_dyn x y with
      | BEq, Some r => GV (GBool r) | BNe, Some r => GV (GBool (negb r)) | _, _ => GStuck
      end
  | GBoxed x, y | y, GBoxed x =>
      match default_type y with
      | GNilV => GStuck
      | y' => match op, same_dyn x y' with
              | BEq, Some r => GV (GBool r) | BNe, Some r => GV (GBool (negb r)) | _, _ => GStuck
              end
      end
  | _, _ =>
  match unify a b with
  | PInts k x y =>
      match op with
      | BAdd => GV (GInt k (wrap k (x + y)))
      | BSub => GV (GInt k (wrap k (x - y)))
      | BMul => GV (GInt k (wrap k (x * y)))
      | BDiv => if y =? 0 then GPanic else GV (GInt k (wrap k (Z.quot x y)))
      | BRem => if y =? 0 then GPanic else GV (GInt k (wrap k (Z.rem x y)))
      | BAnd | BOr => GStuck
      | _ => match cmp_of op with Some c => GV (GBool (zcmp c x y)) | None => GStuck end
      end
  | PFloats x y =>
      match op with
      | BAdd => GV (GF64 (fop FAddOp x y))
      | BSub => GV (GF64 (fop FSubOp x y))
      | BMul => GV (GF64 (fop FMulOp x y))
      | BDiv => GV (GF64 (fop FDivOp x y))
      | BRem | BAnd | BOr => GStuck
      | _ => match cmp_of op with Some c => GV (GBool (fcmp64 c x y)) | None => GStuck end
      end
  | PStrs x y =>
      match op with
      | BAdd => GV (GStr (x ++ y))
      | _ => match cmp_of op with Some c => GV (GBool (of_cmp3 c (bytes_cmp x y))) | None => GStuck end
      end
  | PBools x y =>
      match op with
      | BEq => GV (GBool (Bool.eqb x y))
      | BNe => GV (GBool (negb (Bool.eqb x y)))
      | BAnd => GV (GBool (x && y))
      | BOr => GV (GBool (x || y))
      | _ => GStuck
      end
  | PConsts x y =>
      match op with
      | BAdd => GV (GUInt (x + y))
      | BSub => GV (GUInt (x - y))
      | BMul => GV (GUInt (x * y))
      | BDiv => if y =? 0 then GStuck else GV (GUInt (Z.quot x y))
      | BRem => if y =? 0 then GStuck else GV (GUInt (Z.rem x y))
      | BAnd | BOr => GStuck
      | _ => match cmp_of op with Some c => GV (GBool (zcmp c x y)) | None => GStuck end
      end
  | PBad => GStuck
  end
  end.

Fixpoint glookup {A} (l : list (ident * A)) (x : ident) : option A :=
  match l with
  | [] => None
  | (y, v) :: r => if bytes_eqb y x then Some v else glookup r x
  end.

Section GoSem.
  Variable re_match : bytes -> bytes -> option bool.
  Variable parse_float : bytes -> option Z.
  Variable fmt_g : Z -> bytes.
  Variable parse_dur : bytes -> option Z.
  Variable fields : list (ident * gval).        (* the receiver *t *)

  Definition gsprint (v : gval) : gres :=
    match v with
    | GStr s => GV (GStr s)
    | GInt IDur _ => GStuck                       (* Duration.String(): not modelled *)
    | GInt _ z | GUInt z => GV (GStr (fmt_int z))
    | GF64 b | GUFloat b => GV (GStr (fmt_g b))
    | GBool b => GV (GStr (if b then bs "true" else bs "false"))
    | _ => GStuck
    end.

  (* the values `for _, x := range r` binds, in order (maps: the VALUES; order is irrelevant to the loops emitted) *)
  Definition range_elems (v : gval) : option (list gval) :=
    match v with
    | GSlice l => Some l
    | GIface l => Some (map GBoxed l)
    | GMap kvs => Some (map snd kvs)
    | _ => None
    end.

  Definition glen (v : gval) : gres :=
    match v with
    | GStr s => GV (GInt IInt (Z.of_nat (length s)))
    | GSlice l | GIface l => GV (GInt IInt (Z.of_nat (length l)))
    | GMap m => GV (GInt IInt (Z.of_nat (length m)))
    | _ => GStuck
    end.

  Definition as_int (v : gval) : option Z :=       (* assignability to int *)
    match v with
    | GInt IInt z => Some z
    | GUInt z => if in_kind IInt z then Some z else None
    | GUFloat f => match dbl_int f with Some z => if in_kind IInt z then Some z else None | None => None end
    | _ => None
    end.

  Definition gbind (r : gres) (f : gval -> gres) : gres := match r with GV v => f v | o => o end.

  (* strict in GStuck (ill-typedness is static), lazy in panics *)
  Definition gand (a b : gres) : gres :=
    match a, b with
    | GStuck, _ | _, GStuck => GStuck
    | GV (GBool true), GV (GBool y) => GV (GBool y)
    | GV (GBool true), GPanic => GPanic
    | GV (GBool false), (GV (GBool _) | GPanic) => GV (GBool false)
    | GPanic, _ => GPanic
    | _, _ => GStuck
    end.
  Definition gor (a b : gres) : gres :=
    match a, b with
    | GStuck, _ | _, GStuck => GStuck
    | GV (GBool false), GV (GBool y) => GV (GBool y)
    | GV (GBool false), GPanic => GPanic
    | GV (GBool true), (GV (GBool _) | GPanic) => GV (GBool true)
    | GPanic, _ => GPanic
    | _, _ => GStuck
    end.

  Fixpoint geval (vars : list (ident * gval)) (e : gexpr) : gres :=
    let loop (x : ident) (r c : gexpr) (k : list gval -> (gval -> gres) -> gres) : gres :=
      gbind (geval vars r) (fun rv =>
        match range_elems rv with
        | Some els => k els (fun v => geval ((x, v) :: vars) c)
        | None => GStuck
        end) in
    match e with
    | GT => GV (GStructV fields)
    | GVar x => match glookup vars x with Some v => GV v | None => GStuck end
    | GSel o f => gbind (geval vars o) (fun v =>
                    match v with
                    | GStructV fs => match glookup fs f with Some w => GV w | None => GStuck end
                    | _ => GStuck
                    end)
    | GLitInt z => GV (GUInt z)
    | GLitFloat b => GV (GUFloat b)
    | GLitStr s => GV (GStr s)
    | GLitBool b => GV (GBool b)
    | GLitNil => GV GNilV
    | GParen x => geval vars x
    | GNot x => gbind (geval vars x) (fun v => match v with GBool b => GV (GBool (negb b)) | _ => GStuck end)
    | GNeg x => gbind (geval vars x) (fun v =>
                  match v with
                  | GInt k z => GV (GInt k (wrap k (- z)))
                  | GF64 b => GV (GF64 (fneg b))
                  | GUInt z => GV (GUInt (- z))
                  | GUFloat b => GV (GUFloat (fneg b))
                  | _ => GStuck
                  end)
    | GBin BAnd a b => gand (geval vars a) (geval vars b)
    | GBin BOr a b => gor (geval vars a) (geval vars b)
    | GBin op a b =>
        match geval vars a, geval vars b with
        | GStuck, _ | _, GStuck => GStuck
        | GPanic, _ => GPanic
        | GV _, GPanic => GPanic
        | GV x, GV y => gbinop op x y
        end
    | GLen x => gbind (geval vars x) glen
    | GStrFn f a b =>
        match geval vars a, geval vars b with
        | GV (GStr s), GV (GStr p) =>
            GV (GBool (match f with
                       | SContains => contains_sub p s
                       | SHasPrefix => has_prefix p s
                       | SHasSuffix => has_suffix p s
                       end))
        | GPanic, _ => GPanic
        | GV (GStr _), GPanic => GPanic
        | _, _ => GStuck
        end
    | GMatch p s =>
        match geval vars p, geval vars s with
        | GV (GStr pat), GV (GStr subj) => match re_match pat subj with Some r => GV (GBool r) | None => GPanic end
        | GPanic, _ => GPanic
        | GV (GStr _), GPanic => GPanic
        | _, _ => GStuck
        end
    | GMatchSafe p s =>                 (* regexp.Compile fails: the closure returns false *)
        match geval vars p, geval vars s with
        | GV (GStr pat), GV (GStr subj) => match re_match pat subj with Some r => GV (GBool r) | None => GV (GBool false) end
        | GPanic, _ => GPanic
        | GV (GStr _), GPanic => GPanic
        | _, _ => GStuck
        end
    | GSprintV x => gbind (geval vars x) gsprint
    | GSlicesContains l x =>
        match geval vars l, geval vars x with
        | GV (GSlice els), GV v =>
            (fix go (els : list gval) : gres :=
               match els with
               | [] => GV (GBool false)
               | y :: r => match gbinop BEq y v with
                           | GV (GBool true) => match go r with GStuck => GStuck | _ => GV (GBool true) end
                           | GV (GBool false) => go r
                           | _ => GStuck
                           end
               end) els
        | GPanic, _ => GPanic
        | GV (GSlice _), GPanic => GPanic
        | _, _ => GStuck
        end
    | GStrList es =>
        (fix go (es : list gexpr) (acc : list gval) : gres :=
           match es with
           | [] => GV (GSlice (rev acc))
           | x :: r => match geval vars x with
                       | GV (GStr s) => go r (GStr s :: acc)
                       | GPanic => GPanic
                       | _ => GStuck
                       end
           end) es []
    | GIfaceList es =>
        (fix go (es : list gexpr) (acc : list gval) : gres :=
           match es with
           | [] => GV (GIface (rev acc))
           | x :: r => match geval vars x with
                       | GV v => match default_type v with GNilV => GStuck | w => go r (w :: acc) end
                       | o => o
                       end
           end) es []
    | GAll x r c =>
        loop x r c (fun els body =>
          (fix go (els : list gval) : gres :=
             match els with
             | [] => GV (GBool true)
             | v :: rest => match body v with
                            | GV (GBool true) => go rest
                            | GV (GBool false) => match go rest with GStuck => GStuck | _ => GV (GBool false) end
                            | GPanic => GPanic
                            | _ => GStuck
                            end
             end) els)
    | GExists x r c =>
        loop x r c (fun els body =>
          (fix go (els : list gval) : gres :=
             match els with
             | [] => GV (GBool false)
             | v :: rest => match body v with
                            | GV (GBool false) => go rest
                            | GV (GBool true) => match go rest with GStuck => GStuck | _ => GV (GBool true) end
                            | GPanic => GPanic
                            | _ => GStuck
                            end
             end) els)
    | GExistsOne x r c =>
        loop x r c (fun els body =>
          (fix go (els : list gval) (count : Z) : gres :=
             match els with
             | [] => GV (GBool (count =? 1))
             | v :: rest => match body v with
                            | GV (GBool false) => go rest count
                            | GV (GBool true) => go rest (count + 1)
                            | GPanic => GPanic
                            | _ => GStuck
                            end
             end) els 0)
    | GFilter x r c =>
        loop x r c (fun els body =>
          (fix go (els : list gval) (acc : list gval) : gres :=
             match els with
             | [] => GV (GIface (rev acc))
             | v :: rest => match body v with
                            | GV (GBool false) => go rest acc
                            | GV (GBool true) => go rest (match v with GBoxed w => w | w => w end :: acc)
                            | GPanic => GPanic
                            | _ => GStuck
                            end
             end) els [])
    | GMapC x r t =>
        loop x r t (fun els body =>
          (fix go (els : list gval) (acc : list gval) : gres :=
             match els with
             | [] => GV (GIface (rev acc))
             | v :: rest => match body v with
                            | GV w => match default_type w with
                                      | GNilV => GStuck
                                      | w' => go rest (match w' with GBoxed u => u | u => u end :: acc)
                                      end
                            | o => o
                            end
             end) els [])
    | GTern c a b =>
        match geval vars c, geval vars a, geval vars b with
        | GStuck, _, _ | _, GStuck, _ | _, _, GStuck => GStuck
        | GV (GBool cb), ra, rb =>
            let ill r := match r with GV v => match as_int v with Some _ => false | None => true end | _ => false end in
            if ill ra || ill rb then GStuck else
            match (if cb then ra else rb) with
            | GV v => match as_int v with Some z => GV (GInt IInt z) | None => GStuck end
            | o => o
            end
        | GPanic, _, _ => GPanic
        | _, _, _ => GStuck
        end
    | GAtoi x => gbind (geval vars x) (fun v =>
                   match v with
                   | GStr s => GV (GInt IInt (match parse_int s with Some z => z | None => 0 end))
                   | _ => GStuck
                   end)
    | GParseFloat x => gbind (geval vars x) (fun v =>
                   match v with
                   | GStr s => GV (GF64 (match parse_float s with Some b => b | None => 0 end))
                   | _ => GStuck
                   end)
    | GParseDur x => gbind (geval vars x) (fun v =>
                   match v with
                   | GStr s => GV (GInt IDur (match parse_dur s with Some z => z | None => 0 end))
                   | _ => GStuck
                   end)
    | GParseTime _ | GUnknown => GStuck
    end.
End GoSem.
