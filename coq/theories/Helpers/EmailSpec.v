(* Specification of C11, written from the property text only. *)
From GV Require Import Base.Bytes Base.StrOps.

(* ASCII letters, digits and  !#$%&'*+-/=?^_`{|}~  *)
Definition atext_b (c : byte) : bool :=
  is_letter c || is_digit c || existsb (beq c) (bs "!#$%&'*+-/=?^_`{|}~").
Definition atext (c : byte) : Prop := atext_b c = true.

(* ASCII letters, digits or hyphen *)
Definition ldh_b (c : byte) : bool := is_letter c || is_digit c || beq c c_hyphen.
Definition ldh (c : byte) : Prop := ldh_b c = true.

(* 1-64 bytes, dot-separated non-empty atoms over atext *)
Definition local_ok (l : bytes) : Prop :=
  1 <= length l <= 64 /\
  exists atoms, atoms <> [] /\ l = join c_dot atoms /\
                Forall (fun a => a <> [] /\ Forall atext a) atoms.

(* 1-63 letters, digits or hyphens, neither starting nor ending with a hyphen *)
Definition label_ok (l : bytes) : Prop :=
  1 <= length l <= 63 /\ Forall ldh l /\ hd_error l <> Some c_hyphen /\ last l c_0 <> c_hyphen.

(* at most 253 bytes, at least two dot-separated labels *)
Definition domain_ok (d : bytes) : Prop :=
  length d <= 253 /\
  exists labels, 2 <= length labels /\ d = join c_dot labels /\ Forall label_ok labels.

(* total length 5-254, exactly one '@' *)
Definition email_spec (s : bytes) : Prop :=
  5 <= length s <= 254 /\
  exists l d, s = l ++ c_at :: d /\ ~ In c_at l /\ ~ In c_at d /\ local_ok l /\ domain_ok d.
