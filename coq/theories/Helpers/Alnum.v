(* Mirrors of validationhelper/alpha.go and numeric.go. *)
From GV Require Import Base.Bytes Base.Utf8.
Local Open Scope N_scope.

(* for i := 0; i < len(s); i++ { c := s[i]; if (c < 'a' || c > 'z') && (c < 'A' || c > 'Z') { return false } }; return true *)
Definition IsValidAlpha (s : bytes) : bool :=
  forallb (fun c => negb ((blt c c_a || blt c_z c) && (blt c c_A || blt c_Z c))) s.

(* for _, ch := range s { if ch < '0' || ch > '9' { return false } }; return s != "" *)
Definition IsNumeric (s : bytes) : bool :=
  if forallb (fun ch => negb ((ch <? 48) || (57 <? ch))) (runes s)
  then negb (match s with [] => true | _ => false end)
  else false.
