(* Executable mirror of /repo/validation/validationhelper/url.go. *)
From GV Require Import Base.Bytes Base.StrOps.

(* var validSchemes = map[string]bool{...} — the keys, in source order *)
Definition validSchemes : list bytes := map bs
  ["http"; "https"; "ftp"; "ftps"; "ssh"; "sftp"; "smtp"; "smtps"; "imap"; "imaps"; "pop3"; "pop3s";
   "telnet"; "file"; "data"; "ws"; "wss"; "git"; "svn"; "ldap"; "ldaps"; "mailto"; "news"; "nntp";
   "irc"; "ircs"; "rtsp"; "rtmp"; "sip"; "sips"; "xmpp"]%string.

(* var schemesNotRequiringHost = map[string]bool{...} *)
Definition schemesNotRequiringHost : list bytes := map bs ["mailto"; "news"; "nntp"; "data"; "file"]%string.

Definition mem (s : bytes) (l : list bytes) : bool := existsb (bytes_eqb s) l.

Definition isValidSchemeChar (c : byte) : bool :=
  is_lower c || is_upper c || is_digit c || beq c c_plus || beq c c_hyphen || beq c c_dot.

(* for i := 1; i < inputLen; i++ { if input[i] == ':' return i; if !isValidSchemeChar return -1 }; return -1 *)
Fixpoint fse (s : bytes) (i : nat) : Z :=
  match s with
  | [] => (-1)%Z
  | c :: r => if beq c c_colon then Z.of_nat i
              else if negb (isValidSchemeChar c) then (-1)%Z
              else fse r (S i)
  end.

Definition findSchemeEnd (input : bytes) : Z :=
  match input with
  | [] => (-1)%Z
  | _ :: r => fse r 1
  end.

Definition invalid_char (c : byte) : bool := beq c c_space || N.ltb (b2n c) 32 || beq c c_del.
Definition hasInvalidChars (input : bytes) : bool := existsb invalid_char input.

Definition validateSchemeWithoutHost (input : bytes) (colonPos : nat) : bool :=
  negb (Nat.leb (length input) (colonPos + 1)).

Definition isValidHostStart (c : byte) : bool :=
  is_lower c || is_upper c || is_digit c || beq c c_lbrack.

Definition validateSchemeWithHost (input : bytes) (colonPos : nat) : res bool :=
  if Nat.leb (length input) (colonPos + 3) then Ok false
  else
    a <- idx input (colonPos + 1) ;;
    if negb (beq a c_slash) then Ok false
    else
      b <- idx input (colonPos + 2) ;;
      if negb (beq b c_slash) then Ok false
      else
        if Nat.leb (length input) (colonPos + 3) then Ok false
        else h <- idx input (colonPos + 3) ;; Ok (isValidHostStart h).

Definition IsValidURL (input : bytes) : res bool :=
  if is_empty input then Ok false
  else
    let colonPos := findSchemeEnd input in
    if (colonPos =? -1)%Z || (colonPos =? 0)%Z then Ok false
    else
      let cp := Z.to_nat colonPos in
      scheme <- slice_to input cp ;;
      if negb (mem scheme validSchemes) then Ok false
      else if hasInvalidChars input then Ok false
      else if mem scheme schemesNotRequiringHost then Ok (validateSchemeWithoutHost input cp)
      else validateSchemeWithHost input cp.
