(* Specification of C13, written from the property text only. *)
From GV Require Import Base.Bytes Helpers.Uuid.

Definition hyphen_positions : list nat := [8; 13; 18; 23].

Definition hex_digit (c : byte) : Prop :=
  (b2n c_0 <= b2n c <= b2n c_9)%N \/ (b2n c_a <= b2n c <= b2n c_f)%N \/ (b2n c_A <= b2n c <= b2n c_F)%N.

(* 36 bytes, 8-4-4-4-12: hyphens at the four positions, hexadecimal digits elsewhere *)
Definition uuid_shape (s : bytes) : Prop :=
  length s = 36 /\
  forall i c, nth_error s i = Some c ->
    (In i hyphen_positions -> c = c_hyphen) /\ (~ In i hyphen_positions -> hex_digit c).

(* fold the case of hexadecimal letters only *)
Definition hexfold (c : byte) : byte :=
  if in_rng c_A c_F c then match Byte.of_N (b2n c + 32) with Some l => l | None => c end else c.

Definition rfc4122_fields (s : bytes) : Prop :=
  exists v r, nth_error s 14 = Some v /\ nth_error s 19 = Some r /\
    (b2n c_1 <= b2n v <= b2n c_5)%N /\
    (hexfold r = c_8 \/ hexfold r = c_9 \/ hexfold r = c_a \/ hexfold r = c_b).

Definition uuid_spec (s : bytes) : Prop :=
  uuid_shape s /\ (s = nil_uuid \/ map hexfold s = max_uuid \/ rfc4122_fields s).

(* two strings that differ only in the case of hexadecimal letters *)
Definition same_upto_hex_case (s s' : bytes) : Prop :=
  Forall2 (fun a b => hexfold a = hexfold b) s s'.
