(* Executable mirror of /repo/validation/validationhelper/uuid.go, function by function.
   Indexing goes through [idx] so that an out-of-range index is an explicit Panic. *)
From GV Require Import Base.Bytes.

Definition isValidHexChar (c : byte) : bool :=
  in_rng c_0 c_9 c || in_rng c_a c_f c || in_rng c_A c_F c.

Definition at_is (s : bytes) (i : nat) (c : byte) : res bool :=
  x <- idx s i ;; Ok (beq x c).

Definition hasValidHyphens (s : bytes) : res bool :=
  andr (at_is s 8 c_hyphen) (andr (at_is s 13 c_hyphen) (andr (at_is s 18 c_hyphen) (at_is s 23 c_hyphen))).

Definition is_hyphen_pos (i : nat) : bool :=
  Nat.eqb i 8 || Nat.eqb i 13 || Nat.eqb i 18 || Nat.eqb i 23.

(* for i := range 36 { if hyphen position { continue }; if !p(s[i]) { return false } }; return true *)
Fixpoint all_at (p : byte -> bool) (s : bytes) (is : list nat) : res bool :=
  match is with
  | [] => Ok true
  | i :: r =>
      if is_hyphen_pos i then all_at p s r
      else c <- idx s i ;; if negb (p c) then Ok false else all_at p s r
  end.

Definition hasValidHexChars (s : bytes) : res bool := all_at isValidHexChar s (seq 0 36).

Definition is_f (c : byte) : bool := beq c c_f || beq c c_F.   (* !(s[i] != 'f' && s[i] != 'F') *)
Definition isMaxUUID (s : bytes) : res bool := all_at is_f s (seq 0 36).

Definition nil_uuid : bytes := bs "00000000-0000-0000-0000-000000000000"%string.
Definition max_uuid : bytes := bs "ffffffff-ffff-ffff-ffff-ffffffffffff"%string.

Definition is_variant (r : byte) : bool :=
  beq r c_8 || beq r c_9 || beq r c_A || beq r c_a || beq r c_B || beq r c_b.

Definition isValidUUIDVersionAndVariant (s : bytes) : res bool :=
  if bytes_eqb s nil_uuid then Ok true else
  m <- isMaxUUID s ;;
  if m then Ok true else
  v <- idx s 14 ;;
  if blt v c_1 || blt c_5 v then Ok false else
  r <- idx s 19 ;;
  Ok (is_variant r).

Definition IsValidUUID (s : bytes) : res bool :=
  if negb (Nat.eqb (length s) 36) then Ok false else
  h <- hasValidHyphens s ;;
  if negb h then Ok false else
  x <- hasValidHexChars s ;;
  if negb x then Ok false else
  isValidUUIDVersionAndVariant s.
