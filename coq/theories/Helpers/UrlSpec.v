(* Specification of C12, written from the property text only.
   (The property's prose says "32 supported schemes"; the explicit list has 31: 26 host-based + 5 opaque.) *)
From GV Require Import Base.Bytes.

Definition host_schemes : list bytes := map bs
  ["http"; "https"; "ftp"; "ftps"; "ssh"; "sftp"; "smtp"; "smtps"; "imap"; "imaps"; "pop3"; "pop3s";
   "telnet"; "ws"; "wss"; "git"; "svn"; "ldap"; "ldaps"; "irc"; "ircs"; "rtsp"; "rtmp"; "sip"; "sips";
   "xmpp"]%string.

(* mailto, news, nntp, data and file need no host *)
Definition opaque_schemes : list bytes := map bs ["mailto"; "news"; "nntp"; "data"; "file"]%string.

(* space, control byte 0x00-0x1F, DEL *)
Definition forbidden_b (c : byte) : bool := beq c c_space || N.ltb (b2n c) 32 || beq c c_del.

(* ASCII letter, digit or '[' *)
Definition host_start_b (c : byte) : bool := is_letter c || is_digit c || beq c c_lbrack.

Definition url_spec (s : bytes) : Prop :=
  exists scheme rest,
    s = scheme ++ c_colon :: rest /\
    Forall (fun c => forbidden_b c = false) s /\
    ((In scheme host_schemes /\
      exists h t, rest = c_slash :: c_slash :: h :: t /\ host_start_b h = true)
     \/
     (In scheme opaque_schemes /\ rest <> [])).
