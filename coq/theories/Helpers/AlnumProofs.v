From GV Require Import Base.Bytes Base.Utf8 Helpers.Alnum.
From Coq Require Import ZifyN ZifyNat ZifyBool.

(* documented languages: alpha = only ASCII letters (empty allowed); numeric = one or more ASCII digits *)
Definition ascii_letter (c : byte) : Prop := is_letter c = true.
Definition ascii_digit (c : byte) : Prop := is_digit c = true.

Lemma alpha_byte : forall c,
  Bool.eqb (negb ((blt c c_a || blt c_z c) && (blt c c_A || blt c_Z c))) (is_letter c) = true.
Proof. apply byte_sweep. vm_compute. reflexivity. Qed.

Theorem IsValidAlpha_exact s : IsValidAlpha s = true <-> Forall ascii_letter s.
Proof.
  unfold IsValidAlpha. rewrite (forallb_eq _ is_letter) by (intro c; apply Bool.eqb_prop, alpha_byte).
  rewrite forallb_forall, Forall_forall. reflexivity.
Qed.

Definition digit_rune (ch : N) : bool := negb ((ch <? 48)%N || (57 <? ch)%N).

Lemma digit_rune_ascii_only : ascii_only digit_rune.
Proof. intros r Hr. unfold digit_rune. lia. Qed.

Lemma digit_byte : forall c, Bool.eqb (digit_rune (b2n c)) (is_digit c) = true.
Proof. apply byte_sweep. vm_compute. reflexivity. Qed.

Theorem IsNumeric_exact s : IsNumeric s = true <-> (s <> [] /\ Forall ascii_digit s).
Proof.
  unfold IsNumeric. fold digit_rune.
  rewrite forallb_runes by apply digit_rune_ascii_only.
  rewrite (forallb_eq _ is_digit) by (intro c; apply Bool.eqb_prop, digit_byte).
  destruct (forallb is_digit s) eqn:F.
  - rewrite forallb_forall in F. destruct s; cbn [negb]; split.
    + discriminate.
    + intros [N _]. congruence.
    + intros _. split; [congruence|]. apply Forall_forall. exact F.
    + reflexivity.
  - split; [discriminate|]. intros [_ A]. rewrite Forall_forall in A.
    assert (X : forallb is_digit s = true) by (apply forallb_forall; exact A). congruence.
Qed.

(* a non-ASCII byte anywhere makes both reject (full-width digits, accented letters, invalid UTF-8) *)
Theorem IsNumeric_non_ascii s c : In c s -> (128 <= b2n c)%N -> IsNumeric s = false.
Proof.
  intros I Hc. destruct (IsNumeric s) eqn:E; [|reflexivity]. apply IsNumeric_exact in E as [_ A].
  rewrite Forall_forall in A. specialize (A _ I). unfold ascii_digit, is_digit, in_rng, ble in A.
  assert (b2n c_9 = 57%N) by reflexivity. lia.
Qed.
